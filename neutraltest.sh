#!/bin/bash
# Applies each behaviour-preserving edit in neutral/ to a scratch copy of /repo and
# runs every property's check: all must stay silent (never a manifest command).
cd "$(dirname "$0")"
tier=${TIER:-quick}
for p in ${@:-$(ls neutral/*.diff)}; do
  d=$(mktemp -d /tmp/moqneutral.XXXXXX)
  rsync -a --exclude .git /repo/ $d/
  case $p in /*) pf=$p;; *) pf=/verif/$p;; esac
  if ! (cd $d && patch -p1 -s < $pf); then echo "$p: patch failed"; rm -rf $d; continue; fi
  if ! (cd $d && GOPROXY=off go build ./... 2>&1 | head -3); then echo "$p: does not build"; fi
  mkdir -p $d/.verif && cp known_findings.jsonl $d/.verif/
  line="$(basename $(dirname $(dirname $pf)))/$(basename $(dirname $pf))/$(basename $p .diff):"
  for i in $(seq -w 1 20); do
    out=$(bin/moqlint -property C$i -tier $tier -repo $d -verif $d/.verif 2>&1); rc=$?
    if [ $rc -ne 0 ]; then
      rules=$(echo "$out" | grep -E '^(VIOLATION|UNDECIDED) rule=' | sed -E 's/^(VIOLATION|UNDECIDED) rule=([^ ]+).*/\2/' | sort -u | tr '\n' ',')
      line="$line C$i=FALSE-ALARM[$rules]"
    fi
  done
  echo "$line"
  rm -rf $d
done
