#!/bin/bash
# usage: ./check.sh <property> <quick|thorough> [--replay file]
# Decides one property from /repo's current working tree by static analysis.
cd "$(dirname "$0")"
if [ ! -x bin/moqlint ] || [ -n "$(find checker -name '*.go' -newer bin/moqlint 2>/dev/null | head -1)" ]; then
  ./setup.sh >/dev/null || { echo "VIOLATION property=$1 replay=/verif/setup.sh"; echo "checker does not build"; exit 1; }
fi
prop=$1; tier=${2:-${VERIF_TIER:-quick}}; shift; shift
if [ "$1" = "--replay" ]; then exec bin/moqlint -property "$prop" -tier "$tier" -replay "$2"; fi
exec bin/moqlint -property "$prop" -tier "$tier"
