#!/bin/bash
# Builds the checker from files on disk only (offline).
set -e
cd "$(dirname "$0")/checker"
export PATH=/opt/veriftools/go1.26.8/bin:$PATH GOTOOLCHAIN=local GOPROXY=off GOSUMDB=off GOFLAGS=-mod=readonly GOWORK=off CGO_ENABLED=0
unset GOROOT
mkdir -p ../bin ../evidence ../out
go build -o ../bin/moqlint ./cmd/moqlint
echo "built $(cd .. && pwd)/bin/moqlint"
