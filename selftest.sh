#!/bin/bash
# Applies each seeded change to a scratch copy of /repo and runs the given
# properties' checks against it (never a manifest command).
# usage: ./selftest.sh [-p "C03 C04"] [seed ...]   (default: every seed, its own property only)
cd "$(dirname "$0")"
props=""
if [ "$1" = "-p" ]; then props=$2; shift; shift; fi
seeds=${@:-$(ls seeded)}
tier=${TIER:-quick}
for s in $seeds; do
  d=$(mktemp -d /tmp/moqcopy.XXXXXX)
  rsync -a --exclude .git /repo/ $d/
  if ! (cd $d && patch -p1 -s < /verif/seeded/$s/patch.diff); then echo "$s: patch failed"; rm -rf $d; continue; fi
  own=${s%[a-z]}
  mkdir -p $d/.verif && cp known_findings.jsonl $d/.verif/
  line="$s:"
  for p in ${props:-$own}; do
    out=$(bin/moqlint -property $p -tier $tier -repo $d -verif $d/.verif 2>&1)
    rc=$?
    rules=$(echo "$out" | grep -E '^(VIOLATION|UNDECIDED) rule=' | sed -E 's/^(VIOLATION|UNDECIDED) rule=([^ ]+).*/\2/' | sort -u | tr '\n' ',' )
    if [ $rc -ne 0 ]; then line="$line $p=FIRES[$rules]"; else line="$line $p=silent"; fi
  done
  echo "$line"
  rm -rf $d
done
