#!/bin/bash
# Applies each hand-written mutant (mutants/Mnn-Cxx-*.diff) to a scratch copy of /repo and runs the
# check of the property named in the file name; it must fire (never a manifest command).
cd "$(dirname "$0")"
for p in ${@:-$(ls mutants/*.diff)}; do
  d=$(mktemp -d /tmp/moqmut.XXXXXX)
  rsync -a --exclude .git /repo/ $d/
  if ! (cd $d && patch -p1 -s < /verif/$p); then echo "$p: patch failed"; rm -rf $d; continue; fi
  prop=$(basename $p | sed -E 's/^M[0-9]+-(C[0-9]+)-.*/\1/')
  mkdir -p $d/.verif && cp known_findings.jsonl $d/.verif/
  out=$(bin/moqlint -property $prop -tier ${TIER:-quick} -repo $d -verif $d/.verif 2>&1); rc=$?
  rules=$(echo "$out" | grep -E '^(VIOLATION|UNDECIDED) rule=' | sed -E 's/^(VIOLATION|UNDECIDED) rule=([^ ]+).*/\2/' | sort -u | tr '\n' ',')
  if [ $rc -ne 0 ]; then echo "$(basename $p .diff): $prop FIRES[$rules]"; else echo "$(basename $p .diff): $prop silent  <-- MISSED"; fi
  rm -rf $d
done
