// Package cfgx offers path queries over go/cfg graphs of the generator's
// functions: reachability with deleted nodes/edges, assumption-pruned
// exploration, call-site enumeration with resolved callees.
package cfgx

import (
	"go/ast"
	"go/token"
	"go/types"

	"golang.org/x/tools/go/cfg"
	"golang.org/x/tools/go/types/typeutil"
)

// Func is a function with its CFG.
type Func struct {
	Info *types.Info
	Decl *ast.FuncDecl
	G    *cfg.CFG
	// caseTag maps a case expression of a tag switch to the switch's tag: go/cfg
	// branches on the bare case expression ("one half of the tag==cond condition").
	caseTag map[ast.Expr]ast.Expr
}

// NoReturn names functions that never return.
var NoReturn = map[string]bool{"os.Exit": true, "log.Fatal": true, "log.Fatalf": true, "log.Fatalln": true, "runtime.Goexit": true}

func New(info *types.Info, decl *ast.FuncDecl) *Func {
	f := &Func{Info: info, Decl: decl, caseTag: map[ast.Expr]ast.Expr{}}
	ast.Inspect(decl.Body, func(n ast.Node) bool {
		if sw, ok := n.(*ast.SwitchStmt); ok && sw.Tag != nil {
			for _, cc := range sw.Body.List {
				for _, e := range cc.(*ast.CaseClause).List {
					f.caseTag[e] = sw.Tag
				}
			}
		}
		return true
	})
	f.G = cfg.New(decl.Body, func(c *ast.CallExpr) bool {
		if id, ok := ast.Unparen(c.Fun).(*ast.Ident); ok {
			if b, ok := info.Uses[id].(*types.Builtin); ok && b.Name() == "panic" {
				return false
			}
		}
		if fn, ok := typeutil.Callee(info, c).(*types.Func); ok && NoReturn[fn.FullName()] {
			return false
		}
		return true
	})
	return f
}

// Site is a call site inside a CFG node.
type Site struct {
	Block, Index int
	Node         ast.Node // the CFG node containing the call
	Call         *ast.CallExpr
	Callee       *types.Func // nil for dynamic calls, builtins and conversions
	InFuncLit    bool
	Deferred     bool
	Go           bool
}

// Sites lists every call in the function (function literals included, flagged).
func (f *Func) Sites() []Site {
	var out []Site
	for bi, b := range f.G.Blocks {
		if !b.Live {
			continue
		}
		for ni, n := range b.Nodes {
			var visit func(n ast.Node, inLit, deferred, goStmt bool)
			visit = func(n ast.Node, inLit, deferred, goStmt bool) {
				ast.Inspect(n, func(x ast.Node) bool {
					switch x := x.(type) {
					case *ast.FuncLit:
						visit(x.Body, true, deferred, goStmt)
						return false
					case *ast.DeferStmt:
						visit(x.Call, inLit, true, goStmt)
						return false
					case *ast.GoStmt:
						visit(x.Call, inLit, deferred, true)
						return false
					case *ast.CallExpr:
						fn, _ := typeutil.Callee(f.Info, x).(*types.Func)
						out = append(out, Site{Block: bi, Index: ni, Node: b.Nodes[ni], Call: x, Callee: fn, InFuncLit: inLit, Deferred: deferred, Go: goStmt})
					}
					return true
				})
			}
			visit(n, false, false, false)
		}
	}
	return out
}

// SitesOf returns the call sites whose callee has the given full name.
func (f *Func) SitesOf(fullName string) []Site {
	var out []Site
	for _, s := range f.Sites() {
		if s.Callee != nil && s.Callee.FullName() == fullName {
			out = append(out, s)
		}
	}
	return out
}

// Exit describes how a path ends.
type Exit struct {
	Block int
	Node  ast.Node // last node (return statement, panic/exit call) or nil for falling off the end
	Kind  string   // "return", "noreturn-call", "fall-off"
}

// Cuts removes nodes and edges from the graph for a query.
type Cuts struct {
	Nodes map[ast.Node]bool // reaching the CFG node that contains (or is) one of these stops the path
	Edges map[[2]int32]bool // removed edges: block index -> successor block index
	// Decide, when set, is asked for every two-way branch: it returns which
	// successors remain possible (true edge, false edge) under the query's assumptions.
	Decide func(cond ast.Expr) (canTrue, canFalse bool)
}

// Result of an exploration.
type Result struct {
	Calls []Site // call sites passed, in discovery order
	Exits []Exit
	nodes map[ast.Node]bool
}

// Passed reports whether the CFG node was passed.
func (r *Result) Passed(n ast.Node) bool { return r.nodes[n] }

// PassedCall reports whether the call was passed.
func (r *Result) PassedCall(c *ast.CallExpr) bool {
	for _, s := range r.Calls {
		if s.Call == c {
			return true
		}
	}
	return false
}

func containsNode(outer ast.Node, set map[ast.Node]bool) bool {
	if len(set) == 0 {
		return false
	}
	found := false
	ast.Inspect(outer, func(x ast.Node) bool {
		if x != nil && set[x] {
			found = true
		}
		return !found
	})
	return found
}

// Explore walks all paths from (block, index) under the cuts. A node in
// Cuts.Nodes stops the path before any call inside that CFG node counts as passed.
func (f *Func) Explore(block, index int, cuts Cuts) *Result {
	res := &Result{nodes: map[ast.Node]bool{}}
	sites := f.Sites()
	type pt struct{ b, i int }
	seen := map[pt]bool{}
	var walk func(b, i int)
	walk = func(b, i int) {
		if seen[pt{b, i}] {
			return
		}
		seen[pt{b, i}] = true
		blk := f.G.Blocks[b]
		for ni := i; ni < len(blk.Nodes); ni++ {
			n := blk.Nodes[ni]
			if cuts.Nodes[n] || containsNode(n, cuts.Nodes) {
				return
			}
			res.nodes[n] = true
			for _, s := range sites {
				if s.Block == b && s.Index == ni {
					res.Calls = append(res.Calls, s)
				}
			}
		}
		if len(blk.Succs) == 0 {
			ex := Exit{Block: b, Kind: "fall-off"}
			if len(blk.Nodes) > 0 {
				ex.Node = blk.Nodes[len(blk.Nodes)-1]
				switch ex.Node.(type) {
				case *ast.ReturnStmt:
					ex.Kind = "return"
				default:
					ex.Kind = "noreturn-call"
				}
			}
			res.Exits = append(res.Exits, ex)
			return
		}
		canT, canF := true, true
		if len(blk.Succs) == 2 && cuts.Decide != nil && len(blk.Nodes) > 0 {
			if cond, ok := blk.Nodes[len(blk.Nodes)-1].(ast.Expr); ok {
				canT, canF = cuts.Decide(f.Cond(cond))
			}
		}
		for si, s := range blk.Succs {
			if cuts.Edges[[2]int32{int32(b), s.Index}] {
				continue
			}
			if len(blk.Succs) == 2 && ((si == 0 && !canT) || (si == 1 && !canF)) {
				continue
			}
			walk(int(s.Index), 0)
		}
	}
	walk(block, index)
	return res
}

// After returns the point just after the CFG node holding the site.
func (s Site) After() (int, int) { return s.Block, s.Index + 1 }

// CondBlocks returns the two-way branch blocks whose condition satisfies match,
// with the successor indices for the true and false outcome.
type Branch struct {
	Block       int
	Cond        ast.Expr
	True, False int32
}

func (f *Func) Branches(match func(cond ast.Expr) bool) []Branch {
	var out []Branch
	for bi, b := range f.G.Blocks {
		if !b.Live || len(b.Succs) != 2 || len(b.Nodes) == 0 {
			continue
		}
		cond, ok := b.Nodes[len(b.Nodes)-1].(ast.Expr)
		if !ok || !match(cond) {
			continue
		}
		out = append(out, Branch{Block: bi, Cond: cond, True: b.Succs[0].Index, False: b.Succs[1].Index})
	}
	return out
}

// NilTestOf recognises `v != nil` / `v == nil` (either operand order) on the
// given variable and reports the polarity: nonNilIsTrue for `v != nil`.
func NilTestOf(info *types.Info, cond ast.Expr, v *types.Var) (isTest, nonNilIsTrue bool) {
	be, ok := ast.Unparen(cond).(*ast.BinaryExpr)
	if !ok || (be.Op != token.NEQ && be.Op != token.EQL) {
		return false, false
	}
	isNil := func(e ast.Expr) bool {
		id, ok := ast.Unparen(e).(*ast.Ident)
		if !ok {
			return false
		}
		_, n := info.Uses[id].(*types.Nil)
		return n
	}
	isV := func(e ast.Expr) bool {
		id, ok := ast.Unparen(e).(*ast.Ident)
		return ok && info.ObjectOf(id) == v
	}
	if (isV(be.X) && isNil(be.Y)) || (isNil(be.X) && isV(be.Y)) {
		return true, be.Op == token.NEQ
	}
	return false, false
}

// ErrVarOf returns the variable that receives the error (last) result of a
// call: `x, err := f()`, `err = f()`, `if err := f(); ...`, or nil when the
// call's results are dropped or passed on directly.
func (f *Func) ErrVarOf(call *ast.CallExpr) *types.Var {
	var found *types.Var
	ast.Inspect(f.Decl.Body, func(n ast.Node) bool {
		as, ok := n.(*ast.AssignStmt)
		if !ok || len(as.Rhs) != 1 || ast.Unparen(as.Rhs[0]) != ast.Expr(call) {
			return true
		}
		last := as.Lhs[len(as.Lhs)-1]
		if id, ok := ast.Unparen(last).(*ast.Ident); ok && id.Name != "_" {
			if v, ok := f.Info.ObjectOf(id).(*types.Var); ok {
				found = v
			}
		}
		return false
	})
	return found
}

// Cond returns the condition a two-way branch on e really tests: e itself, or
// tag == e when e is a case expression of a tag switch.
func (f *Func) Cond(e ast.Expr) ast.Expr {
	if tag, ok := f.caseTag[e]; ok {
		return &ast.BinaryExpr{X: tag, Op: token.EQL, Y: e}
	}
	return e
}
