package skel

import (
	"fmt"
	"go/ast"
	"go/constant"
	"go/token"
	"go/types"
	"regexp"
	"sort"
	"strings"

	"verif/checker/internal/tmpl"
)

// Ob is one evaluated rule instance on a skeleton.
type Ob struct {
	Rule string // e.g. K-LOCK/held-at-callback
	Key  string // construct, independent of the environment: role + detail
	OK   bool
	Msg  string
	Pos  token.Pos // position in the skeleton (NoPos: whole file)
	Path []string
}

// Result is everything the K rules found on one unit.
type Result struct {
	Unit *Unit
	Obs  []Ob
}

func (r *Result) add(rule, key string, pos token.Pos, ok bool, format string, a ...any) bool {
	msg := ""
	if !ok {
		msg = fmt.Sprintf(format, a...)
	}
	r.Obs = append(r.Obs, Ob{Rule: rule, Key: key, OK: ok, Msg: msg, Pos: pos})
	return ok
}

func nodePos(n ast.Node) token.Pos {
	if n == nil {
		return token.NoPos
	}
	return n.Pos()
}

// Analyze runs all K rules on a unit. When the skeleton does not parse or
// type-check only K-TYPE is reported and Typed is false.
func Analyze(u *Unit) (res *Result, typed bool) {
	res = &Result{Unit: u}
	if u.ParseErr != nil {
		res.add("K-TYPE", "parse", token.NoPos, false, "skeleton is not parseable Go: %v", u.ParseErr)
		return res, false
	}
	if len(u.TypeErrs) > 0 {
		for i, te := range u.TypeErrs {
			if i >= 3 {
				break
			}
			res.add("K-TYPE", "typecheck:"+classifyTypeErr(te.Msg), te.Pos, false, "skeleton does not type-check: %s  [%s]", te.Msg, u.Excerpt(te.Pos))
		}
		return res, false
	}
	res.add("K-TYPE", "typecheck", token.NoPos, true, "")
	mocks := u.Mocks()
	res.decls(mocks)
	res.header()
	res.importsRule()
	for _, mk := range mocks {
		res.mockRules(mk)
		res.nameRules(mk)
	}
	return res, true
}

var reTok = regexp.MustCompile(`[` + tmpl.OpMethod + tmpl.OpMock + tmpl.OpIface + tmpl.OpParam + tmpl.OpResult + tmpl.OpTypeParam + tmpl.OpType + tmpl.OpAlias + `][0-9a-z_]*` + tmpl.TokEnd)

// Abstract replaces token indices so that a message does not depend on the environment.
func Abstract(s string) string {
	return reTok.ReplaceAllStringFunc(s, func(t string) string {
		r := []rune(t)
		return string(r[0]) + "·"
	})
}

func classifyTypeErr(msg string) string {
	m := Abstract(msg)
	if len(m) > 80 {
		m = m[:80]
	}
	return m
}

// ---------------------------------------------------------------------

// decls: C20 / C16 / C09 — top-level declaration sequence.
func (r *Result) decls(mocks []*Mock) {
	u := r.Unit
	m := u.Model
	// exactly one type declaration per mock, in order, spelled with the unmodified token
	var typeNames []string
	for _, d := range u.File.Decls {
		if gd, ok := d.(*ast.GenDecl); ok && gd.Tok == token.TYPE {
			for _, sp := range gd.Specs {
				typeNames = append(typeNames, sp.(*ast.TypeSpec).Name.Name)
			}
		}
	}
	var want []string
	for _, mi := range m.Mocks {
		want = append(want, mi.MockName)
	}
	r.add("K-DECLS/types", "sequence", token.NoPos, strings.Join(typeNames, ",") == strings.Join(want, ","),
		"top-level type declarations are [%s], want exactly one per requested interface in argument order [%s]", strings.Join(typeNames, " "), strings.Join(want, " "))
	// ensure lines: present iff !SkipEnsure, one per mock in order, assigning &Mock{} to the interface
	var ensures []*ast.ValueSpec
	for _, d := range u.File.Decls {
		gd, ok := d.(*ast.GenDecl)
		if !ok {
			continue
		}
		switch gd.Tok {
		case token.VAR:
			for _, sp := range gd.Specs {
				ensures = append(ensures, sp.(*ast.ValueSpec))
			}
		case token.CONST:
			r.add("K-DECLS/extra", "const", gd.Pos(), false, "unexpected top-level const declaration in generated file")
		}
	}
	wantEnsure := 0
	if !m.Env.SkipEnsure {
		wantEnsure = len(m.Mocks)
	}
	r.add("K-DECLS/ensure", "count", token.NoPos, len(ensures) == wantEnsure, "found %d package-level var declarations, want %d self-check lines (skip-ensure=%v)", len(ensures), wantEnsure, m.Env.SkipEnsure)
	for i, vs := range ensures {
		if i >= len(mocks) || m.Env.SkipEnsure {
			break
		}
		ok := len(vs.Names) == 1 && vs.Names[0].Name == "_" && vs.Type != nil && len(vs.Values) == 1
		if ok {
			it := u.Info.TypeOf(vs.Type)
			vt := u.Info.TypeOf(vs.Values[0])
			ok = it != nil && vt != nil && types.IsInterface(it)
			if ok {
				// the value is a pointer to (an instance of) the i-th mock, the type is (an instance of) the i-th interface
				pt, isPtr := vt.(*types.Pointer)
				ok = isPtr && namedOrigin(pt.Elem()) == mocks[i].Obj && namedOriginName(it) == m.Mocks[i].IfaceName
				if ok && m.Env.External {
					n, _ := types.Unalias(it).(*types.Named)
					ok = n != nil && n.Obj().Pkg() == u.SrcPkg
				}
			}
		}
		r.add("K-DECLS/ensure", "shape", vs.Pos(), ok, "self-check line %d is not `var _ <interface %s of the source package> = &%s{}`: %s", i, m.Mocks[i].IfaceName, m.Mocks[i].MockName, u.Excerpt(vs.Pos()))
	}
	// no free functions
	for _, d := range u.File.Decls {
		if fd, ok := d.(*ast.FuncDecl); ok && fd.Recv == nil {
			r.add("K-DECLS/extra", "func", fd.Pos(), false, "generated file declares the free function %s: it can collide with the destination package", Abstract(fd.Name.Name))
		}
	}
	// type parameters: same number, order, constraint as the interface (C09)
	for _, mk := range mocks {
		named, _ := mk.Obj.Type().(*types.Named)
		if named == nil {
			continue
		}
		tps := named.TypeParams()
		want := mk.Info.TypeParams
		ok := tps.Len() == len(want)
		iface := u.SrcPkg.Scope().Lookup(mk.Info.IfaceName)
		var itps *types.TypeParamList
		if in, _ := iface.(*types.TypeName); in != nil {
			if n, _ := in.Type().(*types.Named); n != nil {
				itps = n.TypeParams()
			}
		}
		if ok && len(want) > 0 {
			ok = itps != nil && itps.Len() == tps.Len()
			for i := 0; ok && i < tps.Len(); i++ {
				ok = tps.At(i).Obj().Name() == want[i].Name && types.Identical(tps.At(i).Constraint().Underlying(), itps.At(i).Constraint().Underlying())
			}
		}
		r.add("K-GENERIC/typeparams", "decl", mk.Spec.Pos(), ok, "mock type declares type parameters %v; the interface has %d with constraints in this order: count, order, spelling or constraint differ", tps, len(want))
		// every method's receiver lists all type parameters in order
		for _, f := range mk.Funcs {
			var names []string
			switch x := ast.Unparen(starX(f.Decl.Recv.List[0].Type)).(type) {
			case *ast.IndexExpr:
				names = append(names, exprName(x.Index))
			case *ast.IndexListExpr:
				for _, ix := range x.Indices {
					names = append(names, exprName(ix))
				}
			}
			var wn []string
			for _, w := range want {
				wn = append(wn, w.Name)
			}
			r.add("K-GENERIC/receiver", f.Role.String(), f.Decl.Pos(), strings.Join(names, ",") == strings.Join(wn, ","), "receiver of %s lists type parameters [%s], want [%s]", Abstract(f.Decl.Name.Name), strings.Join(names, " "), strings.Join(wn, " "))
		}
	}
}

func starX(e ast.Expr) ast.Expr {
	if s, ok := ast.Unparen(e).(*ast.StarExpr); ok {
		return s.X
	}
	return e
}

func exprName(e ast.Expr) string {
	if id, ok := ast.Unparen(e).(*ast.Ident); ok {
		return id.Name
	}
	return "?"
}

func namedOrigin(t types.Type) *types.TypeName {
	if n, ok := types.Unalias(t).(*types.Named); ok {
		return n.Origin().Obj()
	}
	return nil
}

func namedOriginName(t types.Type) string {
	if o := namedOrigin(t); o != nil {
		return o.Name()
	}
	return ""
}

var reMarker = regexp.MustCompile(`^// Code generated .* DO NOT EDIT\.$`)

// header: C16 — generated-code marker.
func (r *Result) header() {
	u := r.Unit
	txt := u.Sk.Text
	first, _, _ := strings.Cut(txt, "\n")
	r.add("K-HEADER/marker", "first-line", token.NoPos, first == "// Code generated by moq; DO NOT EDIT." && reMarker.MatchString(first),
		"first line of the output is %q, want the standard marker `// Code generated by moq; DO NOT EDIT.`", first)
	// only comments and blank lines before the package clause
	pkgOff := u.Offset(u.File.Package)
	ok := pkgOff >= 0
	if ok {
		for _, line := range strings.Split(txt[:pkgOff], "\n") {
			l := strings.TrimSpace(line)
			if l != "" && !strings.HasPrefix(l, "//") {
				ok = false
			}
		}
	}
	r.add("K-HEADER/marker", "before-package", u.File.Package, ok, "something other than line comments precedes the package clause")
	r.add("K-HEADER/package", "name", u.File.Name.Pos(), u.File.Name.Name == u.Model.PkgName(), "package clause names %q, want the requested package name", u.File.Name.Name)
}

// importsRule: C11 / C10 — import specs.
func (r *Result) importsRule() {
	u := r.Unit
	m := u.Model
	want := map[string]string{} // path -> alias ("" none)
	if m.UsesDep {
		want[tmpl.DepPath] = ""
	}
	if m.UsesDep2 {
		want[tmpl.Dep2Path] = m.Dep2Alias
	}
	if m.Env.External && !m.Env.SkipEnsure {
		want[tmpl.SrcPath] = ""
	}
	if m.Env.HasMethods() {
		want["sync"] = ""
		if m.Env.SyncAliased {
			want["sync"] = m.SyncQual
		}
	}
	seen := map[string]int{}
	for _, is := range u.File.Imports {
		path := strings.Trim(is.Path.Value, `"`)
		seen[path]++
		alias := ""
		if is.Name != nil {
			alias = is.Name.Name
		}
		w, expected := want[path]
		r.add("K-IMPORTS/spec", "expected", is.Pos(), expected, "import of %q is not in the registry's import list for this environment", path)
		if expected {
			r.add("K-IMPORTS/spec", "alias", is.Pos(), alias == w, "import %q has alias %q, the registry says %q", path, alias, w)
		}
		r.add("K-IMPORTS/spec", "no-dot-blank", is.Pos(), alias != "." && alias != "_", "dot or blank import of %q", path)
	}
	for path := range want {
		r.add("K-IMPORTS/once", "count", token.NoPos, seen[path] == 1, "import %q appears %d times, want exactly once", path, seen[path])
	}
	// with skip-ensure in external mode the source package must not be mentioned outside comments
	if m.Env.External && m.Env.SkipEnsure {
		used := false
		ast.Inspect(u.File, func(n ast.Node) bool {
			if id, ok := n.(*ast.Ident); ok && id.Name == m.SrcQual {
				used = true
			}
			return true
		})
		r.add("K-IMPORTS/skip-ensure", "src-unmentioned", token.NoPos, !used, "with skip-ensure the file still refers to the source package %s although no signature needs it", m.SrcQual)
	}
}

// ---------------------------------------------------------------------

type methodFacts struct {
	appendPath Path
	appendLock string // lock path (without mode) held at the append
}

func lockNames(held map[string]bool) []string {
	var out []string
	for k := range held {
		out = append(out, k)
	}
	sort.Strings(out)
	return out
}

func (r *Result) mockRules(mk *Mock) {
	u := r.Unit
	env := u.Model.Env
	mi := mk.Info
	// ---- K-MSET: method set and field set (C08, C02, C01)
	have := map[string]int{}
	for _, f := range mk.Funcs {
		have[fmt.Sprintf("%s:%d", f.Role, f.Method)]++
		if f.Role == RoleUnknown {
			r.add("K-MSET/unexpected", "method", f.Decl.Pos(), false, "mock has the unexpected method %s", Abstract(f.Decl.Name.Name))
		}
		// pointer receiver: locks must never be copied
		_, isPtr := ast.Unparen(f.Decl.Recv.List[0].Type).(*ast.StarExpr)
		r.add("K-LOCK/receiver", f.Role.String(), f.Decl.Pos(), isPtr && f.Recv != nil, "%s has a value receiver (or an unnamed one): the mock's locks would be copied", Abstract(f.Decl.Name.Name))
	}
	for j := range mi.Methods {
		r.add("K-MSET/method", "present", mk.Spec.Pos(), have[fmt.Sprintf("method:%d", j)] == 1, "mock declares %d methods named like interface method %d, want 1", have[fmt.Sprintf("method:%d", j)], j)
		r.add("K-MSET/accessor", "present", mk.Spec.Pos(), have[fmt.Sprintf("accessor:%d", j)] == 1, "mock declares %d <M>Calls accessors for method %d, want 1", have[fmt.Sprintf("accessor:%d", j)], j)
		wantReset := 0
		if env.WithResets {
			wantReset = 1
		}
		r.add("K-MSET/reset", fmt.Sprintf("per-method,with-resets=%v", env.WithResets), mk.Spec.Pos(), have[fmt.Sprintf("reset:%d", j)] == wantReset, "mock declares %d Reset<M>Calls for method %d, want %d (with-resets=%v)", have[fmt.Sprintf("reset:%d", j)], j, wantReset, env.WithResets)
	}
	{
		wantAll := 0
		if env.WithResets {
			wantAll = 1
		}
		r.add("K-MSET/reset", fmt.Sprintf("all,with-resets=%v", env.WithResets), mk.Spec.Pos(), have["reset-all:-1"] == wantAll, "mock declares %d ResetCalls methods, want %d (with-resets=%v)", have["reset-all:-1"], wantAll, env.WithResets)
	}
	// ---- fields
	if mk.Struct == nil {
		r.add("K-MSET/struct", "struct", mk.Spec.Pos(), false, "mock type is not a struct")
		return
	}
	funcFields := map[string]*types.Var{}
	for i := 0; i < mk.Struct.NumFields(); i++ {
		f := mk.Struct.Field(i)
		switch t := f.Type().Underlying().(type) {
		case *types.Signature:
			funcFields[f.Name()] = f
		case *types.Struct:
			if isRWMutex(f.Type()) {
				continue
			}
			// record storage: every field a slice of structs; zero value usable
			for k := 0; k < t.NumFields(); k++ {
				_, isSlice := t.Field(k).Type().Underlying().(*types.Slice)
				r.add("K-RECORD/zero-value", "storage-field", mk.Spec.Pos(), isSlice, "field %s.%s of the mock is not a slice: the zero-value mock would need initialisation", f.Name(), Abstract(t.Field(k).Name()))
			}
		case *types.Pointer, *types.Map, *types.Chan, *types.Interface:
			r.add("K-RECORD/zero-value", "field-kind", mk.Spec.Pos(), false, "mock field %s has a type that needs initialisation (%s): the zero-value mock must work", Abstract(f.Name()), Abstract(f.Type().String()))
		default:
			r.add("K-MSET/field", "unexpected", mk.Spec.Pos(), false, "mock has the unexpected field %s of type %s", Abstract(f.Name()), Abstract(f.Type().String()))
		}
	}
	// ---- K-IMPL (C02): *Mock implements the independently declared interface; func fields identical to method signatures
	r.implRule(mk, funcFields)

	// ---- per function flow rules
	facts := make([]methodFacts, len(mi.Methods))
	flows := map[*Func]*flow{}
	locksOf := map[*Func]*lockResult{}
	for _, f := range mk.Funcs {
		if f.Decl.Body == nil || f.Recv == nil {
			continue
		}
		fl := u.newFlow(f)
		flows[f] = fl
		lr := fl.lockset()
		locksOf[f] = lr
		role := f.Role.String()
		// C06 rules
		for _, p := range lr.problems {
			r.Obs = append(r.Obs, Ob{Rule: p.rule, Key: role + ":" + p.key, OK: false, Msg: fmt.Sprintf("%s: %s  [%s]", Abstract(f.Decl.Name.Name), Abstract(p.msg), u.Excerpt(nodePos(p.node))), Pos: nodePos(p.node)})
		}
		for _, rule := range []string{"K-LOCK/nested", "K-LOCK/unbalanced", "K-LOCK/call-in-critical-section", "K-LOCK/held-at-exit", "K-LOCK/loop-in-critical-section", "K-LOCK/held-at-callback"} {
			found := false
			for _, p := range lr.problems {
				if p.rule == rule {
					found = true
				}
			}
			if !found {
				r.add(rule, role, f.Decl.Pos(), true, "")
			}
		}
		{
			seen := map[evKind]bool{}
			for _, e := range fl.allEvents() {
				seen[e.kind] = true
			}
			for kind, rule := range map[evKind]string{evDefer: "K-LOCK/defer", evGo: "K-FLOW/go", evFuncLit: "K-FLOW/funclit", evChan: "K-FLOW/chan"} {
				if !seen[kind] {
					r.add(rule, role+":none", f.Decl.Pos(), true, "")
				}
			}
		}
		for _, e := range fl.allEvents() {
			switch e.kind {
			case evDefer:
				r.add("K-LOCK/defer", role+":"+e.detail, nodePos(e.node), false, "%s uses defer (%s): a deferred unlock keeps the lock across everything that follows, a deferred call changes what the caller observes  [%s]", Abstract(f.Decl.Name.Name), e.detail, u.Excerpt(nodePos(e.node)))
			case evGo:
				r.add("K-FLOW/go", role, nodePos(e.node), false, "%s starts a goroutine  [%s]", Abstract(f.Decl.Name.Name), u.Excerpt(nodePos(e.node)))
			case evFuncLit:
				r.add("K-FLOW/funclit", role, nodePos(e.node), false, "%s contains a function literal: its body is outside the flow analysis", Abstract(f.Decl.Name.Name))
			case evEscape:
				r.add("K-RECORD/escape", role+":"+e.detail, nodePos(e.node), false, "%s: %s (%s)  [%s]", Abstract(f.Decl.Name.Name), e.detail, Abstract(string(e.path)), u.Excerpt(nodePos(e.node)))
			case evChan:
				r.add("K-FLOW/chan", role, nodePos(e.node), false, "%s performs a %s", Abstract(f.Decl.Name.Name), e.detail)
			case evBuiltin:
				if e.detail == "recover" {
					r.add("K-CALLBACK/recover", role, nodePos(e.node), false, "%s calls recover: a panic of the configured function would not reach the caller", Abstract(f.Decl.Name.Name))
				}
			}
		}
		// C05: every storage access under a lock; writes under a write lock
		for _, a := range lr.accesses {
			kind := "read"
			if a.ev.kind == evWrite {
				kind = "write"
			}
			okHeld := len(a.held) > 0
			r.add("K-LOCK/access-locked", role+":"+kind, nodePos(a.ev.node), okHeld, "%s: %s of %s with no lock held  [%s]", Abstract(f.Decl.Name.Name), kind, Abstract(string(a.ev.path)), u.Excerpt(nodePos(a.ev.node)))
			if a.ev.kind == evWrite && okHeld {
				w := false
				for k := range a.held {
					if strings.HasSuffix(k, "/W") {
						w = true
					}
				}
				r.add("K-LOCK/write-exclusive", role, nodePos(a.ev.node), w, "%s: write of %s while holding only %v: a read lock does not exclude other writers or readers  [%s]", Abstract(f.Decl.Name.Name), Abstract(string(a.ev.path)), lockNames(a.held), u.Excerpt(nodePos(a.ev.node)))
			}
		}
	}
	// lockset discipline across the functions of the mock: one common lock per storage path, distinct per path
	common := map[Path]map[string]bool{}
	for _, f := range mk.Funcs {
		lr := locksOf[f]
		if lr == nil {
			continue
		}
		for _, a := range lr.accesses {
			cur := map[string]bool{}
			for k := range a.held {
				cur[strings.TrimSuffix(strings.TrimSuffix(k, "/W"), "/R")] = true
			}
			if prev, ok := common[a.ev.path]; ok {
				for k := range prev {
					if !cur[k] {
						delete(prev, k)
					}
				}
			} else {
				common[a.ev.path] = cur
			}
		}
	}
	lockOwner := map[string]Path{}
	var paths []string
	for p := range common {
		paths = append(paths, string(p))
	}
	sort.Strings(paths)
	for _, ps := range paths {
		p := Path(ps)
		r.add("K-LOCK/common-lock", "storage", mk.Spec.Pos(), len(common[p]) > 0, "no single lock protects every access to %s: two accesses under different locks can race", Abstract(ps))
		for l := range common[p] {
			if o, taken := lockOwner[l]; taken && o != p {
				// sharing a lock between methods is not a race, but it couples methods: MFunc of one would block the other only if held across callbacks; allowed
				_ = o
			}
			lockOwner[l] = p
		}
	}
	// lock fields are values of sync.RWMutex
	for i := 0; i < mk.Struct.NumFields(); i++ {
		f := mk.Struct.Field(i)
		if pt, ok := f.Type().Underlying().(*types.Pointer); ok && isRWMutex(pt.Elem()) {
			r.add("K-LOCK/lock-type", "pointer", mk.Spec.Pos(), false, "lock field %s is a pointer to a mutex: it is nil in the zero-value mock", Abstract(f.Name()))
		}
	}
	// ---- method functions: callback, record, nil-func
	for _, f := range mk.Funcs {
		fl := flows[f]
		if fl == nil {
			continue
		}
		switch f.Role {
		case RoleMethod:
			facts[f.Method] = r.methodRules(mk, f, fl, locksOf[f], funcFields)
		}
	}
	for _, f := range mk.Funcs {
		fl := flows[f]
		if fl == nil {
			continue
		}
		switch f.Role {
		case RoleAccessor:
			r.accessorRules(mk, f, fl, facts[f.Method])
		case RoleReset:
			r.resetRules(mk, f, fl, []methodFacts{facts[f.Method]}, "reset")
		case RoleResetAll:
			r.resetRules(mk, f, fl, facts, "reset-all")
		}
	}
	// distinct methods record into distinct storage under distinct locks
	seenPath := map[Path]int{}
	seenLock := map[string]int{}
	for j, fa := range facts {
		if fa.appendPath == "" {
			continue
		}
		if k, dup := seenPath[fa.appendPath]; dup {
			r.add("K-RECORD/distinct-storage", "methods", mk.Spec.Pos(), false, "methods %d and %d record into the same slice %s", k, j, Abstract(string(fa.appendPath)))
		}
		seenPath[fa.appendPath] = j
		if fa.appendLock != "" {
			if k, dup := seenLock[fa.appendLock]; dup {
				r.add("K-LOCK/distinct-locks", "methods", mk.Spec.Pos(), false, "methods %d and %d share the lock %s", k, j, Abstract(fa.appendLock))
			}
			seenLock[fa.appendLock] = j
		}
	}
}

func (r *Result) implRule(mk *Mock, funcFields map[string]*types.Var) {
	u := r.Unit
	mi := mk.Info
	iobj, _ := u.SrcPkg.Scope().Lookup(mi.IfaceName).(*types.TypeName)
	if iobj == nil {
		r.add("K-IMPL/assignable", "iface", mk.Spec.Pos(), false, "prelude interface not found")
		return
	}
	inamed, _ := iobj.Type().(*types.Named)
	mnamed, _ := mk.Obj.Type().(*types.Named)
	if inamed == nil || mnamed == nil {
		return
	}
	var it, mt types.Type = inamed, mnamed
	if n := inamed.TypeParams().Len(); n > 0 {
		// instantiate both with the mock's own type parameters: assignability then holds for
		// every list of type arguments that satisfies the (identical, see K-GENERIC) constraints
		if mnamed.TypeParams().Len() != n {
			r.add("K-IMPL/assignable", "generic-arity", mk.Spec.Pos(), false, "interface has %d type parameters, mock has %d", n, mnamed.TypeParams().Len())
			return
		}
		var targs []types.Type
		for i := 0; i < n; i++ {
			targs = append(targs, mnamed.TypeParams().At(i))
		}
		var err error
		if it, err = types.Instantiate(nil, inamed, targs, false); err != nil {
			r.add("K-IMPL/assignable", "instantiate", mk.Spec.Pos(), false, "cannot instantiate the interface with the mock's type parameters: %v", err)
			return
		}
		mt, _ = types.Instantiate(nil, mnamed, targs, false)
	}
	pm := types.NewPointer(mt)
	missing, wrong := types.MissingMethod(pm, it.Underlying().(*types.Interface), true)
	ok := missing == nil
	what := ""
	if missing != nil {
		what = "missing method " + Abstract(missing.Name())
		if wrong {
			what = "wrong signature for method " + Abstract(missing.Name())
		}
	}
	r.add("K-IMPL/assignable", "pointer-to-mock", mk.Spec.Pos(), ok, "*%s is not assignable to %s: %s", Abstract(mi.MockName), Abstract(mi.IfaceName), what)
	// function fields
	iface := it.Underlying().(*types.Interface)
	mstruct, _ := mt.Underlying().(*types.Struct)
	for j, me := range mi.Methods {
		var isig *types.Signature
		for k := 0; k < iface.NumMethods(); k++ {
			if iface.Method(k).Name() == me.Name {
				isig = iface.Method(k).Type().(*types.Signature)
			}
		}
		var fld *types.Var
		n := 0
		if mstruct != nil {
			for k := 0; k < mstruct.NumFields(); k++ {
				if mstruct.Field(k).Name() == me.Name+"Func" {
					fld = mstruct.Field(k)
					n++
				}
			}
		}
		if !r.add("K-IMPL/func-field", "present", mk.Spec.Pos(), n == 1 && isig != nil, "method %d has %d companion <M>Func fields, want exactly 1", j, n) {
			continue
		}
		fsig, _ := fld.Type().Underlying().(*types.Signature)
		ok := fsig != nil && identicalSig(fsig, isig)
		r.add("K-IMPL/func-field", "identical-signature", mk.Spec.Pos(), ok, "field %sFunc has type %s, the interface method has %s (variadic: %v vs %v)", Abstract(me.Name), Abstract(fld.Type().String()), Abstract(isig.String()), fsig != nil && fsig.Variadic(), isig.Variadic())
	}
	_ = funcFields
}

func identicalSig(a, b *types.Signature) bool {
	if a.Variadic() != b.Variadic() || a.Params().Len() != b.Params().Len() || a.Results().Len() != b.Results().Len() {
		return false
	}
	for i := 0; i < a.Params().Len(); i++ {
		if !types.Identical(a.Params().At(i).Type(), b.Params().At(i).Type()) {
			return false
		}
	}
	for i := 0; i < a.Results().Len(); i++ {
		if !types.Identical(a.Results().At(i).Type(), b.Results().At(i).Type()) {
			return false
		}
	}
	return true
}

// methodRules: C03 (K-CALLBACK), C04 (K-RECORD), C07 (K-NILFUNC) for one interface method.
func (r *Result) methodRules(mk *Mock, f *Func, fl *flow, lr *lockResult, funcFields map[string]*types.Var) methodFacts {
	u := r.Unit
	env := u.Model.Env
	me := mk.Info.Methods[f.Method]
	name := Abstract(f.Decl.Name.Name)
	var facts methodFacts
	evs := fl.allEvents()
	var callbacks, appends []event
	for _, e := range evs {
		switch e.kind {
		case evCallback:
			callbacks = append(callbacks, e)
		case evWrite:
			if e.detail == "append1" {
				appends = append(appends, e)
			} else {
				// filling the slot the method has just appended, through a pointer to it, is the method's own
				// record (whether that happens under the lock is K-LOCK/access-locked's question, whether every
				// parameter gets there K-RECORD/literal's)
				own := e.detail == "element-through-pointer" && len(appends) > 0
				r.add("K-RECORD/writers", "method:"+e.detail, nodePos(e.node), own, "%s writes the record slice other than by appending one element (%s)  [%s]", name, e.detail, u.Excerpt(nodePos(e.node)))
			}
		case evParamWrite:
			r.add("K-CALLBACK/params-untouched", "method", nodePos(e.node), false, "%s: %s — the configured function (or the record) would not receive the caller's value", name, e.detail)
		}
	}
	r.add("K-FLOW/acyclic", "method", f.Decl.Pos(), !fl.hasCycle(), "%s contains a loop: the configured function or the recording could run more than once", name)
	// --- K-CALLBACK
	wantField := Path("recv." + me.Name + "Func")
	if !r.add("K-CALLBACK/once", "method:sites", f.Decl.Pos(), len(callbacks) == 1, "%s has %d call sites through function fields, want exactly 1", name, len(callbacks)) {
		return facts
	}
	cb := callbacks[0]
	r.add("K-CALLBACK/own-field", "method", nodePos(cb.node), cb.path == wantField, "%s invokes %s, want its own field %s", name, Abstract(string(cb.path)), Abstract(string(wantField)))
	// arguments: parameters in order, ellipsis iff variadic
	{
		call := cb.call
		okArgs := len(call.Args) == len(me.Params)
		for i := 0; okArgs && i < len(call.Args); i++ {
			id, isID := ast.Unparen(call.Args[i]).(*ast.Ident)
			okArgs = isID
			if isID {
				v, _ := u.Info.ObjectOf(id).(*types.Var)
				idx, isParam := fl.params[v]
				okArgs = isParam && idx == i
			}
		}
		r.add("K-CALLBACK/args", "method:order", nodePos(call), okArgs, "%s does not pass exactly its parameters in declaration order to the configured function  [%s]", name, u.Excerpt(nodePos(call)))
		variadic := len(me.Params) > 0 && me.Params[len(me.Params)-1].Variadic
		r.add("K-CALLBACK/args", "method:spread", nodePos(call), call.Ellipsis.IsValid() == variadic, "%s: variadic=%v but the call uses '...'=%v — the variadic tail must be forwarded as the same slice  [%s]", name, variadic, call.Ellipsis.IsValid(), u.Excerpt(nodePos(call)))
	}
	// lock state at the callback (C06)
	if st, ok := lr.atEvent[cb.call]; ok {
		r.add("K-LOCK/held-at-callback", "method", nodePos(cb.node), len(st.may) == 0, "%s may hold %s while the configured function runs: re-entrant use deadlocks and a blocked callback blocks every other user of the lock  [%s]", name, Abstract(setStr(st.may)), u.Excerpt(nodePos(cb.node)))
	}
	// result forwarding
	cbBlock := fl.g.Blocks[cb.block]
	cbNode := cbBlock.Nodes[cb.index]
	if len(me.Results) > 0 {
		rs, isRet := cbNode.(*ast.ReturnStmt)
		ok := isRet && len(rs.Results) == 1 && ast.Unparen(rs.Results[0]) == ast.Expr(cb.call)
		r.add("K-CALLBACK/results", "method:return-call", nodePos(cbNode), ok, "%s does not return the configured function's results directly (`return mock.<M>Func(...)`)  [%s]", name, u.Excerpt(nodePos(cbNode)))
	} else {
		es, isExpr := cbNode.(*ast.ExprStmt)
		r.add("K-CALLBACK/results", "method:statement", nodePos(cbNode), isExpr && ast.Unparen(es.X) == ast.Expr(cb.call), "%s: the call of the configured function is not a plain statement  [%s]", name, u.Excerpt(nodePos(cbNode)))
	}
	// nothing happens after the callback
	after, _ := fl.explore(cb.block, cb.index+1, cutSet{})
	r.add("K-CALLBACK/last", "method", nodePos(cb.node), len(after) == 0, "%s does something after the configured function returned (%d further events): a panic in the function would skip it and the caller observes more than the function's effect", name, len(after))
	// every completed path runs the callback, except through the nil branch of a test of the own field
	nts := fl.nilTests()
	cuts := cutSet{nodes: map[ast.Node]bool{cb.call: true}, edges: map[[2]int]bool{}}
	for _, nt := range nts {
		if nt.path == wantField {
			cuts.edges[[2]int{nt.block, nt.nilSucc}] = true
		}
	}
	_, exits := fl.explore(0, 0, cuts)
	r.add("K-CALLBACK/every-path", "method", f.Decl.Pos(), len(exits) == 0, "%s can complete without invoking the configured function although it is set (%d such exits)", name, len(exits))
	// the callback is guarded by a nil test of its own field
	guarded := false
	for _, nt := range nts {
		if nt.path != wantField {
			continue
		}
		c := cutSet{edges: map[[2]int]bool{{nt.block, nt.setSucc}: true}}
		passed, _ := fl.explore(0, 0, c)
		reach := false
		for _, e := range passed {
			if e.kind == evCallback {
				reach = true
			}
		}
		if !reach {
			guarded = true
		}
	}
	r.add("K-NILFUNC/guard", "method", f.Decl.Pos(), guarded, "%s invokes the function field on a path that has not tested it against nil: a nil field would crash with a nil-pointer dereference instead of the identifying panic / zero values", name)

	// --- K-RECORD
	if r.add("K-RECORD/append-once", "method:sites", f.Decl.Pos(), len(appends) == 1, "%s has %d `x = append(x, record)` statements on a record slice, want exactly 1", name, len(appends)) {
		ap := appends[0]
		facts.appendPath = ap.path
		// append on every path to the callback
		passed, _ := fl.explore(0, 0, cutSet{nodes: map[ast.Node]bool{ap.node: true}})
		reach := false
		for _, e := range passed {
			if e.kind == evCallback {
				reach = true
			}
		}
		r.add("K-RECORD/before-callback", "method", nodePos(ap.node), !reach, "%s can invoke the configured function without having recorded the call first (the record must be visible inside the function and survive its panic)", name)
		// with the append removed only aborting exits (non-stub nil panic) may remain
		_, exits := fl.explore(0, 0, cutSet{nodes: map[ast.Node]bool{ap.node: true}})
		bad := 0
		for _, ex := range exits {
			if ex.kind != exitPanic {
				bad++
			}
		}
		r.add("K-RECORD/every-path", "method", nodePos(ap.node), bad == 0, "%s can return normally without recording the call (%d such exits)", name, bad)
		if env.Stub {
			r.add("K-RECORD/every-path", "method:stub-no-abort", nodePos(ap.node), len(exits) == 0, "with -stub %s can end without recording the call", name)
		}
		// lock held at the append
		for _, a := range lr.accesses {
			if a.ev.node == ap.node && a.ev.kind == evWrite {
				for k := range a.held {
					if strings.HasSuffix(k, "/W") {
						facts.appendLock = strings.TrimSuffix(k, "/W")
					}
				}
			}
		}
		// the appended element
		r.recordLiteral(mk, f, fl, ap, me)
	}

	// --- K-NILFUNC
	panics := 0
	for _, e := range evs {
		if e.kind == evBuiltin && e.detail == "panic" {
			panics++
		}
	}
	ownTests := 0
	for _, nt := range nts {
		if nt.path != wantField {
			r.add("K-NILFUNC/own-field", "method", nodePos(nt.cond), false, "%s tests %s against nil, not its own field", name, Abstract(string(nt.path)))
			continue
		}
		ownTests++
		// the nil branch
		cut := cutSet{}
		passed, exits := fl.explore(nt.nilSucc, 0, cut)
		if env.Stub {
			calls := 0
			for _, e := range passed {
				if e.kind == evCall || e.kind == evCallback || (e.kind == evBuiltin) {
					calls++
				}
			}
			r.add("K-NILFUNC/stub-branch", "method:no-calls", nodePos(nt.cond), calls == 0, "with -stub the nil branch of %s performs %d calls, want none", name, calls)
			okExits := len(exits) > 0
			for _, ex := range exits {
				if ex.kind != exitReturn {
					okExits = false
					continue
				}
				rs := ex.node.(*ast.ReturnStmt)
				if !r.zeroReturn(fl, nt, rs, f) {
					okExits = false
				}
			}
			r.add("K-NILFUNC/stub-branch", "method:zero-values", nodePos(nt.cond), okExits, "with -stub the nil branch of %s does not return freshly declared, never assigned variables of exactly the result types in order", name)
		} else {
			okPanic := len(exits) > 0
			for _, ex := range exits {
				if ex.kind != exitPanic {
					okPanic = false
				}
			}
			other := 0
			var msgOK bool
			for _, e := range passed {
				switch {
				case e.kind == evBuiltin && e.detail == "panic":
					msgOK = r.panicMessage(e.call, mk.Info, me)
				case e.kind == evCall || e.kind == evCallback || e.kind == evWrite || e.kind == evAcquire:
					other++
				}
			}
			r.add("K-NILFUNC/panic", "method:aborts", nodePos(nt.cond), okPanic, "without -stub the nil branch of %s does not always end in panic", name)
			r.add("K-NILFUNC/panic", "method:nothing-else", nodePos(nt.cond), other == 0, "the nil branch of %s invokes or writes something before panicking (%d events)", name, other)
			r.add("K-NILFUNC/panic", "method:message", nodePos(nt.cond), msgOK, "the panic message of %s is not a constant naming the mock type, the function field and the interface method", name)
		}
	}
	r.add("K-NILFUNC/guard", "method:tests", f.Decl.Pos(), ownTests == 1, "%s has %d nil tests of its own function field, want 1", name, ownTests)
	if env.Stub {
		r.add("K-NILFUNC/stub-never-panics", "method", f.Decl.Pos(), panics == 0, "with -stub %s contains %d panic calls, want none", name, panics)
	}
	return facts
}

// zeroReturn checks `return v1, v2` where each vi is a variable declared without
// initialiser in the nil branch, never assigned, with the result types in order.
func (r *Result) zeroReturn(fl *flow, nt nilTest, rs *ast.ReturnStmt, f *Func) bool {
	u := r.Unit
	sig := f.Obj.Type().(*types.Signature)
	if len(rs.Results) != sig.Results().Len() {
		// a bare return is only fine for result-less methods (results are unnamed in generated signatures;
		// named results + bare return would also be zero, accept when results are named and never assigned)
		return len(rs.Results) == 0 && sig.Results().Len() == 0
	}
	for i, e := range rs.Results {
		id, ok := ast.Unparen(e).(*ast.Ident)
		if !ok {
			return false
		}
		v, ok := u.Info.ObjectOf(id).(*types.Var)
		if !ok || !types.Identical(v.Type(), sig.Results().At(i).Type()) {
			return false
		}
		// declared by a var spec without values
		declOK := false
		assigned := false
		ast.Inspect(f.Decl.Body, func(n ast.Node) bool {
			switch s := n.(type) {
			case *ast.ValueSpec:
				for _, nm := range s.Names {
					if u.Info.Defs[nm] == v && len(s.Values) == 0 {
						declOK = true
					}
				}
			case *ast.AssignStmt:
				for _, l := range s.Lhs {
					if lid, ok := ast.Unparen(l).(*ast.Ident); ok && u.Info.ObjectOf(lid) == v {
						assigned = true
					}
				}
			case *ast.UnaryExpr:
				if s.Op == token.AND {
					if lid, ok := ast.Unparen(s.X).(*ast.Ident); ok && u.Info.ObjectOf(lid) == v {
						assigned = true
					}
				}
			case *ast.IncDecStmt:
				if lid, ok := ast.Unparen(s.X).(*ast.Ident); ok && u.Info.ObjectOf(lid) == v {
					assigned = true
				}
			}
			return true
		})
		if !declOK || assigned {
			return false
		}
	}
	return true
}

func (r *Result) panicMessage(call *ast.CallExpr, mi *tmpl.MockInfo, me tmpl.MethodInfo) bool {
	if call == nil || len(call.Args) != 1 {
		return false
	}
	tv := r.Unit.Info.Types[call.Args[0]]
	if tv.Value == nil || tv.Value.Kind() != constant.String {
		return false
	}
	s := constant.StringVal(tv.Value)
	return strings.Contains(s, mi.MockName+"."+me.Name+"Func") && strings.Contains(s, mi.IfaceName+"."+me.Name)
}

// recordLiteral checks the appended element: a variable defined once by a
// struct literal with one keyed field per parameter, in order, each set to
// that parameter, of the slice's element type, never modified.
func (r *Result) recordLiteral(mk *Mock, f *Func, fl *flow, ap event, me tmpl.MethodInfo) {
	u := r.Unit
	name := Abstract(f.Decl.Name.Name)
	as := ap.node.(*ast.AssignStmt)
	call := ast.Unparen(as.Rhs[0]).(*ast.CallExpr)
	id, ok := ast.Unparen(call.Args[1]).(*ast.Ident)
	var lit *ast.CompositeLit
	var obj *types.Var
	if ok {
		obj, _ = u.Info.ObjectOf(id).(*types.Var)
	} else if cl, isLit := ast.Unparen(call.Args[1]).(*ast.CompositeLit); isLit {
		lit = cl
	}
	if obj != nil {
		defs, writes := 0, 0
		ast.Inspect(f.Decl.Body, func(n ast.Node) bool {
			switch s := n.(type) {
			case *ast.AssignStmt:
				for i, l := range s.Lhs {
					root := l
					for {
						if se, ok := ast.Unparen(root).(*ast.SelectorExpr); ok {
							root = se.X
							continue
						}
						if ie, ok := ast.Unparen(root).(*ast.IndexExpr); ok {
							root = ie.X
							continue
						}
						break
					}
					lid, ok := ast.Unparen(root).(*ast.Ident)
					if !ok || u.Info.ObjectOf(lid) != obj {
						continue
					}
					if s.Tok == token.DEFINE && root == l && len(s.Rhs) == len(s.Lhs) {
						defs++
						if cl, ok := ast.Unparen(s.Rhs[i]).(*ast.CompositeLit); ok {
							lit = cl
						}
					} else {
						writes++
					}
				}
			case *ast.UnaryExpr:
				if s.Op == token.AND {
					if lid, ok := ast.Unparen(s.X).(*ast.Ident); ok && u.Info.ObjectOf(lid) == obj {
						writes++
					}
				}
			}
			return true
		})
		r.add("K-RECORD/literal", "method:single-definition", nodePos(ap.node), defs == 1 && writes == 0, "%s: the record variable is defined %d times and modified %d times, want 1 and 0", name, defs, writes)
	}
	if !r.add("K-RECORD/literal", "method:composite", nodePos(ap.node), lit != nil, "%s: the appended record is not (a variable defined by) a struct literal", name) {
		return
	}
	// element type identity
	st := u.Info.TypeOf(as.Lhs[0])
	sl, _ := st.Underlying().(*types.Slice)
	lt := u.Info.TypeOf(lit)
	r.add("K-RECORD/literal", "method:element-type", nodePos(lit), sl != nil && lt != nil && types.Identical(sl.Elem(), lt), "%s: the record literal's type differs from the element type of the record slice", name)
	ls, _ := lt.Underlying().(*types.Struct)
	// the other way to a complete record: the zero record is appended and the method fills the slot it has
	// just appended through a pointer to it — every field exactly once, the i-th from the i-th parameter
	// (where that happens relative to the lock is K-LOCK/access-locked's question)
	if ls != nil && len(lit.Elts) == 0 && ls.NumFields() == len(me.Params) && len(me.Params) > 0 && len(fl.elemAlias) > 0 {
		assigned := map[string][]*types.Var{}
		other := false
		ast.Inspect(f.Decl.Body, func(n ast.Node) bool {
			s, ok := n.(*ast.AssignStmt)
			if !ok {
				return true
			}
			for i, l := range s.Lhs {
				se, ok := ast.Unparen(l).(*ast.SelectorExpr)
				if !ok {
					continue
				}
				aid, ok := ast.Unparen(se.X).(*ast.Ident)
				if !ok {
					continue
				}
				if _, isAlias := fl.elemAlias[u.Info.ObjectOf(aid)]; !isAlias {
					continue
				}
				if s.Tok != token.ASSIGN || len(s.Lhs) != len(s.Rhs) {
					other = true
					continue
				}
				val, _ := ast.Unparen(s.Rhs[i]).(*ast.Ident)
				if val == nil {
					other = true
					continue
				}
				v, _ := u.Info.ObjectOf(val).(*types.Var)
				assigned[se.Sel.Name] = append(assigned[se.Sel.Name], v)
			}
			return true
		})
		filled := !other && len(assigned) == ls.NumFields()
		for i := 0; filled && i < ls.NumFields(); i++ {
			vs := assigned[ls.Field(i).Name()]
			if len(vs) != 1 || vs[0] == nil {
				filled = false
				break
			}
			idx, isParam := fl.params[vs[0]]
			filled = isParam && idx == i && ls.Field(i).Name() == tmpl.OpExported+me.Params[i].Name && types.Identical(ls.Field(i).Type(), vs[0].Type())
		}
		if filled {
			r.add("K-RECORD/literal", "method:fields", nodePos(lit), true, "")
			return
		}
	}
	okFields := ls != nil && ls.NumFields() == len(me.Params) && len(lit.Elts) == len(me.Params)
	for i := 0; okFields && i < len(lit.Elts); i++ {
		kv, isKV := lit.Elts[i].(*ast.KeyValueExpr)
		if !isKV {
			okFields = false
			break
		}
		key, _ := kv.Key.(*ast.Ident)
		val, _ := ast.Unparen(kv.Value).(*ast.Ident)
		if key == nil || val == nil {
			okFields = false
			break
		}
		v, _ := u.Info.ObjectOf(val).(*types.Var)
		idx, isParam := fl.params[v]
		// i-th field of the struct type, keyed, holds the i-th parameter; field name is Exported(param name)
		okFields = isParam && idx == i && ls.Field(i).Name() == key.Name && key.Name == tmpl.OpExported+me.Params[i].Name
		if okFields {
			// field type is the parameter's type (a variadic parameter is stored as its slice)
			okFields = types.Identical(ls.Field(i).Type(), v.Type())
		}
	}
	r.add("K-RECORD/literal", "method:fields", nodePos(lit), okFields, "%s: the record does not hold exactly one field per parameter, in parameter order, named Exported(<parameter>) and set to that parameter  [%s]", name, u.Excerpt(nodePos(lit)))
}

func (r *Result) accessorRules(mk *Mock, f *Func, fl *flow, fa methodFacts) {
	u := r.Unit
	name := Abstract(f.Decl.Name.Name)
	evs := fl.allEvents()
	var reads []event
	for _, e := range evs {
		switch e.kind {
		case evRead:
			reads = append(reads, e)
		case evWrite:
			r.add("K-RECORD/writers", "accessor:"+e.detail, nodePos(e.node), false, "accessor %s writes the record slice (%s)", name, e.detail)
		case evCallback:
			r.add("K-CALLBACK/other-callers", "accessor", nodePos(e.node), false, "accessor %s invokes a configured function", name)
		case evCall:
			r.add("K-FLOW/calls", "accessor", nodePos(e.node), false, "accessor %s calls %s", name, Abstract(e.detail))
		}
	}
	okRead := len(reads) == 1 && reads[0].detail == "value"
	if okRead && fa.appendPath != "" {
		okRead = reads[0].path == fa.appendPath
	}
	r.add("K-RECORD/accessor", "reads-own-slice", f.Decl.Pos(), okRead, "accessor %s does not read exactly the slice its method appends to, as a whole value (reads: %d)", name, len(reads))
	r.add("K-FLOW/acyclic", "accessor", f.Decl.Pos(), !fl.hasCycle(), "accessor %s contains a loop", name)
	if !okRead {
		return
	}
	// the value read flows unmodified into the single return
	sig := f.Obj.Type().(*types.Signature)
	okType := sig.Results().Len() == 1 && types.Identical(sig.Results().At(0).Type(), u.Info.TypeOf(reads[0].node.(ast.Expr)))
	r.add("K-RECORD/accessor", "result-type", f.Decl.Pos(), okType, "accessor %s does not return the type of the record slice", name)
	var rets []*ast.ReturnStmt
	ast.Inspect(f.Decl.Body, func(n ast.Node) bool {
		if rs, ok := n.(*ast.ReturnStmt); ok {
			rets = append(rets, rs)
		}
		return true
	})
	okFlow := len(rets) == 1 && len(rets[0].Results) == 1
	if okFlow {
		switch x := ast.Unparen(rets[0].Results[0]).(type) {
		case *ast.Ident:
			v, _ := u.Info.ObjectOf(x).(*types.Var)
			// the variable's only assignment is `v = <read>`
			assigns := 0
			okAssign := false
			ast.Inspect(f.Decl.Body, func(n ast.Node) bool {
				switch s := n.(type) {
				case *ast.AssignStmt:
					for i, l := range s.Lhs {
						if lid, ok := ast.Unparen(l).(*ast.Ident); ok && u.Info.ObjectOf(lid) == v {
							assigns++
							if len(s.Rhs) == len(s.Lhs) && ast.Unparen(s.Rhs[i]) == reads[0].node {
								okAssign = true
							}
						}
					}
				case *ast.ValueSpec:
					for i, nm := range s.Names {
						if u.Info.Defs[nm] == v && len(s.Values) > i {
							assigns++
							if ast.Unparen(s.Values[i]) == reads[0].node {
								okAssign = true
							}
						}
					}
				}
				return true
			})
			okFlow = v != nil && assigns == 1 && okAssign
		default:
			okFlow = ast.Unparen(rets[0].Results[0]) == reads[0].node
		}
	}
	r.add("K-RECORD/accessor", "returns-snapshot", f.Decl.Pos(), okFlow, "accessor %s does not return exactly the slice header it read under the lock (copied, re-sliced or re-assigned)", name)
}

func (r *Result) resetRules(mk *Mock, f *Func, fl *flow, facts []methodFacts, role string) {
	name := Abstract(f.Decl.Name.Name)
	evs := fl.allEvents()
	written := map[Path]int{}
	// ResetCalls may delegate: while it holds no lock of its own (it acquires none), a call of the same mock's
	// Reset<M>Calls clears what that function clears — which its own rules decide
	acquires := false
	for _, e := range evs {
		if e.kind == evAcquire {
			acquires = true
		}
	}
	delegated := map[*ast.CallExpr]Path{}
	if role == "reset-all" && !acquires {
		for _, e := range evs {
			if e.kind != evCall || e.call == nil {
				continue
			}
			sel, ok := ast.Unparen(e.call.Fun).(*ast.SelectorExpr)
			if !ok || len(e.call.Args) != 0 {
				continue
			}
			if rid, ok := ast.Unparen(sel.X).(*ast.Ident); !ok || f.Decl.Recv == nil || len(f.Decl.Recv.List) != 1 || len(f.Decl.Recv.List[0].Names) != 1 || rid.Name != f.Decl.Recv.List[0].Names[0].Name {
				continue
			}
			if rl, j := classify(sel.Sel.Name, mk.Info); rl == RoleReset && j >= 0 && j < len(facts) && facts[j].appendPath != "" {
				has := false
				for _, g := range mk.Funcs {
					if g.Decl.Name.Name == sel.Sel.Name {
						has = true
					}
				}
				if has {
					delegated[e.call] = facts[j].appendPath
				}
			}
		}
	}
	for _, e := range evs {
		switch e.kind {
		case evWrite:
			written[e.path]++
			r.add("K-RECORD/writers", role+":"+e.detail, nodePos(e.node), e.detail == "nil", "%s clears the record slice by %q, want `= nil` (re-slicing keeps the backing array that earlier snapshots share)  [%s]", name, e.detail, r.Unit.Excerpt(nodePos(e.node)))
		case evRead:
			r.add("K-RESET/frame", role+":read", nodePos(e.node), false, "%s reads a record slice (%s): a reset must not depend on the current content  [%s]", name, e.detail, r.Unit.Excerpt(nodePos(e.node)))
		case evCallback:
			r.add("K-CALLBACK/other-callers", role, nodePos(e.node), false, "%s invokes a configured function", name)
		case evCall:
			if p, ok := delegated[e.call]; ok {
				written[p]++
				continue
			}
			r.add("K-FLOW/calls", role, nodePos(e.node), false, "%s calls %s", name, Abstract(e.detail))
		}
	}
	want := map[Path]bool{}
	known := true
	for _, fa := range facts {
		if fa.appendPath == "" {
			known = false
		}
		want[fa.appendPath] = true
	}
	if !known {
		r.add("K-RESET/frame", role+":pairing", f.Decl.Pos(), false, "%s: cannot pair the reset with the slice its method appends to (the method has no single append)", name)
		return
	}
	okFrame := len(written) == len(want)
	for p := range want {
		if written[p] != 1 {
			okFrame = false
		}
	}
	var ws []string
	for p := range written {
		ws = append(ws, Abstract(string(p)))
	}
	sort.Strings(ws)
	r.add("K-RESET/frame", role+":exact", f.Decl.Pos(), okFrame, "%s writes %v; it must clear exactly the record slices of %d method(s), each once", name, ws, len(want))
	// unconditional: every path clears everything
	for p := range want {
		var node ast.Node
		for _, e := range evs {
			if e.kind == evWrite && e.path == p {
				node = e.node
			}
		}
		if node == nil {
			continue
		}
		_, exits := fl.explore(0, 0, cutSet{nodes: map[ast.Node]bool{node: true}})
		r.add("K-RESET/frame", role+":every-path", nodePos(node), len(exits) == 0, "%s can return without clearing %s", name, Abstract(string(p)))
	}
	r.add("K-FLOW/acyclic", role, f.Decl.Pos(), !fl.hasCycle(), "%s contains a loop", name)
}

// ---------------------------------------------------------------------
// K-NAMES: declared-name patterns of a mock's selector namespace (fields and
// methods share it) that can denote the same identifier for some interface.

type namePat struct {
	prefix, suffix string
	hasVar         bool
	what           string
}

func (p namePat) String() string {
	if !p.hasVar {
		return p.prefix
	}
	return p.prefix + "⟨M⟩" + p.suffix
}

// unifiable decides p1·X·s1 = p2·Y·s2 for non-empty identifiers X ≠ Y
// (respectively C = p·X·s for a constant C).
func unifiable(a, b namePat) (bool, string, string) {
	switch {
	case !a.hasVar && !b.hasVar:
		return false, "", "" // equal constants are a redeclaration the type checker reports
	case !a.hasVar:
		return unifiableConst(a.prefix, b)
	case !b.hasVar:
		ok, x, _ := unifiableConst(b.prefix, a)
		return ok, x, ""
	}
	var p, q string // the longer prefix = shorter prefix + p (on side a: a.prefix = b.prefix+p) ...
	switch {
	case strings.HasPrefix(a.prefix, b.prefix):
		p = strings.TrimPrefix(a.prefix, b.prefix) // Y = p·X...
	case strings.HasPrefix(b.prefix, a.prefix):
		q = strings.TrimPrefix(b.prefix, a.prefix) // X = q·Y...
	default:
		return false, "", ""
	}
	var s, t string
	switch {
	case strings.HasSuffix(a.suffix, b.suffix):
		s = strings.TrimSuffix(a.suffix, b.suffix) // Y ends with s
	case strings.HasSuffix(b.suffix, a.suffix):
		t = strings.TrimSuffix(b.suffix, a.suffix) // X ends with t
	default:
		return false, "", ""
	}
	if p == "" && q == "" && s == "" && t == "" {
		return false, "", ""
	}
	// X = q·W·t , Y = p·W·s with a filler W making both non-empty and different
	w := ""
	if q+t == "" || p+s == "" {
		w = "A"
	}
	x, y := q+w+t, p+w+s
	if x == y {
		w = "A" + w
		x, y = q+w+t, p+w+s
	}
	return true, x, y
}

func unifiableConst(c string, b namePat) (bool, string, string) {
	if strings.HasPrefix(c, b.prefix) && strings.HasSuffix(c, b.suffix) && len(c) > len(b.prefix)+len(b.suffix) {
		return true, "", c[len(b.prefix) : len(c)-len(b.suffix)]
	}
	return false, "", ""
}

// nameRules reports the unifiable pattern pairs of a mock's selector namespace.
func (r *Result) nameRules(mk *Mock) {
	if mk.Struct == nil || len(mk.Info.Methods) < 2 {
		return
	}
	decode := func(name, what string) namePat {
		for _, me := range mk.Info.Methods {
			if i := strings.Index(name, me.Name); i >= 0 {
				return namePat{prefix: name[:i], suffix: name[i+len(me.Name):], hasVar: true, what: what}
			}
		}
		return namePat{prefix: name, what: what}
	}
	seen := map[string]namePat{}
	for i := 0; i < mk.Struct.NumFields(); i++ {
		p := decode(mk.Struct.Field(i).Name(), "field")
		seen[p.String()] = p
	}
	for _, f := range mk.Funcs {
		p := decode(f.Decl.Name.Name, "method")
		seen[p.String()] = p
	}
	var keys []string
	for k := range seen {
		keys = append(keys, k)
	}
	sort.Strings(keys)
	for i, ka := range keys {
		for _, kb := range keys[i+1:] {
			a, b := seen[ka], seen[kb]
			ok, x, y := unifiable(a, b)
			wit := ""
			if ok {
				wit = fmt.Sprintf("an interface with methods named %q and %q", x, y)
				if x == "" {
					wit = fmt.Sprintf("an interface with a method named %q", y)
				} else if y == "" {
					wit = fmt.Sprintf("an interface with a method named %q", x)
				}
			}
			r.add("K-NAMES/unifiable", ka+"~"+kb, mk.Spec.Pos(), !ok, "the generated %s %s and %s %s denote the same identifier for %s: the mock type then declares it twice and does not compile", a.what, ka, b.what, kb, wit)
		}
	}
}
