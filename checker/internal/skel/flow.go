package skel

import (
	"fmt"
	"go/ast"
	"go/token"
	"go/types"
	"sort"
	"strings"

	"golang.org/x/tools/go/cfg"
)

type evKind int

const (
	evAcquire evKind = iota
	evRelease
	evRead       // read of a record storage path
	evWrite      // write of a record storage path
	evCallback   // call through a func-typed field of the receiver
	evCall       // any other call
	evBuiltin    // call of a builtin
	evDefer      // defer statement (detail: what is deferred)
	evGo         // go statement
	evFuncLit    // function literal
	evEscape     // the receiver's storage escapes (address taken, struct copied, slice aliased)
	evChan       // channel operation / select
	evParamWrite // assignment to / address of a parameter
)

type event struct {
	kind   evKind
	path   Path
	mode   byte   // 'W' or 'R' for lock events
	detail string // builtin name, callee, write kind
	node   ast.Node
	call   *ast.CallExpr
	block  int
	index  int // node index inside the block
}

// fn is the flow view of one function.
type flow struct {
	u      *Unit
	f      *Func
	g      *cfg.CFG
	events [][]event // per block, in order
	params map[*types.Var]int
	// elemAlias: locals defined as `p := &S[i]` for a record slice S of the receiver: a read or write through
	// p is a read or write of S (judged by the locks held where it happens)
	elemAlias map[types.Object]Path
}

func (u *Unit) newFlow(f *Func) *flow {
	fl := &flow{u: u, f: f, params: map[*types.Var]int{}}
	mayReturn := func(c *ast.CallExpr) bool {
		if id, ok := ast.Unparen(c.Fun).(*ast.Ident); ok {
			if b, ok := u.Info.Uses[id].(*types.Builtin); ok && b.Name() == "panic" {
				return false
			}
		}
		return true
	}
	fl.g = cfg.New(f.Decl.Body, mayReturn)
	fl.elemAlias = map[types.Object]Path{}
	ast.Inspect(f.Decl.Body, func(n ast.Node) bool {
		as, ok := n.(*ast.AssignStmt)
		if !ok || len(as.Lhs) != len(as.Rhs) {
			return true
		}
		for i, r := range as.Rhs {
			ue, ok := ast.Unparen(r).(*ast.UnaryExpr)
			if !ok || ue.Op != token.AND {
				continue
			}
			ix, ok := ast.Unparen(ue.X).(*ast.IndexExpr)
			if !ok {
				continue
			}
			sp, ok := fl.isStorage(ix.X)
			if !ok {
				continue
			}
			if id, ok := ast.Unparen(as.Lhs[i]).(*ast.Ident); ok {
				if o := u.Info.ObjectOf(id); o != nil {
					fl.elemAlias[o] = sp
				}
			}
		}
		return true
	})
	if f.Decl.Type.Params != nil {
		i := 0
		for _, fld := range f.Decl.Type.Params.List {
			for _, n := range fld.Names {
				if v, ok := u.Info.Defs[n].(*types.Var); ok {
					fl.params[v] = i
				}
				i++
			}
		}
	}
	fl.events = make([][]event, len(fl.g.Blocks))
	for bi, b := range fl.g.Blocks {
		if !b.Live {
			continue
		}
		for ni, n := range b.Nodes {
			evs := fl.collect(n)
			for i := range evs {
				evs[i].block, evs[i].index = bi, ni
			}
			fl.events[bi] = append(fl.events[bi], evs...)
		}
	}
	return fl
}

func (fl *flow) isStorage(e ast.Expr) (Path, bool) {
	p, ok := fl.u.recvPath(e, fl.f.Recv)
	if !ok || p == "recv" {
		return "", false
	}
	t := fl.u.Info.TypeOf(e)
	if t == nil {
		return "", false
	}
	if _, ok := t.Underlying().(*types.Slice); ok {
		return p, true
	}
	return "", false
}

// collect lists the events of one CFG node in evaluation order.
func (fl *flow) collect(n ast.Node) []event {
	u := fl.u
	var out []event
	add := func(e event) { out = append(out, e) }
	var visitExpr func(e ast.Expr)
	var visitStmt func(s ast.Stmt)
	classifyWrite := func(lhs ast.Expr, lp Path, rhs ast.Expr) string {
		if rhs == nil {
			return "other"
		}
		r := ast.Unparen(rhs)
		if id, ok := r.(*ast.Ident); ok {
			if _, isNil := u.Info.Uses[id].(*types.Nil); isNil {
				return "nil"
			}
		}
		if c, ok := r.(*ast.CallExpr); ok {
			if id, ok := ast.Unparen(c.Fun).(*ast.Ident); ok {
				if b, ok := u.Info.Uses[id].(*types.Builtin); ok && b.Name() == "append" {
					if len(c.Args) == 2 && !c.Ellipsis.IsValid() {
						if ap, ok := fl.isStorage(c.Args[0]); ok && ap == lp {
							return "append1"
						}
					}
					return "append-other"
				}
			}
		}
		return "other"
	}
	visitCall := func(c *ast.CallExpr) {
		// conversion?
		if tv, ok := u.Info.Types[c.Fun]; ok && tv.IsType() {
			for _, a := range c.Args {
				visitExpr(a)
			}
			return
		}
		fun := ast.Unparen(c.Fun)
		if id, ok := fun.(*ast.Ident); ok {
			if b, ok := u.Info.Uses[id].(*types.Builtin); ok {
				for i, a := range c.Args {
					// storage passed to a builtin other than append(S, x)'s first operand / len / cap is an escape
					if sp, ok := fl.isStorage(a); ok {
						switch {
						case b.Name() == "append" && i == 0, b.Name() == "len", b.Name() == "cap":
							add(event{kind: evRead, path: sp, node: a, detail: b.Name()})
						default:
							add(event{kind: evEscape, path: sp, node: a, detail: "storage passed to builtin " + b.Name()})
						}
						continue
					}
					visitExpr(a)
				}
				add(event{kind: evBuiltin, detail: b.Name(), node: c, call: c})
				return
			}
		}
		if sel, ok := fun.(*ast.SelectorExpr); ok {
			if s, ok := u.Info.Selections[sel]; ok && s.Kind() == types.MethodVal {
				if lp, ok := u.recvPath(sel.X, fl.f.Recv); ok && isRWMutex(derefType(u.Info.TypeOf(sel.X))) {
					for _, a := range c.Args {
						visitExpr(a)
					}
					switch sel.Sel.Name {
					case "Lock":
						add(event{kind: evAcquire, path: lp, mode: 'W', node: c, call: c})
					case "RLock":
						add(event{kind: evAcquire, path: lp, mode: 'R', node: c, call: c})
					case "Unlock":
						add(event{kind: evRelease, path: lp, mode: 'W', node: c, call: c})
					case "RUnlock":
						add(event{kind: evRelease, path: lp, mode: 'R', node: c, call: c})
					default:
						add(event{kind: evCall, detail: "sync." + sel.Sel.Name + " on " + string(lp), node: c, call: c})
					}
					return
				}
			}
		}
		// a method of the mock called on the receiver (mock.ResetXCalls(), mock.XCalls() ...)
		if sel, ok := fun.(*ast.SelectorExpr); ok {
			if s, ok := u.Info.Selections[sel]; ok && s.Kind() == types.MethodVal {
				if rp, ok := u.recvPath(sel.X, fl.f.Recv); ok && rp == "recv" {
					for _, a := range c.Args {
						visitExpr(a)
					}
					add(event{kind: evCall, detail: "method " + sel.Sel.Name + " of the same mock (it takes locks itself)", node: c, call: c})
					return
				}
			}
		}
		// call through a func-typed field of the receiver
		if fp, ok := u.recvPath(fun, fl.f.Recv); ok && fp != "recv" {
			if _, isSig := u.Info.TypeOf(fun).Underlying().(*types.Signature); isSig {
				for _, a := range c.Args {
					visitExpr(a)
				}
				add(event{kind: evCallback, path: fp, node: c, call: c})
				return
			}
		}
		visitExpr(c.Fun)
		for _, a := range c.Args {
			if sp, ok := fl.isStorage(a); ok {
				add(event{kind: evEscape, path: sp, node: a, detail: "storage passed to a function"})
				continue
			}
			visitExpr(a)
		}
		add(event{kind: evCall, detail: types.ExprString(c.Fun), node: c, call: c})
	}
	visitExpr = func(e ast.Expr) {
		if e == nil {
			return
		}
		switch x := e.(type) {
		case *ast.ParenExpr:
			visitExpr(x.X)
		case *ast.FuncLit:
			add(event{kind: evFuncLit, node: x})
		case *ast.CallExpr:
			visitCall(x)
		case *ast.UnaryExpr:
			if x.Op == token.AND {
				if sp, ok := fl.isStorage(x.X); ok {
					add(event{kind: evEscape, path: sp, node: x, detail: "address of storage taken"})
					return
				}
				if p, ok := u.recvPath(x.X, fl.f.Recv); ok && p != "recv" {
					if !isRWMutex(u.Info.TypeOf(x.X)) {
						add(event{kind: evEscape, path: p, node: x, detail: "address of receiver field taken"})
						return
					}
				}
				if id, ok := ast.Unparen(x.X).(*ast.Ident); ok {
					if v, ok := u.Info.ObjectOf(id).(*types.Var); ok {
						if _, isParam := fl.params[v]; isParam {
							add(event{kind: evParamWrite, node: x, detail: "address of parameter " + id.Name + " taken"})
						}
					}
				}
			}
			if x.Op == token.ARROW {
				add(event{kind: evChan, node: x, detail: "channel receive"})
			}
			visitExpr(x.X)
		case *ast.StarExpr:
			if id, ok := ast.Unparen(x.X).(*ast.Ident); ok && fl.f.Recv != nil && u.Info.ObjectOf(id) == fl.f.Recv {
				add(event{kind: evEscape, path: "recv", node: x, detail: "the whole mock is copied (*receiver)"})
				return
			}
			if id, ok := ast.Unparen(x.X).(*ast.Ident); ok {
				if sp, ok := fl.elemAlias[u.Info.ObjectOf(id)]; ok {
					add(event{kind: evRead, path: sp, node: x, detail: "element through a pointer"})
					return
				}
			}
			visitExpr(x.X)
		case *ast.BinaryExpr:
			visitExpr(x.X)
			visitExpr(x.Y)
		case *ast.SelectorExpr:
			if sp, ok := fl.isStorage(x); ok {
				add(event{kind: evRead, path: sp, node: x, detail: "value"})
				return
			}
			if id, ok := ast.Unparen(x.X).(*ast.Ident); ok {
				if sp, ok := fl.elemAlias[u.Info.ObjectOf(id)]; ok {
					add(event{kind: evRead, path: sp, node: x, detail: "element through a pointer"})
					return
				}
			}
			// a struct-typed receiver field used as a whole value (not as the operand of a further selection)
			if p, ok := u.recvPath(x, fl.f.Recv); ok && p != "recv" {
				t := u.Info.TypeOf(x)
				if _, isStruct := t.Underlying().(*types.Struct); isStruct && !isRWMutex(t) {
					add(event{kind: evEscape, path: p, node: x, detail: "receiver struct field copied as a whole"})
				}
				return
			}
			visitExpr(x.X)
		case *ast.IndexExpr:
			if sp, ok := fl.isStorage(x.X); ok {
				add(event{kind: evRead, path: sp, node: x, detail: "index"})
				visitExpr(x.Index)
				return
			}
			visitExpr(x.X)
			visitExpr(x.Index)
		case *ast.SliceExpr:
			if sp, ok := fl.isStorage(x.X); ok {
				add(event{kind: evRead, path: sp, node: x, detail: "slice"})
			} else {
				visitExpr(x.X)
			}
			visitExpr(x.Low)
			visitExpr(x.High)
			visitExpr(x.Max)
		case *ast.CompositeLit:
			for _, el := range x.Elts {
				if kv, ok := el.(*ast.KeyValueExpr); ok {
					visitExpr(kv.Value)
				} else {
					visitExpr(el)
				}
			}
		case *ast.KeyValueExpr:
			visitExpr(x.Value)
		case *ast.TypeAssertExpr:
			visitExpr(x.X)
		case *ast.Ident, *ast.BasicLit:
		}
	}
	// selection of a sub-field of storage-bearing struct: handled in SelectorExpr via isStorage on the full chain;
	// the X of a selector chain must not be visited separately, so SelectorExpr with a non-storage recvPath
	// descends only when it is not receiver rooted (done above).
	visitStmt = func(s ast.Stmt) {
		switch s := s.(type) {
		case *ast.AssignStmt:
			for _, r := range s.Rhs {
				visitExpr(r)
			}
			for i, l := range s.Lhs {
				lu := ast.Unparen(l)
				if sp, ok := fl.isStorage(lu); ok {
					var rhs ast.Expr
					if len(s.Rhs) == len(s.Lhs) {
						rhs = s.Rhs[i]
					}
					kind := "other"
					if s.Tok == token.ASSIGN {
						kind = classifyWrite(lu, sp, rhs)
					}
					add(event{kind: evWrite, path: sp, node: s, detail: kind})
					continue
				}
				if ix, ok := lu.(*ast.IndexExpr); ok {
					if sp, ok := fl.isStorage(ix.X); ok {
						add(event{kind: evWrite, path: sp, node: s, detail: "index-assign"})
						visitExpr(ix.Index)
						continue
					}
				}
				if se, ok := lu.(*ast.SelectorExpr); ok {
					if id, ok := ast.Unparen(se.X).(*ast.Ident); ok {
						if sp, ok := fl.elemAlias[u.Info.ObjectOf(id)]; ok {
							add(event{kind: evWrite, path: sp, node: s, detail: "element-through-pointer"})
							continue
						}
					}
				}
				if st, ok := lu.(*ast.StarExpr); ok {
					if id, ok := ast.Unparen(st.X).(*ast.Ident); ok {
						if sp, ok := fl.elemAlias[u.Info.ObjectOf(id)]; ok {
							add(event{kind: evWrite, path: sp, node: s, detail: "element-through-pointer"})
							continue
						}
					}
				}
				if se, ok := lu.(*ast.SelectorExpr); ok {
					// field of an element or of the storage struct
					if p, ok := u.recvPath(se, fl.f.Recv); ok && p != "recv" {
						if _, isSig := u.Info.TypeOf(se).Underlying().(*types.Signature); isSig {
							add(event{kind: evEscape, path: p, node: s, detail: "generated code assigns a function field"})
						} else {
							add(event{kind: evEscape, path: p, node: s, detail: "assignment to a receiver field that is not a record slice"})
						}
						continue
					}
				}
				if id, ok := lu.(*ast.Ident); ok {
					if v, ok := u.Info.ObjectOf(id).(*types.Var); ok {
						if _, isParam := fl.params[v]; isParam {
							add(event{kind: evParamWrite, node: s, detail: "assignment to parameter " + id.Name})
						}
					}
					continue
				}
				visitExpr(lu)
			}
		case *ast.IncDecStmt:
			visitExpr(s.X)
		case *ast.ExprStmt:
			visitExpr(s.X)
		case *ast.ReturnStmt:
			for _, r := range s.Results {
				visitExpr(r)
			}
		case *ast.DeclStmt:
			if gd, ok := s.Decl.(*ast.GenDecl); ok {
				for _, sp := range gd.Specs {
					if vs, ok := sp.(*ast.ValueSpec); ok {
						for _, v := range vs.Values {
							visitExpr(v)
						}
					}
				}
			}
		case *ast.DeferStmt:
			inner := fl.collect(&ast.ExprStmt{X: s.Call})
			detail := "other"
			var path Path
			var mode byte
			for _, e := range inner {
				if e.kind == evRelease {
					detail, path, mode = "release", e.path, e.mode
				} else if e.kind == evAcquire {
					detail, path, mode = "acquire", e.path, e.mode
				} else if e.kind == evCallback {
					detail, path = "callback", e.path
				}
			}
			add(event{kind: evDefer, node: s, detail: detail, path: path, mode: mode, call: s.Call})
		case *ast.GoStmt:
			add(event{kind: evGo, node: s, call: s.Call})
		case *ast.SendStmt:
			add(event{kind: evChan, node: s, detail: "channel send"})
			visitExpr(s.Chan)
			visitExpr(s.Value)
		case *ast.SelectStmt:
			add(event{kind: evChan, node: s, detail: "select"})
		case *ast.RangeStmt:
			// go/cfg places the range operand as an expression node; nothing here
		}
	}
	switch n := n.(type) {
	case ast.Stmt:
		visitStmt(n)
	case ast.Expr:
		visitExpr(n)
	case *ast.ValueSpec:
		for _, v := range n.Values {
			visitExpr(v)
		}
	}
	for i := range out {
		if out[i].node == nil {
			out[i].node = n
		}
	}
	return out
}

func derefType(t types.Type) types.Type {
	if t == nil {
		return nil
	}
	if p, ok := t.Underlying().(*types.Pointer); ok {
		return p.Elem()
	}
	return t
}

// ---------------------------------------------------------------------
// lockset dataflow

type lockState struct {
	must map[string]bool // path/mode held on every path
	may  map[string]bool // held on some path
}

func (s lockState) clone() lockState {
	n := lockState{must: map[string]bool{}, may: map[string]bool{}}
	for k := range s.must {
		n.must[k] = true
	}
	for k := range s.may {
		n.may[k] = true
	}
	return n
}

func setStr(m map[string]bool) string {
	var ks []string
	for k := range m {
		ks = append(ks, k)
	}
	sort.Strings(ks)
	return "{" + strings.Join(ks, ", ") + "}"
}

// access is a storage access together with the locks certainly held.
type access struct {
	ev   event
	held map[string]bool
}

type lockResult struct {
	accesses []access
	problems []problem
	atEvent  map[*ast.CallExpr]lockState // lock state just before callback events
	deferred map[string]bool             // locks released by defer
}

type problem struct {
	rule, key, msg string
	node           ast.Node
	path           []string
}

func (fl *flow) lockset() *lockResult {
	res := &lockResult{atEvent: map[*ast.CallExpr]lockState{}, deferred: map[string]bool{}}
	g := fl.g
	for bi := range g.Blocks {
		for _, e := range fl.events[bi] {
			if e.kind == evDefer && e.detail == "release" {
				res.deferred[string(e.path)+"/"+string(e.mode)] = true
			}
		}
	}
	in := make([]*lockState, len(g.Blocks))
	if len(g.Blocks) == 0 {
		return res
	}
	start := lockState{must: map[string]bool{}, may: map[string]bool{}}
	in[0] = &start
	work := []int{0}
	transfer := func(bi int, st lockState, report bool) lockState {
		st = st.clone()
		for _, e := range fl.events[bi] {
			key := string(e.path) + "/" + string(e.mode)
			switch e.kind {
			case evAcquire:
				if report && len(st.may) > 0 {
					res.problems = append(res.problems, problem{"K-LOCK/nested", "nested", fmt.Sprintf("lock %s acquired while %s may be held: nested locking can deadlock against another order or against itself", e.path, setStr(st.may)), e.node, nil})
				}
				st.must[key] = true
				st.may[key] = true
			case evRelease:
				if report && !st.must[key] {
					res.problems = append(res.problems, problem{"K-LOCK/unbalanced", "release-not-held", fmt.Sprintf("%s released (mode %c) but it is not held in that mode on every path here (held: %s)", e.path, e.mode, setStr(st.must)), e.node, nil})
				}
				delete(st.must, key)
				delete(st.may, key)
			case evRead, evWrite:
				if report {
					h := map[string]bool{}
					for k := range st.must {
						h[k] = true
					}
					res.accesses = append(res.accesses, access{ev: e, held: h})
				}
			case evCallback:
				if report {
					res.atEvent[e.call] = st.clone()
					if len(st.may) > 0 {
						res.problems = append(res.problems, problem{"K-LOCK/held-at-callback", "callback-in-cs", fmt.Sprintf("a configured function is invoked while %s may be held", setStr(st.may)), e.node, nil})
					}
				}
			case evCall, evGo, evChan, evFuncLit:
				if report && len(st.may) > 0 {
					what := e.detail
					if e.kind == evGo {
						what = "go statement"
					}
					res.problems = append(res.problems, problem{"K-LOCK/call-in-critical-section", "call-in-cs", fmt.Sprintf("%s while %s may be held: a critical section must contain nothing that can block or run foreign code", what, setStr(st.may)), e.node, nil})
				}
			case evBuiltin:
				if report && len(st.may) > 0 && e.detail != "append" && e.detail != "len" && e.detail != "cap" {
					res.problems = append(res.problems, problem{"K-LOCK/call-in-critical-section", "builtin-in-cs", fmt.Sprintf("builtin %s while %s may be held", e.detail, setStr(st.may)), e.node, nil})
				}
			}
		}
		return st
	}
	iter := 0
	for len(work) > 0 && iter < 10000 {
		iter++
		bi := work[len(work)-1]
		work = work[:len(work)-1]
		out := transfer(bi, *in[bi], false)
		for _, s := range g.Blocks[bi].Succs {
			si := int(s.Index)
			if in[si] == nil {
				c := out.clone()
				in[si] = &c
				work = append(work, si)
				continue
			}
			changed := false
			for k := range in[si].must {
				if !out.must[k] {
					delete(in[si].must, k)
					changed = true
				}
			}
			for k := range out.may {
				if !in[si].may[k] {
					in[si].may[k] = true
					changed = true
				}
			}
			if changed {
				work = append(work, si)
			}
		}
	}
	// report pass
	for bi, b := range g.Blocks {
		if in[bi] == nil {
			continue
		}
		out := transfer(bi, *in[bi], true)
		if len(b.Succs) == 0 {
			left := map[string]bool{}
			for k := range out.may {
				if !res.deferred[k] {
					left[k] = true
				}
			}
			if len(left) > 0 {
				var n ast.Node = fl.f.Decl
				if len(b.Nodes) > 0 {
					n = b.Nodes[len(b.Nodes)-1]
				}
				res.problems = append(res.problems, problem{"K-LOCK/held-at-exit", "held-at-exit", fmt.Sprintf("function can exit with %s still held", setStr(left)), n, nil})
			}
		}
		// loop inside critical section: a back edge whose source holds a lock
		for _, s := range b.Succs {
			if int(s.Index) <= bi && len(out.may) > 0 && fl.reaches(int(s.Index), bi) {
				var n ast.Node = fl.f.Decl
				if len(b.Nodes) > 0 {
					n = b.Nodes[len(b.Nodes)-1]
				}
				res.problems = append(res.problems, problem{"K-LOCK/loop-in-critical-section", "loop-in-cs", fmt.Sprintf("loop while %s may be held", setStr(out.may)), n, nil})
			}
		}
	}
	return res
}

func (fl *flow) reaches(from, to int) bool {
	seen := map[int]bool{}
	var dfs func(int) bool
	dfs = func(i int) bool {
		if i == to {
			return true
		}
		if seen[i] {
			return false
		}
		seen[i] = true
		for _, s := range fl.g.Blocks[i].Succs {
			if dfs(int(s.Index)) {
				return true
			}
		}
		return false
	}
	return dfs(from)
}

// hasCycle reports whether the live CFG has a cycle.
func (fl *flow) hasCycle() bool {
	color := map[int]int{}
	var dfs func(int) bool
	dfs = func(i int) bool {
		color[i] = 1
		for _, s := range fl.g.Blocks[i].Succs {
			si := int(s.Index)
			if color[si] == 1 {
				return true
			}
			if color[si] == 0 && dfs(si) {
				return true
			}
		}
		color[i] = 2
		return false
	}
	if len(fl.g.Blocks) == 0 {
		return false
	}
	return dfs(0)
}

// ---------------------------------------------------------------------
// path queries with cuts

type exitKind int

const (
	exitReturn exitKind = iota
	exitPanic
	exitFallOff
)

type exitInfo struct {
	kind  exitKind
	block int
	node  ast.Node
}

type cutSet struct {
	nodes map[ast.Node]bool // reaching one of these nodes stops the path (the node itself is not "passed")
	edges map[[2]int]bool   // block -> successor edges removed
}

// explore walks the CFG from (block, index) and returns the events passed and exits reached.
func (fl *flow) explore(startBlock, startIndex int, cuts cutSet) (passed []event, exits []exitInfo) {
	type pt struct{ b, i int }
	seen := map[pt]bool{}
	var walk func(b, i int)
	walk = func(b, i int) {
		if seen[pt{b, i}] {
			return
		}
		seen[pt{b, i}] = true
		blk := fl.g.Blocks[b]
		for ni := i; ni < len(blk.Nodes); ni++ {
			if cuts.nodes[blk.Nodes[ni]] {
				return
			}
			stop := false
			for _, e := range fl.events[b] {
				if e.index == ni {
					if e.call != nil && cuts.nodes[e.call] || cuts.nodes[e.node] {
						stop = true
						break
					}
					passed = append(passed, e)
				}
			}
			if stop {
				return
			}
		}
		if len(blk.Succs) == 0 {
			k := exitFallOff
			var last ast.Node
			if len(blk.Nodes) > 0 {
				last = blk.Nodes[len(blk.Nodes)-1]
				switch l := last.(type) {
				case *ast.ReturnStmt:
					k = exitReturn
				case *ast.ExprStmt:
					if c, ok := l.X.(*ast.CallExpr); ok && fl.isPanic(c) {
						k = exitPanic
					}
				case *ast.CallExpr:
					if fl.isPanic(l) {
						k = exitPanic
					}
				}
			}
			exits = append(exits, exitInfo{k, b, last})
			return
		}
		for _, s := range blk.Succs {
			if cuts.edges[[2]int{b, int(s.Index)}] {
				continue
			}
			walk(int(s.Index), 0)
		}
	}
	walk(startBlock, startIndex)
	return
}

func (fl *flow) isPanic(c *ast.CallExpr) bool {
	if id, ok := ast.Unparen(c.Fun).(*ast.Ident); ok {
		if b, ok := fl.u.Info.Uses[id].(*types.Builtin); ok && b.Name() == "panic" {
			return true
		}
	}
	return false
}

// nilTest describes a block ending in a comparison of a receiver func field with nil.
type nilTest struct {
	block   int
	path    Path
	cond    ast.Expr
	nilSucc int // successor taken when the field is nil
	setSucc int // successor taken when it is not nil
}

func (fl *flow) nilTests() []nilTest {
	var out []nilTest
	for bi, b := range fl.g.Blocks {
		if !b.Live || len(b.Succs) != 2 || len(b.Nodes) == 0 {
			continue
		}
		cond, ok := b.Nodes[len(b.Nodes)-1].(ast.Expr)
		if !ok {
			continue
		}
		be, ok := ast.Unparen(cond).(*ast.BinaryExpr)
		if !ok || (be.Op != token.EQL && be.Op != token.NEQ) {
			continue
		}
		var other ast.Expr
		if fl.isNil(be.X) {
			other = be.Y
		} else if fl.isNil(be.Y) {
			other = be.X
		} else {
			continue
		}
		p, ok := fl.u.recvPath(other, fl.f.Recv)
		if !ok {
			continue
		}
		if _, isSig := fl.u.Info.TypeOf(other).Underlying().(*types.Signature); !isSig {
			continue
		}
		nt := nilTest{block: bi, path: p, cond: cond}
		if be.Op == token.EQL {
			nt.nilSucc, nt.setSucc = int(b.Succs[0].Index), int(b.Succs[1].Index)
		} else {
			nt.nilSucc, nt.setSucc = int(b.Succs[1].Index), int(b.Succs[0].Index)
		}
		out = append(out, nt)
	}
	return out
}

func (fl *flow) isNil(e ast.Expr) bool {
	id, ok := ast.Unparen(e).(*ast.Ident)
	if !ok {
		return false
	}
	_, isNil := fl.u.Info.Uses[id].(*types.Nil)
	return isNil
}

func (fl *flow) allEvents() []event {
	var out []event
	for bi := range fl.events {
		out = append(out, fl.events[bi]...)
	}
	return out
}
