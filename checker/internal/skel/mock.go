package skel

import (
	"go/ast"
	"go/token"
	"go/types"
	"strings"

	"verif/checker/internal/tmpl"
)

// Role of a method declared on a mock type.
type Role int

const (
	RoleMethod   Role = iota // M: the interface method
	RoleAccessor             // MCalls
	RoleReset                // ResetMCalls
	RoleResetAll             // ResetCalls
	RoleUnknown
)

func (r Role) String() string {
	return [...]string{"method", "accessor", "reset", "reset-all", "unexpected"}[r]
}

// Func is a function declared with a mock receiver.
type Func struct {
	Decl   *ast.FuncDecl
	Obj    *types.Func
	Role   Role
	Method int // index into MockInfo.Methods for method/accessor/reset, else -1
	Recv   *types.Var
}

// Mock is the analysed structure of one generated mock type.
type Mock struct {
	Info   *tmpl.MockInfo
	Index  int
	Spec   *ast.TypeSpec
	Obj    *types.TypeName
	Struct *types.Struct
	Funcs  []*Func
}

// classify decodes a method name against the model's method tokens.
func classify(name string, mi *tmpl.MockInfo) (Role, int) {
	if name == "ResetCalls" {
		return RoleResetAll, -1
	}
	for j, me := range mi.Methods {
		switch name {
		case me.Name:
			return RoleMethod, j
		case me.Name + "Calls":
			return RoleAccessor, j
		case "Reset" + me.Name + "Calls":
			return RoleReset, j
		}
	}
	return RoleUnknown, -1
}

// Mocks extracts the mock types of the unit in declaration order.
func (u *Unit) Mocks() []*Mock {
	var out []*Mock
	byName := map[string]*Mock{}
	for _, d := range u.File.Decls {
		gd, ok := d.(*ast.GenDecl)
		if !ok || gd.Tok != token.TYPE {
			continue
		}
		for _, sp := range gd.Specs {
			ts := sp.(*ast.TypeSpec)
			for i := range u.Model.Mocks {
				mi := &u.Model.Mocks[i]
				if ts.Name.Name != mi.MockName {
					continue
				}
				tn, _ := u.Info.Defs[ts.Name].(*types.TypeName)
				if tn == nil {
					continue
				}
				st, _ := tn.Type().Underlying().(*types.Struct)
				mk := &Mock{Info: mi, Index: i, Spec: ts, Obj: tn, Struct: st}
				out = append(out, mk)
				byName[mi.MockName] = mk
			}
		}
	}
	for _, d := range u.File.Decls {
		fd, ok := d.(*ast.FuncDecl)
		if !ok || fd.Recv == nil || len(fd.Recv.List) != 1 {
			continue
		}
		mk := byName[recvBaseName(fd.Recv.List[0].Type)]
		if mk == nil {
			continue
		}
		fn, _ := u.Info.Defs[fd.Name].(*types.Func)
		f := &Func{Decl: fd, Obj: fn}
		f.Role, f.Method = classify(fd.Name.Name, mk.Info)
		if len(fd.Recv.List[0].Names) == 1 {
			f.Recv, _ = u.Info.Defs[fd.Recv.List[0].Names[0]].(*types.Var)
		}
		mk.Funcs = append(mk.Funcs, f)
	}
	return out
}

func recvBaseName(e ast.Expr) string {
	for {
		switch x := e.(type) {
		case *ast.StarExpr:
			e = x.X
		case *ast.ParenExpr:
			e = x.X
		case *ast.IndexExpr:
			e = x.X
		case *ast.IndexListExpr:
			e = x.X
		case *ast.Ident:
			return x.Name
		default:
			return ""
		}
	}
}

// Path is a selector chain rooted at the receiver: mock.a.b
type Path string

// recvPath returns the selector chain of e when it is rooted at recv.
func (u *Unit) recvPath(e ast.Expr, recv *types.Var) (Path, bool) {
	var names []string
	for {
		switch x := ast.Unparen(e).(type) {
		case *ast.SelectorExpr:
			if _, ok := u.Info.Selections[x]; !ok {
				return "", false
			}
			names = append([]string{x.Sel.Name}, names...)
			e = x.X
		case *ast.Ident:
			if recv != nil && u.Info.ObjectOf(x) == recv {
				p := "recv"
				for _, n := range names {
					p += "." + n
				}
				return Path(p), true
			}
			return "", false
		case *ast.StarExpr:
			e = x.X
		default:
			return "", false
		}
	}
}

func isRWMutex(t types.Type) bool {
	n, ok := types.Unalias(t).(*types.Named)
	if !ok || n.Obj().Pkg() == nil {
		return false
	}
	return n.Obj().Pkg().Path() == "sync" && (n.Obj().Name() == "RWMutex" || n.Obj().Name() == "Mutex")
}

// FreeNames lists the fixed identifiers (no token inside) a generated method
// must still resolve from inside its parameters' scope: universe objects it
// uses and names it declares itself next to the parameters (K-FREE).
func (u *Unit) FreeNames() map[string]string {
	out := map[string]string{}
	if u.Info == nil || u.File == nil {
		return out
	}
	for _, mk := range u.Mocks() {
		for _, f := range mk.Funcs {
			if f.Role != RoleMethod || f.Decl.Body == nil {
				continue
			}
			params := map[types.Object]bool{}
			if f.Decl.Type.Params != nil {
				for _, fl := range f.Decl.Type.Params.List {
					for _, n := range fl.Names {
						params[u.Info.Defs[n]] = true
					}
				}
			}
			ast.Inspect(f.Decl, func(n ast.Node) bool {
				id, ok := n.(*ast.Ident)
				if !ok || strings.ContainsAny(id.Name, tmpl.TokEnd) {
					return true
				}
				if o := u.Info.Uses[id]; o != nil && o.Parent() == types.Universe {
					// only uses inside the body or the signature's types count
					if _, isType := o.(*types.TypeName); !isType {
						out[id.Name] = "predeclared " + id.Name + " used by the generated body"
					}
				}
				if o := u.Info.Defs[id]; o != nil && !params[o] {
					if v, ok := o.(*types.Var); ok && !v.IsField() && id.Name != "_" {
						out[id.Name] = "declared by the generated method itself (" + id.Name + ")"
					}
				}
				return true
			})
		}
	}
	return out
}
