// Package skel analyses skeletons: Go program schemas produced by abstract
// expansion of moq's template, type-checked together with an independently
// declared interface and placeholder packages.
package skel

import (
	"fmt"
	"go/ast"
	"go/parser"
	"go/token"
	"go/types"
	"strings"

	"verif/checker/internal/load"
	"verif/checker/internal/tmpl"
)

// Unit is a type-checked skeleton.
type Unit struct {
	Sk       *tmpl.Skeleton
	Model    *tmpl.Model
	Fset     *token.FileSet
	File     *ast.File // the skeleton file
	Iface    *ast.File // the independent interface declarations
	Pkg      *types.Package
	SrcPkg   *types.Package // == Pkg when in place
	Info     *types.Info
	ParseErr error
	TypeErrs []types.Error
	skelName string
}

type mapImporter map[string]*types.Package

func (m mapImporter) Import(path string) (*types.Package, error) {
	if p, ok := m[path]; ok {
		return p, nil
	}
	return nil, fmt.Errorf("skeleton imports %q, which is not part of the abstract environment", path)
}

func depSource(name string, typs []string) string {
	var b strings.Builder
	fmt.Fprintf(&b, "package %s\n\n", name)
	for _, t := range typs {
		fmt.Fprintf(&b, "type %s struct{ X int }\n", t)
	}
	return b.String()
}

// IfaceSource declares the interfaces of the model independently of the
// template: straight from the model's shapes.
func IfaceSource(m *tmpl.Model, pkgName string) string {
	var b strings.Builder
	fmt.Fprintf(&b, "package %s\n\n", pkgName)
	if m.UsesDep || m.UsesDep2 {
		b.WriteString("import (\n")
		if m.UsesDep {
			fmt.Fprintf(&b, "\t%q\n", tmpl.DepPath)
		}
		if m.UsesDep2 {
			fmt.Fprintf(&b, "\t%s %q\n", m.Dep2Alias, tmpl.Dep2Path)
		}
		b.WriteString(")\n\n")
	}
	for _, mi := range m.Mocks {
		if mi.DupOfFirst {
			continue
		}
		fmt.Fprintf(&b, "type %s", mi.IfaceName)
		if len(mi.TypeParams) > 0 {
			var tps []string
			for _, tp := range mi.TypeParams {
				tps = append(tps, tp.Name+" "+tp.TypeText)
			}
			fmt.Fprintf(&b, "[%s]", strings.Join(tps, ", "))
		}
		b.WriteString(" interface {\n")
		for _, me := range mi.Methods {
			var ps, rs []string
			for _, p := range me.Params {
				if p.Variadic {
					ps = append(ps, "..."+p.TypeText[2:])
				} else {
					ps = append(ps, p.TypeText)
				}
			}
			for _, r := range me.Results {
				rs = append(rs, r.TypeText)
			}
			fmt.Fprintf(&b, "\t%s(%s) (%s)\n", me.Name, strings.Join(ps, ", "), strings.Join(rs, ", "))
		}
		b.WriteString("}\n\n")
	}
	return b.String()
}

// Build parses and type-checks a skeleton with its prelude.
func Build(prog *load.Program, sk *tmpl.Skeleton) *Unit {
	m := sk.Model
	u := &Unit{Sk: sk, Model: m, Fset: token.NewFileSet(), skelName: "skeleton.go"}
	imp := mapImporter{}
	if sp := prog.ByPath["sync"]; sp != nil {
		imp["sync"] = sp.Types
	}
	conf := func(errs *[]types.Error) *types.Config {
		return &types.Config{Importer: imp, Error: func(err error) {
			if te, ok := err.(types.Error); ok {
				*errs = append(*errs, te)
			}
		}}
	}
	check := func(path, fname, src string) (*types.Package, error) {
		f, err := parser.ParseFile(u.Fset, fname, src, parser.ParseComments)
		if err != nil {
			return nil, err
		}
		var errs []types.Error
		pkg, _ := conf(&errs).Check(path, u.Fset, []*ast.File{f}, nil)
		if len(errs) > 0 {
			return nil, fmt.Errorf("prelude %s: %v", fname, errs[0])
		}
		return pkg, nil
	}
	var err error
	if imp[tmpl.DepPath], err = check(tmpl.DepPath, "dep.go", depSource("dep", m.DepTypes)); err != nil {
		u.ParseErr = err
		return u
	}
	if imp[tmpl.Dep2Path], err = check(tmpl.Dep2Path, "dep2.go", depSource("dep2", m.Dep2Types)); err != nil {
		u.ParseErr = err
		return u
	}
	u.Info = &types.Info{
		Types:      map[ast.Expr]types.TypeAndValue{},
		Defs:       map[*ast.Ident]types.Object{},
		Uses:       map[*ast.Ident]types.Object{},
		Selections: map[*ast.SelectorExpr]*types.Selection{},
		Scopes:     map[ast.Node]*types.Scope{},
		Implicits:  map[ast.Node]types.Object{},
		Instances:  map[*ast.Ident]types.Instance{},
	}
	u.File, err = parser.ParseFile(u.Fset, u.skelName, sk.Text, parser.ParseComments)
	if err != nil {
		u.ParseErr = err
		return u
	}
	files := []*ast.File{u.File}
	if m.Env.External {
		src, err := parser.ParseFile(u.Fset, "iface.go", IfaceSource(m, m.SrcQual), parser.ParseComments)
		if err != nil {
			u.ParseErr = fmt.Errorf("prelude iface: %v", err)
			return u
		}
		u.Iface = src
		var errs []types.Error
		sp, _ := conf(&errs).Check(tmpl.SrcPath, u.Fset, []*ast.File{src}, u.Info)
		if len(errs) > 0 {
			u.ParseErr = fmt.Errorf("prelude iface: %v", errs[0])
			return u
		}
		imp[tmpl.SrcPath] = sp
		u.SrcPkg = sp
	} else {
		src, err := parser.ParseFile(u.Fset, "iface.go", IfaceSource(m, m.PkgName()), parser.ParseComments)
		if err != nil {
			u.ParseErr = fmt.Errorf("prelude iface: %v", err)
			return u
		}
		u.Iface = src
		files = append(files, src)
	}
	u.Pkg, _ = conf(&u.TypeErrs).Check(tmpl.DestPath, u.Fset, files, u.Info)
	if u.SrcPkg == nil {
		u.SrcPkg = u.Pkg
	}
	return u
}

// Offset returns the byte offset of pos inside the skeleton file, or -1.
func (u *Unit) Offset(pos token.Pos) int {
	if !pos.IsValid() {
		return -1
	}
	p := u.Fset.Position(pos)
	if p.Filename != u.skelName {
		return -1
	}
	return p.Offset
}

// Line returns "line N: text" of the skeleton for a position (for reports).
func (u *Unit) Excerpt(pos token.Pos) string {
	off := u.Offset(pos)
	if off < 0 {
		return ""
	}
	txt := u.Sk.Text
	s := strings.LastIndexByte(txt[:off], '\n') + 1
	e := strings.IndexByte(txt[off:], '\n')
	if e < 0 {
		e = len(txt)
	} else {
		e += off
	}
	return strings.TrimSpace(txt[s:e])
}
