// Package load loads the moq repository as a type-checked program.
package load

import (
	"fmt"
	"go/ast"
	"go/parser"
	"go/token"
	"go/types"
	"os"
	"sort"
	"strings"

	"golang.org/x/tools/go/packages"
)

const ModulePath = "github.com/matryer/moq"

// Role paths of the four generator packages.
const (
	PkgMain     = ModulePath
	PkgMoq      = ModulePath + "/pkg/moq"
	PkgRegistry = ModulePath + "/internal/registry"
	PkgTemplate = ModulePath + "/internal/template"
)

// Program is the loaded repository.
type Program struct {
	Repo   string
	Fset   *token.FileSet
	All    []*packages.Package          // every package reachable (deps included)
	Moq    map[string]*packages.Package // the four generator packages by path
	ByPath map[string]*packages.Package
	decls  map[*types.Func]*ast.FuncDecl
	infoOf map[*types.Package]*types.Info
	extra  []string // generator packages beyond the four, sorted
}

// GoEnv returns the environment used for every go command the checker spawns.
func GoEnv() []string {
	env := []string{}
	for _, kv := range os.Environ() {
		k := kv[:strings.IndexByte(kv+"=", '=')]
		switch k {
		case "GOFLAGS", "GOWORK", "GOTOOLCHAIN", "GOPROXY", "GOSUMDB", "PATH", "GO111MODULE", "GOOS", "GOARCH", "CGO_ENABLED":
			continue
		}
		env = append(env, kv)
	}
	path := "/opt/veriftools/go1.26.8/bin:" + os.Getenv("PATH")
	env = append(env, "PATH="+path, "GOTOOLCHAIN=local", "GOPROXY=off", "GOSUMDB=off", "GOWORK=off", "GOFLAGS=-mod=readonly", "CGO_ENABLED=0")
	return env
}

// Load loads ./... of repo with full syntax and types for all dependencies.
func Load(repo string) (*Program, error) {
	// go/packages resolves the go command through this process's PATH
	for _, kv := range GoEnv() {
		if k, v, ok := strings.Cut(kv, "="); ok && (k == "PATH" || strings.HasPrefix(k, "GO") || k == "CGO_ENABLED") {
			os.Setenv(k, v)
		}
	}
	os.Unsetenv("GOROOT")
	fset := token.NewFileSet()
	cfg := &packages.Config{
		Mode:  packages.LoadAllSyntax,
		Dir:   repo,
		Fset:  fset,
		Env:   GoEnv(),
		Tests: false,
	}
	pkgs, err := packages.Load(cfg, "./...")
	if err != nil {
		return nil, fmt.Errorf("load: %v", err)
	}
	p := &Program{Repo: repo, Fset: fset, Moq: map[string]*packages.Package{}, ByPath: map[string]*packages.Package{},
		decls: map[*types.Func]*ast.FuncDecl{}, infoOf: map[*types.Package]*types.Info{}}
	var errs []string
	packages.Visit(pkgs, nil, func(pk *packages.Package) {
		p.All = append(p.All, pk)
		p.ByPath[pk.PkgPath] = pk
		if pk.Types != nil && pk.TypesInfo != nil {
			p.infoOf[pk.Types] = pk.TypesInfo
		}
		if strings.HasPrefix(pk.PkgPath, ModulePath) {
			for _, e := range pk.Errors {
				errs = append(errs, e.Error())
			}
		}
	})
	sort.Slice(p.All, func(i, j int) bool { return p.All[i].PkgPath < p.All[j].PkgPath })
	for _, path := range []string{PkgMain, PkgMoq, PkgRegistry, PkgTemplate} {
		pk := p.ByPath[path]
		if pk == nil || pk.Types == nil || len(pk.Syntax) == 0 {
			return nil, fmt.Errorf("load: generator package %s not loaded", path)
		}
		p.Moq[path] = pk
	}
	// further packages of the module that the generator is built from (a package split off one of the
	// four): whatever package main imports, directly or not, inside the module
	var visit func(pk *packages.Package)
	seen := map[string]bool{}
	visit = func(pk *packages.Package) {
		if pk == nil || seen[pk.PkgPath] {
			return
		}
		seen[pk.PkgPath] = true
		if pk.PkgPath != ModulePath && !strings.HasPrefix(pk.PkgPath, ModulePath+"/") {
			return
		}
		if _, known := p.Moq[pk.PkgPath]; !known && pk.Types != nil && len(pk.Syntax) > 0 {
			p.Moq[pk.PkgPath] = pk
			p.extra = append(p.extra, pk.PkgPath)
		}
		for _, imp := range pk.Imports {
			visit(imp)
		}
	}
	visit(p.Moq[PkgMain])
	sort.Strings(p.extra)
	if len(errs) > 0 {
		return nil, fmt.Errorf("load: %d type/list errors in moq packages, first: %s", len(errs), errs[0])
	}
	for _, pk := range p.All {
		if pk.TypesInfo == nil {
			continue
		}
		for _, f := range pk.Syntax {
			for _, d := range f.Decls {
				if fd, ok := d.(*ast.FuncDecl); ok {
					if fn, ok := pk.TypesInfo.Defs[fd.Name].(*types.Func); ok {
						p.decls[fn] = fd
					}
				}
			}
		}
	}
	return p, nil
}

// MoqPackages returns the four generator packages in a fixed order.
func (p *Program) MoqPackages() []*packages.Package {
	var out []*packages.Package
	for _, k := range append([]string{PkgMain, PkgMoq, PkgRegistry, PkgTemplate}, p.extra...) {
		if pk := p.Moq[k]; pk != nil {
			out = append(out, pk)
		}
	}
	return out
}

type progImporter struct{ p *Program }

func (pi progImporter) Import(path string) (*types.Package, error) {
	if pk := pi.p.ByPath[path]; pk != nil && pk.Types != nil {
		return pk.Types, nil
	}
	return nil, fmt.Errorf("fixture imports %q, which the analysed program does not load", path)
}

// Fixture type-checks a single-file package main against the packages the
// program has loaded and wraps it as a Program whose only generator package
// is that file (for positive controls of the generator-side rules).
func Fixture(p *Program, src string) (*Program, error) {
	fset := token.NewFileSet()
	f, err := parser.ParseFile(fset, "/fixture/fixture.go", src, parser.ParseComments)
	if err != nil {
		return nil, err
	}
	info := &types.Info{Types: map[ast.Expr]types.TypeAndValue{}, Defs: map[*ast.Ident]types.Object{}, Uses: map[*ast.Ident]types.Object{},
		Selections: map[*ast.SelectorExpr]*types.Selection{}, Implicits: map[ast.Node]types.Object{}, Scopes: map[ast.Node]*types.Scope{}, Instances: map[*ast.Ident]types.Instance{}}
	conf := types.Config{Importer: progImporter{p}}
	tp, err := conf.Check(PkgMain, fset, []*ast.File{f}, info)
	if err != nil {
		return nil, err
	}
	pk := &packages.Package{ID: PkgMain, Name: "main", PkgPath: PkgMain, Syntax: []*ast.File{f}, Types: tp, TypesInfo: info, Fset: fset}
	fp := &Program{Repo: "/fixture", Fset: fset, Moq: map[string]*packages.Package{PkgMain: pk}, ByPath: map[string]*packages.Package{PkgMain: pk},
		decls: map[*types.Func]*ast.FuncDecl{}, infoOf: map[*types.Package]*types.Info{tp: info}}
	for path, dep := range p.ByPath {
		if _, ok := fp.ByPath[path]; !ok {
			fp.ByPath[path] = dep
		}
	}
	for _, d := range f.Decls {
		if fd, ok := d.(*ast.FuncDecl); ok {
			if fn, ok := info.Defs[fd.Name].(*types.Func); ok {
				fp.decls[fn] = fd
			}
		}
	}
	return fp, nil
}

// IsMoqPkg reports whether pkg is one of the four generator packages.
func (p *Program) IsMoqPkg(pkg *types.Package) bool {
	if pkg == nil {
		return false
	}
	_, ok := p.Moq[pkg.Path()]
	return ok
}

// Decl returns the declaration of fn (origin for generic instances), if its source was loaded.
func (p *Program) Decl(fn *types.Func) *ast.FuncDecl {
	if fn == nil {
		return nil
	}
	return p.decls[fn.Origin()]
}

// Info returns the types.Info of the package declaring obj.
func (p *Program) Info(pkg *types.Package) *types.Info { return p.infoOf[pkg] }

// Pos renders a position relative to the repository root.
func (p *Program) Pos(pos token.Pos) string {
	if !pos.IsValid() {
		return "-"
	}
	ps := p.Fset.Position(pos)
	name := strings.TrimPrefix(ps.Filename, p.Repo+"/")
	return fmt.Sprintf("%s:%d", name, ps.Line)
}

// LookupFunc finds a package-level function or a method "Type.Method" in a moq package.
func (p *Program) LookupFunc(pkgPath, name string) *types.Func {
	pk := p.ByPath[pkgPath]
	if pk == nil {
		return nil
	}
	if i := strings.IndexByte(name, '.'); i >= 0 {
		tn, _ := pk.Types.Scope().Lookup(name[:i]).(*types.TypeName)
		if tn == nil {
			return nil
		}
		obj, _, _ := types.LookupFieldOrMethod(types.NewPointer(tn.Type()), true, pk.Types, name[i+1:])
		fn, _ := obj.(*types.Func)
		return fn
	}
	fn, _ := pk.Types.Scope().Lookup(name).(*types.Func)
	return fn
}

// FuncName renders a function for reports.
func FuncName(fn *types.Func) string {
	if fn == nil {
		return "<nil>"
	}
	sig, _ := fn.Type().(*types.Signature)
	if sig != nil && sig.Recv() != nil {
		t := sig.Recv().Type()
		if pt, ok := t.(*types.Pointer); ok {
			t = pt.Elem()
		}
		if n, ok := t.(*types.Named); ok {
			return n.Obj().Name() + "." + fn.Name()
		}
	}
	return fn.Name()
}

// Roots returns the packages of the repository itself (for SSA construction).
func (p *Program) Roots() []*packages.Package {
	var out []*packages.Package
	for _, pk := range p.All {
		if strings.HasPrefix(pk.PkgPath, ModulePath) {
			out = append(out, pk)
		}
	}
	return out
}
