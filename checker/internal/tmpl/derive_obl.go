package tmpl

import (
	"fmt"
	"go/ast"
	"go/token"
	"go/types"
	"sort"
	"strings"

	"golang.org/x/tools/go/types/typeutil"

	"verif/checker/internal/interp"
	"verif/checker/internal/load"
)

func findFieldInitCallee(prog *load.Program, typeName, field string) *types.Func {
	pk := prog.Moq[load.PkgMoq]
	var found *types.Func
	for _, f := range pk.Syntax {
		ast.Inspect(f, func(n ast.Node) bool {
			// x.Field = f(..) for a value of the template type
			if as, ok := n.(*ast.AssignStmt); ok && len(as.Lhs) == len(as.Rhs) {
				for i, l := range as.Lhs {
					sel, ok := ast.Unparen(l).(*ast.SelectorExpr)
					if !ok || sel.Sel.Name != field {
						continue
					}
					fv, ok := pk.TypesInfo.ObjectOf(sel.Sel).(*types.Var)
					if !ok || !fv.IsField() {
						continue
					}
					nt, _ := types.Unalias(derefNamed(pk.TypesInfo.TypeOf(sel.X))).(*types.Named)
					if nt == nil || nt.Obj().Name() != typeName || nt.Obj().Pkg().Path() != load.PkgTemplate {
						continue
					}
					if call, ok := ast.Unparen(as.Rhs[i]).(*ast.CallExpr); ok {
						if fn, ok := typeutil.Callee(pk.TypesInfo, call).(*types.Func); ok && prog.IsMoqPkg(fn.Pkg()) {
							found = fn
						}
					}
				}
				return true
			}
			cl, ok := n.(*ast.CompositeLit)
			if !ok {
				return true
			}
			t := pk.TypesInfo.TypeOf(cl)
			nt, _ := types.Unalias(t).(*types.Named)
			if nt == nil || nt.Obj().Name() != typeName || nt.Obj().Pkg().Path() != load.PkgTemplate {
				return true
			}
			for _, el := range cl.Elts {
				kv, ok := el.(*ast.KeyValueExpr)
				if !ok {
					continue
				}
				if id, ok := kv.Key.(*ast.Ident); ok && id.Name == field {
					if call, ok := ast.Unparen(kv.Value).(*ast.CallExpr); ok {
						if fn, ok := typeutil.Callee(pk.TypesInfo, call).(*types.Func); ok && prog.IsMoqPkg(fn.Pkg()) {
							found = fn
						}
					}
				}
			}
			return true
		})
	}
	return found
}

func (dv *Derived) ob(rule, key string, ok bool, format string, a ...any) bool {
	msg := ""
	if !ok {
		msg = fmt.Sprintf(format, a...)
	}
	dv.Obs = append(dv.Obs, DeriveOb{Rule: rule, Key: key, OK: ok, Msg: msg})
	return ok
}

func symFlat(v interp.Value) string {
	if s, ok := v.(*interp.Sym); ok {
		return s.Flat()
	}
	return "<" + interp.Show(v) + ">"
}

func listOf(v interp.Value) []interp.Value {
	if l, ok := v.(*interp.List); ok {
		return l.Elems
	}
	return nil
}

func fieldOf(s *interp.Struct, name string) interp.Value {
	if s == nil {
		return nil
	}
	return s.Fields[name]
}

func varOf(param interp.Value) (vr *interp.Opaque, v *interp.Struct) {
	p := structOf(param)
	if p == nil {
		return nil, nil
	}
	if pd, ok := p.Fields["ParamData"]; ok { // TypeParamData embeds ParamData
		p = structOf(pd)
	}
	v = structOf(fieldOf(p, "Var"))
	if v == nil {
		return nil, nil
	}
	vr, _ = v.Aux["vr"].(*interp.Opaque)
	return vr, v
}

// recOf: what the AddVar model recorded when it made this Var (scope, suffix).
func recOf(v *interp.Struct) *varRec {
	if v == nil {
		return nil
	}
	r, _ := v.Aux["rec"].(*varRec)
	return r
}

// obligations evaluates the generator-side rules on one explored path.
func (d *deriver) obligations(dv *Derived, formatter string) {
	model, e := d.model, d.model.Env
	// ---- event order (C17, C16, C20)
	var lookups []string
	var writes, execs, formats []int
	for i, ev := range d.events {
		switch ev.Kind {
		case "lookup":
			lookups = append(lookups, ev.Detail)
		case "write":
			writes = append(writes, i)
		case "execute":
			execs = append(execs, i)
		case "format":
			formats = append(formats, i)
		}
	}
	// lookups: a prefix of the requested interface names, in argument order
	okLook := len(lookups) <= len(model.Mocks)
	for i := 0; okLook && i < len(lookups); i++ {
		okLook = lookups[i] == model.Mocks[i].IfaceName
	}
	if !dv.Failed {
		okLook = okLook && len(lookups) == len(model.Mocks)
	}
	dv.ob("G-MOCK/lookups", "argument-order", okLook, "interfaces are looked up as %v, want the interface part of each argument, once, in argument order %v", lookups, ifaceNames(model))
	dv.ob("G-MOCK/write-once", "count", len(writes) <= 1 && (dv.Failed || len(writes) == 1), "the writer passed to Mock is written %d times on a path that %s, want exactly one write on success and at most one otherwise", len(writes), failedStr(dv.Failed))
	if len(writes) == 1 {
		last := true
		for _, ev := range d.events[writes[0]+1:] {
			if ev.Kind != "" {
				last = false
			}
		}
		dv.ob("G-MOCK/write-last", "last-event", last, "something fallible or observable happens after the write (events: %s): a later failure would leave output behind", eventKinds(d.events[writes[0]:]))
		// what is written
		arg, _ := d.events[writes[0]].Val.(*interp.Opaque)
		okArg := arg != nil && arg.Kind == "bytes"
		wantFmt := "gofmt"
		switch formatter {
		case "goimports":
			wantFmt = "goimports"
		case "noop":
			wantFmt = ""
		}
		var tplOut *interp.Opaque // bytes-of(buffer executed into)
		if len(execs) == 1 {
			tplOut, _ = d.events[execs[0]].Val.(*interp.Opaque)
		}
		gotFmt, src := "", arg
		if okArg {
			if f, ok := arg.Attrs["formatted"].(*interp.Sym); ok {
				gotFmt, _ = f.Concrete()
				src, _ = arg.Attrs["of"].(*interp.Opaque)
			}
		}
		dv.ob("G-FORMAT/dispatch", "formatter="+formatter, okArg && gotFmt == wantFmt, "with -fmt %q the bytes written were produced by %q, want %q (\"\" = the template output itself)", formatter, gotFmt, wantFmt)
		okSrc := src != nil && src.Kind == "bytes" && tplOut != nil
		if okSrc {
			of, _ := src.Attrs["of"].(*interp.Opaque)
			okSrc = of == tplOut
		}
		dv.ob("G-MOCK/write-what", "template-output", okSrc, "what is written is not (the formatted form of) the bytes of the buffer the template was executed into")
	}
	dv.ob("G-MOCK/execute-once", "count", len(execs) <= 1 && (dv.Failed || len(execs) == 1), "template executed %d times", len(execs))
	if len(execs) == 1 {
		w, _ := d.events[execs[0]].Val.(*interp.Opaque)
		dv.ob("G-MOCK/buffered", "execute-into-local-buffer", w != nil && w.Kind == "bytes.Buffer", "the template is executed into %s, not into a local bytes.Buffer: a failure during or after execution would leave partial output in the caller's writer", interp.Show(d.events[execs[0]].Val))
		if len(writes) == 1 {
			dv.ob("G-MOCK/order", "execute-before-write", execs[0] < writes[0], "write precedes template execution")
		}
		// all lookups happened before execution
		okAll := true
		for i, ev := range d.events {
			if ev.Kind == "lookup" && i > execs[0] {
				okAll = false
			}
		}
		dv.ob("G-MOCK/order", "lookups-before-execute", okAll && len(lookups) == len(model.Mocks), "the template is executed before every requested interface has been looked up")
	}
	// the infrastructure imports (sync, the source package) are registered after every variable has been
	// named: otherwise the names of later interfaces depend on what earlier ones made moq import
	{
		lastVar, firstDirect := -1, -1
		for i, ev := range d.events {
			if ev.Kind == "addvar" {
				lastVar = i
			}
			if ev.Kind == "addimport" && strings.HasPrefix(ev.Detail, "direct@") && firstDirect < 0 {
				firstDirect = i
			}
		}
		if lastVar >= 0 && firstDirect >= 0 {
			dv.ob("G-MOCK/infrastructure-imports-last", "after-all-vars", firstDirect > lastVar, "Mock registers an import of its own (sync or the source package) before all parameters and results have been named: a parameter of a later interface that is spelled like that package is then renamed although its own signature does not collide with it, and the result depends on the order of the interface arguments")
		}
	}
	// a qualifier copied into the data is final: nothing is registered after it has been read (a later
	// registration can give that import a new alias, and the copy then names the wrong package)
	{
		first := -1
		var later []string
		for i, ev := range d.events {
			if ev.Kind == "execute" {
				break // qualifiers read by the template are read at print time
			}
			if ev.Kind == "qualifier" && first < 0 {
				first = i
			}
			if first >= 0 && (ev.Kind == "addimport" || ev.Kind == "addvar") {
				later = append(later, ev.Kind+" "+ev.Detail)
			}
		}
		if first >= 0 {
			dv.ob("G-MOCK/qualifier-final", "no-registration-after-read", len(later) == 0, "the qualifier of %s is copied into a string while imports can still be registered afterwards (%v): a later registration can give this import a new alias (e.g. a source package named like a package added later), and the copied qualifier then names the wrong package", d.events[first].Detail, later)
		}
	}
	if dv.Data == nil {
		return
	}
	// ---- the data handed to the template (C02, C03, C08, C09, C10, C11, C20)
	data := dv.Data
	// a flag is what the template sees under that name: a field, or a niladic method of the data
	flagOf := func(name string) interp.Value {
		if v, ok := data.Fields[name]; ok {
			return v
		}
		if nt, ok := data.Type.(*types.Named); ok {
			for i := 0; i < nt.NumMethods(); i++ {
				if m := nt.Method(i); m.Name() == name {
					if v, err := d.m.CallFunc(token.NoPos, m, data, nil); err == nil {
						return v
					}
				}
			}
		}
		return nil
	}
	dv.ob("G-DATA/flags", "stub", flagOf("StubImpl") == interp.Value(e.Stub), "Data.StubImpl=%s with -stub=%v: the flag does not reach the template unchanged", interp.Show(flagOf("StubImpl")), e.Stub)
	dv.ob("G-DATA/flags", "skip-ensure", flagOf("SkipEnsure") == interp.Value(e.SkipEnsure), "Data.SkipEnsure=%s with -skip-ensure=%v: the flag does not reach the template unchanged", interp.Show(flagOf("SkipEnsure")), e.SkipEnsure)
	dv.ob("G-DATA/flags", "with-resets", flagOf("WithResets") == interp.Value(e.WithResets), "Data.WithResets=%s with -with-resets=%v: the flag does not reach the template unchanged", interp.Show(flagOf("WithResets")), e.WithResets)
	wantPkg := model.PkgName()
	dv.ob("G-DATA/pkgname", "package-clause", symFlat(fieldOf(data, "PkgName")) == wantPkg, "Data.PkgName=%s, want %s", symFlat(fieldOf(data, "PkgName")), wantPkg)
	// imports
	var gotImp []string
	for _, p := range listOf(fieldOf(data, "Imports")) {
		ps := structOf(p)
		if ps == nil {
			gotImp = append(gotImp, "<nil>")
			continue
		}
		if o, ok := ps.Aux["pkg"].(*interp.Opaque); ok {
			gotImp = append(gotImp, symFlat(o.Attrs["path"]))
		}
	}
	var wantImp []string
	if model.UsesDep {
		wantImp = append(wantImp, DepPath)
	}
	if model.UsesDep2 {
		wantImp = append(wantImp, Dep2Path)
	}
	if e.External && !e.SkipEnsure {
		wantImp = append(wantImp, SrcPath)
	}
	if e.HasMethods() {
		wantImp = append(wantImp, "sync")
	}
	sort.Strings(wantImp)
	dv.ob("G-DATA/imports", "exact-set", strings.Join(gotImp, " ") == strings.Join(wantImp, " "), "Data.Imports=%v, want exactly %v (sync iff some mock has a method; the source package iff the mock lives elsewhere and the self-check line is emitted; every package a signature mentions)", gotImp, wantImp)
	// source package qualifier
	q := symFlat(fieldOf(data, "SrcPkgQualifier"))
	switch {
	case !e.External:
		dv.ob("G-DATA/src-qualifier", "in-place", q == "", "Data.SrcPkgQualifier=%q when generating into the source package, want none", q)
	case !e.SkipEnsure:
		dv.ob("G-DATA/src-qualifier", "external", q == SrcPkgName+".", "Data.SrcPkgQualifier=%q when generating into another package, want the qualifier of the source package import", q)
	}
	// mocks
	mocks := listOf(fieldOf(data, "Mocks"))
	if !dv.ob("G-DATA/mocks", "count", len(mocks) == len(model.Mocks), "Data.Mocks has %d entries for %d requested interfaces", len(mocks), len(model.Mocks)) {
		dv.Data = nil
		return
	}
	structural := true
	scopeOfMethod := map[string]int{}
	for i, mv := range mocks {
		ms := structOf(mv)
		mi := model.Mocks[i]
		dv.ob("G-DATA/mocks", "interface-name", symFlat(fieldOf(ms, "InterfaceName")) == mi.IfaceName, "Mocks[%d].InterfaceName=%s, want %s (argument order must be kept)", i, symFlat(fieldOf(ms, "InterfaceName")), mi.IfaceName)
		dv.ob("G-DATA/mocks", fmt.Sprintf("mock-name,aliased=%v", mi.Aliased), symFlat(fieldOf(ms, "MockName")) == mi.MockName, "Mocks[%d].MockName=%s, want %s", i, symFlat(fieldOf(ms, "MockName")), mi.MockName)
		meths := listOf(fieldOf(ms, "Methods"))
		if !dv.ob("G-DATA/methods", "count", len(meths) == len(mi.Methods), "Mocks[%d] has %d methods, the interface's full method set has %d (methods inherited from embedded interfaces count)", i, len(meths), len(mi.Methods)) {
			structural = false
			continue
		}
		for j, mev := range meths {
			mes := structOf(mev)
			me := mi.Methods[j]
			dv.ob("G-DATA/methods", "name-order", symFlat(fieldOf(mes, "Name")) == me.Name, "Mocks[%d].Methods[%d].Name=%s, want %s", i, j, symFlat(fieldOf(mes, "Name")), me.Name)
			ps, rs := listOf(fieldOf(mes, "Params")), listOf(fieldOf(mes, "Returns"))
			if !dv.ob("G-DATA/params", "count", len(ps) == len(me.Params) && len(rs) == len(me.Results), "method %d/%d has %d params and %d results in the data, the signature has %d and %d", i, j, len(ps), len(rs), len(me.Params), len(me.Results)) {
				structural = false
				continue
			}
			sc := -1
			sameScope := true
			// the go/types objects of a repeated interface are those of its first occurrence
			si := i
			if mi.DupOfFirst {
				si = 0
			}
			for k, p := range ps {
				vr, vv := varOf(p)
				okID := vr != nil && vr.ID == fmt.Sprintf("p%d_%d_%d", si, j, k)
				dv.ob("G-DATA/params", "index-preserving", okID, "Params[%d] of method %d/%d is built from %s, want the signature's parameter %d", k, i, j, interp.Show(vr), k)
				// where the data model marks the variadic parameter on the parameter itself (elsewhere — a flag
				// of the method — K-IMPL and K-CALLBACK judge the spellings on the skeletons)
				if variadic := fieldOf(structOf(p), "Variadic"); variadic != nil {
					dv.ob("G-DATA/params", "variadic", variadic == interp.Value(me.Params[k].Variadic), "Params[%d].Variadic=%s of method %d/%d, want %v (only the last parameter of a variadic signature)", k, interp.Show(variadic), i, j, me.Params[k].Variadic)
				}
				if vr != nil {
					if rec := recOf(vv); rec != nil {
						if sc == -1 {
							sc = rec.scope
						} else if sc != rec.scope {
							sameScope = false
						}
					}
				}
			}
			for k, p := range rs {
				vr, vv := varOf(p)
				okID := vr != nil && vr.ID == fmt.Sprintf("r%d_%d_%d", si, j, k)
				dv.ob("G-DATA/results", "index-preserving", okID, "Returns[%d] of method %d/%d is built from %s, want the signature's result %d", k, i, j, interp.Show(vr), k)
				if variadic := fieldOf(structOf(p), "Variadic"); variadic != nil {
					dv.ob("G-DATA/results", "never-variadic", variadic == interp.Value(false), "Returns[%d].Variadic=%s of method %d/%d, want false: a result is never a variadic tail (every spelling that appends `...` to a variadic name would do so for the result)", k, interp.Show(variadic), i, j)
				}
				if vr != nil {
					if rec := recOf(vv); rec != nil {
						if sc == -1 {
							sc = rec.scope
						} else if sc != rec.scope {
							sameScope = false
						}
					}
				}
			}
			dv.ob("G-SCOPE/shared", "params-and-results", sameScope, "parameters and results of method %d/%d are allocated in different name scopes: their names are not de-conflicted against each other (nor against imports the other group brings in)", i, j)
			if sc != -1 {
				key := fmt.Sprintf("%d/%d", i, j)
				for other, s := range scopeOfMethod {
					if s == sc && other != key {
						dv.ob("G-SCOPE/fresh", "per-method", false, "methods %s and %s share one name scope: names of one method leak into the other", other, key)
					}
				}
				scopeOfMethod[key] = sc
			}
		}
		tps := listOf(fieldOf(ms, "TypeParams"))
		if !dv.ob("G-DATA/typeparams", "count", len(tps) == len(mi.TypeParams), "Mocks[%d] has %d type parameters, the interface has %d", i, len(tps), len(mi.TypeParams)) {
			structural = false
			continue
		}
		for k, tp := range tps {
			vr, _ := varOf(tp)
			okTP := vr != nil && symFlat(vr.Attrs["name"]) == mi.TypeParams[k].Name && symFlat(vr.Attrs["constraintOf"]) == fmt.Sprintf("tp%d_%d.constraint.type", si0(mi, i), k)
			dv.ob("G-DATA/typeparams", "index-preserving", okTP, "TypeParams[%d] of mock %d is not built from type parameter %d (its name, typed by its constraint)", k, i, k)
			// the representative type argument travels in a field of the type parameter's data — if the
			// data model has such a field (without one the self-check line's type arguments are rendered
			// elsewhere, and K-GENERIC / K-DECLS/ensure judge the line on the skeletons)
			if c := fieldOf(structOf(tp), "Constraint"); c != nil {
				_, isNil := c.(interp.NilV)
				dv.ob("G-DATA/typeparams", "representative", isNil == (mi.TypeParams[k].Explicit == ""), "TypeParams[%d].Constraint of mock %d is %s", k, i, interp.Show(c))
			}
		}
	}
	// the scope the type parameters of a mock are named in names nothing else: a later variable of the same
	// scope (a helper for the self-check line, a method's parameter) can rename a type parameter, and the
	// methods spell the type parameter as go/types prints it, not as the scope ends up calling it
	{
		tpScope := map[int]string{}
		tpIDs := map[string]bool{}
		for _, mv := range mocks {
			for _, tp := range listOf(fieldOf(structOf(mv), "TypeParams")) {
				if vr, _ := varOf(tp); vr != nil {
					if rec := d.vars[vr.ID]; rec != nil {
						tpScope[rec.scope] = vr.ID
						tpIDs[vr.ID] = true
					}
				}
			}
		}
		var strangers []string
		for id, rec := range d.vars {
			if _, shared := tpScope[rec.scope]; shared && !tpIDs[id] {
				strangers = append(strangers, id)
			}
		}
		sort.Strings(strangers)
		if len(tpScope) > 0 {
			dv.ob("G-SCOPE/typeparams-only", "scope", len(strangers) == 0, "the name scope of a mock's type parameters also names %v: a clash renames the type parameter (`[n ~int | ~int64]` becomes `[n1 …]`) while the method signatures keep the spelling go/types prints", strangers)
		}
	}
	for range mocks {
		dv.ob("G-SCOPE/fresh", "per-method", true, "")
	}
	if !structural {
		dv.Data = nil
	}
}

func failedStr(f bool) string {
	if f {
		return "fails"
	}
	return "succeeds"
}

func ifaceNames(m *Model) []string {
	var out []string
	for _, mi := range m.Mocks {
		out = append(out, mi.IfaceName)
	}
	return out
}

func eventKinds(evs []Event) string {
	var ss []string
	for _, e := range evs {
		ss = append(ss, e.Kind)
	}
	return strings.Join(ss, ",")
}

// ModelFromData rebuilds the model's names from the data the generator
// actually built, so that skeleton rules and the independent interface
// declaration speak about the names in the output.
func ModelFromData(base *Model, data *interp.Struct) *Model {
	m := *base
	m.Mocks = nil
	mocks := listOf(fieldOf(data, "Mocks"))
	for i, mv := range mocks {
		ms := structOf(mv)
		bi := base.Mocks[i]
		mi := MockInfo{MockName: symFlat(fieldOf(ms, "MockName")), IfaceName: bi.IfaceName, Aliased: bi.Aliased, DupOfFirst: bi.DupOfFirst}
		for k, tp := range listOf(fieldOf(ms, "TypeParams")) {
			_, v := varOf(tp)
			p := bi.TypeParams[k]
			p.DeclName = symFlat(fieldOf(v, "Name"))
			mi.TypeParams = append(mi.TypeParams, p)
		}
		for j, mev := range listOf(fieldOf(ms, "Methods")) {
			mes := structOf(mev)
			bm := bi.Methods[j]
			me := MethodInfo{Name: bm.Name}
			for k, p := range listOf(fieldOf(mes, "Params")) {
				_, v := varOf(p)
				q := bm.Params[k]
				q.Name = symFlat(fieldOf(v, "Name"))
				me.Params = append(me.Params, q)
			}
			for k, p := range listOf(fieldOf(mes, "Returns")) {
				_, v := varOf(p)
				q := bm.Results[k]
				q.Name = symFlat(fieldOf(v, "Name"))
				me.Results = append(me.Results, q)
			}
			mi.Methods = append(mi.Methods, me)
		}
		m.Mocks = append(m.Mocks, mi)
	}
	return &m
}

// MockNamesOf reads the interface and mock names of the i-th mock off the derived template data, and
// the names the path asked the registry to look up.
func MockNamesOf(dv *Derived, i int) (iface, mock string, lookups []string, ok bool) {
	for _, e := range dv.Events {
		if e.Kind == "lookup" {
			lookups = append(lookups, e.Detail)
		}
	}
	if dv.Data == nil {
		return "", "", lookups, false
	}
	mocks := listOf(fieldOf(dv.Data, "Mocks"))
	if i >= len(mocks) {
		return "", "", lookups, false
	}
	ms := structOf(mocks[i])
	if ms == nil {
		return "", "", lookups, false
	}
	return symFlat(fieldOf(ms, "InterfaceName")), symFlat(fieldOf(ms, "MockName")), lookups, true
}

func si0(mi MockInfo, i int) int {
	if mi.DupOfFirst {
		return 0
	}
	return i
}

func derefNamed(t types.Type) types.Type {
	if t == nil {
		return nil
	}
	if p, ok := t.Underlying().(*types.Pointer); ok {
		return p.Elem()
	}
	return t
}
