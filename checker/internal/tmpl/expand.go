package tmpl

import (
	"fmt"
	"go/token"
	"go/types"
	"strings"
	"text/template/parse"

	"verif/checker/internal/interp"
)

// Skeleton is one abstract expansion of the template.
type Skeleton struct {
	Model   *Model
	Text    string
	spans   []span // output offset -> template offset
	Notes   []interp.Note
	Choices string // description of the unknown conditions decided on this path
}

type span struct {
	out, tpl int
}

// TemplatePos maps an offset in the skeleton text to a template.go position.
func (s *Skeleton) TemplateOffset(off int) int {
	best := 0
	for _, sp := range s.spans {
		if sp.out <= off {
			best = sp.tpl
		} else {
			break
		}
	}
	return best
}

// Undecided is returned when expansion meets something outside the analysed
// vocabulary. TplOff is the template offset of the offending node.
type Undecided struct {
	TplOff int
	GoPos  token.Pos
	Msg    string
}

func (u *Undecided) Error() string { return u.Msg }

type expander struct {
	src   *Source
	m     *interp.Machine
	out   strings.Builder
	spans []span
	vars  []tvar
	// UninterpretedFuncs are template functions modelled as opaque token maps.
	visited map[parse.Node]bool
	tdepth  int
	// addr: the struct values text/template can take the address of (data handed over by pointer, slice
	// elements, fields of addressable structs): pointer-receiver methods are found on these only
	addr map[*interp.Struct]bool
	// dot of the command being evaluated: the arguments of `$v.Method .Arg` see it, not $v
	cmdDot    interp.Value
	hasCmdDot bool
}

type tvar struct {
	name string
	val  interp.Value
}

// Uninterpreted lists the template functions that are not expanded but
// modelled as an uninterpreted, deterministic function of their argument
// (equal arguments give equal tokens; nothing else is assumed).
var Uninterpreted = map[string]bool{"Exported": true}

// Expand expands the template for one model. It returns one skeleton per
// combination of unknown conditions met on the way (normally exactly one).
func Expand(src *Source, mach func() *interp.Machine, m *Model, visited map[parse.Node]bool) ([]*Skeleton, error) {
	return ExpandData(src, mach, m, nil, visited)
}

// ExpandData expands the template on the given abstract data (nil: the data
// is built from the model).
func ExpandData(src *Source, mach func() *interp.Machine, m *Model, given *interp.Struct, visited map[parse.Node]bool) ([]*Skeleton, error) {
	var out []*Skeleton
	choices := interp.NewChoices(64)
	for {
		ma := mach()
		ma.Choices = choices
		data := given
		if data == nil {
			var err error
			if data, err = BuildData(src.Prog, m); err != nil {
				return nil, &Undecided{Msg: err.Error()}
			}
		} else {
			data = data.Copy()
		}
		ex := &expander{src: src, m: ma, visited: visited, addr: map[*interp.Struct]bool{}}
		if by, _ := data.Aux["byPointer"].(bool); by {
			ex.addr[data] = true
		}
		ex.vars = []tvar{{"$", data}}
		if err := ex.walk(data, src.Tree.Root); err != nil {
			return nil, err
		}
		out = append(out, &Skeleton{Model: m, Text: ex.out.String(), spans: ex.spans, Notes: ma.Notes, Choices: choices.Describe()})
		more, overflow := choices.Advance()
		if overflow {
			return nil, &Undecided{Msg: "more than 64 combinations of input-dependent conditions in one expansion: " + choices.Describe()}
		}
		if !more {
			return out, nil
		}
	}
}

func (ex *expander) undecided(n parse.Node, format string, a ...any) error {
	return &Undecided{TplOff: int(n.Position()), Msg: fmt.Sprintf(format, a...)}
}

func (ex *expander) wrap(n parse.Node, err error) error {
	if err == nil {
		return nil
	}
	if u, ok := err.(*interp.ErrUndecided); ok {
		return &Undecided{TplOff: int(n.Position()), GoPos: u.Pos, Msg: u.Msg}
	}
	return err
}

func (ex *expander) emit(n parse.Node, s string) {
	ex.spans = append(ex.spans, span{out: ex.out.Len(), tpl: int(n.Position())})
	ex.out.WriteString(s)
}

func (ex *expander) walk(dot interp.Value, n parse.Node) error {
	if ex.visited != nil {
		ex.visited[n] = true
	}
	switch n := n.(type) {
	case *parse.ListNode:
		if n == nil {
			return nil
		}
		for _, c := range n.Nodes {
			if err := ex.walk(dot, c); err != nil {
				return err
			}
		}
		return nil
	case *parse.TextNode:
		ex.emit(n, string(n.Text))
		return nil
	case *parse.CommentNode:
		return nil
	case *parse.ActionNode:
		v, err := ex.pipeline(dot, n.Pipe)
		if err != nil {
			return err
		}
		if len(n.Pipe.Decl) > 0 {
			return nil
		}
		s, err := ex.print(n, v)
		if err != nil {
			return err
		}
		ex.emit(n, s)
		return nil
	case *parse.IfNode:
		v, err := ex.pipeline(dot, n.Pipe)
		if err != nil {
			return err
		}
		mark := len(ex.vars)
		defer func() { ex.vars = ex.vars[:mark] }()
		t, err := ex.truth(n, v)
		if err != nil {
			return err
		}
		if t {
			return ex.walk(dot, n.List)
		}
		if n.ElseList != nil {
			return ex.walk(dot, n.ElseList)
		}
		return nil
	case *parse.WithNode:
		v, err := ex.pipeline(dot, n.Pipe)
		if err != nil {
			return err
		}
		mark := len(ex.vars)
		defer func() { ex.vars = ex.vars[:mark] }()
		t, err := ex.truth(n, v)
		if err != nil {
			return err
		}
		if t {
			return ex.walk(v, n.List)
		}
		if n.ElseList != nil {
			return ex.walk(dot, n.ElseList)
		}
		return nil
	case *parse.RangeNode:
		mark := len(ex.vars)
		defer func() { ex.vars = ex.vars[:mark] }()
		v, err := ex.pipelineNoDecl(dot, n.Pipe)
		if err != nil {
			return err
		}
		var elems []interp.Value
		switch l := v.(type) {
		case *interp.List:
			elems = l.Elems
		case interp.NilV:
		default:
			return ex.undecided(n, "range over %s: only slices are in the analysed vocabulary", interp.Show(v))
		}
		if len(elems) == 0 {
			if n.ElseList != nil {
				return ex.walk(dot, n.ElseList)
			}
			return nil
		}
		for i, e := range elems {
			inner := len(ex.vars)
			if st, ok := e.(*interp.Struct); ok {
				ex.addr[st] = true // slice elements are addressable
			}
			switch len(n.Pipe.Decl) {
			case 1:
				ex.vars = append(ex.vars, tvar{n.Pipe.Decl[0].Ident[0], e})
			case 2:
				ex.vars = append(ex.vars, tvar{n.Pipe.Decl[0].Ident[0], int64(i)}, tvar{n.Pipe.Decl[1].Ident[0], e})
			}
			err := ex.walk(e, n.List)
			ex.vars = ex.vars[:inner]
			if err == errContinue {
				continue
			}
			if err == errBreak {
				break
			}
			if err != nil {
				return err
			}
		}
		return nil
	case *parse.TemplateNode:
		t := ex.src.Trees[n.Name]
		if t == nil || t.Root == nil {
			return ex.undecided(n, "template %q is not defined", n.Name)
		}
		ex.tdepth++
		defer func() { ex.tdepth-- }()
		if ex.tdepth > 20 {
			return ex.undecided(n, "template recursion")
		}
		var newDot interp.Value = interp.NilV{}
		if n.Pipe != nil {
			v, err := ex.pipelineNoDecl(dot, n.Pipe)
			if err != nil {
				return err
			}
			newDot = v
		}
		// a template invocation starts with a fresh variable scope holding only $
		saved := ex.vars
		ex.vars = []tvar{{"$", newDot}}
		err := ex.walk(newDot, t.Root)
		ex.vars = saved
		return err
	case *parse.BreakNode:
		// leaves the innermost range (text/template/parse rejects one outside a range)
		return errBreak
	case *parse.ContinueNode:
		return errContinue
	}
	return ex.undecided(n, "template node %T is outside the analysed vocabulary", n)
}

// errBreak, errContinue unwind the walk to the innermost range node.
var (
	errBreak    = fmt.Errorf("template break")
	errContinue = fmt.Errorf("template continue")
)

func (ex *expander) truth(n parse.Node, v interp.Value) (bool, error) {
	switch v := v.(type) {
	case bool:
		return v, nil
	case int64:
		return v != 0, nil
	case *interp.Sym:
		if c, ok := v.Concrete(); ok {
			return c != "", nil
		}
		return true, nil // contains a token, tokens are non-empty
	case interp.NilV:
		return false, nil
	case *interp.List:
		return len(v.Elems) > 0, nil
	case *interp.MapV:
		return len(v.Keys) > 0, nil
	case *interp.Ptr, *interp.Opaque, *interp.Closure, *interp.FuncV:
		return true, nil
	case *interp.Struct:
		return true, nil
	case *interp.Unknown:
		b, err := ex.m.TruthOf(v, fmt.Sprintf("tpl%d:%s", n.Position(), v.Why))
		return b, ex.wrap(n, err)
	}
	return false, ex.undecided(n, "truth value of %s", interp.Show(v))
}

// print renders a value the way text/template's printValue does, restricted
// to the kinds whose rendering is input independent.
func (ex *expander) print(n parse.Node, v interp.Value) (string, error) {
	switch v := v.(type) {
	case *interp.Sym:
		return v.Flat(), nil
	case int64:
		return fmt.Sprint(v), nil
	case bool:
		return fmt.Sprint(v), nil
	case *interp.Unknown:
		return "", ex.undecided(n, "the printed value is not determined by the abstract environment: %s", v.Why)
	case nil:
		return "", ex.undecided(n, "action yields no value")
	}
	return "", ex.undecided(n, "a value of kind %s is printed by the template; only strings, integers and booleans have an input-independent rendering", interp.Show(v))
}

func (ex *expander) pipeline(dot interp.Value, p *parse.PipeNode) (interp.Value, error) {
	v, err := ex.pipelineNoDecl(dot, p)
	if err != nil {
		return nil, err
	}
	for _, d := range p.Decl {
		if p.IsAssign {
			ex.setVar(d.Ident[0], v)
		} else {
			ex.vars = append(ex.vars, tvar{d.Ident[0], v})
		}
	}
	return v, nil
}

func (ex *expander) pipelineNoDecl(dot interp.Value, p *parse.PipeNode) (interp.Value, error) {
	if p == nil {
		return nil, nil
	}
	if ex.visited != nil {
		ex.visited[p] = true
	}
	var final interp.Value
	hasFinal := false
	for _, c := range p.Cmds {
		v, err := ex.command(dot, c, final, hasFinal)
		if err != nil {
			return nil, err
		}
		final, hasFinal = v, true
	}
	return final, nil
}

func (ex *expander) setVar(name string, v interp.Value) {
	for i := len(ex.vars) - 1; i >= 0; i-- {
		if ex.vars[i].name == name {
			ex.vars[i].val = v
			return
		}
	}
}

func (ex *expander) lookupVar(n parse.Node, name string) (interp.Value, error) {
	for i := len(ex.vars) - 1; i >= 0; i-- {
		if ex.vars[i].name == name {
			return ex.vars[i].val, nil
		}
	}
	return nil, ex.undecided(n, "undefined template variable %s", name)
}

func (ex *expander) command(dot interp.Value, c *parse.CommandNode, final interp.Value, hasFinal bool) (interp.Value, error) {
	prevDot, prevHas := ex.cmdDot, ex.hasCmdDot
	ex.cmdDot, ex.hasCmdDot = dot, true
	defer func() { ex.cmdDot, ex.hasCmdDot = prevDot, prevHas }()
	first := c.Args[0]
	switch n := first.(type) {
	case *parse.FieldNode:
		return ex.fieldChain(n, dot, n.Ident, c.Args, final, hasFinal)
	case *parse.ChainNode:
		base, err := ex.arg(dot, n.Node)
		if err != nil {
			return nil, err
		}
		return ex.fieldChain(n, base, n.Field, c.Args, final, hasFinal)
	case *parse.IdentifierNode:
		return ex.function(dot, n, c.Args, final, hasFinal)
	case *parse.PipeNode:
		if len(c.Args) > 1 || hasFinal {
			return nil, ex.undecided(n, "parenthesised pipeline used as a function")
		}
		return ex.pipelineNoDecl(dot, n)
	case *parse.VariableNode:
		v, err := ex.lookupVar(n, n.Ident[0])
		if err != nil {
			return nil, err
		}
		if len(n.Ident) == 1 {
			if len(c.Args) > 1 || hasFinal {
				return nil, ex.undecided(n, "variable %s called with arguments", n.Ident[0])
			}
			return v, nil
		}
		return ex.fieldChain(n, v, n.Ident[1:], c.Args, final, hasFinal)
	}
	if len(c.Args) > 1 || hasFinal {
		return nil, ex.undecided(first, "non-function %s used with arguments", first.String())
	}
	return ex.arg(dot, first)
}

func (ex *expander) arg(dot interp.Value, n parse.Node) (interp.Value, error) {
	switch n := n.(type) {
	case *parse.DotNode:
		return dot, nil
	case *parse.NilNode:
		return interp.NilV{}, nil
	case *parse.BoolNode:
		return n.True, nil
	case *parse.NumberNode:
		if n.IsInt {
			return n.Int64, nil
		}
		return nil, ex.undecided(n, "non-integer number constant")
	case *parse.StringNode:
		return interp.Lit(n.Text), nil
	case *parse.FieldNode:
		return ex.fieldChain(n, dot, n.Ident, []parse.Node{n}, nil, false)
	case *parse.VariableNode:
		v, err := ex.lookupVar(n, n.Ident[0])
		if err != nil {
			return nil, err
		}
		if len(n.Ident) == 1 {
			return v, nil
		}
		return ex.fieldChain(n, v, n.Ident[1:], []parse.Node{n}, nil, false)
	case *parse.PipeNode:
		return ex.pipelineNoDecl(dot, n)
	case *parse.ChainNode:
		base, err := ex.arg(dot, n.Node)
		if err != nil {
			return nil, err
		}
		return ex.fieldChain(n, base, n.Field, []parse.Node{n}, nil, false)
	case *parse.IdentifierNode:
		return ex.function(dot, n, []parse.Node{n}, nil, false)
	}
	return nil, ex.undecided(n, "argument node %T is outside the analysed vocabulary", n)
}

// fieldChain evaluates .A.B.C with text/template's rules: a name is a method
// of the value (pointer or value receiver as addressable), otherwise a struct
// field. Only the last element may take arguments.
func (ex *expander) fieldChain(n parse.Node, recv interp.Value, idents []string, args []parse.Node, final interp.Value, hasFinal bool) (interp.Value, error) {
	cur := recv
	for i, name := range idents {
		last := i == len(idents)-1
		var callArgs []interp.Value
		hasArgs := false
		if last {
			argDot := recv
			if ex.hasCmdDot && len(args) > 1 {
				argDot = ex.cmdDot
			}
			for _, a := range args[1:] {
				v, err := ex.arg(argDot, a)
				if err != nil {
					return nil, err
				}
				callArgs = append(callArgs, v)
			}
			if hasFinal {
				callArgs = append(callArgs, final)
			}
			hasArgs = len(callArgs) > 0
		}
		v, err := ex.field(n, cur, name, callArgs, hasArgs)
		if err != nil {
			return nil, err
		}
		cur = v
	}
	return cur, nil
}

func (ex *expander) field(n parse.Node, recv interp.Value, name string, args []interp.Value, hasArgs bool) (interp.Value, error) {
	var t types.Type
	switch r := recv.(type) {
	case *interp.Struct:
		t = r.Type
	case *interp.Ptr:
		t = types.NewPointer(r.Elem.Type)
	case interp.NilV:
		return nil, ex.undecided(n, "nil pointer evaluating .%s (text/template would fail at run time)", name)
	case *interp.Opaque:
		return ex.opaqueMethod(n, r, name, args)
	case *interp.Unknown:
		return r, nil
	default:
		return nil, ex.undecided(n, "field .%s of %s", name, interp.Show(recv))
	}
	// text/template: method on the pointer to the value first (values reached through
	// fields of the data are addressable only when the data is a pointer; moq passes
	// Data by value, so only value-receiver methods and pointer-held values apply).
	addressable := false
	if st, ok := recv.(*interp.Struct); ok && ex.addr[st] {
		addressable = true
	}
	obj, index, _ := types.LookupFieldOrMethod(t, addressable, nil, name)
	if obj == nil {
		// unexported names are never accessible from a template
		return nil, ex.undecided(n, "template refers to .%s, which is not an exported field or method of %s (execution would fail at run time)", name, types.TypeString(t, nil))
	}
	if !obj.Exported() {
		return nil, ex.undecided(n, "template refers to unexported .%s of %s", name, types.TypeString(t, nil))
	}
	// walk embedded path
	cur := recv
	for _, fi := range index[:len(index)-1] {
		st := structOf(cur)
		if st == nil {
			return nil, ex.undecided(n, "embedded path of .%s", name)
		}
		stt := st.Type.Underlying().(*types.Struct)
		cur = st.Fields[stt.Field(fi).Name()]
		if es, isStruct := cur.(*interp.Struct); isStruct && ex.addr[st] {
			ex.addr[es] = true
		}
	}
	switch o := obj.(type) {
	case *types.Var:
		if hasArgs {
			return nil, ex.undecided(n, "field .%s used with arguments", name)
		}
		st := structOf(cur)
		if st == nil {
			return nil, ex.undecided(n, "field .%s of %s", name, interp.Show(cur))
		}
		v, ok := st.Fields[o.Name()]
		if !ok {
			return nil, ex.undecided(n, "field %s is not populated in the abstract environment", name)
		}
		if fs, isStruct := v.(*interp.Struct); isStruct && ex.addr[st] {
			ex.addr[fs] = true // a field of an addressable struct is addressable
		}
		return v, nil
	case *types.Func:
		sig := o.Type().(*types.Signature)
		if sig.Results().Len() == 0 || sig.Results().Len() > 2 {
			return nil, ex.undecided(n, "method .%s does not return one value (text/template would fail)", name)
		}
		v, err := ex.m.CallFunc(token.NoPos, o, cur, args)
		if err != nil {
			return nil, ex.wrap(n, err)
		}
		return v, nil
	}
	return nil, ex.undecided(n, "selector .%s", name)
}

func structOf(v interp.Value) *interp.Struct {
	switch v := v.(type) {
	case *interp.Struct:
		return v
	case *interp.Ptr:
		return v.Elem
	}
	return nil
}

func (ex *expander) opaqueMethod(n parse.Node, o *interp.Opaque, name string, args []interp.Value) (interp.Value, error) {
	full := interp.OpaqueMethodKey(o.Kind, name)
	if ext, ok := ex.m.Ext[full]; ok {
		pos := ex.src.PosOf(int(n.Position()))
		v, err := ext(ex.m, pos, o, args)
		return v, ex.wrap(n, err)
	}
	return nil, ex.undecided(n, "method .%s on a %s value has no model", name, o.Kind)
}

func (ex *expander) function(dot interp.Value, id *parse.IdentifierNode, args []parse.Node, final interp.Value, hasFinal bool) (interp.Value, error) {
	name := id.Ident
	var vals []interp.Value
	// and/or short-circuit
	if name == "and" || name == "or" {
		var last interp.Value
		all := args[1:]
		for i, a := range all {
			v, err := ex.arg(dot, a)
			if err != nil {
				return nil, err
			}
			last = v
			t, err := ex.truth(id, v)
			if err != nil {
				return nil, err
			}
			if (name == "and" && !t) || (name == "or" && t) {
				return v, nil
			}
			_ = i
		}
		if hasFinal {
			return final, nil
		}
		return last, nil
	}
	for _, a := range args[1:] {
		v, err := ex.arg(dot, a)
		if err != nil {
			return nil, err
		}
		vals = append(vals, v)
	}
	if hasFinal {
		vals = append(vals, final)
	}
	if _, ok := ex.src.Funcs[name]; ok {
		if Uninterpreted[name] {
			if len(vals) != 1 {
				return nil, ex.undecided(id, "uninterpreted function %s with %d arguments", name, len(vals))
			}
			s, ok := vals[0].(*interp.Sym)
			if !ok {
				return nil, ex.undecided(id, "uninterpreted function %s applied to %s", name, interp.Show(vals[0]))
			}
			if c, ok := s.Concrete(); ok && c == "" {
				return interp.Lit(""), nil
			}
			return interp.Tok(OpExported + s.Flat()), nil
		}
		cl, fpos, _ := ex.src.FuncValue(name)
		v, err := ex.m.Call(fpos, cl, vals)
		return v, ex.wrap(id, err)
	}
	switch name {
	case "print", "printf":
		ext := "fmt.Sprint"
		if name == "printf" {
			ext = "fmt.Sprintf"
		} else {
			// fmt.Sprint adds a space between operands when neither is a string
			for i := 1; i < len(vals); i++ {
				_, s1 := vals[i-1].(*interp.Sym)
				_, s2 := vals[i].(*interp.Sym)
				if !s1 && !s2 {
					return nil, ex.undecided(id, "print of adjacent non-string operands")
				}
			}
			for i, v := range vals {
				switch n := v.(type) {
				case int64:
					vals[i] = interp.Lit(fmt.Sprint(n))
				case bool:
					vals[i] = interp.Lit(fmt.Sprint(n))
				}
			}
		}
		v, err := ex.m.Ext[ext](ex.m, token.NoPos, nil, vals)
		if err != nil {
			return nil, ex.wrap(id, err)
		}
		if _, ok := v.(*interp.Sym); !ok {
			return nil, ex.undecided(id, "%s of %d operands is outside the analysed vocabulary", name, len(vals))
		}
		return v, nil
	case "not":
		if len(vals) != 1 {
			return nil, ex.undecided(id, "not with %d arguments", len(vals))
		}
		t, err := ex.truth(id, vals[0])
		return !t, err
	case "len":
		if len(vals) == 1 {
			switch v := vals[0].(type) {
			case *interp.List:
				return int64(len(v.Elems)), nil
			case interp.NilV:
				return int64(0), nil
			}
		}
		return nil, ex.undecided(id, "len of a non-list value")
	case "eq", "ne", "lt", "le", "gt", "ge":
		if len(vals) != 2 {
			return nil, ex.undecided(id, "%s with %d arguments", name, len(vals))
		}
		a, aok := vals[0].(int64)
		b, bok := vals[1].(int64)
		if aok && bok {
			switch name {
			case "eq":
				return a == b, nil
			case "ne":
				return a != b, nil
			case "lt":
				return a < b, nil
			case "le":
				return a <= b, nil
			case "gt":
				return a > b, nil
			default:
				return a >= b, nil
			}
		}
		ab, aok := vals[0].(bool)
		bb, bok := vals[1].(bool)
		if aok && bok && (name == "eq" || name == "ne") {
			return (ab == bb) == (name == "eq"), nil
		}
		as, aok := vals[0].(*interp.Sym)
		bs, bok := vals[1].(*interp.Sym)
		if aok && bok && (name == "eq" || name == "ne") {
			eq, known := as.Equal(bs)
			if known {
				return eq == (name == "eq"), nil
			}
			return &interp.Unknown{Why: fmt.Sprintf("%s %q %q", name, as.Flat(), bs.Flat())}, nil
		}
		return nil, ex.undecided(id, "comparison %s of %s and %s is outside the analysed vocabulary", name, interp.Show(vals[0]), interp.Show(vals[1]))
	}
	return nil, ex.undecided(id, "template function %s is outside the analysed vocabulary", name)
}
