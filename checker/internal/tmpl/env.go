package tmpl

import (
	"fmt"
	"go/ast"
	"go/token"
	"go/types"
	"strings"
	"sync"

	"verif/checker/internal/interp"
	"verif/checker/internal/load"
)

// Token spellings. Every token is <opener><body>ˑ where the opener is a
// letter that occurs nowhere in moq's template and ˑ (U+02D1, a letter)
// terminates it, so an identifier such as Ɱ0ˑFunc decomposes uniquely into
// the token Ɱ0ˑ and the literal "Func".
const (
	TokEnd       = "ˑ"
	OpMethod     = "Ɱ" // method name (exported)
	OpMock       = "Ɯ" // mock type name
	OpIface      = "Ɨ" // interface name
	OpParam      = "ƥ" // parameter name
	OpResult     = "ɍ" // result name
	OpTypeParam  = "Ƭ" // type parameter name
	OpType       = "Ŧ" // a type declared in a placeholder package
	OpConstraint = "Ƙ" // a constraint declared in a placeholder package
	OpExported   = "Ɛ" // uninterpreted application of the Exported template function
	OpAlias      = "ƌ" // an import alias
)

const (
	DepPath  = "example.test/dep"
	Dep2Path = "example.test/dep2"
	SrcPath  = "example.test/src"
	DestPath = "example.test/dest"
)

// MethodShape is the abstract shape of an interface method.
type MethodShape struct {
	NParams  int
	Variadic bool
	NResults int
	AnyTail  bool // the variadic element type is `any` (a missing `...` then still type-checks)
}

// TPShape is the abstract shape of a type parameter.
type TPShape struct {
	Explicit bool // explicitConstraintType returns a representative type
}

// MockShape is the abstract shape of one requested interface.
type MockShape struct {
	TypeParams []TPShape
	Methods    []MethodShape
	Aliased    bool // requested as "Interface:Name"
	DupOfFirst bool // the same interface as the first mock, requested again (under another name)
	SameName   bool // requested as "Iface:Iface": the mock carries the interface's name
}

// Env is an abstract template.Data value.
type Env struct {
	Stub, SkipEnsure, WithResets bool
	External                     bool // destination package differs from the source package
	ExplicitSame                 bool // -pkg names the source package itself (in place)
	DestTest                     bool // -pkg <src>_test: the external test package (implies External)
	SyncAliased                  bool // sync is imported under an alias
	Mocks                        []MockShape
}

func (e Env) String() string {
	var fl []string
	if e.Stub {
		fl = append(fl, "stub")
	}
	if e.SkipEnsure {
		fl = append(fl, "skip-ensure")
	}
	if e.WithResets {
		fl = append(fl, "with-resets")
	}
	if e.External {
		fl = append(fl, "external")
	} else {
		fl = append(fl, "in-place")
	}
	if e.SyncAliased {
		fl = append(fl, "sync-aliased")
	}
	if e.ExplicitSame {
		fl = append(fl, "pkg=same")
	}
	if e.DestTest {
		fl = append(fl, "pkg=src_test")
	}
	var ms []string
	for _, m := range e.Mocks {
		var meths []string
		for _, me := range m.Methods {
			v := ""
			if me.Variadic {
				v = "v"
			}
			if me.AnyTail {
				v = "V"
			}
			meths = append(meths, fmt.Sprintf("%d%s>%d", me.NParams, v, me.NResults))
		}
		tp := ""
		for _, t := range m.TypeParams {
			if t.Explicit {
				tp += "E"
			} else {
				tp += "a"
			}
		}
		if tp != "" {
			tp = "[" + tp + "]"
		}
		if m.Aliased {
			tp = "alias:" + tp
		}
		if m.SameName {
			tp = "same-name:" + tp
		}
		if m.DupOfFirst {
			tp = "dup:" + tp
		}
		ms = append(ms, tp+"{"+strings.Join(meths, " ")+"}")
	}
	return strings.Join(fl, ",") + " mocks=" + strings.Join(ms, " ")
}

// HasMethods reports whether some mock has a method (the sync import condition).
func (e Env) HasMethods() bool {
	for _, m := range e.Mocks {
		if len(m.Methods) > 0 {
			return true
		}
	}
	return false
}

// ParamInfo describes one abstract parameter, result or type parameter.
type ParamInfo struct {
	Name     string // token spelling
	TypeText string // full type text as moq prints it (for a variadic parameter: "[]" + element)
	Variadic bool
	Explicit string // for type parameters: the representative type text, "" if none
	DeclName string // for type parameters: the name the generator's data carries for the declaration
}

// MethodInfo is the concrete description of a skeleton method, shared by the
// environment builder and the independent interface declaration.
type MethodInfo struct {
	Name    string
	Params  []ParamInfo
	Results []ParamInfo
}

// MockInfo describes a skeleton mock.
type MockInfo struct {
	DupOfFirst bool
	Aliased    bool
	MockName   string
	IfaceName  string
	TypeParams []ParamInfo
	Methods    []MethodInfo
	Arg        *interp.Sym // the command-line argument, when it is not IfaceName or IfaceName:MockName
}

// Model is the concrete token assignment of an Env.
type Model struct {
	Env       Env
	Mocks     []MockInfo
	DepTypes  []string // names declared in package dep
	Dep2Types []string // names declared in package dep2
	Dep2Alias string
	UsesDep   bool
	UsesDep2  bool
	SyncQual  string
	SrcQual   string
	// UnknownOptions: see props.SkelOpts
	UnknownOptions bool
}

func tok(op string, idx ...int) string {
	var ss []string
	for _, i := range idx {
		ss = append(ss, fmt.Sprint(i))
	}
	return op + strings.Join(ss, "_") + TokEnd
}

// BuildModel assigns tokens to an environment.
func BuildModel(e Env) *Model {
	m := &Model{Env: e, Dep2Alias: OpAlias + "2" + TokEnd, SyncQual: "sync", SrcQual: SrcPkgName}
	if e.SyncAliased {
		m.SyncQual = OpAlias + "sync" + TokEnd
	}
	nt := 0
	depType := func() string {
		n := tok(OpType, nt)
		nt++
		m.DepTypes = append(m.DepTypes, n)
		m.UsesDep = true
		return "dep." + n
	}
	dep2Type := func() string {
		n := tok(OpType, nt)
		nt++
		m.Dep2Types = append(m.Dep2Types, n)
		m.UsesDep2 = true
		return m.Dep2Alias + "." + n
	}
	for i, ms := range e.Mocks {
		if ms.DupOfFirst && i > 0 {
			ms.TypeParams, ms.Methods = e.Mocks[0].TypeParams, e.Mocks[0].Methods
		}
		mi := MockInfo{IfaceName: tok(OpIface, i), Aliased: ms.Aliased, DupOfFirst: ms.DupOfFirst && i > 0}
		if mi.DupOfFirst {
			mi.IfaceName = m.Mocks[0].IfaceName
		}
		mi.MockName = mi.IfaceName + "Mock"
		if ms.Aliased {
			mi.MockName = tok(OpMock, i)
			if ms.SameName {
				mi.MockName = mi.IfaceName
			}
		}
		ti := i // index used in the interface's own tokens
		if mi.DupOfFirst {
			// the very same interface: same type parameters, methods and type texts
			mi.TypeParams = append([]ParamInfo{}, m.Mocks[0].TypeParams...)
			for _, me := range m.Mocks[0].Methods {
				mi.Methods = append(mi.Methods, MethodInfo{Name: me.Name, Params: append([]ParamInfo{}, me.Params...), Results: append([]ParamInfo{}, me.Results...)})
			}
			m.Mocks = append(m.Mocks, mi)
			continue
		}
		for k, tp := range ms.TypeParams {
			p := ParamInfo{Name: tok(OpTypeParam, ti, k), TypeText: "any"}
			p.DeclName = p.Name
			if tp.Explicit {
				p.TypeText = "interface{ ~int | ~string }"
				p.Explicit = "int"
			}
			mi.TypeParams = append(mi.TypeParams, p)
		}
		for j, sh := range ms.Methods {
			me := MethodInfo{Name: tok(OpMethod, ti, j)}
			for k := 0; k < sh.NParams; k++ {
				p := ParamInfo{Name: tok(OpParam, ti, j, k)}
				switch {
				case sh.Variadic && k == sh.NParams-1 && sh.AnyTail:
					p.Variadic = true
					p.TypeText = "[]any"
				case sh.Variadic && k == sh.NParams-1:
					p.Variadic = true
					p.TypeText = "[]" + depType()
				case k == 0 && len(mi.TypeParams) > 0:
					p.TypeText = mi.TypeParams[0].Name
				default:
					p.TypeText = depType()
				}
				me.Params = append(me.Params, p)
			}
			for k := 0; k < sh.NResults; k++ {
				p := ParamInfo{Name: tok(OpResult, ti, j, k)}
				if k == 0 && len(mi.TypeParams) > 0 {
					p.TypeText = "[]" + mi.TypeParams[len(mi.TypeParams)-1].Name
				} else if sh.Variadic && k == sh.NResults-1 {
					// the last result of a variadic method is a slice as well: what marks the variadic
					// parameter (last of a variadic signature, a slice) must not mark it
					p.TypeText = "[]" + dep2Type()
				} else {
					p.TypeText = dep2Type()
				}
				me.Results = append(me.Results, p)
			}
			mi.Methods = append(mi.Methods, me)
		}
		m.Mocks = append(m.Mocks, mi)
	}
	return m
}

// dataTypes resolves the data model's named types by role name.
type dataTypes struct {
	Data, MockData, MethodData, ParamData, TypeParamData *types.Named
	Var, Package                                         *types.Named
}

func lookupNamed(prog *load.Program, pkgPath, name string) (*types.Named, error) {
	pk := prog.ByPath[pkgPath]
	if pk == nil {
		return nil, fmt.Errorf("package %s not loaded", pkgPath)
	}
	tn, _ := pk.Types.Scope().Lookup(name).(*types.TypeName)
	if tn == nil {
		return nil, fmt.Errorf("data model anchor lost: type %s.%s not found", pkgPath, name)
	}
	n, _ := tn.Type().(*types.Named)
	if n == nil {
		return nil, fmt.Errorf("data model anchor lost: %s.%s is not a defined type", pkgPath, name)
	}
	if _, ok := n.Underlying().(*types.Struct); !ok {
		return nil, fmt.Errorf("data model anchor lost: %s.%s is not a struct", pkgPath, name)
	}
	return n, nil
}

// mkStruct builds a struct value, checking that every given field exists.
func mkStruct(t *types.Named, id string, fields map[string]interp.Value) (*interp.Struct, error) {
	st := t.Underlying().(*types.Struct)
	s := &interp.Struct{Type: t, Fields: map[string]interp.Value{}, ID: id}
	have := map[string]bool{}
	for i := 0; i < st.NumFields(); i++ {
		have[st.Field(i).Name()] = true
	}
	for name, v := range fields {
		if !have[name] {
			return nil, fmt.Errorf("data model anchor lost: %s has no field %s", t.Obj().Name(), name)
		}
		s.Fields[name] = v
	}
	for i := 0; i < st.NumFields(); i++ {
		f := st.Field(i)
		if _, ok := s.Fields[f.Name()]; !ok {
			return nil, fmt.Errorf("data model changed: field %s.%s is not part of the abstract environment (the generator side rule G-DATA must be extended first)", t.Obj().Name(), f.Name())
		}
	}
	return s, nil
}

func typeTextSym(text string) *interp.Sym {
	if strings.HasPrefix(text, "[]") {
		return interp.Concat(interp.Lit("[]"), interp.Tok(text[2:]))
	}
	return interp.Tok(text)
}

// BuildData turns a model into an abstract template.Data value.
func BuildData(prog *load.Program, m *Model) (*interp.Struct, error) {
	var dt dataTypes
	var err error
	get := func(dst **types.Named, pkg, name string) {
		if err == nil {
			*dst, err = lookupNamed(prog, pkg, name)
		}
	}
	get(&dt.Data, load.PkgTemplate, "Data")
	get(&dt.MockData, load.PkgTemplate, "MockData")
	get(&dt.MethodData, load.PkgTemplate, "MethodData")
	get(&dt.ParamData, load.PkgTemplate, "ParamData")
	get(&dt.TypeParamData, load.PkgTemplate, "TypeParamData")
	get(&dt.Var, load.PkgRegistry, "Var")
	get(&dt.Package, load.PkgRegistry, "Package")
	if err != nil {
		return nil, err
	}
	e := m.Env
	nvar := 0
	mkVar := func(p ParamInfo) (interp.Value, error) {
		nvar++
		id := fmt.Sprintf("var%d", nvar)
		vr := &interp.Opaque{Kind: "types.Var", ID: id, Attrs: map[string]interp.Value{
			"type": &interp.Opaque{Kind: "types.Type", ID: id + ".type", Attrs: map[string]interp.Value{"text": typeTextSym(p.TypeText)}},
			"name": interp.Tok(p.Name),
		}}
		s, err := mkStruct(dt.Var, id, map[string]interp.Value{"Name": interp.Tok(p.Name)})
		if err != nil {
			return nil, err
		}
		s.Aux = map[string]interp.Value{"vr": vr}
		return &interp.Ptr{Elem: s}, nil
	}
	mkParam := func(p ParamInfo) (*interp.Struct, error) {
		v, err := mkVar(p)
		if err != nil {
			return nil, err
		}
		return mkStruct(dt.ParamData, "", map[string]interp.Value{"Var": v, "Variadic": p.Variadic})
	}
	mkPkg := func(path, name, alias string) (interp.Value, error) {
		var a *interp.Sym = interp.Lit("")
		if alias != "" {
			a = interp.Tok(alias)
		}
		var nm *interp.Sym
		if strings.Contains(name, TokEnd) {
			nm = interp.Tok(name)
		} else {
			nm = interp.Lit(name)
		}
		mm := interp.New(prog)
		InstallTypesModels(mm, prog)
		s := NewPackageValue(prog, mm, &interp.Opaque{Kind: "types.Package", ID: path, Attrs: map[string]interp.Value{"path": interp.Lit(path), "name": nm}}, a)
		if s == nil {
			return nil, fmt.Errorf("data model anchor lost: registry.NewPackage cannot be interpreted")
		}
		s.ID = "pkg:" + path
		return &interp.Ptr{Elem: s}, nil
	}
	// imports, sorted by path as Registry.Imports does (dep < dep2 < src < sync)
	imports := &interp.List{}
	addPkg := func(path, name, alias string) error {
		p, err := mkPkg(path, name, alias)
		if err == nil {
			imports.Elems = append(imports.Elems, p)
		}
		return err
	}
	if m.UsesDep {
		if err := addPkg(DepPath, "dep", ""); err != nil {
			return nil, err
		}
	}
	if m.UsesDep2 {
		if err := addPkg(Dep2Path, "dep2", m.Dep2Alias); err != nil {
			return nil, err
		}
	}
	srcQual := interp.Lit("")
	if e.External {
		srcQual = interp.Lit(m.SrcQual + ".")
		if !e.SkipEnsure {
			if err := addPkg(SrcPath, m.SrcQual, ""); err != nil {
				return nil, err
			}
		}
	}
	if e.HasMethods() {
		alias := ""
		if e.SyncAliased {
			alias = m.SyncQual
		}
		if err := addPkg("sync", "sync", alias); err != nil {
			return nil, err
		}
	}
	mocks := &interp.List{}
	for _, mi := range m.Mocks {
		tps := &interp.List{}
		for _, tp := range mi.TypeParams {
			pd, err := mkParam(tp)
			if err != nil {
				return nil, err
			}
			var c interp.Value = interp.NilV{}
			if tp.Explicit != "" {
				c = &interp.Opaque{Kind: "types.Type", ID: "constraint:" + tp.Name, Attrs: map[string]interp.Value{"text": interp.Tok(tp.Explicit), "unqualified": true}}
			}
			s, err := mkStruct(dt.TypeParamData, "", map[string]interp.Value{"ParamData": pd, "Constraint": c})
			if err != nil {
				return nil, err
			}
			tps.Elems = append(tps.Elems, s)
		}
		meths := &interp.List{}
		for _, me := range mi.Methods {
			ps, rs := &interp.List{}, &interp.List{}
			for _, p := range me.Params {
				pd, err := mkParam(p)
				if err != nil {
					return nil, err
				}
				ps.Elems = append(ps.Elems, pd)
			}
			for _, p := range me.Results {
				pd, err := mkParam(p)
				if err != nil {
					return nil, err
				}
				rs.Elems = append(rs.Elems, pd)
			}
			s, err := mkStruct(dt.MethodData, "", map[string]interp.Value{"Name": interp.Tok(me.Name), "Params": ps, "Returns": rs})
			if err != nil {
				return nil, err
			}
			meths.Elems = append(meths.Elems, s)
		}
		s, err := mkStruct(dt.MockData, "", map[string]interp.Value{
			"InterfaceName": interp.Tok(mi.IfaceName), "MockName": interp.Tok(mi.MockName), "TypeParams": tps, "Methods": meths,
		})
		if err != nil {
			return nil, err
		}
		mocks.Elems = append(mocks.Elems, s)
	}
	return mkStruct(dt.Data, "data", map[string]interp.Value{
		"PkgName": interp.Lit(m.PkgName()), "SrcPkgQualifier": srcQual, "Imports": imports, "Mocks": mocks,
		"StubImpl": e.Stub, "SkipEnsure": e.SkipEnsure, "WithResets": e.WithResets,
	})
}

// InstallTypesModels installs the models of the go/types API used by the
// template helpers. Rendering a type any other way than
// types.TypeString(v.vr.Type(), v.packageQualifier) is noted under G-RENDER.
func InstallTypesModels(m *interp.Machine, prog *load.Program) {
	installUninterpreted(m, prog)
	InstallIdentifierModels(m)
	attr := func(kind, name string) interp.ExtFunc {
		return func(m *interp.Machine, pos token.Pos, recv interp.Value, args []interp.Value) (interp.Value, error) {
			if o, ok := recv.(*interp.Opaque); ok && o.Kind == kind {
				if v, ok := o.Attrs[name]; ok {
					return v, nil
				}
			}
			return &interp.Unknown{Why: kind + "." + name + " on " + interp.Show(recv)}, nil
		}
	}
	// nil-safe length methods of go/types lists (a nil *TypeList has length 0)
	for _, k := range []string{"TypeList", "TypeParamList", "Tuple"} {
		m.Ext["(*go/types."+k+").Len"] = func(m *interp.Machine, pos token.Pos, recv interp.Value, args []interp.Value) (interp.Value, error) {
			if _, isNil := recv.(interp.NilV); isNil {
				return int64(0), nil
			}
			return &interp.Unknown{Why: "Len of " + interp.Show(recv)}, nil
		}
	}
	m.Ext["(*go/types.Package).Path"] = attr("types.Package", "path")
	m.Ext["(*go/types.Package).Name"] = attr("types.Package", "name")
	m.Ext["(*go/types.Var).Type"] = attr("types.Var", "type")
	m.Ext["(*go/types.Var).Name"] = attr("types.Var", "name")
	pqual := prog.LookupFunc(load.PkgRegistry, "Var.packageQualifier")
	render := func(how string) interp.ExtFunc {
		return func(m *interp.Machine, pos token.Pos, recv interp.Value, args []interp.Value) (interp.Value, error) {
			t := recv
			if how == "TypeString" || how == "ObjectString" {
				if len(args) != 2 {
					return &interp.Unknown{Why: "types." + how + " arity"}, nil
				}
				t = args[0]
			}
			o, ok := t.(*interp.Opaque)
			if !ok || o.Kind != "types.Type" {
				return &interp.Unknown{Why: "types." + how + " of " + interp.Show(t)}, nil
			}
			text := o.Attrs["text"]
			if how == "TypeString" {
				// the qualifier must be the method value packageQualifier of the Var that owns the type
				if fv, ok := args[1].(*interp.FuncV); ok && pqual != nil && fv.Fn.Origin() == pqual {
					if owner := ownerID(fv.Recv); owner != "" && owner+".type" == o.ID {
						return text, nil
					}
					m.Notes = append(m.Notes, interp.Note{Rule: "G-RENDER", Key: "G-RENDER:foreign-qualifier", Pos: pos,
						Msg: "a type is rendered with the package qualifier of a different variable (its import set may not contain the type's packages)"})
					return text, nil
				}
			}
			// keyed by what is rendered and how, not by where: the same defect keeps its key when the
			// expression moves between the template and a helper or its variables are renamed
			class := "type"
			switch {
			case strings.HasPrefix(o.ID, "constraint:"):
				class = "explicit-constraint-type"
			case strings.HasSuffix(o.ID, ".type"):
				class = "variable-type"
			}
			m.Notes = append(m.Notes, interp.Note{Rule: "G-RENDER", Key: "G-RENDER:" + how + ":" + class, Pos: pos,
				Msg: "a go/types type reaches the output through " + how + " without the file's package qualifier (Var.packageQualifier): types from other packages are printed with their full path or unqualified"})
			return text, nil
		}
	}
	m.Ext["go/types.TypeString"] = render("TypeString")
	m.Ext["go/types.ObjectString"] = render("ObjectString")
	m.Ext["(go/types.Type).String"] = render("Type.String")
	InstallVarModels(m)
}

// RemoveVarModels lets the real registry.Var methods be interpreted (engines R and N).
func RemoveVarModels(m *interp.Machine) {
	for _, form := range varMethodForms(m.Prog) {
		delete(m.Ext, form+"TypeString")
		delete(m.Ext, form+"IsSlice")
	}
}

// varMethodForms: the receiver forms under which the exported rendering methods of registry.Var are
// declared — Var itself, or the struct Var embeds that declares them (found through the method set of
// *Var, so that moving the methods into an embedded part is followed).
func varMethodForms(prog *load.Program) []string {
	forms := []string{"(*" + load.PkgRegistry + ".Var).", "(" + load.PkgRegistry + ".Var)."}
	if prog == nil {
		return forms
	}
	for _, name := range []string{"TypeString", "IsSlice"} {
		fn := prog.LookupFunc(load.PkgRegistry, "Var."+name)
		if fn == nil {
			continue
		}
		sig, _ := fn.Type().(*types.Signature)
		if sig == nil || sig.Recv() == nil {
			continue
		}
		t := sig.Recv().Type()
		if p, ok := t.(*types.Pointer); ok {
			t = p.Elem()
		}
		n, ok := types.Unalias(t).(*types.Named)
		if !ok || n.Obj().Pkg() == nil {
			continue
		}
		q := n.Obj().Pkg().Path() + "." + n.Obj().Name()
		for _, f := range []string{"(*" + q + ").", "(" + q + ")."} {
			dup := false
			for _, have := range forms {
				if have == f {
					dup = true
				}
			}
			if !dup {
				forms = append(forms, f)
			}
		}
	}
	return forms
}

// NewPackageValue builds a registry.Package for the abstract go/types package by interpreting the exported
// constructor registry.NewPackage and setting the exported Alias field.
func NewPackageValue(prog *load.Program, m *interp.Machine, pkg *interp.Opaque, alias *interp.Sym) *interp.Struct {
	fn := prog.LookupFunc(load.PkgRegistry, "NewPackage")
	if fn == nil {
		return nil
	}
	v, err := m.CallFunc(token.NoPos, fn, nil, []interp.Value{pkg})
	if err != nil {
		return nil
	}
	p, ok := v.(*interp.Ptr)
	if !ok {
		return nil
	}
	p.Elem.Fields["Alias"] = alias
	p.Elem.Aux = map[string]interp.Value{"pkg": pkg}
	return p.Elem
}

// InstallVarModels models the exported rendering methods of registry.Var on the abstract variables of
// engine M: the type text of the variable's type (that the real TypeString renders through the file's
// qualifier is decided on the real code by engine N's qualifier table) and whether it is a slice.
func InstallVarModels(m *interp.Machine) {
	typeOf := func(recv interp.Value) *interp.Opaque {
		var st *interp.Struct
		switch r := recv.(type) {
		case *interp.Ptr:
			st = r.Elem
		case *interp.Struct:
			st = r
		}
		if st == nil {
			return nil
		}
		vr, _ := st.Aux["vr"].(*interp.Opaque)
		if vr == nil {
			return nil
		}
		t, _ := vr.Attrs["type"].(*interp.Opaque)
		return t
	}
	for _, form := range varMethodForms(m.Prog) {
		m.Ext[form+"TypeString"] = func(m *interp.Machine, pos token.Pos, recv interp.Value, args []interp.Value) (interp.Value, error) {
			if t := typeOf(recv); t != nil {
				if text, ok := t.Attrs["text"].(*interp.Sym); ok {
					return text, nil
				}
			}
			return &interp.Unknown{Why: "Var.TypeString of " + interp.Show(recv)}, nil
		}
		m.Ext[form+"IsSlice"] = func(m *interp.Machine, pos token.Pos, recv interp.Value, args []interp.Value) (interp.Value, error) {
			if t := typeOf(recv); t != nil {
				if text, ok := t.Attrs["text"].(*interp.Sym); ok {
					return strings.HasPrefix(text.Flat(), "[]"), nil
				}
			}
			return &interp.Unknown{Why: "Var.IsSlice of " + interp.Show(recv)}, nil
		}
	}
	// any other method of Var (a restructuring adds Sizeof, ZeroValue, ElemTypeString …) is interpreted
	// from its source; where it asks the go/types variable — which the abstract variable of this engine
	// does not carry — its answer is unknown: conditions on it are explored both ways, printing it is
	// undecided.
	if m.Prog == nil {
		return
	}
	fn := m.Prog.LookupFunc(load.PkgRegistry, "Var.TypeString")
	if fn == nil {
		return
	}
	sig, _ := fn.Type().(*types.Signature)
	if sig == nil || sig.Recv() == nil {
		return
	}
	rt := sig.Recv().Type()
	if p, ok := rt.(*types.Pointer); ok {
		rt = p.Elem()
	}
	named, ok := types.Unalias(rt).(*types.Named)
	if !ok {
		return
	}
	for i := 0; i < named.NumMethods(); i++ {
		meth := named.Method(i)
		if _, modelled := m.Ext[meth.FullName()]; modelled {
			continue
		}
		msig, _ := meth.Type().(*types.Signature)
		if msig == nil || msig.Results().Len() == 0 {
			continue
		}
		m.Ext[meth.FullName()] = func(m *interp.Machine, pos token.Pos, recv interp.Value, args []interp.Value) (interp.Value, error) {
			nNotes := len(m.Notes)
			v, err := m.CallSource(pos, meth, recv, args)
			if err == nil {
				return v, nil
			}
			u, isU := err.(*interp.ErrUndecided)
			if !isU || !strings.Contains(u.Msg, "nil dereference") {
				return nil, err
			}
			// the nil pointer is the abstract variable's missing go/types object, not the generator's
			m.Notes = m.Notes[:nNotes]
			m.Notes = append(m.Notes, interp.Note{Rule: "H-UNMODELLED", Key: "Var." + meth.Name(), Pos: pos, Msg: "method " + meth.Name() + " of registry.Var asks the go/types variable: its answer is unknown to engine M"})
			why := "Var." + meth.Name() + " of " + interp.Show(recv)
			if msig.Results().Len() > 1 {
				var t interp.Tuple
				for k := 0; k < msig.Results().Len(); k++ {
					t = append(t, &interp.Unknown{Why: fmt.Sprintf("%s#%d", why, k)})
				}
				return t, nil
			}
			return &interp.Unknown{Why: why}, nil
		}
	}
}

func ownerID(v interp.Value) string {
	switch v := v.(type) {
	case *interp.Ptr:
		return v.Elem.ID
	case *interp.Struct:
		return v.ID
	}
	return ""
}

// PkgName is the package clause the output must carry.
func (m *Model) PkgName() string {
	if m.Env.DestTest {
		return SrcPkgName + "_test"
	}
	if m.Env.External {
		return DestPkgName
	}
	return SrcPkgName
}


var (
	uninterpMu    sync.Mutex
	uninterpCache = map[*load.Program]map[string]*types.Func{}
)

// installUninterpreted: a template function of the Uninterpreted set that is a declared moq function
// (`"Exported": exported`) is the same uninterpreted token map when the generator calls it from Go code
// (field names precomputed into the data): equal arguments give equal tokens, the empty string stays empty.
func installUninterpreted(m *interp.Machine, prog *load.Program) {
	if prog == nil {
		return
	}
	uninterpMu.Lock()
	fns, ok := uninterpCache[prog]
	if !ok {
		fns = map[string]*types.Func{}
		if src, err := Extract(prog); err == nil {
			for name := range Uninterpreted {
				if id, ok := src.Funcs[name].(*ast.Ident); ok {
					if fn, ok := src.FuncsInfo.Uses[id].(*types.Func); ok {
						fns[name] = fn
					}
				}
			}
		}
		uninterpCache[prog] = fns
	}
	uninterpMu.Unlock()
	for _, fn := range fns {
		m.Ext[fn.FullName()] = func(m *interp.Machine, pos token.Pos, recv interp.Value, args []interp.Value) (interp.Value, error) {
			if len(args) == 1 {
				if s, ok := args[0].(*interp.Sym); ok {
					if c, ok := s.Concrete(); ok && c == "" {
						return interp.Lit(""), nil
					}
					return interp.Tok(OpExported + s.Flat()), nil
				}
			}
			return &interp.Unknown{Why: "Exported of " + interp.Show(args[0])}, nil
		}
	}
}


// InstallIdentifierModels: go/token.IsIdentifier, IsKeyword, IsExported and types.Universe.Lookup on
// constant names (a generated alias is tested for being usable as a package qualifier); unknown otherwise.
func InstallIdentifierModels(m *interp.Machine) {
	onConst := func(what string, f func(string) bool) interp.ExtFunc {
		return func(m *interp.Machine, pos token.Pos, recv interp.Value, a []interp.Value) (interp.Value, error) {
			if len(a) == 1 {
				if s, ok := a[0].(*interp.Sym); ok {
					if c, ok := s.Concrete(); ok {
						return f(c), nil
					}
				}
			}
			return &interp.Unknown{Why: what + " of a symbolic name"}, nil
		}
	}
	if _, have := m.Ext["go/token.IsIdentifier"]; !have {
		m.Ext["go/token.IsIdentifier"] = onConst("token.IsIdentifier", token.IsIdentifier)
	}
	if _, have := m.Ext["go/token.IsKeyword"]; !have {
		m.Ext["go/token.IsKeyword"] = onConst("token.IsKeyword", token.IsKeyword)
	}
	if _, have := m.Ext["go/token.IsExported"]; !have {
		m.Ext["go/token.IsExported"] = onConst("token.IsExported", token.IsExported)
	}
	if _, have := m.ExtVars["go/types.Universe"]; !have {
		m.ExtVars["go/types.Universe"] = &interp.Opaque{Kind: "types.Scope", ID: "universe", GoType: "*go/types.Scope", Methods: methods{
			"Lookup": func(m *interp.Machine, pos token.Pos, a []interp.Value) (interp.Value, error) {
				if s, ok := a[0].(*interp.Sym); ok {
					if c, ok := s.Concrete(); ok {
						if types.Universe.Lookup(c) == nil {
							return interp.NilV{}, nil
						}
						return &interp.Opaque{Kind: "types.Object", ID: "universe." + c, GoType: "*go/types.TypeName", Methods: methods{"Name": opaqueMethod(interp.Lit(c))}}, nil
					}
				}
				return &interp.Unknown{Why: "Universe.Lookup of a symbolic name"}, nil
			},
		}}
	}
}
