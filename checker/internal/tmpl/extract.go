// Package tmpl extracts moq's text/template from the source, parses it with
// text/template/parse (never Execute) and expands it abstractly into Go
// program schemas ("skeletons").
package tmpl

import (
	"fmt"
	"go/ast"
	"go/token"
	"go/types"
	"sort"
	"strconv"
	"strings"
	"text/template/parse"

	"golang.org/x/tools/go/types/typeutil"

	"verif/checker/internal/interp"
	"verif/checker/internal/load"
)

// Source is the template as found in the repository.
type Source struct {
	Prog      *load.Program
	Var       *types.Var    // the package-level variable holding the text
	Lit       *ast.BasicLit // its initialiser (the first literal when the text is a concatenation)
	Pieces    []Piece       // the string literals the text is concatenated from, in order
	Text      string
	Tree      *parse.Tree
	Trees     map[string]*parse.Tree // associated templates ({{define}})
	FuncsVar  *types.Var             // the FuncMap variable
	Funcs     map[string]ast.Expr    // FuncMap entries by template name: a function literal or the name of a declared moq function
	FuncsInfo *types.Info
	NodeCount map[string]int
}

// Extract locates the template by role: the string passed to
// (*text/template.Template).Parse inside moq's template package, and the
// FuncMap passed to Funcs in the same chain.
func Extract(prog *load.Program) (*Source, error) {
	pk := prog.Moq[load.PkgTemplate]
	info := pk.TypesInfo
	src := &Source{Prog: prog, Funcs: map[string]ast.Expr{}, FuncsInfo: info, NodeCount: map[string]int{}}
	var parseArgs, funcsArgs []ast.Expr
	for _, f := range pk.Syntax {
		ast.Inspect(f, func(n ast.Node) bool {
			call, ok := n.(*ast.CallExpr)
			if !ok {
				return true
			}
			fn, _ := typeutil.Callee(info, call).(*types.Func)
			if fn == nil || fn.Pkg() == nil || fn.Pkg().Path() != "text/template" {
				return true
			}
			switch fn.FullName() {
			case "(*text/template.Template).Parse":
				parseArgs = append(parseArgs, call.Args[0])
			case "(*text/template.Template).Funcs":
				funcsArgs = append(funcsArgs, call.Args[0])
			case "text/template.New", "(*text/template.Template).Execute":
			default:
				// any other text/template API (ParseFiles, Lookup, AddParseTree, Option, Delims ...)
				// changes what is executed in ways this front end does not model
				parseArgs = append(parseArgs, nil)
			}
			return true
		})
	}
	hasNil := false
	for _, a := range parseArgs {
		if a == nil {
			hasNil = true
		}
	}
	if len(parseArgs) < 1 || hasNil || len(funcsArgs) != 1 {
		return nil, fmt.Errorf("template role not found: expected Parse(text) calls and one Funcs(map) call on text/template in %s and no other template-building API (found %d Parse/other, %d Funcs)", load.PkgTemplate, len(parseArgs), len(funcsArgs))
	}
	// several Parse calls (in source order): the first gives the body, the later ones may only add {{define}}
	// blocks — text/template keeps an existing body when a later text has none (checked below)
	sort.Slice(parseArgs, func(i, j int) bool { return parseArgs[i].Pos() < parseArgs[j].Pos() })
	tv, err := globalVar(pk.TypesInfo, parseArgs[0])
	if err != nil {
		return nil, fmt.Errorf("template text: %v", err)
	}
	var moreVars []*types.Var
	for _, a := range parseArgs[1:] {
		v, err := globalVar(pk.TypesInfo, a)
		if err != nil {
			return nil, fmt.Errorf("template text (further Parse call): %v", err)
		}
		moreVars = append(moreVars, v)
	}
	morePieces := map[*types.Var][]Piece{}
	fv, err := globalVar(pk.TypesInfo, funcsArgs[0])
	if err != nil {
		return nil, fmt.Errorf("template funcs: %v", err)
	}
	src.Var, src.FuncsVar = tv, fv
	// initialisers
	for _, f := range pk.Syntax {
		for _, d := range f.Decls {
			gd, ok := d.(*ast.GenDecl)
			if !ok || gd.Tok != token.VAR {
				continue
			}
			for _, sp := range gd.Specs {
				vs := sp.(*ast.ValueSpec)
				for i, n := range vs.Names {
					if len(vs.Values) != len(vs.Names) {
						continue
					}
					for _, mv := range moreVars {
						if info.Defs[n] == types.Object(mv) {
							pieces, err := flattenText(prog, info, vs.Values[i], 0)
							if err != nil || len(pieces) == 0 {
								return nil, fmt.Errorf("template text %s is not initialised by string literals: %v", n.Name, err)
							}
							morePieces[mv] = pieces
						}
					}
					switch info.Defs[n] {
					case tv:
						pieces, err := flattenText(prog, info, vs.Values[i], 0)
						if err != nil || len(pieces) == 0 {
							return nil, fmt.Errorf("template text %s is not initialised by string literals (a literal, or a concatenation of literals and constants made of literals): %v", n.Name, err)
						}
						src.Lit = pieces[0].Lit
						text := ""
						for k := range pieces {
							pieces[k].Off = len(text)
							text += pieces[k].text
						}
						src.Pieces = pieces
						src.Text = text
					case fv:
						cl, ok := ast.Unparen(vs.Values[i]).(*ast.CompositeLit)
						if !ok {
							return nil, fmt.Errorf("template funcs %s is not initialised by a composite literal", n.Name)
						}
						for _, el := range cl.Elts {
							kv, ok := el.(*ast.KeyValueExpr)
							if !ok {
								return nil, fmt.Errorf("template funcs: unkeyed element")
							}
							ktv := info.Types[kv.Key]
							if ktv.Value == nil {
								return nil, fmt.Errorf("template funcs: non-constant key")
							}
							name, _ := strconv.Unquote(ktv.Value.ExactString())
							switch fv := ast.Unparen(kv.Value).(type) {
							case *ast.FuncLit:
								src.Funcs[name] = fv
							case *ast.Ident:
								fn, ok := info.Uses[fv].(*types.Func)
								if !ok || !prog.IsMoqPkg(fn.Pkg()) || prog.Decl(fn) == nil {
									return nil, fmt.Errorf("template func %s is neither a function literal nor a function declared in moq", name)
								}
								src.Funcs[name] = fv
							default:
								return nil, fmt.Errorf("template func %s is neither a function literal nor a function declared in moq", name)
							}
						}
					}
				}
			}
		}
	}
	if src.Lit == nil {
		return nil, fmt.Errorf("initialiser of template text variable %s not found", tv.Name())
	}
	if len(moreVars) > 0 {
		first := src.Text
		for _, mv := range moreVars {
			ps, ok := morePieces[mv]
			if !ok {
				return nil, fmt.Errorf("initialiser of template text variable %s not found", mv.Name())
			}
			// a later text must leave the body alone: parsed on its own its top level is white space only
			txt := ""
			for _, p := range ps {
				txt += p.text
			}
			t, _, perr := parseTemplate(txt, src.Funcs)
			if perr != nil {
				return nil, fmt.Errorf("template text %s does not parse: %v", mv.Name(), perr)
			}
			if t != nil && t.Root != nil {
				for _, nd := range t.Root.Nodes {
					if tn, ok := nd.(*parse.TextNode); !ok || strings.TrimSpace(string(tn.Text)) != "" {
						return nil, fmt.Errorf("template text %s, parsed after the main text, has a body of its own: it would replace the body analysed here", mv.Name())
					}
				}
			}
			for k := range ps {
				ps[k].Off = len(src.Text)
				src.Text += ps[k].text
			}
			src.Pieces = append(src.Pieces, ps...)
		}
		// the concatenation is analysed as one text: its body must be the first text's body
		t1, _, err1 := parseTemplate(first, src.Funcs)
		t2, _, err2 := parseTemplate(src.Text, src.Funcs)
		if err1 != nil || err2 != nil || t1 == nil || t2 == nil || strings.TrimSpace(t1.Root.String()) != strings.TrimSpace(t2.Root.String()) {
			return nil, fmt.Errorf("the template texts handed to successive Parse calls do not combine into the body of the first one")
		}
	}
	// T-1a: neither variable is assigned anywhere else in moq's packages.
	for _, mp := range prog.MoqPackages() {
		for _, f := range mp.Syntax {
			var bad error
			ast.Inspect(f, func(n ast.Node) bool {
				check := func(e ast.Expr) {
					for {
						switch x := ast.Unparen(e).(type) {
						case *ast.IndexExpr:
							e = x.X
							continue
						case *ast.SelectorExpr:
							if _, isSel := mp.TypesInfo.Selections[x]; isSel {
								e = x.X
								continue
							}
							e = x.Sel
							continue
						case *ast.Ident:
							o := mp.TypesInfo.ObjectOf(x)
							if o == tv || o == fv {
								bad = fmt.Errorf("%s: %s is written after initialisation; the analysed template may not be the executed one", prog.Pos(x.Pos()), x.Name)
							}
						}
						return
					}
				}
				switch s := n.(type) {
				case *ast.AssignStmt:
					for _, l := range s.Lhs {
						check(l)
					}
				case *ast.IncDecStmt:
					check(s.X)
				case *ast.UnaryExpr:
					if s.Op == token.AND {
						check(s.X)
					}
				}
				return true
			})
			if bad != nil {
				return nil, bad
			}
		}
	}
	// parse
	tree, trees, err := parseTemplate(src.Text, src.Funcs)
	if err != nil {
		return nil, fmt.Errorf("template does not parse: %v", err)
	}
	src.Tree, src.Trees = tree, trees
	for _, t := range trees {
		countNodes(t.Root, src.NodeCount)
	}
	return src, nil
}

func parseTemplate(text string, funcs map[string]ast.Expr) (*parse.Tree, map[string]*parse.Tree, error) {
	t := parse.New("moq")
	t.Mode = parse.SkipFuncCheck
	trees := map[string]*parse.Tree{}
	tree, err := t.Parse(text, "", "", trees)
	if err != nil {
		return nil, nil, err
	}
	return tree, trees, nil
}

func countNodes(n parse.Node, c map[string]int) {
	if n == nil {
		return
	}
	switch n := n.(type) {
	case *parse.ListNode:
		if n == nil {
			return
		}
		for _, x := range n.Nodes {
			countNodes(x, c)
		}
	case *parse.TextNode:
		c["text"]++
	case *parse.ActionNode:
		c["action"]++
	case *parse.IfNode:
		c["if"]++
		countNodes(n.List, c)
		countNodes(n.ElseList, c)
	case *parse.RangeNode:
		c["range"]++
		countNodes(n.List, c)
		countNodes(n.ElseList, c)
	case *parse.WithNode:
		c["with"]++
		countNodes(n.List, c)
		countNodes(n.ElseList, c)
	default:
		c["other"]++
	}
}

func globalVar(info *types.Info, e ast.Expr) (*types.Var, error) {
	id, ok := ast.Unparen(e).(*ast.Ident)
	if !ok {
		return nil, fmt.Errorf("argument is not a plain identifier")
	}
	v, ok := info.ObjectOf(id).(*types.Var)
	if !ok || v.Pkg() == nil || v.Parent() != v.Pkg().Scope() {
		return nil, fmt.Errorf("%s is not a package-level variable", id.Name)
	}
	return v, nil
}

// FuncValue returns the callable for a FuncMap entry and the position of its body.
func (s *Source) FuncValue(name string) (interp.Value, token.Pos, bool) {
	switch fv := s.Funcs[name].(type) {
	case *ast.FuncLit:
		return &interp.Closure{Lit: fv, Info: s.FuncsInfo}, fv.Pos(), true
	case *ast.Ident:
		if fn, ok := s.FuncsInfo.Uses[fv].(*types.Func); ok {
			pos := fn.Pos()
			if d := s.Prog.Decl(fn); d != nil {
				pos = d.Pos()
			}
			return &interp.FuncV{Fn: fn}, pos, true
		}
	}
	return nil, token.NoPos, false
}

// FuncBody returns the syntax of a FuncMap entry's function (type and body).
func (s *Source) FuncBody(name string) (*ast.FuncType, *ast.BlockStmt, *types.Info) {
	switch fv := s.Funcs[name].(type) {
	case *ast.FuncLit:
		return fv.Type, fv.Body, s.FuncsInfo
	case *ast.Ident:
		if fn, ok := s.FuncsInfo.Uses[fv].(*types.Func); ok {
			if d := s.Prog.Decl(fn); d != nil {
				return d.Type, d.Body, s.Prog.Info(fn.Pkg())
			}
		}
	}
	return nil, nil, nil
}

// Piece is one string literal of the template text.
type Piece struct {
	Lit  *ast.BasicLit
	Off  int // offset of its text in the whole
	text string
}

// flattenText: the literals an initialiser is concatenated from: a string literal, a + of such, or a
// package-level constant of moq declared as one.
func flattenText(prog *load.Program, info *types.Info, e ast.Expr, depth int) ([]Piece, error) {
	if depth > 8 {
		return nil, fmt.Errorf("constants nested too deeply")
	}
	switch x := ast.Unparen(e).(type) {
	case *ast.BasicLit:
		if x.Kind != token.STRING {
			return nil, fmt.Errorf("a literal that is not a string")
		}
		t, err := strconv.Unquote(x.Value)
		if err != nil {
			return nil, err
		}
		return []Piece{{Lit: x, text: t}}, nil
	case *ast.BinaryExpr:
		if x.Op != token.ADD {
			return nil, fmt.Errorf("operator %s", x.Op)
		}
		l, err := flattenText(prog, info, x.X, depth+1)
		if err != nil {
			return nil, err
		}
		r, err := flattenText(prog, info, x.Y, depth+1)
		if err != nil {
			return nil, err
		}
		return append(l, r...), nil
	case *ast.Ident:
		c, ok := info.ObjectOf(x).(*types.Const)
		if !ok || !prog.IsMoqPkg(c.Pkg()) {
			return nil, fmt.Errorf("%s is not a constant of moq", x.Name)
		}
		for _, mp := range prog.MoqPackages() {
			if mp.Types != c.Pkg() {
				continue
			}
			for _, f := range mp.Syntax {
				for _, d := range f.Decls {
					gd, ok := d.(*ast.GenDecl)
					if !ok || gd.Tok != token.CONST {
						continue
					}
					for _, sp := range gd.Specs {
						vs := sp.(*ast.ValueSpec)
						for i, n := range vs.Names {
							if mp.TypesInfo.Defs[n] == types.Object(c) && i < len(vs.Values) {
								return flattenText(prog, mp.TypesInfo, vs.Values[i], depth+1)
							}
						}
					}
				}
			}
		}
		return nil, fmt.Errorf("declaration of constant %s not found", x.Name)
	}
	return nil, fmt.Errorf("expression %T", e)
}

func (s *Source) pieceAt(off int) Piece {
	p := s.Pieces[0]
	for _, q := range s.Pieces {
		if q.Off <= off {
			p = q
		}
	}
	return p
}

// PosOf converts a byte offset in the template text to a position in the literal that holds it.
func (s *Source) PosOf(off int) token.Pos {
	p := s.pieceAt(off)
	return p.Lit.Pos() + token.Pos(1+off-p.Off)
}

// OffsetOf: the offset in the template text of a position inside one of its literals.
func (s *Source) OffsetOf(pos token.Pos) (int, bool) {
	for _, p := range s.Pieces {
		if pos >= p.Lit.Pos() && pos <= p.Lit.End() {
			return p.Off + int(pos-p.Lit.Pos()) - 1, true
		}
	}
	return 0, false
}

// Line converts a byte offset in the template text to a repository position.
func (s *Source) Line(off int) string {
	if off < 0 {
		off = 0
	}
	if off > len(s.Text) {
		off = len(s.Text)
	}
	p := s.pieceAt(off)
	base := s.Prog.Fset.Position(p.Lit.Pos())
	line := base.Line + strings.Count(s.Text[p.Off:off], "\n")
	name := strings.TrimPrefix(base.Filename, s.Prog.Repo+"/")
	return fmt.Sprintf("%s:%d", name, line)
}
