package tmpl

import (
	"fmt"
	"go/token"
	"go/types"
	"sort"
	"strings"

	"verif/checker/internal/interp"
	"verif/checker/internal/load"
)

// This file derives the template data from the generator itself: the method
// (*Mocker).Mock is interpreted abstractly on an abstract source package
// (interfaces given by shapes, names by opaque tokens). The registry's
// value-level algorithms (name allocation, alias resolution, interface lookup)
// are replaced by models; everything in pkg/moq and internal/template is
// interpreted from its current source. The interpretation is path sensitive:
// every fallible call returns an abstract error that is either nil or not,
// and both outcomes are explored.

const (
	SrcPkgName  = "srcpkg"
	DestPkgName = "destpkg"
)

// Event is something observable the interpretation of Mock did.
type Event struct {
	Kind   string // lookup, addvar, addimport, imports, execute, format, write, scope
	Detail string
	Val    interp.Value
	Val2   interp.Value
}

// Derived is one explored path through Mock.
type Derived struct {
	Model   *Model
	Data    *interp.Struct // the value passed to Execute (nil if the path never got there)
	Events  []Event
	Failed  bool // Mock returned a non-nil error
	Choices string
	Notes   []interp.Note
	Obs     []DeriveOb
}

// DeriveOb is an obligation evaluated on a derived path.
type DeriveOb struct {
	Rule, Key string
	OK        bool
	Msg       string
}

type deriver struct {
	prog        *load.Program
	m           *interp.Machine
	model       *Model
	events      []Event
	vars        map[string]*varRec // by opaque types.Var ID
	scopes      map[*interp.Struct]int
	imports     map[string]*interp.Struct // registry model: path -> Package
	importOrder []string
	nerr        int
	errEvent    map[int]int // error number -> index of the event that produced it
	ifaces      map[int]ifaceVal
	// probe mode (DeriveProbe): every AddVar marks the names of the variables added to the same scope
	// before it as "possibly renamed since" (what AddVar can do to them: MoqParam, numbering)
	probe     bool
	scopeVars map[int][]*interp.Struct
}

// RealRegistry, when set (by the engine that interprets the registry), builds the Registry value that
// registry.New(".", moqPkg) returns for the abstract source package (example.test/src, package srcpkg).
var RealRegistry func(prog *load.Program, moqPkg string) (*interp.Struct, error)

// RenameMark is the token the probe derivation appends to a variable's name each time a later AddVar of
// the same scope could have renamed it.
const RenameMark = "ʳ"

type varRec struct {
	id       string
	scope    int
	suffix   string
	seq      int
	typeText string
}

func (d *deriver) ev(kind, detail string, v ...interp.Value) {
	e := Event{Kind: kind, Detail: detail}
	if len(v) > 0 {
		e.Val = v[0]
	}
	if len(v) > 1 {
		e.Val2 = v[1]
	}
	d.events = append(d.events, e)
}

func (d *deriver) errVal(what string) interp.Value {
	d.nerr++
	if d.errEvent == nil {
		d.errEvent = map[int]int{}
	}
	d.errEvent[d.nerr] = len(d.events) - 1
	return &interp.Unknown{Why: fmt.Sprintf("error#%d of %s", d.nerr, what)}
}

func opaqueMethod(v interp.Value) func(*interp.Machine, token.Pos, []interp.Value) (interp.Value, error) {
	return func(*interp.Machine, token.Pos, []interp.Value) (interp.Value, error) { return v, nil }
}

type methods = map[string]func(*interp.Machine, token.Pos, []interp.Value) (interp.Value, error)

func (d *deriver) typeOpaque(id, text string, pkgs []string) *interp.Opaque {
	under := "*go/types.Struct"
	if strings.HasPrefix(text, "[]") {
		under = "*go/types.Slice"
	}
	t := &interp.Opaque{Kind: "types.Type", ID: id + ".type", Attrs: map[string]interp.Value{"text": typeTextSym(text)}}
	var pl interp.List
	for _, p := range pkgs {
		pl.Elems = append(pl.Elems, interp.Lit(p))
	}
	t.Attrs["pkgs"] = &pl
	t.Methods = methods{
		"Underlying": opaqueMethod(&interp.Opaque{Kind: "types.Type", ID: id + ".under", GoType: under}),
	}
	return t
}

func (d *deriver) varOpaque(id, name, text string, pkgs []string) *interp.Opaque {
	return &interp.Opaque{Kind: "types.Var", ID: id, GoType: "*go/types.Var", Attrs: map[string]interp.Value{
		"type": d.typeOpaque(id, text, pkgs), "name": interp.Tok(name),
	}}
}

func pkgsOfText(m *Model, text string) []string {
	if text == "[]any" {
		return nil
	}
	var out []string
	if strings.Contains(text, "dep.") {
		out = append(out, DepPath)
	}
	if strings.Contains(text, m.Dep2Alias+".") {
		out = append(out, Dep2Path)
	}
	return out
}

func tupleList(id string, vars []*interp.Opaque) *interp.Opaque {
	return &interp.Opaque{Kind: "types.Tuple", ID: id, GoType: "*go/types.Tuple", Methods: methods{
		"Len":       opaqueMethod(int64(len(vars))),
		"Variables": opaqueMethod(seqOf(vars)),
		"At": func(m *interp.Machine, pos token.Pos, args []interp.Value) (interp.Value, error) {
			i, ok := args[0].(int64)
			if !ok || i < 0 || int(i) >= len(vars) {
				m.Notes = append(m.Notes, interp.Note{Rule: "H-PANIC", Key: "tuple-index@" + m.Prog.Pos(pos), Pos: pos, Msg: fmt.Sprintf("go/types Tuple.At(%s) with Len()=%d would panic", interp.Show(args[0]), len(vars))})
				return &interp.Unknown{Why: "Tuple.At out of range"}, nil
			}
			return vars[i], nil
		},
	}}
}

// ifaceOpaque builds the abstract *types.Interface of mock i.
func (d *deriver) ifaceOpaque(i int) (*interp.Opaque, interp.Value) {
	// the same interface requested twice is the same go/types object, with the same method and
	// variable objects (a generator that caches by object identity must see that)
	if d.model.Mocks[i].DupOfFirst {
		i = 0
	}
	if c, ok := d.ifaces[i]; ok {
		return c.iface, c.tparams
	}
	iface, tparams := d.ifaceOpaque1(i)
	if d.ifaces == nil {
		d.ifaces = map[int]ifaceVal{}
	}
	d.ifaces[i] = ifaceVal{iface, tparams}
	return iface, tparams
}

type ifaceVal struct {
	iface   *interp.Opaque
	tparams interp.Value
}

func (d *deriver) ifaceOpaque1(i int) (*interp.Opaque, interp.Value) {
	mi := d.model.Mocks[i]
	var funcs []*interp.Opaque
	for j, me := range mi.Methods {
		var ps, rs []*interp.Opaque
		for k, p := range me.Params {
			ps = append(ps, d.varOpaque(fmt.Sprintf("p%d_%d_%d", i, j, k), p.Name, p.TypeText, pkgsOfText(d.model, p.TypeText)))
		}
		for k, p := range me.Results {
			rs = append(rs, d.varOpaque(fmt.Sprintf("r%d_%d_%d", i, j, k), p.Name, p.TypeText, pkgsOfText(d.model, p.TypeText)))
		}
		variadic := len(me.Params) > 0 && me.Params[len(me.Params)-1].Variadic
		sig := &interp.Opaque{Kind: "types.Signature", ID: fmt.Sprintf("sig%d_%d", i, j), GoType: "*go/types.Signature", Methods: methods{
			"Params":   opaqueMethod(tupleList(fmt.Sprintf("params%d_%d", i, j), ps)),
			"Results":  opaqueMethod(tupleList(fmt.Sprintf("results%d_%d", i, j), rs)),
			"Variadic": opaqueMethod(variadic),
		}}
		funcs = append(funcs, &interp.Opaque{Kind: "types.Func", ID: fmt.Sprintf("func%d_%d", i, j), GoType: "*go/types.Func", Methods: methods{
			"Type":      opaqueMethod(sig),
			"Signature": opaqueMethod(sig),
			"Name":      opaqueMethod(interp.Tok(me.Name)),
			// what go/types prints for a method of a declared interface: (path.Interface).Method
			"FullName": opaqueMethod(interp.Concat(interp.Lit(fmt.Sprintf("(%s.iface%d).", SrcPkgName, i)), interp.Tok(me.Name))),
			// whether the method's name is exported is not fixed by the environment
			"Exported": opaqueMethod(&interp.Unknown{Why: fmt.Sprintf("exported(%s)", me.Name)}),
		}})
	}
	nm := int64(len(funcs))
	at := func(what string) func(*interp.Machine, token.Pos, []interp.Value) (interp.Value, error) {
		return func(m *interp.Machine, pos token.Pos, args []interp.Value) (interp.Value, error) {
			j, ok := args[0].(int64)
			if !ok || j < 0 || j >= nm {
				m.Notes = append(m.Notes, interp.Note{Rule: "H-PANIC", Key: "method-index@" + m.Prog.Pos(pos), Pos: pos, Msg: fmt.Sprintf("go/types Interface.%s(%s) with %d methods would panic", what, interp.Show(args[0]), nm)})
				return &interp.Unknown{Why: what + " out of range"}, nil
			}
			return funcs[j], nil
		}
	}
	iface := &interp.Opaque{Kind: "types.Interface", ID: fmt.Sprintf("iface%d", i), GoType: "*go/types.Interface", Methods: methods{
		"NumMethods": opaqueMethod(nm),
		"Method":     at("Method"),
		// an interface that embeds nothing: its explicit methods are all its methods. The abstract
		// interfaces of the family always embed one interface that carries the last method, so a
		// generator that enumerates explicit methods only loses it.
		"NumExplicitMethods": opaqueMethod(maxInt(nm-1, 0)),
		"ExplicitMethod":     at("ExplicitMethod"),
		"NumEmbeddeds":       opaqueMethod(int64(1)),
		// the go1.23 iterators over the same lists
		"Methods":         opaqueMethod(seqOf(funcs)),
		"ExplicitMethods": opaqueMethod(seqOf(funcs[:maxInt(nm-1, 0)])),
	}}
	var tparams interp.Value = interp.NilV{}
	if len(mi.TypeParams) > 0 {
		var tps []*interp.Opaque
		for k, tp := range mi.TypeParams {
			id := fmt.Sprintf("tp%d_%d", i, k)
			ct := d.typeOpaque(id+".constraint", tp.TypeText, nil)
			ct.Attrs["explicit"] = interp.Lit(tp.Explicit)
			// what go/types says about the constraint's type set, for a generator that asks it directly
			// (explicitConstraintType called while the data is built): an interface that embeds one union
			// whose first term is the representative basic type, or nothing
			{
				explicit := tp.Explicit
				var embedded []*interp.Opaque
				if explicit != "" {
					basic := &interp.Opaque{Kind: "types.Type", ID: id + ".repr", GoType: "*go/types.Basic", Attrs: map[string]interp.Value{"text": interp.Tok(explicit), "unqualified": true}, Methods: methods{
						"String": opaqueMethod(interp.Lit(explicit)), "Name": opaqueMethod(interp.Lit(explicit)),
					}}
					basic.Methods["Underlying"] = opaqueMethod(basic)
					term := &interp.Opaque{Kind: "types.Term", ID: id + ".term0", GoType: "*go/types.Term", Methods: methods{"Type": opaqueMethod(basic), "Tilde": opaqueMethod(true)}}
					union := &interp.Opaque{Kind: "types.Type", ID: id + ".union", GoType: "*go/types.Union", Methods: methods{
						"Len": opaqueMethod(int64(2)),
						"Term": func(m *interp.Machine, pos token.Pos, args []interp.Value) (interp.Value, error) {
							if i, ok := args[0].(int64); ok && i == 0 {
								return term, nil
							}
							return &interp.Unknown{Why: "a later term of the constraint's union"}, nil
						},
					}}
					embedded = append(embedded, union)
				}
				n := int64(len(embedded))
				under := &interp.Opaque{Kind: "types.Type", ID: id + ".constraint.under", GoType: "*go/types.Interface", Methods: methods{
					"NumEmbeddeds": opaqueMethod(n),
					"NumMethods":   opaqueMethod(int64(0)), "NumExplicitMethods": opaqueMethod(int64(0)),
					"EmbeddedType": func(m *interp.Machine, pos token.Pos, args []interp.Value) (interp.Value, error) {
						if i, ok := args[0].(int64); ok && i >= 0 && i < n {
							return embedded[i], nil
						}
						m.Notes = append(m.Notes, interp.Note{Rule: "H-PANIC", Key: "embedded-index@" + m.Prog.Pos(pos), Pos: pos, Msg: fmt.Sprintf("go/types Interface.EmbeddedType(%s) with %d embedded types would panic", interp.Show(args[0]), n)})
						return &interp.Unknown{Why: "EmbeddedType out of range"}, nil
					},
				}}
				ct.Methods["Underlying"] = opaqueMethod(under)
			}
			obj := &interp.Opaque{Kind: "types.TypeName", ID: id + ".obj", GoType: "*go/types.TypeName", Methods: methods{
				"Pkg":  opaqueMethod(d.srcPkg()),
				"Name": opaqueMethod(interp.Tok(tp.Name)),
			}}
			tps = append(tps, &interp.Opaque{Kind: "types.TypeParam", ID: id, GoType: "*go/types.TypeParam", Methods: methods{
				"Obj":        opaqueMethod(obj),
				"Constraint": opaqueMethod(ct),
			}})
		}
		n := int64(len(tps))
		tparams = &interp.Opaque{Kind: "types.TypeParamList", ID: fmt.Sprintf("tparams%d", i), GoType: "*go/types.TypeParamList", Methods: methods{
			"Len":        opaqueMethod(n),
			"TypeParams": opaqueMethod(seqOf(tps)),
			"At": func(m *interp.Machine, pos token.Pos, args []interp.Value) (interp.Value, error) {
				k, ok := args[0].(int64)
				if !ok || k < 0 || k >= n {
					return &interp.Unknown{Why: "TypeParamList.At out of range"}, nil
				}
				return tps[k], nil
			},
		}}
	}
	return iface, tparams
}

func seqOf(os []*interp.Opaque) *interp.Seq {
	sq := &interp.Seq{}
	for _, o := range os {
		sq.Elems = append(sq.Elems, o)
	}
	return sq
}

func maxInt(a, b int64) int64 {
	if a > b {
		return a
	}
	return b
}

var srcPkgOpaque = map[*deriver]*interp.Opaque{}

func (d *deriver) srcPkg() *interp.Opaque {
	return &interp.Opaque{Kind: "types.Package", ID: SrcPath, GoType: "*go/types.Package", Attrs: map[string]interp.Value{"path": interp.Lit(SrcPath), "name": interp.Lit(SrcPkgName)}}
}

func (d *deriver) namedStruct(pkgPath, name string) (*types.Named, error) {
	return lookupNamed(d.prog, pkgPath, name)
}

// fillStruct builds a struct value of a moq type, with the given fields and zero values elsewhere.
func (d *deriver) fillStruct(t *types.Named, id string, fields map[string]interp.Value) (*interp.Struct, error) {
	st := t.Underlying().(*types.Struct)
	s := &interp.Struct{Type: t, Fields: map[string]interp.Value{}, ID: id}
	have := map[string]bool{}
	for i := 0; i < st.NumFields(); i++ {
		f := st.Field(i)
		have[f.Name()] = true
		s.Fields[f.Name()] = d.m.Zero(f.Type())
	}
	for k, v := range fields {
		if !have[k] {
			return nil, fmt.Errorf("generator anchor lost: %s has no field %s", t.Obj().Name(), k)
		}
		s.Fields[k] = v
	}
	return s, nil
}

// Formatters explored for the formatter dispatch.
var Formatters = []string{"", "gofmt", "goimports", "noop", "unknown-value"}

// Derive interprets (*Mocker).Mock for the model and returns every explored path.
func Derive(prog *load.Program, model *Model, formatter string) ([]*Derived, error) {
	return derive(prog, model, formatter, false)
}

// DeriveProbe interprets Mock once more with AddVar marking earlier names as possibly renamed; the paths
// it returns carry only the obligation G-DATA/name-final: every copy of a variable's name that reaches the
// template data is as current as the name the variable ends up with.
func DeriveProbe(prog *load.Program, model *Model) ([]*Derived, error) {
	return derive(prog, model, "", true)
}

func derive(prog *load.Program, model *Model, formatter string, probe bool) ([]*Derived, error) {
	var out []*Derived
	choices := interp.NewChoices(256)
	for {
		d := &deriver{prog: prog, model: model, vars: map[string]*varRec{}, scopes: map[*interp.Struct]int{}, imports: map[string]*interp.Struct{}, probe: probe, scopeVars: map[int][]*interp.Struct{}}
		d.m = interp.New(prog)
		d.m.Choices = choices
		InstallTypesModels(d.m, prog)
		dv, err := d.run(formatter)
		if err != nil {
			if desc := choices.Describe(); strings.Contains(desc, "Config.") {
				err = fmt.Errorf("%w — on the path where the generator decided on an option outside the flag table (%s): what the output depends on there is not analysed", err, desc)
			}
			return nil, err
		}
		dv.Choices = choices.Describe()
		out = append(out, dv)
		more, overflow := choices.Advance()
		if overflow {
			return nil, &Undecided{Msg: "more than 256 paths through (*Mocker).Mock for one environment: " + choices.Describe()}
		}
		if !more {
			return out, nil
		}
	}
}

func (d *deriver) run(formatter string) (*Derived, error) {
	prog, model, e := d.prog, d.model, d.model.Env
	und := func(format string, a ...any) (*Derived, error) {
		return nil, &Undecided{Msg: fmt.Sprintf(format, a...)}
	}
	mockFn := prog.LookupFunc(load.PkgMoq, "Mocker.Mock")
	if mockFn == nil {
		return und("generator anchor lost: (*Mocker).Mock not found in %s", load.PkgMoq)
	}
	tMocker, err := d.namedStruct(load.PkgMoq, "Mocker")
	if err != nil {
		return und("%v", err)
	}
	tConfig, err := d.namedStruct(load.PkgMoq, "Config")
	if err != nil {
		return und("%v", err)
	}
	tRegistry, err := d.namedStruct(load.PkgRegistry, "Registry")
	if err != nil {
		return und("%v", err)
	}
	tVar, err := d.namedStruct(load.PkgRegistry, "Var")
	if err != nil {
		return und("%v", err)
	}
	tTemplate, err := d.namedStruct(load.PkgTemplate, "Template")
	if err != nil {
		return und("%v", err)
	}
	pkgName := interp.Lit("")
	moqPkgPath := SrcPath
	if e.DestTest {
		pkgName = interp.Lit(SrcPkgName + "_test")
		moqPkgPath = "" // findPkgPath finds no directory for <src>_test
	} else if e.External {
		pkgName = interp.Lit(DestPkgName)
		moqPkgPath = DestPath
	} else if e.ExplicitSame {
		pkgName = interp.Lit(SrcPkgName)
	}
	cfg, err := d.fillStruct(tConfig, "cfg", map[string]interp.Value{
		"SrcDir": interp.Lit("."), "PkgName": pkgName, "Formatter": interp.Lit(formatter),
		"StubImpl": e.Stub, "SkipEnsure": e.SkipEnsure, "WithResets": e.WithResets,
	})
	if err != nil {
		return und("%v", err)
	}
	// an option this checker has no environment for is not fixed at its zero value: whatever the generator
	// decides on it is explored both ways (the path conditions name the field)
	if st, ok := tConfig.Underlying().(*types.Struct); ok && d.model.UnknownOptions {
		for i := 0; i < st.NumFields(); i++ {
			f := st.Field(i)
			switch f.Name() {
			case "SrcDir", "PkgName", "Formatter", "StubImpl", "SkipEnsure", "WithResets":
				continue
			}
			if b, ok := f.Type().Underlying().(*types.Basic); ok && b.Info()&(types.IsString|types.IsBoolean) != 0 {
				cfg.Fields[f.Name()] = &interp.Unknown{Why: "Config." + f.Name() + " (an option outside the six this checker enumerates)"}
			}
		}
	}
	// the registry is a model: its value is opaque to the interpreted code (no field of it is read), its
	// exported API is modelled below; what the real one does is decided by engines R and N
	reg, err := d.fillStruct(tRegistry, "registry", nil)
	if err != nil {
		return und("%v", err)
	}
	var executed *interp.Struct
	ttmpl := &interp.Opaque{Kind: "text/template.Template", ID: "tmpl", GoType: "*text/template.Template", Methods: methods{
		"Execute": func(m *interp.Machine, pos token.Pos, args []interp.Value) (interp.Value, error) {
			if len(args) == 2 {
				d.ev("execute", "", args[0], args[1])
				switch s := args[1].(type) {
				case *interp.Struct:
					executed = s
				case *interp.Ptr:
					// text/template indirects a pointer to the data
					executed = s.Elem
					if executed.Aux == nil {
						executed.Aux = map[string]interp.Value{}
					}
					executed.Aux["byPointer"] = true
				}
			}
			return d.errVal("template execution"), nil
		},
	}}
	// the field that holds the parsed template is found by its type, not by its name
	tmplStruct, err := d.fillStruct(tTemplate, "template", nil)
	if err != nil {
		return und("%v", err)
	}
	{
		st := tTemplate.Underlying().(*types.Struct)
		n := 0
		for i := 0; i < st.NumFields(); i++ {
			if types.TypeString(st.Field(i).Type(), nil) == "*text/template.Template" {
				tmplStruct.Fields[st.Field(i).Name()] = ttmpl
				n++
			}
		}
		if n != 1 {
			return und("generator anchor lost: template.Template has %d fields of type *text/template.Template, want 1", n)
		}
	}
	// the Mocker is the one moq.New builds from the configuration (its current source is interpreted;
	// loading the package and parsing the template are replaced by the abstract registry and template)
	_ = tMocker
	d.m.Ext[load.PkgRegistry+".New"] = func(m *interp.Machine, pos token.Pos, recv interp.Value, args []interp.Value) (interp.Value, error) {
		// the registry's exported API is modelled, but a refactoring may add exported getters of what New
		// precomputes (the destination, the package name): the fields of the value are therefore those
		// the real registry.New computes for this source package and -pkg value, when that can be had
		if RealRegistry != nil && len(args) == 2 {
			if mp, ok := args[1].(*interp.Sym); ok {
				if moqPkg, conc := mp.Concrete(); conc {
					if real, err := RealRegistry(prog, moqPkg); err == nil && real != nil && real.Type != nil && types.Identical(real.Type, reg.Type) {
						for k, v := range real.Fields {
							reg.Fields[k] = v
						}
					}
				}
			}
		}
		return interp.Tuple{&interp.Ptr{Elem: reg}, interp.NilV{}}, nil
	}
	d.m.Ext[load.PkgTemplate+".New"] = func(m *interp.Machine, pos token.Pos, recv interp.Value, args []interp.Value) (interp.Value, error) {
		return interp.Tuple{tmplStruct, interp.NilV{}}, nil
	}
	// ---- registry models
	regPath := load.PkgRegistry
	ifaceByName := map[string]int{}
	for i, mi := range model.Mocks {
		if _, dup := ifaceByName[mi.IfaceName]; !dup {
			ifaceByName[mi.IfaceName] = i
		}
	}
	lookupModel := func(m *interp.Machine, pos token.Pos, recv interp.Value, args []interp.Value) (interp.Value, error) {
		name, _ := args[0].(*interp.Sym)
		if name == nil {
			return nil, &interp.ErrUndecided{Pos: pos, Msg: "LookupInterface with a non-string argument"}
		}
		i, ok := ifaceByName[name.Flat()]
		// the n-th lookup normally asks for the n-th argument's interface
		nl := 0
		for _, ev := range d.events {
			if ev.Kind == "lookup" {
				nl++
			}
		}
		if nl < len(model.Mocks) && model.Mocks[nl].IfaceName == name.Flat() {
			i, ok = nl, true
		}
		d.ev("lookup", name.Flat())
		if !ok {
			// not an interface of the abstract package: the real lookup fails
			return interp.Tuple{interp.NilV{}, interp.NilV{}, &interp.Opaque{Kind: "error", ID: "not-found:" + name.Flat()}}, nil
		}
		iface, tparams := d.ifaceOpaque(i)
		return interp.Tuple{iface, tparams, d.errVal("LookupInterface(" + name.Flat() + ")")}, nil
	}
	d.m.Ext["("+regPath+".Registry).LookupInterface"] = lookupModel
	d.m.Ext["(*"+regPath+".Registry).LookupInterface"] = lookupModel
	tScope, err := d.namedStruct(load.PkgRegistry, "MethodScope")
	if err != nil {
		return und("%v", err)
	}
	for _, recvForm := range []string{"(" + regPath + ".Registry).", "(*" + regPath + ".Registry)."} {
		d.m.Ext[recvForm+"SrcPkgName"] = func(m *interp.Machine, pos token.Pos, recv interp.Value, args []interp.Value) (interp.Value, error) {
			return interp.Lit(SrcPkgName), nil
		}
		d.m.Ext[recvForm+"SrcPkg"] = func(m *interp.Machine, pos token.Pos, recv interp.Value, args []interp.Value) (interp.Value, error) {
			return d.srcPkg(), nil
		}
		d.m.Ext[recvForm+"MethodScope"] = func(m *interp.Machine, pos token.Pos, recv interp.Value, args []interp.Value) (interp.Value, error) {
			sc, err := d.fillStruct(tScope, fmt.Sprintf("scope%d", m.NextSeq()), nil)
			if err != nil {
				return nil, &interp.ErrUndecided{Pos: pos, Msg: err.Error()}
			}
			return &interp.Ptr{Elem: sc}, nil
		}
	}
	// reading an import's qualifier is an event: the real method is interpreted, the read is recorded
	for _, form := range []string{"(*" + regPath + ".Package).Qualifier", "(" + regPath + ".Package).Qualifier"} {
		form := form
		var wrapper interp.ExtFunc
		wrapper = func(m *interp.Machine, pos token.Pos, recv interp.Value, args []interp.Value) (interp.Value, error) {
			who := "?"
			switch r := recv.(type) {
			case *interp.Ptr:
				who = r.Elem.ID
			case *interp.Struct:
				who = r.ID
			case interp.NilV:
				who = "nil"
			}
			d.ev("qualifier", who)
			fn := prog.LookupFunc(regPath, "Package.Qualifier")
			if fn == nil {
				return nil, &interp.ErrUndecided{Pos: pos, Msg: "Package.Qualifier not found"}
			}
			delete(m.Ext, form)
			v, err := m.CallFunc(pos, fn, recv, args)
			m.Ext[form] = wrapper
			return v, err
		}
		d.m.Ext[form] = wrapper
	}
	mkPackage := func(pkg *interp.Opaque, alias string) *interp.Struct {
		a := interp.Lit("")
		if alias != "" {
			a = interp.Tok(alias)
		}
		// through the exported constructor, so that no unexported field name is assumed
		s := NewPackageValue(d.prog, d.m, pkg, a)
		if s != nil {
			s.ID = "pkg:" + pkg.ID
		}
		return s
	}
	addImport := func(pkg *interp.Opaque, how string) interp.Value {
		path := ""
		if p, ok := pkg.Attrs["path"].(*interp.Sym); ok {
			path, _ = p.Concrete()
		}
		d.ev("addimport", how+":"+path)
		if path == moqPkgPath {
			return interp.NilV{}
		}
		if s, ok := d.imports[path]; ok {
			return &interp.Ptr{Elem: s}
		}
		alias := ""
		switch {
		case path == Dep2Path:
			alias = model.Dep2Alias
		case path == "sync" && e.SyncAliased:
			alias = model.SyncQual
		}
		s := mkPackage(pkg, alias)
		if s == nil {
			return &interp.Unknown{Why: "registry.NewPackage cannot be interpreted"}
		}
		d.imports[path] = s
		d.importOrder = append(d.importOrder, path)
		return &interp.Ptr{Elem: s}
	}
	addImportModel := func(m *interp.Machine, pos token.Pos, recv interp.Value, args []interp.Value) (interp.Value, error) {
		pkg, _ := args[0].(*interp.Opaque)
		if pkg == nil || pkg.Kind != "types.Package" {
			return nil, &interp.ErrUndecided{Pos: pos, Msg: "AddImport of " + interp.Show(args[0])}
		}
		return addImport(pkg, "direct@"+prog.Pos(pos)), nil
	}
	d.m.Ext["(*"+regPath+".Registry).AddImport"] = addImportModel
	d.m.Ext["("+regPath+".Registry).AddImport"] = addImportModel
	importsModel := func(m *interp.Machine, pos token.Pos, recv interp.Value, args []interp.Value) (interp.Value, error) {
		var paths []string
		for p := range d.imports {
			paths = append(paths, p)
		}
		sort.Strings(paths)
		l := &interp.List{}
		for _, p := range paths {
			l.Elems = append(l.Elems, &interp.Ptr{Elem: d.imports[p]})
		}
		d.ev("imports", strings.Join(paths, ","))
		return l, nil
	}
	d.m.Ext["("+regPath+".Registry).Imports"] = importsModel
	d.m.Ext["(*"+regPath+".Registry).Imports"] = importsModel
	depPkg := func(path string) *interp.Opaque {
		name := "dep"
		if path == Dep2Path {
			name = "dep2"
		}
		return &interp.Opaque{Kind: "types.Package", ID: path, GoType: "*go/types.Package", Attrs: map[string]interp.Value{"path": interp.Lit(path), "name": interp.Lit(name)}}
	}
	nscope := 0
	addVarModel := func(m *interp.Machine, pos token.Pos, recv interp.Value, args []interp.Value) (interp.Value, error) {
		vr, _ := args[0].(*interp.Opaque)
		suffix, _ := args[1].(*interp.Sym)
		sc, _ := recv.(*interp.Ptr)
		if vr == nil || vr.Kind != "types.Var" || suffix == nil || sc == nil {
			return nil, &interp.ErrUndecided{Pos: pos, Msg: "AddVar with unexpected arguments"}
		}
		if _, ok := d.scopes[sc.Elem]; !ok {
			nscope++
			d.scopes[sc.Elem] = nscope
		}
		sfx, conc := suffix.Concrete()
		if !conc {
			return nil, &interp.ErrUndecided{Pos: pos, Msg: "AddVar with a non-constant suffix"}
		}
		typ, _ := vr.Attrs["type"].(*interp.Opaque)
		text := ""
		if typ != nil {
			if ts, ok := typ.Attrs["text"].(*interp.Sym); ok {
				text = ts.Flat()
			}
			// import discovery (modelled: see G-KINDS for the real walker)
			if pl, ok := typ.Attrs["pkgs"].(*interp.List); ok {
				for _, p := range pl.Elems {
					ps, _ := p.(*interp.Sym).Concrete()
					addImport(depPkg(ps), "addvar")
				}
			}
		}
		rec := &varRec{id: vr.ID, scope: d.scopes[sc.Elem], suffix: sfx, seq: len(d.vars), typeText: text}
		d.vars[vr.ID] = rec
		name := interp.Concat(vr.Attrs["name"].(*interp.Sym), interp.Lit(sfx))
		d.ev("addvar", fmt.Sprintf("%s scope=%d suffix=%q", vr.ID, rec.scope, sfx))
		s, err := d.fillStruct(tVar, vr.ID, map[string]interp.Value{"Name": name})
		if err != nil {
			return nil, &interp.ErrUndecided{Pos: pos, Msg: err.Error()}
		}
		s.Aux = map[string]interp.Value{"vr": vr, "rec": rec}
		if d.probe {
			for _, earlier := range d.scopeVars[rec.scope] {
				if n, ok := earlier.Fields["Name"].(*interp.Sym); ok {
					earlier.Fields["Name"] = interp.Concat(n, interp.Tok(RenameMark))
				}
			}
			d.scopeVars[rec.scope] = append(d.scopeVars[rec.scope], s)
		}
		// the parts a Var embeds or holds by value know what the Var knows (methods may be declared there)
		var share func(st *interp.Struct, depth int)
		share = func(st *interp.Struct, depth int) {
			for _, f := range st.Fields {
				if inner, ok := f.(*interp.Struct); ok && inner != st && depth < 3 {
					if inner.Aux == nil {
						inner.Aux = s.Aux
					}
					share(inner, depth+1)
				}
			}
		}
		share(s, 0)
		// the Var's type opaque must be owned by this Var for the qualifier check of TypeString
		typ.ID = vr.ID + ".type"
		return &interp.Ptr{Elem: s}, nil
	}
	d.m.Ext["(*"+regPath+".MethodScope).AddVar"] = addVarModel
	d.m.Ext["("+regPath+".MethodScope).AddVar"] = addVarModel
	InstallVarModels(d.m)
	// ---- go/types constructors
	d.m.Ext["go/types.NewPackage"] = func(m *interp.Machine, pos token.Pos, recv interp.Value, args []interp.Value) (interp.Value, error) {
		p, _ := args[0].(*interp.Sym)
		n, _ := args[1].(*interp.Sym)
		if p == nil || n == nil {
			return &interp.Unknown{Why: "types.NewPackage"}, nil
		}
		return &interp.Opaque{Kind: "types.Package", ID: p.Flat(), GoType: "*go/types.Package", Attrs: map[string]interp.Value{"path": p, "name": n}}, nil
	}
	d.m.Ext["go/types.NewParam"] = func(m *interp.Machine, pos token.Pos, recv interp.Value, args []interp.Value) (interp.Value, error) {
		if len(args) != 4 {
			return &interp.Unknown{Why: "types.NewParam"}, nil
		}
		name, _ := args[2].(*interp.Sym)
		typ, _ := args[3].(*interp.Opaque)
		if name == nil || typ == nil {
			return &interp.Unknown{Why: "types.NewParam"}, nil
		}
		id := fmt.Sprintf("newparam%d", m.NextSeq())
		nt := *typ
		nt.ID = id + ".type"
		return &interp.Opaque{Kind: "types.Var", ID: id, GoType: "*go/types.Var", Attrs: map[string]interp.Value{"type": &nt, "name": name, "constraintOf": interp.Lit(typ.ID)}}, nil
	}
	d.m.Ext["go/types.NewTuple"] = func(m *interp.Machine, pos token.Pos, recv interp.Value, args []interp.Value) (interp.Value, error) {
		var vars []*interp.Opaque
		for _, a := range args {
			// variadic: the variables as written, or one list of them
			if l, ok := a.(*interp.List); ok {
				for _, e := range l.Elems {
					o, ok := e.(*interp.Opaque)
					if !ok {
						return &interp.Unknown{Why: "types.NewTuple"}, nil
					}
					vars = append(vars, o)
				}
				continue
			}
			if _, isNil := a.(interp.NilV); isNil {
				continue
			}
			o, ok := a.(*interp.Opaque)
			if !ok {
				return &interp.Unknown{Why: "types.NewTuple"}, nil
			}
			vars = append(vars, o)
		}
		return tupleList(fmt.Sprintf("newtuple%d", m.NextSeq()), vars), nil
	}
	if fn := calleeOfField(prog, "TypeParamData", "Constraint"); fn != nil {
		// the representative-type choice is value level (type sets); modelled per shape
		d.m.Ext[fn.FullName()] = func(m *interp.Machine, pos token.Pos, recv interp.Value, args []interp.Value) (interp.Value, error) {
			vr, _ := args[0].(*interp.Opaque)
			if vr == nil {
				return &interp.Unknown{Why: "constraint of " + interp.Show(args[0])}, nil
			}
			typ, _ := vr.Attrs["type"].(*interp.Opaque)
			if vr.Kind == "types.Type" {
				// the constraint handed over as a type rather than wrapped in a variable
				typ = vr
			}
			if typ != nil {
				if ex, ok := typ.Attrs["explicit"].(*interp.Sym); ok {
					if c, _ := ex.Concrete(); c != "" {
						return &interp.Opaque{Kind: "types.Type", ID: "constraint:" + vr.ID, GoType: "*go/types.Basic", Attrs: map[string]interp.Value{"text": interp.Tok(c), "unqualified": true}}, nil
					}
				}
			}
			return interp.NilV{}, nil
		}
	}
	// ---- errors, buffers, formatters, writer
	mkErr := func(name string) {
		d.m.Ext[name] = func(m *interp.Machine, pos token.Pos, recv interp.Value, args []interp.Value) (interp.Value, error) {
			msg := ""
			if len(args) > 0 {
				if s, ok := args[0].(*interp.Sym); ok {
					msg = s.Flat()
				}
			}
			return &interp.Opaque{Kind: "error", ID: name + ":" + msg}, nil
		}
	}
	mkErr("errors.New")
	mkErr("fmt.Errorf")
	d.m.Ext["(bytes.Buffer).Bytes"] = func(m *interp.Machine, pos token.Pos, recv interp.Value, args []interp.Value) (interp.Value, error) {
		o := recv.(*interp.Opaque)
		return &interp.Opaque{Kind: "bytes", ID: "bytes-of:" + o.ID, Attrs: map[string]interp.Value{"of": o}}, nil
	}
	formatModel := func(kind string) interp.ExtFunc {
		return func(m *interp.Machine, pos token.Pos, recv interp.Value, args []interp.Value) (interp.Value, error) {
			var src interp.Value
			for _, a := range args {
				if o, ok := a.(*interp.Opaque); ok && o.Kind == "bytes" {
					src = o
				}
			}
			d.ev("format", kind, src)
			return interp.Tuple{&interp.Opaque{Kind: "bytes", ID: kind + "(" + interp.Show(src) + ")", Attrs: map[string]interp.Value{"formatted": interp.Lit(kind), "of": src}}, d.errVal(kind)}, nil
		}
	}
	d.m.Ext["go/format.Source"] = formatModel("gofmt")
	d.m.Ext["golang.org/x/tools/imports.Process"] = formatModel("goimports")
	writer := &interp.Opaque{Kind: "io.Writer", ID: "w", Methods: methods{
		"Write": func(m *interp.Machine, pos token.Pos, args []interp.Value) (interp.Value, error) {
			d.ev("write", "", args[0])
			return interp.Tuple{&interp.Unknown{Why: "bytes written"}, d.errVal("Write")}, nil
		},
	}}
	// ---- name pairs
	np := &interp.List{}
	for _, mi := range model.Mocks {
		if mi.Arg != nil {
			np.Elems = append(np.Elems, mi.Arg)
		} else if mi.Aliased {
			np.Elems = append(np.Elems, interp.Concat(interp.Concat(interp.Tok(mi.IfaceName), interp.Lit(":")), interp.Tok(mi.MockName)))
		} else {
			np.Elems = append(np.Elems, interp.Tok(mi.IfaceName))
		}
	}
	newFn := prog.LookupFunc(load.PkgMoq, "New")
	if newFn == nil {
		return und("generator anchor lost: New not found in %s", load.PkgMoq)
	}
	built, nerr := d.m.CallFunc(token.NoPos, newFn, nil, []interp.Value{cfg})
	if nerr != nil {
		if u, ok := nerr.(*interp.ErrUndecided); ok {
			return nil, &Undecided{GoPos: u.Pos, Msg: "abstract interpretation of moq.New: " + u.Msg}
		}
		return nil, nerr
	}
	var mocker *interp.Struct
	if t, ok := built.(interp.Tuple); ok && len(t) == 2 {
		if p, ok := t[0].(*interp.Ptr); ok {
			mocker = p.Elem
		}
	}
	if mocker == nil {
		return und("moq.New does not return a *Mocker on the abstract configuration (got %s)", interp.Show(built))
	}
	args := append([]interp.Value{writer}, np.Elems...)
	ret, ierr := d.m.CallFunc(token.NoPos, mockFn, &interp.Ptr{Elem: mocker}, args)
	if ierr != nil {
		if u, ok := ierr.(*interp.ErrUndecided); ok {
			return nil, &Undecided{GoPos: u.Pos, Msg: "abstract interpretation of (*Mocker).Mock: " + u.Msg}
		}
		return nil, ierr
	}
	dv := &Derived{Model: model, Data: executed, Events: d.events, Notes: d.m.Notes}
	switch r := ret.(type) {
	case interp.NilV:
	case nil:
	case *interp.Unknown:
		// an abstract error returned as it is (`return err`): nil on one path, non-nil on the other
		isNil, terr := d.m.TruthOf(&interp.Unknown{Why: "(" + r.Why + " == nil)"}, "0:("+r.Why+" == nil)")
		if terr != nil {
			return nil, terr
		}
		dv.Failed = !isNil
	default:
		dv.Failed = true
		_ = r
	}
	// which abstract errors were decided non-nil on this path
	nonNil := map[int]bool{}
	for key, val := range d.m.Choices.Memo() {
		i := strings.Index(key, "error#")
		if i < 0 {
			continue
		}
		var k int
		fmt.Sscanf(key[i:], "error#%d", &k)
		neg := strings.Count(key[:i], "!(")%2 == 1 // `err != nil` is recorded as !(err == nil)
		if val == neg {
			nonNil[k] = true
		}
	}
	for k := range nonNil {
		ei := d.errEvent[k]
		last := ei == len(d.events)-1
		what := "?"
		if ei >= 0 && ei < len(d.events) {
			what = d.events[ei].Kind
		}
		dv.ob("G-MOCK/fail-stop", "after-"+what, last, "after %s failed, Mock goes on (%s): a failure must end the run before anything else is done, in particular before anything is written", what, eventKinds(d.events[ei+1:]))
		dv.ob("G-MOCK/error-returned", "after-"+what, dv.Failed, "%s failed but Mock returned nil: the failure is swallowed and the caller sees success", what)
	}
	// a path on which every fallible operation succeeded must succeed: anything else is a refusal
	// that depends on the input (names, shapes, flags) alone
	dv.ob("G-MOCK/accepts", "no-input-dependent-refusal", !(dv.Failed && len(nonNil) == 0), "Mock returns an error although the lookups, the template execution, the formatter and the write all succeeded (conditions on this path: %s): some interfaces are refused under these options", d.m.Choices.Describe())
	if d.probe {
		dv.Obs = nil
		d.nameFinal(dv)
		return dv, nil
	}
	d.obligations(dv, formatter)
	return dv, nil
}

// nameFinal (probe mode): wherever the name of a variable occurs in the template data outside the
// variable itself, it carries as many rename marks as the variable's own name has at the end.
func (d *deriver) nameFinal(dv *Derived) {
	if dv.Data == nil || dv.Failed {
		return
	}
	final := map[string]int{} // base token -> marks at the end
	for _, vs := range d.scopeVars {
		for _, v := range vs {
			n, ok := v.Fields["Name"].(*interp.Sym)
			if !ok || len(n.Parts) == 0 || n.Parts[0].Tok == "" {
				continue
			}
			k := 0
			for _, p := range n.Parts[1:] {
				if p.Tok == RenameMark {
					k++
				}
			}
			final[n.Parts[0].Tok] = k
		}
	}
	isVar := map[*interp.Struct]bool{}
	for _, vs := range d.scopeVars {
		for _, v := range vs {
			isVar[v] = true
		}
	}
	seen := map[interp.Value]bool{}
	nstale, ncopies := 0, 0
	var stale []string
	var walk func(v interp.Value, path string, inVarName bool)
	walk = func(v interp.Value, path string, inVarName bool) {
		switch x := v.(type) {
		case *interp.Sym:
			if inVarName {
				return
			}
			for i, p := range x.Parts {
				// a field name computed from the name (Exported applied on the Go side) is a copy as well
				if strings.HasPrefix(p.Tok, OpExported) {
					rest := p.Tok[len(OpExported):]
					for base, want := range final {
						if strings.HasPrefix(rest, base) {
							ncopies++
							if k := strings.Count(rest[len(base):], RenameMark); k != want {
								nstale++
								if len(stale) < 4 {
									stale = append(stale, fmt.Sprintf("%s holds Exported(%q)", path, rest))
								}
							}
						}
					}
					continue
				}
				want, isName := final[p.Tok]
				if p.Tok == "" || !isName {
					continue
				}
				ncopies++
				k := 0
				for _, q := range x.Parts[i+1:] {
					if q.Tok != RenameMark {
						break
					}
					k++
				}
				if k != want {
					nstale++
					if len(stale) < 4 {
						stale = append(stale, fmt.Sprintf("%s holds %q", path, x.Flat()))
					}
				}
			}
		case *interp.Ptr:
			if x.Elem != nil && !seen[x] {
				seen[x] = true
				walk(x.Elem, path, false)
			}
		case *interp.Struct:
			if seen[x] {
				return
			}
			seen[x] = true
			names := make([]string, 0, len(x.Fields))
			for f := range x.Fields {
				names = append(names, f)
			}
			sort.Strings(names)
			for _, f := range names {
				walk(x.Fields[f], path+"."+f, isVar[x] && f == "Name")
			}
		case *interp.List:
			if seen[x] {
				return
			}
			seen[x] = true
			for i, e := range x.Elems {
				walk(e, fmt.Sprintf("%s[%d]", path, i), false)
			}
		}
	}
	walk(dv.Data, "Data", false)
	dv.ob("G-DATA/name-final", "copies-are-current", nstale == 0, "a copy of a parameter or result name reaches the template data although a later AddVar of the same method could still rename that variable (a parameter spelled like a package a result brings in, or like a numbered result, gets MoqParam or a number afterwards): %d of %d copies are older than the variable's final name, e.g. %s — the signature then spells the new name and the copied text the old one", nstale, ncopies, strings.Join(stale, "; "))
}

// calleeOfField finds the moq function whose result initialises the given
// field in a composite literal of the given template type (role lookup).
func calleeOfField(prog *load.Program, typeName, field string) *types.Func {
	return findFieldInitCallee(prog, typeName, field)
}

// CalleeOfField is calleeOfField for other packages of the checker.
func CalleeOfField(prog *load.Program, typeName, field string) *types.Func {
	return findFieldInitCallee(prog, typeName, field)
}
