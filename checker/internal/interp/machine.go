package interp

import (
	"fmt"
	"go/ast"
	"go/constant"
	"go/token"
	"go/types"
	"strconv"
	"strings"

	"verif/checker/internal/load"
)

// ExtFunc models a function that lives outside moq's packages.
type ExtFunc func(m *Machine, pos token.Pos, recv Value, args []Value) (Value, error)

// Machine interprets function bodies of the loaded program.
type Machine struct {
	Prog    *load.Program
	Ext     map[string]ExtFunc // by types.Func.FullName()
	ExtVars map[string]Value   // models of package-level variables outside moq, by "pkgpath.Name"
	Choices *Choices
	Fuel    int
	globals map[*types.Var]Value
	// Notes collects rule-relevant observations made during interpretation
	// (e.g. a type rendered without the file's qualifier).
	Notes []Note
	// Indexed records the index and slice expressions evaluated in range on a list.
	Indexed map[token.Pos]bool
	// PureUnknown, when set, names functions outside moq that have no effects: a call without a model
	// yields unknown results instead of leaving the vocabulary.
	PureUnknown func(fn *types.Func) bool
	// Distinct, when set, says that a token is known to differ from a literal (e.g. an identifier
	// token differs from "." whatever identifier it stands for).
	Distinct func(tok, lit string) bool
	depth    int
	seq      int
	// labels: curLabel is the label of the statement about to be executed, brLabel the target of a
	// labelled break/continue that is on its way out
	curLabel string
	brLabel  string
	// init functions of moq's packages run once, before the first read of one of the package's variables
	inInit   bool
	initDone map[string]bool
	// pendingTArgs: the type arguments of the generic call that is about to enter its body
	pendingTArgs []types.Type
	// pendingRecvTArgs: the type arguments of the generic receiver type of the method call about to start
	pendingRecvTArgs []types.Type
}

// Note is an observation made by an Ext model.
type Note struct {
	Rule string
	Key  string
	Pos  token.Pos
	Msg  string
}

// ErrUndecided is returned when the interpreter meets a construct outside its
// vocabulary; the caller must report the dependent rule as undecided.
type ErrUndecided struct {
	Pos token.Pos
	Msg string
}

func (e *ErrUndecided) Error() string { return e.Msg }

// ErrExit ends the interpretation: the program called os.Exit.
type ErrExit struct{ Code int64 }

func (e *ErrExit) Error() string { return fmt.Sprintf("os.Exit(%d)", e.Code) }

func undecided(pos token.Pos, format string, a ...any) error {
	return &ErrUndecided{Pos: pos, Msg: fmt.Sprintf(format, a...)}
}

// Choices drives the exploration of unknown conditions: a run consults Next
// for each unknown condition (memoised by key inside one run); Advance moves
// to the next unexplored combination.
type Choices struct {
	seq  []bool
	pos  int
	memo map[string]bool
	Max  int
	runs int
}

func NewChoices(max int) *Choices { return &Choices{Max: max, memo: map[string]bool{}} }

func (c *Choices) next(key string) bool {
	if v, ok := c.memo[key]; ok {
		return v
	}
	var v bool
	if c.pos < len(c.seq) {
		v = c.seq[c.pos]
	} else {
		c.seq = append(c.seq, false)
	}
	c.pos++
	c.memo[key] = v
	return v
}

// Advance prepares the next combination; it returns false when all have been
// explored. Overflow reports that the exploration bound was hit.
func (c *Choices) Advance() (more bool, overflow bool) {
	c.runs++
	seq := c.seq[:c.pos]
	i := len(seq) - 1
	for i >= 0 && seq[i] {
		i--
	}
	if i < 0 {
		return false, false
	}
	if c.runs >= c.Max {
		return false, true
	}
	c.seq = append(append([]bool{}, seq[:i]...), true)
	c.pos = 0
	c.memo = map[string]bool{}
	return true, false
}

// Forked reports whether the current run consulted any unknown condition.
func (c *Choices) Forked() bool { return len(c.memo) > 0 }

func (c *Choices) Describe() string {
	var ss []string
	for k, v := range c.memo {
		ss = append(ss, fmt.Sprintf("%s=%v", k, v))
	}
	return strings.Join(ss, "; ")
}

// deferred is a deferred call: the function value and its arguments, evaluated when the defer statement ran.
type deferred struct {
	pos  token.Pos
	fn   Value
	args []Value
}

type frame struct {
	// isFunc marks the frame of a function call; defers are collected there
	isFunc bool
	defers []deferred
	// targs binds the type parameters of a generic function to the type arguments of this call
	targs  map[*types.TypeParam]types.Type
	vars   map[types.Object]*Value
	parent *frame
	info   *types.Info
}

func (f *frame) lookup(o types.Object) *Value {
	for fr := f; fr != nil; fr = fr.parent {
		if v, ok := fr.vars[o]; ok {
			return v
		}
	}
	return nil
}

func (f *frame) declare(o types.Object, v Value) {
	if o == nil {
		return
	}
	vv := v
	f.vars[o] = &vv
}

type ctrl int

const (
	ctrlNone ctrl = iota
	ctrlReturn
	ctrlBreak
	ctrlContinue
)

func New(prog *load.Program) *Machine {
	m := &Machine{Prog: prog, Ext: map[string]ExtFunc{}, ExtVars: map[string]Value{}, Choices: NewChoices(64), Fuel: 2_000_000, globals: map[*types.Var]Value{}}
	installStdlib(m)
	return m
}

// Call invokes a value as a function.
func (m *Machine) Call(pos token.Pos, fn Value, args []Value) (Value, error) {
	switch fn := fn.(type) {
	case *FuncV:
		if fn.MethodExpr {
			if len(args) == 0 {
				return nil, undecided(pos, "method expression %s called without a receiver", fn.Fn.FullName())
			}
			recv := args[0]
			if fn.Sel != nil && len(fn.Sel.Index()) > 1 {
				// a promoted method: the receiver is the embedded value the path leads to
				var err error
				if recv, err = m.embeddedRecv(pos, recv, fn.Sel); err != nil {
					return nil, err
				}
			}
			return m.CallFunc(pos, fn.Fn, recv, args[1:])
		}
		return m.CallFunc(pos, fn.Fn, fn.Recv, args)
	case *Closure:
		return m.callBody(pos, fn.Info, fn.Env, nil, nil, fn.Lit.Type, fn.Lit.Body, args)
	case *Native:
		return fn.Fn(args)
	case *Unknown:
		return nil, undecided(pos, "call of unknown function value (%s)", fn.Why)
	}
	if _, isNil := fn.(NilV); isNil {
		m.Notes = append(m.Notes, Note{Rule: "H-PANIC", Key: "nil-func-call@" + m.Prog.Pos(pos), Pos: pos, Msg: "a nil function value is called"})
		return nil, undecided(pos, "call of a nil function value (the program panics here)")
	}
	return nil, undecided(pos, "call of non-function value %s", Show(fn))
}

// CallFunc calls a declared function or method.
func (m *Machine) CallFunc(pos token.Pos, fn *types.Func, recv Value, args []Value) (Value, error) {
	fn = fn.Origin()
	// a call through an interface declared in moq: the method of the dynamic value
	if sig, _ := fn.Type().(*types.Signature); sig != nil && sig.Recv() != nil {
		if _, isIface := sig.Recv().Type().Underlying().(*types.Interface); isIface {
			if cm := m.dynamicMethod(recv, fn.Name()); cm != nil {
				fn = cm.Origin()
			}
		}
	}
	// the iterators of go/types lists are their Len/At pairs (that is how go/types defines them)
	if pair, ok := typesIterators[fn.Name()]; ok && fn.Pkg() != nil && fn.Pkg().Path() == "go/types" && len(args) == 0 {
		if _, hasOwn := m.Ext[fn.FullName()]; !hasOwn {
			switch o := recv.(type) {
			case NilV:
				return &Seq{}, nil
			case *Opaque:
				if _, own := o.Methods[fn.Name()]; !own {
					n, err := m.opaqueCall(pos, o, pair[0], nil)
					if err != nil {
						return nil, err
					}
					cnt, ok := n.(int64)
					if !ok {
						return nil, undecided(pos, "%s of a %s whose %s is not concrete", fn.Name(), o.Kind, pair[0])
					}
					sq := &Seq{}
					for i := int64(0); i < cnt; i++ {
						e, err := m.opaqueCall(pos, o, pair[1], []Value{i})
						if err != nil {
							return nil, err
						}
						sq.Elems = append(sq.Elems, e)
					}
					return sq, nil
				}
			}
		}
	}
	if o, ok := recv.(*Opaque); ok {
		// methods of opaque (non-moq) values are modelled per kind, whatever
		// embedded struct declares them (go/types promotes object's methods)
		if f, ok := o.Methods[fn.Name()]; ok {
			return f(m, pos, args)
		}
		if ext, ok := m.Ext[OpaqueMethodKey(o.Kind, fn.Name())]; ok {
			return ext(m, pos, recv, args)
		}
		// no model: the result is unknown (conditions on it are explored both ways; printing it is undecided)
		m.Notes = append(m.Notes, Note{Rule: "H-UNMODELLED", Key: o.Kind + "." + fn.Name(), Pos: pos, Msg: "method " + fn.Name() + " of a " + o.Kind + " value has no model"})
		sig, _ := fn.Type().(*types.Signature)
		if sig != nil && sig.Results().Len() > 1 {
			var t Tuple
			for i := 0; i < sig.Results().Len(); i++ {
				t = append(t, &Unknown{Why: fmt.Sprintf("%s.%s()#%d", o.ID, fn.Name(), i)})
			}
			return t, nil
		}
		return &Unknown{Why: o.ID + "." + fn.Name() + "()"}, nil
	}
	if ext, ok := m.Ext[fn.FullName()]; ok {
		return ext(m, pos, recv, args)
	}
	decl := m.Prog.Decl(fn)
	if decl == nil || decl.Body == nil || !m.Prog.IsMoqPkg(fn.Pkg()) {
		if m.PureUnknown != nil && m.PureUnknown(fn) {
			// a function without effects that has no model: its results are unknown (conditions on them are
			// explored both ways, printing them is undecided)
			m.Notes = append(m.Notes, Note{Rule: "H-UNMODELLED", Key: fn.FullName(), Pos: pos, Msg: "call of " + fn.FullName() + " has no model: its results are unknown"})
			sig, _ := fn.Type().(*types.Signature)
			if sig != nil && sig.Results().Len() > 1 {
				var t Tuple
				for i := 0; i < sig.Results().Len(); i++ {
					t = append(t, &Unknown{Why: fmt.Sprintf("%s()#%d", fn.FullName(), i)})
				}
				return t, nil
			}
			return &Unknown{Why: fn.FullName() + "()"}, nil
		}
		return nil, undecided(pos, "call of %s: no model for this function outside moq's packages", fn.FullName())
	}
	info := m.Prog.Info(fn.Pkg())
	return m.callBody(pos, info, nil, decl.Recv, recv, decl.Type, decl.Body, args)
}

// CallSource interprets the body of a moq function even if a model is registered under its name (for
// models that fall back on the source).
func (m *Machine) CallSource(pos token.Pos, fn *types.Func, recv Value, args []Value) (Value, error) {
	fn = fn.Origin()
	decl := m.Prog.Decl(fn)
	if decl == nil || decl.Body == nil || !m.Prog.IsMoqPkg(fn.Pkg()) {
		return nil, undecided(pos, "call of %s: no source in moq's packages", fn.FullName())
	}
	return m.callBody(pos, m.Prog.Info(fn.Pkg()), nil, decl.Recv, recv, decl.Type, decl.Body, args)
}

func (m *Machine) callBody(pos token.Pos, info *types.Info, env *frame, recvFL *ast.FieldList, recv Value, ft *ast.FuncType, body *ast.BlockStmt, args []Value) (Value, error) {
	m.depth++
	defer func() { m.depth-- }()
	if m.depth > 200 {
		return nil, undecided(pos, "interpretation depth exceeded (recursion)")
	}
	fr := &frame{vars: map[types.Object]*Value{}, parent: env, info: info, isFunc: true}
	if ta := m.pendingTArgs; ta != nil {
		m.pendingTArgs = nil
		if ft.TypeParams != nil {
			k := 0
			for _, f := range ft.TypeParams.List {
				for _, n := range f.Names {
					if tn, ok := info.Defs[n].(*types.TypeName); ok && k < len(ta) {
						if tp, ok := tn.Type().(*types.TypeParam); ok {
							if fr.targs == nil {
								fr.targs = map[*types.TypeParam]types.Type{}
							}
							fr.targs[tp] = ta[k]
						}
					}
					k++
				}
			}
		}
	}
	if ra := m.pendingRecvTArgs; ra != nil {
		m.pendingRecvTArgs = nil
		if recvFL != nil && len(recvFL.List) == 1 {
			// func (m orderedMap[K, V]) ...: K, V are declared by the receiver's type expression
			te := recvFL.List[0].Type
			if st, ok := te.(*ast.StarExpr); ok {
				te = st.X
			}
			var ids []ast.Expr
			switch x := te.(type) {
			case *ast.IndexExpr:
				ids = []ast.Expr{x.Index}
			case *ast.IndexListExpr:
				ids = x.Indices
			}
			for k, ide := range ids {
				if id, ok := ide.(*ast.Ident); ok && k < len(ra) {
					if tn, ok := info.Defs[id].(*types.TypeName); ok {
						if tp, ok := tn.Type().(*types.TypeParam); ok {
							if fr.targs == nil {
								fr.targs = map[*types.TypeParam]types.Type{}
							}
							fr.targs[tp] = ra[k]
						}
					}
				}
			}
		}
	}
	if recvFL != nil && len(recvFL.List) == 1 && len(recvFL.List[0].Names) == 1 {
		rv := recv
		// value receiver: copy; pointer receiver: keep pointer
		if _, isPtr := info.TypeOf(recvFL.List[0].Type).(*types.Pointer); !isPtr {
			rv = derefCopy(rv)
		} else if s, ok := rv.(*Struct); ok {
			rv = &Ptr{Elem: s}
		}
		fr.declare(info.Defs[recvFL.List[0].Names[0]], rv)
	}
	i := 0
	if ft.Params != nil {
		for fi, f := range ft.Params.List {
			_, variadic := f.Type.(*ast.Ellipsis)
			names := f.Names
			if len(names) == 0 {
				i++
				continue
			}
			for _, n := range names {
				var v Value
				if variadic && fi == len(ft.Params.List)-1 {
					rest := &List{}
					if i < len(args) {
						rest.Elems = append(rest.Elems, args[i:]...)
					}
					v = rest
					i = len(args)
				} else {
					if i >= len(args) {
						return nil, undecided(pos, "too few arguments in call")
					}
					v = copyVal(args[i])
					i++
				}
				fr.declare(info.Defs[n], v)
			}
		}
	}
	var resultObjs []types.Object
	if ft.Results != nil {
		for _, f := range ft.Results.List {
			for _, n := range f.Names {
				o := info.Defs[n]
				fr.declare(o, m.zero(fr.substT(info.TypeOf(f.Type))))
				resultObjs = append(resultObjs, o)
			}
		}
	}
	c, ret, err := m.execBlock(fr, body.List)
	if err != nil {
		return nil, err
	}
	if len(fr.defers) > 0 {
		// a return statement sets the named results before the deferred calls run; they may change them
		if c == ctrlReturn && ret != nil && len(resultObjs) > 0 {
			if t, ok := ret.(Tuple); ok && len(t) == len(resultObjs) {
				for i, o := range resultObjs {
					*fr.lookup(o) = t[i]
				}
			} else if len(resultObjs) == 1 {
				*fr.lookup(resultObjs[0]) = ret
			}
			ret = nil
		}
		for i := len(fr.defers) - 1; i >= 0; i-- {
			d := fr.defers[i]
			if _, err := m.Call(d.pos, d.fn, d.args); err != nil {
				return nil, err
			}
		}
	}
	if c == ctrlReturn && ret != nil {
		return ret, nil
	}
	if len(resultObjs) > 0 {
		var t Tuple
		for _, o := range resultObjs {
			t = append(t, *fr.lookup(o))
		}
		if len(t) == 1 {
			return t[0], nil
		}
		return t, nil
	}
	return nil, nil
}

func derefCopy(v Value) Value {
	switch v := v.(type) {
	case *Ptr:
		return v.Elem.Copy()
	case *Struct:
		return v.Copy()
	}
	return v
}

func copyVal(v Value) Value {
	if s, ok := v.(*Struct); ok {
		return s.Copy()
	}
	return v
}

func (m *Machine) zero(t types.Type) Value {
	if t == nil {
		return NilV{}
	}
	switch u := t.Underlying().(type) {
	case *types.Basic:
		switch {
		case u.Info()&types.IsString != 0:
			return Lit("")
		case u.Info()&types.IsBoolean != 0:
			return false
		case u.Info()&types.IsNumeric != 0:
			return int64(0)
		}
		return NilV{}
	case *types.Struct:
		if n, ok := types.Unalias(t).(*types.Named); ok && n.Obj().Pkg() != nil && !m.Prog.IsMoqPkg(n.Obj().Pkg()) {
			m.seq++
			return &Opaque{Kind: n.Obj().Pkg().Path() + "." + n.Obj().Name(), ID: fmt.Sprintf("zero%d", m.seq), GoType: n.Obj().Pkg().Path() + "." + n.Obj().Name()}
		}
		s := &Struct{Type: t, Fields: map[string]Value{}}
		for i := 0; i < u.NumFields(); i++ {
			s.Fields[u.Field(i).Name()] = m.zero(u.Field(i).Type())
		}
		return s
	}
	return NilV{}
}

func (m *Machine) burn(pos token.Pos) error {
	m.Fuel--
	if m.Fuel < 0 {
		return undecided(pos, "interpretation fuel exhausted (unbounded loop?)")
	}
	return nil
}

func (m *Machine) execBlock(fr *frame, stmts []ast.Stmt) (ctrl, Value, error) {
	inner := &frame{vars: map[types.Object]*Value{}, parent: fr, info: fr.info}
	for _, s := range stmts {
		c, v, err := m.exec(inner, s)
		if err != nil || c != ctrlNone {
			return c, v, err
		}
	}
	return ctrlNone, nil, nil
}

func (m *Machine) cond(fr *frame, e ast.Expr) (bool, error) {
	v, err := m.eval(fr, e)
	if err != nil {
		return false, err
	}
	return m.truth(e.Pos(), v, exprKey(fr, e, v))
}

func exprKey(fr *frame, e ast.Expr, v Value) string {
	why := ""
	if u, ok := v.(*Unknown); ok {
		why = u.Why
	}
	return fmt.Sprintf("%d:%s", e.Pos(), why)
}

// truth resolves a boolean; an unknown one is decided by the exploration.
func (m *Machine) truth(pos token.Pos, v Value, key string) (bool, error) {
	switch v := v.(type) {
	case bool:
		return v, nil
	case *Unknown:
		// an abstract error is one value: every test of it on a path has the same outcome,
		// wherever it is written and whether it is written err == nil or err != nil
		if i := strings.Index(key, ":"); i >= 0 && strings.Contains(key[i+1:], "error#") {
			term, neg := key[i+1:], false
			for strings.HasPrefix(term, "!(") && strings.HasSuffix(term, ")") {
				term, neg = term[2:len(term)-1], !neg
			}
			return m.Choices.next("0:"+term) != neg, nil
		}
		return m.Choices.next(key), nil
	}
	return false, undecided(pos, "condition is not a boolean: %s", Show(v))
}

func (m *Machine) exec(fr *frame, s ast.Stmt) (ctrl, Value, error) {
	if err := m.burn(s.Pos()); err != nil {
		return 0, nil, err
	}
	info := fr.info
	myLabel := m.curLabel
	m.curLabel = ""
	// own: a break/continue that arrives here is meant for this statement (unlabelled, or labelled with
	// this statement's label); otherwise it travels on
	own := func() bool {
		if m.brLabel == "" {
			return true
		}
		if m.brLabel == myLabel {
			m.brLabel = ""
			return true
		}
		return false
	}
	switch s := s.(type) {
	case *ast.LabeledStmt:
		m.curLabel = s.Label.Name
		return m.exec(fr, s.Stmt)
	case *ast.BlockStmt:
		return m.execBlock(fr, s.List)
	case *ast.ExprStmt:
		_, err := m.eval(fr, s.X)
		return ctrlNone, nil, err
	case *ast.EmptyStmt:
		return ctrlNone, nil, nil
	case *ast.DeclStmt:
		gd, ok := s.Decl.(*ast.GenDecl)
		if !ok || gd.Tok != token.VAR {
			if ok && (gd.Tok == token.CONST || gd.Tok == token.TYPE) {
				return ctrlNone, nil, nil
			}
			return 0, nil, undecided(s.Pos(), "unsupported declaration")
		}
		for _, sp := range gd.Specs {
			vs := sp.(*ast.ValueSpec)
			if len(vs.Values) == 0 {
				for _, n := range vs.Names {
					fr.declare(info.Defs[n], m.zero(fr.substT(info.TypeOf(n))))
				}
				continue
			}
			if len(vs.Values) != len(vs.Names) {
				return 0, nil, undecided(s.Pos(), "unsupported multi-value var declaration")
			}
			for i, n := range vs.Names {
				v, err := m.eval(fr, vs.Values[i])
				if err != nil {
					return 0, nil, err
				}
				fr.declare(info.Defs[n], copyVal(v))
			}
		}
		return ctrlNone, nil, nil
	case *ast.AssignStmt:
		return ctrlNone, nil, m.assign(fr, s)
	case *ast.IncDecStmt:
		v, err := m.eval(fr, s.X)
		if err != nil {
			return 0, nil, err
		}
		n, ok := v.(int64)
		if !ok {
			return 0, nil, undecided(s.Pos(), "++/-- on non-integer %s", Show(v))
		}
		if s.Tok == token.INC {
			n++
		} else {
			n--
		}
		return ctrlNone, nil, m.store(fr, s.X, n)
	case *ast.IfStmt:
		inner := &frame{vars: map[types.Object]*Value{}, parent: fr, info: info}
		if s.Init != nil {
			if c, v, err := m.exec(inner, s.Init); err != nil || c != ctrlNone {
				return c, v, err
			}
		}
		b, err := m.cond(inner, s.Cond)
		if err != nil {
			return 0, nil, err
		}
		if b {
			return m.execBlock(inner, s.Body.List)
		}
		if s.Else != nil {
			return m.exec(inner, s.Else)
		}
		return ctrlNone, nil, nil
	case *ast.ForStmt:
		inner := &frame{vars: map[types.Object]*Value{}, parent: fr, info: info}
		if s.Init != nil {
			if c, v, err := m.exec(inner, s.Init); err != nil || c != ctrlNone {
				return c, v, err
			}
		}
		for {
			if err := m.burn(s.Pos()); err != nil {
				return 0, nil, err
			}
			if s.Cond != nil {
				b, err := m.cond(inner, s.Cond)
				if err != nil {
					return 0, nil, err
				}
				if !b {
					break
				}
			}
			c, v, err := m.execBlock(inner, s.Body.List)
			if err != nil {
				return 0, nil, err
			}
			if c == ctrlReturn {
				return c, v, nil
			}
			if (c == ctrlBreak || c == ctrlContinue) && !own() {
				return c, nil, nil
			}
			if c == ctrlBreak {
				break
			}
			if s.Post != nil {
				if _, _, err := m.exec(inner, s.Post); err != nil {
					return 0, nil, err
				}
			}
		}
		return ctrlNone, nil, nil
	case *ast.RangeStmt:
		x, err := m.eval(fr, s.X)
		if err != nil {
			return 0, nil, err
		}
		var keys, vals []Value
		switch x := x.(type) {
		case *List:
			for i, e := range x.Elems {
				keys = append(keys, int64(i))
				vals = append(vals, e)
			}
		case NilV:
		case int64:
			for i := int64(0); i < x; i++ {
				keys = append(keys, i)
				vals = append(vals, nil)
			}
		case *Seq:
			if x.Two {
				keys = append(keys, x.Keys...)
				vals = append(vals, x.Elems...)
			} else {
				keys = append(keys, x.Elems...)
				vals = make([]Value, len(x.Elems))
			}
		case *MapV:
			// insertion order; whether the loop is order-insensitive is G-DET's business
			m.Notes = append(m.Notes, Note{Rule: "H-MAPRANGE", Key: "map-range@" + m.Prog.Pos(s.Pos()), Pos: s.Pos(), Msg: "range over a map during interpretation"})
			keys = append(keys, x.Keys...)
			vals = append(vals, x.Vals...)
		case *Closure, *FuncV:
			// range over an iterator function: the body is the yield function
			var retC ctrl
			var retV Value
			yield := &Native{Fn: func(args []Value) (Value, error) {
				inner := &frame{vars: map[types.Object]*Value{}, parent: fr, info: info}
				for k, e := range []ast.Expr{s.Key, s.Value} {
					if e == nil || k >= len(args) {
						continue
					}
					id, ok := e.(*ast.Ident)
					if ok && id.Name == "_" {
						continue
					}
					if s.Tok == token.DEFINE && ok {
						inner.declare(info.Defs[id], copyVal(args[k]))
						continue
					}
					if err := m.store(inner, e, args[k]); err != nil {
						return nil, err
					}
				}
				c, v, err := m.execBlock(inner, s.Body.List)
				if err != nil {
					return nil, err
				}
				if (c == ctrlBreak || c == ctrlContinue) && !own() {
					return nil, undecided(s.Pos(), "labelled branch out of a range over an iterator function")
				}
				switch c {
				case ctrlReturn:
					retC, retV = c, v
					return false, nil
				case ctrlBreak:
					return false, nil
				}
				return true, nil
			}}
			if _, err := m.Call(s.Pos(), x, []Value{yield}); err != nil {
				return 0, nil, err
			}
			if retC == ctrlReturn {
				return retC, retV, nil
			}
			return ctrlNone, nil, nil
		default:
			return 0, nil, undecided(s.Pos(), "range over %s", Show(x))
		}
		for i := range keys {
			inner := &frame{vars: map[types.Object]*Value{}, parent: fr, info: info}
			bind := func(e ast.Expr, v Value) error {
				if e == nil {
					return nil
				}
				id, ok := e.(*ast.Ident)
				if ok && id.Name == "_" {
					return nil
				}
				if s.Tok == token.DEFINE && ok {
					inner.declare(info.Defs[id], copyVal(v))
					return nil
				}
				return m.store(inner, e, v)
			}
			if err := bind(s.Key, keys[i]); err != nil {
				return 0, nil, err
			}
			if err := bind(s.Value, vals[i]); err != nil {
				return 0, nil, err
			}
			c, v, err := m.execBlock(inner, s.Body.List)
			if err != nil {
				return 0, nil, err
			}
			if c == ctrlReturn {
				return c, v, nil
			}
			if (c == ctrlBreak || c == ctrlContinue) && !own() {
				return c, nil, nil
			}
			if c == ctrlBreak {
				break
			}
		}
		return ctrlNone, nil, nil
	case *ast.DeferStmt:
		// the function value and the arguments are evaluated now, the call happens when the function returns
		if id, ok := ast.Unparen(s.Call.Fun).(*ast.Ident); ok {
			if _, isB := info.Uses[id].(*types.Builtin); isB {
				return 0, nil, undecided(s.Pos(), "deferred call of the builtin %s", id.Name)
			}
		}
		fnv, err := m.eval(fr, s.Call.Fun)
		if err != nil {
			return 0, nil, err
		}
		var args []Value
		for _, a := range s.Call.Args {
			v, err := m.eval(fr, a)
			if err != nil {
				return 0, nil, err
			}
			args = append(args, copyVal(v))
		}
		ff := fr
		for ff != nil && !ff.isFunc {
			ff = ff.parent
		}
		if ff == nil {
			return 0, nil, undecided(s.Pos(), "defer outside a function body")
		}
		ff.defers = append(ff.defers, deferred{s.Pos(), fnv, args})
		return ctrlNone, nil, nil
	case *ast.ReturnStmt:
		if len(s.Results) == 0 {
			return ctrlReturn, nil, nil
		}
		if len(s.Results) == 1 {
			v, err := m.eval(fr, s.Results[0])
			if v == nil && err == nil {
				v = NilV{}
			}
			return ctrlReturn, v, err
		}
		var t Tuple
		for _, r := range s.Results {
			v, err := m.eval(fr, r)
			if err != nil {
				return 0, nil, err
			}
			t = append(t, v)
		}
		return ctrlReturn, t, nil
	case *ast.BranchStmt:
		if s.Label != nil {
			if s.Tok != token.BREAK && s.Tok != token.CONTINUE {
				return 0, nil, undecided(s.Pos(), "goto")
			}
			m.brLabel = s.Label.Name
		}
		switch s.Tok {
		case token.BREAK:
			return ctrlBreak, nil, nil
		case token.CONTINUE:
			return ctrlContinue, nil, nil
		}
		return 0, nil, undecided(s.Pos(), "unsupported branch %s", s.Tok)
	case *ast.SwitchStmt:
		inner := &frame{vars: map[types.Object]*Value{}, parent: fr, info: info}
		if s.Init != nil {
			if c, v, err := m.exec(inner, s.Init); err != nil || c != ctrlNone {
				return c, v, err
			}
		}
		var tag Value = true
		if s.Tag != nil {
			var err error
			if tag, err = m.eval(inner, s.Tag); err != nil {
				return 0, nil, err
			}
		}
		var deflt *ast.CaseClause
		for _, cc := range s.Body.List {
			cl := cc.(*ast.CaseClause)
			if cl.List == nil {
				deflt = cl
				continue
			}
			for _, e := range cl.List {
				v, err := m.eval(inner, e)
				if err != nil {
					return 0, nil, err
				}
				eq := m.equal(e.Pos(), tag, v)
				b, err := m.truth(e.Pos(), eq, fmt.Sprintf("%d:%s", e.Pos(), TermOf(eq)))
				if err != nil {
					return 0, nil, err
				}
				if b {
					c, rv, err := m.execBlock(inner, cl.Body)
					if c == ctrlBreak && own() {
						c = ctrlNone
					}
					return c, rv, err
				}
			}
		}
		if deflt != nil {
			c, rv, err := m.execBlock(inner, deflt.Body)
			if c == ctrlBreak && own() {
				c = ctrlNone
			}
			return c, rv, err
		}
		return ctrlNone, nil, nil
	case *ast.TypeSwitchStmt:
		inner := &frame{vars: map[types.Object]*Value{}, parent: fr, info: info}
		if s.Init != nil {
			if c, v, err := m.exec(inner, s.Init); err != nil || c != ctrlNone {
				return c, v, err
			}
		}
		var guard *ast.TypeAssertExpr
		switch a := s.Assign.(type) {
		case *ast.AssignStmt:
			guard, _ = ast.Unparen(a.Rhs[0]).(*ast.TypeAssertExpr)
		case *ast.ExprStmt:
			guard, _ = ast.Unparen(a.X).(*ast.TypeAssertExpr)
		}
		if guard == nil {
			return 0, nil, undecided(s.Pos(), "type switch guard")
		}
		x, err := m.eval(inner, guard.X)
		if err != nil {
			return 0, nil, err
		}
		dyn := ""
		switch xv := x.(type) {
		case *Opaque:
			dyn = xv.GoType
		case NilV:
			dyn = "nil"
		}
		if dyn == "" {
			return 0, nil, undecided(s.Pos(), "type switch on a value whose dynamic type is not modelled: %s", Show(x))
		}
		var chosen, deflt *ast.CaseClause
		for _, cc := range s.Body.List {
			cl := cc.(*ast.CaseClause)
			if cl.List == nil {
				deflt = cl
				continue
			}
			for _, te := range cl.List {
				want := "nil"
				if t := info.TypeOf(te); t != nil {
					if _, isNil := t.(*types.Basic); !(isNil && t.(*types.Basic).Kind() == types.UntypedNil) {
						want = types.TypeString(t, nil)
					}
				}
				if want == dyn && chosen == nil {
					chosen = cl
				}
				// an interface case matches every dynamic type that implements it
				if chosen == nil && want != "nil" && dyn != "nil" {
					if it, ok := info.TypeOf(te).Underlying().(*types.Interface); ok {
						if dt := m.goTypeOf(dyn); dt != nil && types.Implements(dt, it) {
							chosen = cl
						}
					}
				}
			}
		}
		if chosen == nil {
			chosen = deflt
		}
		if chosen == nil {
			return ctrlNone, nil, nil
		}
		body := &frame{vars: map[types.Object]*Value{}, parent: inner, info: info}
		if o := info.Implicits[chosen]; o != nil {
			body.declare(o, x)
		}
		c, rv, err := m.execBlock(body, chosen.Body)
		if c == ctrlBreak && own() {
			c = ctrlNone
		}
		return c, rv, err
	}
	return 0, nil, undecided(s.Pos(), "statement %T is outside the analysed vocabulary", s)
}

func (m *Machine) assign(fr *frame, s *ast.AssignStmt) error {
	info := fr.info
	if s.Tok != token.ASSIGN && s.Tok != token.DEFINE {
		// op-assign
		if len(s.Lhs) != 1 || len(s.Rhs) != 1 {
			return undecided(s.Pos(), "unsupported op-assignment")
		}
		l, err := m.eval(fr, s.Lhs[0])
		if err != nil {
			return err
		}
		r, err := m.eval(fr, s.Rhs[0])
		if err != nil {
			return err
		}
		var op token.Token
		switch s.Tok {
		case token.ADD_ASSIGN:
			op = token.ADD
		case token.SUB_ASSIGN:
			op = token.SUB
		case token.MUL_ASSIGN:
			op = token.MUL
		case token.QUO_ASSIGN:
			op = token.QUO
		case token.REM_ASSIGN:
			op = token.REM
		case token.AND_ASSIGN:
			op = token.AND
		case token.OR_ASSIGN:
			op = token.OR
		case token.XOR_ASSIGN:
			op = token.XOR
		case token.AND_NOT_ASSIGN:
			op = token.AND_NOT
		case token.SHL_ASSIGN:
			op = token.SHL
		case token.SHR_ASSIGN:
			op = token.SHR
		default:
			return undecided(s.Pos(), "unsupported op-assignment %s", s.Tok)
		}
		v, err := m.binop(s.Pos(), op, l, r)
		if err != nil {
			return err
		}
		return m.store(fr, s.Lhs[0], v)
	}
	var vals []Value
	if len(s.Rhs) == 1 && len(s.Lhs) > 1 {
		v, err := m.evalMulti(fr, s.Rhs[0], len(s.Lhs))
		if err != nil {
			return err
		}
		vals = v
	} else {
		for _, r := range s.Rhs {
			v, err := m.eval(fr, r)
			if err != nil {
				return err
			}
			vals = append(vals, copyVal(v))
		}
	}
	if len(vals) != len(s.Lhs) {
		return undecided(s.Pos(), "assignment arity mismatch")
	}
	for i, l := range s.Lhs {
		if id, ok := l.(*ast.Ident); ok {
			if id.Name == "_" {
				continue
			}
			if s.Tok == token.DEFINE {
				if o := info.Defs[id]; o != nil {
					fr.declare(o, vals[i])
					continue
				}
			}
		}
		if err := m.store(fr, l, vals[i]); err != nil {
			return err
		}
	}
	return nil
}

// evalMulti evaluates an expression that yields n values (call, comma-ok).
func (m *Machine) evalMulti(fr *frame, e ast.Expr, n int) ([]Value, error) {
	switch e := ast.Unparen(e).(type) {
	case *ast.IndexExpr: // v, ok := m[k]
		x, err := m.eval(fr, e.X)
		if err != nil {
			return nil, err
		}
		k, err := m.eval(fr, e.Index)
		if err != nil {
			return nil, err
		}
		if mv, ok := x.(*MapV); ok {
			for i, kk := range mv.Keys {
				eq := m.equal(e.Pos(), kk, k)
				if b, ok := eq.(bool); ok && b {
					return []Value{mv.Vals[i], true}, nil
				} else if !ok {
					hit, err := m.truth(e.Pos(), eq, fmt.Sprintf("%d:%s", e.Pos(), TermOf(eq)))
					if err != nil {
						return nil, err
					}
					if hit {
						return []Value{mv.Vals[i], true}, nil
					}
				}
			}
			// in a comma-ok context the expression's type is the pair (V, bool)
			vt := fr.info.TypeOf(e)
			if tup, ok := vt.(*types.Tuple); ok && tup.Len() == 2 {
				vt = tup.At(0).Type()
			}
			return []Value{m.zero(fr.substT(vt)), false}, nil
		}
		if _, isNil := x.(NilV); isNil {
			// a nil map holds nothing
			vt := fr.info.TypeOf(e)
			if tup, ok := vt.(*types.Tuple); ok && tup.Len() == 2 {
				vt = tup.At(0).Type()
			}
			return []Value{m.zero(fr.substT(vt)), false}, nil
		}
		return nil, undecided(e.Pos(), "comma-ok index on %s", Show(x))
	case *ast.TypeAssertExpr:
		return m.typeAssert(fr, e)
	}
	v, err := m.eval(fr, e)
	if err != nil {
		return nil, err
	}
	if t, ok := v.(Tuple); ok && len(t) == n {
		return t, nil
	}
	return nil, undecided(e.Pos(), "expression does not yield %d values: %s", n, Show(v))
}

func (m *Machine) store(fr *frame, lhs ast.Expr, v Value) error {
	info := fr.info
	switch l := ast.Unparen(lhs).(type) {
	case *ast.Ident:
		if l.Name == "_" {
			return nil
		}
		o := info.ObjectOf(l)
		if p := fr.lookup(o); p != nil {
			*p = copyVal(v)
			return nil
		}
		// package-level variables of moq are written by the package's init functions only (writes from
		// anywhere else are state that outlives a call: outside the vocabulary)
		if gv, ok := o.(*types.Var); ok && m.inInit && gv.Pkg() != nil && gv.Parent() == gv.Pkg().Scope() && m.Prog.IsMoqPkg(gv.Pkg()) {
			m.globals[gv] = copyVal(v)
			return nil
		}
		return undecided(l.Pos(), "store to non-local variable %s", l.Name)
	case *ast.IndexExpr:
		x, err := m.eval(fr, l.X)
		if err != nil {
			return err
		}
		i, err := m.eval(fr, l.Index)
		if err != nil {
			return err
		}
		switch x := x.(type) {
		case *List:
			n, ok := i.(int64)
			if !ok || n < 0 || int(n) >= len(x.Elems) {
				return undecided(l.Pos(), "index %s out of range or unknown in store", Show(i))
			}
			x.Elems[n] = copyVal(v)
			return nil
		case *MapV:
			for j, k := range x.Keys {
				if b, ok := m.equal(l.Pos(), k, i).(bool); ok && b {
					x.Vals[j] = v
					return nil
				}
			}
			x.Keys = append(x.Keys, i)
			x.Vals = append(x.Vals, v)
			return nil
		}
		return undecided(l.Pos(), "index store into %s", Show(x))
	case *ast.SelectorExpr:
		if _, isSel := info.Selections[l]; !isSel {
			// a qualified identifier: a package-level variable of another package
			if o, ok := info.ObjectOf(l.Sel).(*types.Var); ok && o.Pkg() != nil {
				m.ExtVars[o.Pkg().Path()+"."+o.Name()] = v
				return nil
			}
		}
		x, err := m.eval(fr, l.X)
		if err != nil {
			return err
		}
		var st *Struct
		switch x := x.(type) {
		case *Ptr:
			st = x.Elem
		case *Struct:
			// a struct reached through a field or an element is the stored struct itself, not a copy
			switch ast.Unparen(l.X).(type) {
			case *ast.SelectorExpr, *ast.IndexExpr:
				st = x
			}
			// store into a field of a local struct variable
			if id, ok := ast.Unparen(l.X).(*ast.Ident); ok {
				if p := fr.lookup(info.ObjectOf(id)); p != nil {
					if s, ok := (*p).(*Struct); ok {
						st = s
					}
				}
			}
		}
		if o, ok := x.(*Opaque); ok && st == nil {
			if o.Attrs == nil {
				o.Attrs = map[string]Value{}
			}
			o.Attrs[l.Sel.Name] = v
			return nil
		}
		if st == nil {
			return undecided(l.Pos(), "field store through %s", Show(x))
		}
		// a promoted field lives in the embedded struct the selection path leads to
		if si := info.Selections[l]; si != nil {
			path := si.Index()
			for _, fi := range path[:len(path)-1] {
				stt, ok := st.Type.Underlying().(*types.Struct)
				if !ok || fi >= stt.NumFields() {
					return undecided(l.Pos(), "store into a promoted field: embedded path")
				}
				switch inner := st.Fields[stt.Field(fi).Name()].(type) {
				case *Struct:
					st = inner
				case *Ptr:
					st = inner.Elem
				default:
					return undecided(l.Pos(), "store into a promoted field of %s", Show(inner))
				}
			}
		}
		st.Fields[l.Sel.Name] = copyVal(v)
		return nil
	case *ast.StarExpr:
		x, err := m.eval(fr, l.X)
		if err != nil {
			return err
		}
		if p, ok := x.(*Ptr); ok {
			if s, ok := v.(*Struct); ok {
				p.Elem.Fields = s.Copy().Fields
				return nil
			}
		}
		if r, ok := x.(*Ref); ok {
			r.Set(v)
			return nil
		}
		return undecided(l.Pos(), "store through pointer %s", Show(x))
	}
	return undecided(lhs.Pos(), "unsupported assignment target %T", lhs)
}

func constValue(tv types.TypeAndValue) (Value, bool) {
	if tv.Value == nil {
		return nil, false
	}
	switch tv.Value.Kind() {
	case constant.String:
		return Lit(constant.StringVal(tv.Value)), true
	case constant.Bool:
		return constant.BoolVal(tv.Value), true
	case constant.Int:
		if n, ok := constant.Int64Val(tv.Value); ok {
			return n, true
		}
	}
	return nil, false
}

func (m *Machine) eval(fr *frame, e ast.Expr) (Value, error) {
	if err := m.burn(e.Pos()); err != nil {
		return nil, err
	}
	info := fr.info
	if tv, ok := info.Types[e]; ok {
		if v, ok := constValue(tv); ok {
			return v, nil
		}
	}
	switch e := e.(type) {
	case *ast.ParenExpr:
		return m.eval(fr, e.X)
	case *ast.BasicLit:
		switch e.Kind {
		case token.STRING:
			s, err := strconv.Unquote(e.Value)
			if err != nil {
				return nil, undecided(e.Pos(), "bad string literal")
			}
			return Lit(s), nil
		case token.INT:
			n, err := strconv.ParseInt(e.Value, 0, 64)
			if err != nil {
				return nil, undecided(e.Pos(), "bad int literal")
			}
			return n, nil
		}
		return nil, undecided(e.Pos(), "literal kind %s", e.Kind)
	case *ast.Ident:
		o := info.ObjectOf(e)
		switch o := o.(type) {
		case *types.Nil:
			return NilV{}, nil
		case *types.Var:
			if p := fr.lookup(o); p != nil {
				return *p, nil
			}
			if o.Parent() == o.Pkg().Scope() {
				return m.global(o)
			}
			return nil, undecided(e.Pos(), "variable %s has no value in this frame", e.Name)
		case *types.Func:
			return &FuncV{Fn: o}, nil
		case *types.Const:
			if v, ok := constValue(types.TypeAndValue{Value: o.Val()}); ok {
				return v, nil
			}
		}
		return nil, undecided(e.Pos(), "identifier %s (%T)", e.Name, o)
	case *ast.FuncLit:
		return &Closure{Lit: e, Env: fr, Info: info}, nil
	case *ast.SelectorExpr:
		if sel, ok := info.Selections[e]; ok {
			if sel.Kind() == types.MethodExpr {
				if fn, ok := sel.Obj().(*types.Func); ok {
					return &FuncV{Fn: fn, MethodExpr: true, Sel: sel}, nil
				}
			}
			// a pointer-receiver method called on an addressable value that is no struct (a slice or map
			// held in a variable or field: `m.vars.add(v)` for `func (l *varList) add`): the receiver is
			// the address of that variable or field
			if sel.Kind() == types.MethodVal && len(sel.Index()) == 1 {
				if fn, ok := sel.Obj().(*types.Func); ok {
					if sig, ok := fn.Type().(*types.Signature); ok && sig.Recv() != nil {
						if _, ptrRecv := sig.Recv().Type().(*types.Pointer); ptrRecv {
							xt := info.TypeOf(e.X)
							_, xIsPtr := xt.Underlying().(*types.Pointer)
							_, xIsStruct := xt.Underlying().(*types.Struct)
							if !xIsPtr && !xIsStruct {
								ref, err := m.eval(fr, &ast.UnaryExpr{OpPos: e.X.Pos(), Op: token.AND, X: e.X})
								if err != nil {
									return nil, err
								}
								return &FuncV{Fn: fn, Recv: ref}, nil
							}
						}
					}
				}
			}
			x, err := m.eval(fr, e.X)
			if err != nil {
				return nil, err
			}
			return m.selectPath(e.Pos(), x, sel)
		}
		// qualified identifier
		switch o := info.ObjectOf(e.Sel).(type) {
		case *types.Func:
			return &FuncV{Fn: o}, nil
		case *types.Var:
			return m.global(o)
		}
		return nil, undecided(e.Pos(), "qualified identifier %s", e.Sel.Name)
	case *ast.StarExpr:
		x, err := m.eval(fr, e.X)
		if err != nil {
			return nil, err
		}
		if p, ok := x.(*Ptr); ok {
			return p.Elem.Copy(), nil
		}
		if r, ok := x.(*Ref); ok {
			return r.Get(), nil
		}
		return nil, undecided(e.Pos(), "dereference of %s", Show(x))
	case *ast.UnaryExpr:
		if e.Op == token.AND {
			if cl, ok := ast.Unparen(e.X).(*ast.CompositeLit); ok {
				v, err := m.eval(fr, cl)
				if err != nil {
					return nil, err
				}
				if s, ok := v.(*Struct); ok {
					return &Ptr{Elem: s}, nil
				}
				if o, ok := v.(*Opaque); ok {
					return o, nil
				}
			}
			if id, ok := ast.Unparen(e.X).(*ast.Ident); ok {
				if p := fr.lookup(info.ObjectOf(id)); p != nil {
					switch s := (*p).(type) {
					case *Struct:
						return &Ptr{Elem: s}, nil
					case *Opaque:
						return s, nil // the address of an opaque object is the object
					}
				}
			}
			switch x := ast.Unparen(e.X).(type) {
			case *ast.IndexExpr, *ast.SelectorExpr:
				// the address of a struct held in a slice element or a field aliases that struct
				v, err := m.eval(fr, e.X)
				if err != nil {
					return nil, err
				}
				switch s := v.(type) {
				case *Struct:
					return &Ptr{Elem: s}, nil
				case *Opaque:
					return s, nil
				}
				// the address of a field that holds a plain value
				if sel, ok := x.(*ast.SelectorExpr); ok {
					if _, isField := info.Selections[sel]; isField {
						owner, err := m.eval(fr, sel.X)
						if err != nil {
							return nil, err
						}
						var st *Struct
						switch o := owner.(type) {
						case *Struct:
							st = o
						case *Ptr:
							st = o.Elem
						}
						if st != nil {
							// a promoted field lives in the embedded struct the selection path leads to
							if si := info.Selections[sel]; si != nil {
								path := si.Index()
								for _, fi := range path[:len(path)-1] {
									stt, ok := st.Type.Underlying().(*types.Struct)
									if !ok || fi >= stt.NumFields() {
										return nil, undecided(e.Pos(), "address of a promoted field: embedded path")
									}
									switch inner := st.Fields[stt.Field(fi).Name()].(type) {
									case *Struct:
										st = inner
									case *Ptr:
										st = inner.Elem
									default:
										return nil, undecided(e.Pos(), "address of a promoted field of %s", Show(inner))
									}
								}
							}
							name := sel.Sel.Name
							return &Ref{ID: types.ExprString(sel), Get: func() Value { return st.Fields[name] }, Set: func(v Value) { st.Fields[name] = v }}, nil
						}
					}
				}
			case *ast.Ident:
				if p := fr.lookup(info.ObjectOf(x)); p != nil {
					return &Ref{ID: x.Name, Get: func() Value { return *p }, Set: func(v Value) { *p = v }}, nil
				}
			}
			return nil, undecided(e.Pos(), "address-of outside the analysed vocabulary")
		}
		x, err := m.eval(fr, e.X)
		if err != nil {
			return nil, err
		}
		switch e.Op {
		case token.NOT:
			switch x := x.(type) {
			case bool:
				return !x, nil
			case *Unknown:
				b, _ := m.truth(e.Pos(), x, exprKey(fr, e.X, x))
				return !b, nil
			}
		case token.SUB:
			if n, ok := x.(int64); ok {
				return -n, nil
			}
		}
		return nil, undecided(e.Pos(), "unary %s on %s", e.Op, Show(x))
	case *ast.BinaryExpr:
		if e.Op == token.LAND || e.Op == token.LOR {
			l, err := m.cond(fr, e.X)
			if err != nil {
				return nil, err
			}
			if e.Op == token.LAND && !l {
				return false, nil
			}
			if e.Op == token.LOR && l {
				return true, nil
			}
			r, err := m.cond(fr, e.Y)
			return r, err
		}
		l, err := m.eval(fr, e.X)
		if err != nil {
			return nil, err
		}
		r, err := m.eval(fr, e.Y)
		if err != nil {
			return nil, err
		}
		return m.binop(e.Pos(), e.Op, l, r)
	case *ast.IndexListExpr:
		// f[T1, T2]: an explicit instantiation of a generic function is the function
		if _, isSig := info.TypeOf(e.X).(*types.Signature); isSig {
			return m.eval(fr, e.X)
		}
		return nil, undecided(e.Pos(), "index list expression")
	case *ast.IndexExpr:
		// f[T]: an explicit instantiation of a generic function is the function (the type arguments are
		// bound when it is called)
		if tv, ok := info.Types[e.Index]; ok && tv.IsType() {
			if _, isSig := info.TypeOf(e.X).(*types.Signature); isSig {
				return m.eval(fr, e.X)
			}
		}
		x, err := m.eval(fr, e.X)
		if err != nil {
			return nil, err
		}
		i, err := m.eval(fr, e.Index)
		if err != nil {
			return nil, err
		}
		switch x := x.(type) {
		case *List:
			n, ok := i.(int64)
			if !ok {
				return nil, undecided(e.Pos(), "index %s is not a concrete integer", Show(i))
			}
			if n < 0 || int(n) >= len(x.Elems) {
				m.Notes = append(m.Notes, Note{Rule: "H-PANIC", Key: fmt.Sprintf("index-out-of-range@%s", m.Prog.Pos(e.Pos())), Pos: e.Pos(), Msg: fmt.Sprintf("index %d out of range [0,%d) while expanding a template helper", n, len(x.Elems))})
				return nil, undecided(e.Pos(), "index out of range")
			}
			if m.Indexed != nil {
				m.Indexed[e.Pos()] = true
			}
			return x.Elems[n], nil
		case *MapV:
			for j, k := range x.Keys {
				eq := m.equal(e.Pos(), k, i)
				if b, ok := eq.(bool); ok && b {
					return x.Vals[j], nil
				} else if !ok {
					// an input-dependent key: each entry may or may not be the one looked up
					hit, err := m.truth(e.Pos(), eq, fmt.Sprintf("%d:%s", e.Pos(), TermOf(eq)))
					if err != nil {
						return nil, err
					}
					if hit {
						return x.Vals[j], nil
					}
				}
			}
			return m.zero(fr.substT(info.TypeOf(e))), nil
		case *Sym:
			return &Unknown{Why: "byte of a symbolic string"}, nil
		}
		return nil, undecided(e.Pos(), "index into %s", Show(x))
	case *ast.SliceExpr:
		x, err := m.eval(fr, e.X)
		if err != nil {
			return nil, err
		}
		bound := func(b ast.Expr, def int64) (int64, bool, error) {
			if b == nil {
				return def, true, nil
			}
			v, err := m.eval(fr, b)
			if err != nil {
				return 0, false, err
			}
			n, ok := v.(int64)
			return n, ok, nil
		}
		switch x := x.(type) {
		case *Sym:
			// bounds that are positions found in this very string (strings.Index and the like)
			if _, conc := x.Concrete(); !conc && e.Slice3 == false {
				var lov, hiv Value = int64(0), nil
				var err error
				if e.Low != nil {
					if lov, err = m.eval(fr, e.Low); err != nil {
						return nil, err
					}
				}
				if e.High != nil {
					if hiv, err = m.eval(fr, e.High); err != nil {
						return nil, err
					}
				}
				_, loCut := lov.(*Unknown)
				_, hiCut := hiv.(*Unknown)
				if loCut || hiCut {
					p1, o1, ok1 := x.CutPos(lov)
					p2, o2, ok2 := 0, 0, true
					if hiv != nil {
						p2, o2, ok2 = x.CutPos(hiv)
					}
					if ok1 && ok2 {
						if out, ok := x.Between(p1, o1, p2, o2, hiv == nil); ok {
							return out, nil
						}
					}
				}
			}
			lo, ok, err := bound(e.Low, 0)
			if err != nil {
				return nil, err
			}
			if !ok || e.High != nil {
				if c, isC := x.Concrete(); isC && ok {
					hi, ok2, err := bound(e.High, int64(len(c)))
					if err != nil {
						return nil, err
					}
					if ok2 && lo >= 0 && lo <= hi && int(hi) <= len(c) {
						return Lit(c[lo:hi]), nil
					}
				}
				hiS := ""
				if e.High != nil {
					if hv, _, _ := bound(e.High, 0); true {
						hiS = fmt.Sprint(hv)
					}
				}
				return &Unknown{Why: fmt.Sprintf("slice(%q,%d,%s)", x.Flat(), lo, hiS)}, nil
			}
			if s, ok := x.SliceFrom(int(lo)); ok {
				return s, nil
			}
			return &Unknown{Why: fmt.Sprintf("slice(%q,%d,)", x.Flat(), lo)}, nil
		case *List:
			lo, ok1, err := bound(e.Low, 0)
			if err != nil {
				return nil, err
			}
			hi, ok2, err := bound(e.High, int64(len(x.Elems)))
			if err != nil {
				return nil, err
			}
			if !ok1 || !ok2 || lo < 0 || hi < lo || int(hi) > len(x.Elems) {
				return nil, undecided(e.Pos(), "slice bounds unknown or out of range")
			}
			if m.Indexed != nil {
				m.Indexed[e.Pos()] = true
			}
			return &List{Elems: x.Elems[lo:hi]}, nil
		case *Unknown:
			return x, nil
		}
		return nil, undecided(e.Pos(), "slice of %s", Show(x))
	case *ast.CompositeLit:
		return m.composite(fr, e)
	case *ast.CallExpr:
		return m.call(fr, e)
	case *ast.TypeAssertExpr:
		vals, err := m.typeAssert(fr, e)
		if err != nil {
			return nil, err
		}
		if ok, isB := vals[1].(bool); isB && ok {
			return vals[0], nil
		}
		if _, isU := vals[1].(*Unknown); isU {
			return nil, undecided(e.Pos(), "unchecked type assertion whose outcome depends on the input")
		}
		m.Notes = append(m.Notes, Note{Rule: "H-PANIC", Key: "type-assertion@" + m.Prog.Pos(e.Pos()), Pos: e.Pos(), Msg: "unchecked type assertion fails in the abstract environment"})
		return nil, undecided(e.Pos(), "unchecked type assertion fails")
	}
	return nil, undecided(e.Pos(), "expression %T is outside the analysed vocabulary", e)
}

// runInits executes the init functions of a moq package (once), in source order.
func (m *Machine) runInits(pkgPath string) error {
	if m.initDone == nil {
		m.initDone = map[string]bool{}
	}
	if m.initDone[pkgPath] {
		return nil
	}
	m.initDone[pkgPath] = true
	pk := m.Prog.ByPath[pkgPath]
	if pk == nil {
		return nil
	}
	for _, f := range pk.Syntax {
		for _, d := range f.Decls {
			fd, ok := d.(*ast.FuncDecl)
			if !ok || fd.Recv != nil || fd.Name.Name != "init" || fd.Body == nil {
				continue
			}
			was := m.inInit
			m.inInit = true
			_, err := m.callBody(fd.Pos(), pk.TypesInfo, nil, nil, nil, fd.Type, fd.Body, nil)
			m.inInit = was
			if err != nil {
				return err
			}
		}
	}
	return nil
}

func (m *Machine) global(o *types.Var) (Value, error) {
	if o.Pkg() != nil && m.Prog.IsMoqPkg(o.Pkg()) && !m.inInit {
		if err := m.runInits(o.Pkg().Path()); err != nil {
			return nil, err
		}
	}
	if v, ok := m.globals[o]; ok {
		return v, nil
	}
	if v, ok := m.ExtVars[o.Pkg().Path()+"."+o.Name()]; ok {
		return v, nil
	}
	pk := m.Prog.ByPath[o.Pkg().Path()]
	if pk == nil || !m.Prog.IsMoqPkg(o.Pkg()) {
		return nil, undecided(o.Pos(), "package-level variable %s.%s outside moq", o.Pkg().Path(), o.Name())
	}
	for _, f := range pk.Syntax {
		for _, d := range f.Decls {
			gd, ok := d.(*ast.GenDecl)
			if !ok || gd.Tok != token.VAR {
				continue
			}
			for _, sp := range gd.Specs {
				vs := sp.(*ast.ValueSpec)
				for i, n := range vs.Names {
					if pk.TypesInfo.Defs[n] == o {
						if len(vs.Values) == 0 {
							// declared without a value: the zero value (an init function may have filled it)
							if v, ok := m.globals[o]; ok {
								return v, nil
							}
							v := m.zero(o.Type())
							m.globals[o] = v
							return v, nil
						}
						if len(vs.Values) != len(vs.Names) {
							return nil, undecided(n.Pos(), "package-level variable %s has no single initialiser", n.Name)
						}
						fr := &frame{vars: map[types.Object]*Value{}, info: pk.TypesInfo}
						v, err := m.eval(fr, vs.Values[i])
						if err != nil {
							return nil, err
						}
						m.globals[o] = v
						return v, nil
					}
				}
			}
		}
	}
	return nil, undecided(o.Pos(), "package-level variable %s not found", o.Name())
}

// selectPath follows a types.Selection (field or method, through embedded fields).
func (m *Machine) selectPath(pos token.Pos, x Value, sel *types.Selection) (Value, error) {
	idx := sel.Index()
	cur := x
	for i, fi := range idx {
		last := i == len(idx)-1
		if last && sel.Kind() != types.FieldVal {
			fn := sel.Obj().(*types.Func)
			return &FuncV{Fn: fn, Recv: cur}, nil
		}
		var st *Struct
		switch c := cur.(type) {
		case *Ptr:
			st = c.Elem
		case *Struct:
			st = c
		case NilV:
			m.Notes = append(m.Notes, Note{Rule: "H-PANIC", Key: "nil-deref@" + m.Prog.Pos(pos), Pos: pos, Msg: "field access through a nil pointer while expanding a template helper"})
			return nil, undecided(pos, "nil dereference")
		case *Unknown:
			return c, nil
		case *Opaque:
			if sel.Kind() != types.FieldVal {
				return &FuncV{Fn: sel.Obj().(*types.Func), Recv: c}, nil
			}
			if v, ok := c.Attrs[sel.Obj().Name()]; ok && last {
				return v, nil
			}
			return nil, undecided(pos, "field of opaque %s", Show(cur))
		default:
			return nil, undecided(pos, "field selection on %s", Show(cur))
		}
		stt, ok := st.Type.Underlying().(*types.Struct)
		if !ok || fi >= stt.NumFields() {
			return nil, undecided(pos, "field index out of range on %s", Show(cur))
		}
		name := stt.Field(fi).Name()
		v, ok := st.Fields[name]
		if !ok {
			return nil, undecided(pos, "field %s is not populated in the abstract environment", name)
		}
		cur = v
	}
	return cur, nil
}

// Field reads a named field or niladic method like text/template does.
func (m *Machine) equal(pos token.Pos, a, b Value) Value {
	switch a := a.(type) {
	case *Sym:
		if b, ok := b.(*Sym); ok {
			eq, known := a.Equal(b)
			if !known && m.Distinct != nil {
				if t, ok := a.SingleTok(); ok {
					if c, ok := b.Concrete(); ok && m.Distinct(t, c) {
						return false
					}
				}
				if t, ok := b.SingleTok(); ok {
					if c, ok := a.Concrete(); ok && m.Distinct(t, c) {
						return false
					}
				}
			}
			if !known {
				return &Unknown{Why: fmt.Sprintf("(%q == %q)", a.Flat(), b.Flat())}
			}
			return eq
		}
	case int64:
		if b, ok := b.(int64); ok {
			return a == b
		}
	case bool:
		if b, ok := b.(bool); ok {
			return a == b
		}
	case NilV:
		switch b.(type) {
		case NilV:
			return true
		case *Ptr, *List, *Opaque, *Closure, *FuncV, *MapV, *Ref, *Struct:
			return false
		}
	case *Struct:
		// a struct value held in an interface (an error value of a struct type) is not nil
		if _, ok := b.(NilV); ok {
			return false
		}
	case *Ref:
		switch b := b.(type) {
		case NilV:
			return false // the address of a variable or field
		case *Ref:
			if a == b {
				return true
			}
		}
	case *Ptr:
		switch b := b.(type) {
		case NilV:
			return false
		case *Ptr:
			return a.Elem == b.Elem
		}
	case *List:
		if _, ok := b.(NilV); ok {
			return false // lists built by the environment are non-nil; len is what matters
		}
	case *Opaque:
		switch b := b.(type) {
		case NilV:
			return false
		case *Opaque:
			return a == b
		}
	case *Closure, *FuncV, *MapV:
		if _, ok := b.(NilV); ok {
			return false
		}
	case *Unknown:
		if n, ok := b.(int64); ok && a.HasLower && n < a.Lower {
			return false
		}
		// a condition compared with a constant truth value is that condition (a tagless switch
		// compares every case with true)
		if t, ok := b.(bool); ok {
			if t {
				return a
			}
			return &Unknown{Why: "!(" + a.Why + ")"}
		}
		return &Unknown{Why: "(" + a.Why + " == " + TermOf(b) + ")"}
	}
	if u, ok := b.(*Unknown); ok {
		// the unknown side is written first whatever the operand order
		return m.equal(pos, u, a)
	}
	return &Unknown{Why: fmt.Sprintf("comparison of %s and %s", Show(a), Show(b))}
}

func (m *Machine) binop(pos token.Pos, op token.Token, l, r Value) (Value, error) {
	switch op {
	case token.EQL:
		return m.equal(pos, l, r), nil
	case token.NEQ:
		v := m.equal(pos, l, r)
		if b, ok := v.(bool); ok {
			return !b, nil
		}
		if u, ok := v.(*Unknown); ok {
			return &Unknown{Why: "!(" + u.Why + ")"}, nil
		}
		return v, nil
	}
	if v, ok := boundedCompare(op, l, r); ok {
		return v, nil
	}
	// a position in a symbolic string moved by a constant stays a position while it stays inside the literal piece
	if op == token.ADD || op == token.SUB {
		u, uok := l.(*Unknown)
		n, nok := r.(int64)
		if (!uok || !nok) && op == token.ADD {
			u, uok = r.(*Unknown)
			n, nok = l.(int64)
		}
		if uok && nok && u.Cut != nil && u.Cut.Part < len(u.Cut.S.Parts) {
			if op == token.SUB {
				n = -n
			}
			off := u.Cut.Off + int(n)
			if off >= 0 && off <= len(u.Cut.S.Parts[u.Cut.Part].Lit) {
				return &Unknown{Why: "(" + u.Why + " " + op.String() + " " + TermOf(r) + ")", Lower: u.Lower + n, HasLower: u.HasLower,
					Cut: &Cut{S: u.Cut.S, Part: u.Cut.Part, Off: off}}, nil
			}
		}
	}
	_, lun := l.(*Unknown)
	_, run := r.(*Unknown)
	if lun || run {
		return &Unknown{Why: "(" + TermOf(l) + " " + op.String() + " " + TermOf(r) + ")"}, nil
	}
	switch l := l.(type) {
	case *Sym:
		rs, ok := r.(*Sym)
		if !ok {
			break
		}
		switch op {
		case token.ADD:
			return Concat(l, rs), nil
		case token.LSS, token.GTR, token.LEQ, token.GEQ:
			a, aok := l.Concrete()
			b, bok := rs.Concrete()
			if !aok || !bok {
				return &Unknown{Why: "ordering of symbolic strings"}, nil
			}
			switch op {
			case token.LSS:
				return a < b, nil
			case token.GTR:
				return a > b, nil
			case token.LEQ:
				return a <= b, nil
			default:
				return a >= b, nil
			}
		}
	case int64:
		rn, ok := r.(int64)
		if !ok {
			break
		}
		switch op {
		case token.ADD:
			return l + rn, nil
		case token.SUB:
			return l - rn, nil
		case token.MUL:
			return l * rn, nil
		case token.QUO:
			if rn == 0 {
				return nil, undecided(pos, "division by zero")
			}
			return l / rn, nil
		case token.REM:
			if rn == 0 {
				return nil, undecided(pos, "division by zero")
			}
			return l % rn, nil
		case token.LSS:
			return l < rn, nil
		case token.GTR:
			return l > rn, nil
		case token.LEQ:
			return l <= rn, nil
		case token.GEQ:
			return l >= rn, nil
		case token.AND:
			return l & rn, nil
		case token.OR:
			return l | rn, nil
		case token.XOR:
			return l ^ rn, nil
		case token.AND_NOT:
			return l &^ rn, nil
		case token.SHL:
			if rn >= 0 && rn < 63 {
				return l << uint(rn), nil
			}
		case token.SHR:
			if rn >= 0 && rn < 64 {
				return l >> uint(rn), nil
			}
		}
	}
	return nil, undecided(pos, "operator %s on %s and %s", op, Show(l), Show(r))
}

// boundedCompare decides an ordering between an unknown integer with a known
// lower bound and a constant below that bound.
func boundedCompare(op token.Token, l, r Value) (Value, bool) {
	flip := map[token.Token]token.Token{token.LSS: token.GTR, token.GTR: token.LSS, token.LEQ: token.GEQ, token.GEQ: token.LEQ}
	u, ok := l.(*Unknown)
	n, nok := r.(int64)
	if !ok || !nok {
		u, ok = r.(*Unknown)
		n, nok = l.(int64)
		if !ok || !nok {
			return nil, false
		}
		f, has := flip[op]
		if !has {
			return nil, false
		}
		op = f
	}
	if !u.HasLower {
		return nil, false
	}
	// u >= Lower
	switch op {
	case token.GTR: // u > n
		if n < u.Lower {
			return true, true
		}
	case token.GEQ:
		if n <= u.Lower {
			return true, true
		}
	case token.LSS: // u < n
		if n <= u.Lower {
			return false, true
		}
	case token.LEQ:
		if n < u.Lower {
			return false, true
		}
	}
	return nil, false
}

func (m *Machine) composite(fr *frame, e *ast.CompositeLit) (Value, error) {
	info := fr.info
	t := info.TypeOf(e)
	switch u := t.Underlying().(type) {
	case *types.Struct:
		z := m.zero(t)
		if o, ok := z.(*Opaque); ok {
			// literal of a struct type from outside moq (options structs ...): opaque, fields recorded
			o.Attrs = map[string]Value{}
			for _, el := range e.Elts {
				if kv, ok := el.(*ast.KeyValueExpr); ok {
					v, err := m.eval(fr, kv.Value)
					if err != nil {
						return nil, err
					}
					if id, ok := kv.Key.(*ast.Ident); ok {
						o.Attrs[id.Name] = v
					}
				}
			}
			return o, nil
		}
		s := z.(*Struct)
		for i, el := range e.Elts {
			if kv, ok := el.(*ast.KeyValueExpr); ok {
				v, err := m.eval(fr, kv.Value)
				if err != nil {
					return nil, err
				}
				s.Fields[kv.Key.(*ast.Ident).Name] = copyVal(v)
			} else {
				v, err := m.eval(fr, el)
				if err != nil {
					return nil, err
				}
				s.Fields[u.Field(i).Name()] = copyVal(v)
			}
		}
		return s, nil
	case *types.Slice, *types.Array:
		l := &List{}
		var elemT types.Type
		switch ut := u.(type) {
		case *types.Slice:
			elemT = ut.Elem()
		case *types.Array:
			elemT = ut.Elem()
		}
		next := 0
		for _, el := range e.Elts {
			val := el
			if kv, ok := el.(*ast.KeyValueExpr); ok {
				// a keyed element: the key is a constant index, later elements go on from there
				k, isC := constValue(info.Types[kv.Key])
				ki, isI := k.(int64)
				if !isC || !isI || ki < 0 || ki > 1<<16 {
					return nil, undecided(e.Pos(), "keyed slice literal with a key that is not a small constant")
				}
				next, val = int(ki), kv.Value
			}
			v, err := m.eval(fr, val)
			if err != nil {
				return nil, err
			}
			for len(l.Elems) <= next {
				l.Elems = append(l.Elems, m.zero(elemT))
			}
			l.Elems[next] = copyVal(v)
			next++
		}
		if at, ok := u.(*types.Array); ok {
			for int64(len(l.Elems)) < at.Len() {
				l.Elems = append(l.Elems, m.zero(elemT))
			}
		}
		return l, nil
	case *types.Map:
		mv := &MapV{}
		for _, el := range e.Elts {
			kv := el.(*ast.KeyValueExpr)
			k, err := m.eval(fr, kv.Key)
			if err != nil {
				return nil, err
			}
			v, err := m.eval(fr, kv.Value)
			if err != nil {
				return nil, err
			}
			mv.Keys = append(mv.Keys, k)
			mv.Vals = append(mv.Vals, v)
		}
		return mv, nil
	}
	return nil, undecided(e.Pos(), "composite literal of type %s", t)
}

func (m *Machine) call(fr *frame, e *ast.CallExpr) (Value, error) {
	info := fr.info
	// conversion
	if tv, ok := info.Types[e.Fun]; ok && tv.IsType() {
		if len(e.Args) != 1 {
			return nil, undecided(e.Pos(), "conversion arity")
		}
		v, err := m.eval(fr, e.Args[0])
		if err != nil {
			return nil, err
		}
		if b, ok := tv.Type.Underlying().(*types.Basic); ok && b.Info()&types.IsString != 0 {
			if _, ok := v.(*Sym); ok {
				return v, nil
			}
			return &Unknown{Why: "conversion to string"}, nil
		}
		if _, ok := v.(int64); ok {
			if b, ok := tv.Type.Underlying().(*types.Basic); ok && b.Info()&types.IsInteger != 0 {
				return v, nil
			}
		}
		// a conversion between types with identical underlying types (named slice, map,
		// struct or func types) does not change the abstract value
		if src := info.TypeOf(e.Args[0]); src != nil {
			if types.Identical(src.Underlying(), tv.Type.Underlying()) {
				switch tv.Type.Underlying().(type) {
				case *types.Slice, *types.Map, *types.Signature, *types.Array:
					return v, nil
				case *types.Struct:
					if st, ok := v.(*Struct); ok {
						c := st.Copy()
						c.Type = tv.Type
						return c, nil
					}
				}
			}
		}
		return nil, undecided(e.Pos(), "conversion to %s", tv.Type)
	}
	// builtin
	if id, ok := ast.Unparen(e.Fun).(*ast.Ident); ok {
		if b, ok := info.ObjectOf(id).(*types.Builtin); ok {
			return m.builtin(fr, e, b.Name())
		}
	}
	fn, err := m.eval(fr, e.Fun)
	if err != nil {
		return nil, err
	}
	var args []Value
	for _, a := range e.Args {
		v, err := m.eval(fr, a)
		if err != nil {
			return nil, err
		}
		if t, ok := v.(Tuple); ok && len(e.Args) == 1 {
			args = append(args, t...)
		} else {
			args = append(args, v)
		}
	}
	if e.Ellipsis.IsValid() && len(args) > 0 {
		// f(xs...) — pass the elements; a variadic callee packs them again
		switch l := args[len(args)-1].(type) {
		case *List:
			args = append(args[:len(args)-1:len(args)-1], l.Elems...)
		case NilV:
			args = args[:len(args)-1]
		default:
			return nil, undecided(e.Pos(), "spread of %s", Show(l))
		}
	}
	// the type arguments of a generic callee (explicit or inferred), resolved in the caller's bindings
	var fid *ast.Ident
	switch f := ast.Unparen(e.Fun).(type) {
	case *ast.Ident:
		fid = f
	case *ast.SelectorExpr:
		fid = f.Sel
	case *ast.IndexExpr:
		switch g := ast.Unparen(f.X).(type) {
		case *ast.Ident:
			fid = g
		case *ast.SelectorExpr:
			fid = g.Sel
		}
	case *ast.IndexListExpr:
		switch g := ast.Unparen(f.X).(type) {
		case *ast.Ident:
			fid = g
		case *ast.SelectorExpr:
			fid = g.Sel
		}
	}
	m.pendingTArgs, m.pendingRecvTArgs = nil, nil
	if fid != nil {
		if inst, ok := info.Instances[fid]; ok && inst.TypeArgs != nil {
			for i := 0; i < inst.TypeArgs.Len(); i++ {
				m.pendingTArgs = append(m.pendingTArgs, fr.substT(inst.TypeArgs.At(i)))
			}
		}
	}
	// a method of a generic type: the type arguments of the receiver's static type
	if sel, ok := ast.Unparen(e.Fun).(*ast.SelectorExpr); ok {
		if si, ok := info.Selections[sel]; ok && si.Kind() == types.MethodVal {
			rt := info.TypeOf(sel.X)
			if p, ok := rt.Underlying().(*types.Pointer); ok {
				rt = p.Elem()
			}
			if n, ok := types.Unalias(rt).(*types.Named); ok && n.TypeArgs() != nil {
				for i := 0; i < n.TypeArgs().Len(); i++ {
					m.pendingRecvTArgs = append(m.pendingRecvTArgs, fr.substT(n.TypeArgs().At(i)))
				}
			}
		}
	}
	return m.Call(e.Pos(), fn, args)
}

func (m *Machine) builtin(fr *frame, e *ast.CallExpr, name string) (Value, error) {
	info := fr.info
	var args []Value
	for i, a := range e.Args {
		if (name == "make" || name == "new") && i == 0 {
			args = append(args, nil)
			continue
		}
		v, err := m.eval(fr, a)
		if err != nil {
			return nil, err
		}
		args = append(args, v)
	}
	switch name {
	case "len":
		switch x := args[0].(type) {
		case *List:
			return int64(len(x.Elems)), nil
		case NilV:
			return int64(0), nil
		case *MapV:
			return int64(len(x.Keys)), nil
		case *Sym:
			if c, ok := x.Concrete(); ok {
				return int64(len(c)), nil
			}
			// every token stands for at least one byte
			lower := int64(0)
			for _, p := range x.Parts {
				if p.Tok != "" {
					lower++
				} else {
					lower += int64(len(p.Lit))
				}
			}
			return &Unknown{Why: "len(" + x.Flat() + ")", Lower: lower, HasLower: true}, nil
		case *Unknown:
			return x, nil
		}
	case "new":
		// a pointer to a fresh zero value: a struct pointer, or a cell for plain values
		z := m.zero(info.TypeOf(e.Args[0]))
		switch s := z.(type) {
		case *Struct:
			return &Ptr{Elem: s}, nil
		case *Opaque:
			return s, nil
		}
		cell := z
		m.seq++
		return &Ref{ID: fmt.Sprintf("new%d", m.seq), Get: func() Value { return cell }, Set: func(v Value) { cell = v }}, nil
	case "make":
		t := info.TypeOf(e.Args[0])
		switch u := t.Underlying().(type) {
		case *types.Slice:
			n := int64(0)
			if len(args) > 1 {
				var ok bool
				if n, ok = args[1].(int64); !ok {
					return nil, undecided(e.Pos(), "make with unknown length")
				}
			}
			l := &List{}
			for i := int64(0); i < n; i++ {
				l.Elems = append(l.Elems, m.zero(u.Elem()))
			}
			l.Cap = int(n)
			if len(args) > 2 {
				if c, ok := args[2].(int64); ok && c >= n {
					l.Cap = int(c)
				}
			}
			return l, nil
		case *types.Map:
			return &MapV{}, nil
		}
	case "append":
		var base []Value
		added := len(args) - 1
		if e.Ellipsis.IsValid() {
			added = 0
			if l, ok := args[1].(*List); ok {
				added = len(l.Elems)
			}
		}
		newCap := 0
		switch x := args[0].(type) {
		case *List:
			if added == 0 || x.Cap >= len(x.Elems)+added {
				// within the capacity: the elements stay where they are
				base = append(base, x.Elems...)
				newCap = x.Cap
			} else {
				// a new array: struct values are copied over (the old ones go dead)
				for _, el := range x.Elems {
					base = append(base, copyVal(el))
				}
			}
		case NilV:
		default:
			return nil, undecided(e.Pos(), "append to %s", Show(args[0]))
		}
		if e.Ellipsis.IsValid() {
			if l, ok := args[1].(*List); ok {
				base = append(base, l.Elems...)
			} else if _, ok := args[1].(NilV); !ok {
				return nil, undecided(e.Pos(), "append spread of %s", Show(args[1]))
			}
		} else {
			for _, a := range args[1:] {
				base = append(base, copyVal(a))
			}
		}
		return &List{Elems: base, Cap: newCap}, nil
	case "delete":
		if mv, ok := args[0].(*MapV); ok && len(args) == 2 {
			for i, k := range mv.Keys {
				eq := m.equal(e.Pos(), k, args[1])
				b, known := eq.(bool)
				if !known {
					return nil, undecided(e.Pos(), "delete with a key whose equality to a stored key is not determined")
				}
				if b {
					mv.Keys = append(mv.Keys[:i:i], mv.Keys[i+1:]...)
					mv.Vals = append(mv.Vals[:i:i], mv.Vals[i+1:]...)
					break
				}
			}
			return NilV{}, nil
		}
		if _, isNil := args[0].(NilV); isNil {
			return NilV{}, nil
		}
	case "clear":
		switch x := args[0].(type) {
		case *MapV:
			x.Keys, x.Vals = nil, nil
			return NilV{}, nil
		case NilV:
			return NilV{}, nil
		}
	case "panic":
		m.Notes = append(m.Notes, Note{Rule: "H-PANIC", Key: "panic@" + m.Prog.Pos(e.Pos()), Pos: e.Pos(), Msg: "explicit panic reached while expanding a template helper"})
		return nil, undecided(e.Pos(), "panic reached")
	case "recover":
		// a path that panics is not interpreted to its end (it is undecided): on the others nothing is recovered
		return NilV{}, nil
	case "min", "max":
		if len(args) == 2 {
			a, ok1 := args[0].(int64)
			b, ok2 := args[1].(int64)
			if ok1 && ok2 {
				if (name == "min") == (a < b) {
					return a, nil
				}
				return b, nil
			}
		}
	}
	return nil, undecided(e.Pos(), "builtin %s outside the analysed vocabulary", name)
}

// TruthOf resolves a possibly unknown boolean through the exploration.
func (m *Machine) TruthOf(v Value, key string) (bool, error) { return m.truth(token.NoPos, v, key) }

// OpaqueMethodKey is the Ext key of a method of an opaque value kind.
func OpaqueMethodKey(kind, method string) string {
	switch kind {
	case "types.Type":
		return "(go/types.Type)." + method
	case "types.Package":
		return "(*go/types.Package)." + method
	case "types.Var":
		return "(*go/types.Var)." + method
	}
	return "(" + kind + ")." + method
}

// typeAssert evaluates x.(T) to (value, ok). Only opaque values with a known
// dynamic Go type are in the vocabulary.
func (m *Machine) typeAssert(fr *frame, e *ast.TypeAssertExpr) ([]Value, error) {
	x, err := m.eval(fr, e.X)
	if err != nil {
		return nil, err
	}
	if e.Type == nil {
		return nil, undecided(e.Pos(), "type switch guard")
	}
	wantT := fr.substT(fr.info.TypeOf(e.Type))
	want := types.TypeString(wantT, nil)
	switch x := x.(type) {
	case *Opaque:
		if x.GoType == "" {
			return []Value{x, &Unknown{Why: "dynamic type of " + Show(x)}}, nil
		}
		if x.GoType == want {
			return []Value{x, true}, nil
		}
		if _, unbound := types.Unalias(wantT).(*types.TypeParam); unbound {
			return nil, undecided(e.Pos(), "assertion to a type parameter whose type argument is not known here")
		}
		if it, isIface := wantT.Underlying().(*types.Interface); isIface {
			if dt := m.goTypeOf(x.GoType); dt != nil {
				if types.Implements(dt, it) {
					return []Value{x, true}, nil
				}
				return []Value{NilV{}, false}, nil
			}
			return []Value{x, &Unknown{Why: "interface assertion on " + Show(x)}}, nil
		}
		return []Value{NilV{}, false}, nil
	case NilV:
		return []Value{NilV{}, false}, nil
	case *Unknown:
		return []Value{x, x}, nil
	}
	return nil, undecided(e.Pos(), "type assertion on %s", Show(x))
}

// NextSeq returns a fresh sequence number (deterministic within one run).
func (m *Machine) NextSeq() int { m.seq++; return m.seq }

// Zero returns the zero value of a type.
func (m *Machine) Zero(t types.Type) Value { return m.zero(t) }

// Memo returns the unknown conditions decided on the current run: key "pos:why" -> outcome.
func (c *Choices) Memo() map[string]bool { return c.memo }

// goTypeOf resolves the spelling of a dynamic type ("*go/types.Slice") to the type itself.
func (m *Machine) goTypeOf(dyn string) types.Type {
	ptr := strings.HasPrefix(dyn, "*")
	name := strings.TrimPrefix(dyn, "*")
	i := strings.LastIndexByte(name, '.')
	if i < 0 {
		return nil
	}
	pk := m.Prog.ByPath[name[:i]]
	if pk == nil || pk.Types == nil {
		return nil
	}
	tn, _ := pk.Types.Scope().Lookup(name[i+1:]).(*types.TypeName)
	if tn == nil {
		return nil
	}
	if ptr {
		return types.NewPointer(tn.Type())
	}
	return tn.Type()
}

// typesIterators: go/types iterator method -> the length and element accessors it is defined by.
var typesIterators = map[string][2]string{
	"Types": {"Len", "At"}, "Variables": {"Len", "At"}, "TypeParams": {"Len", "At"}, "Terms": {"Len", "Term"},
	"Fields": {"NumFields", "Field"}, "Methods": {"NumMethods", "Method"},
	"ExplicitMethods": {"NumExplicitMethods", "ExplicitMethod"}, "EmbeddedTypes": {"NumEmbeddeds", "EmbeddedType"},
}

// opaqueCall calls a modelled method of an opaque value by name.
func (m *Machine) opaqueCall(pos token.Pos, o *Opaque, name string, args []Value) (Value, error) {
	if f, ok := o.Methods[name]; ok {
		return f(m, pos, args)
	}
	if ext, ok := m.Ext[OpaqueMethodKey(o.Kind, name)]; ok {
		return ext(m, pos, o, args)
	}
	if ext, ok := m.Ext["("+o.GoType+")."+name]; ok && o.GoType != "" {
		return ext(m, pos, o, args)
	}
	return nil, undecided(pos, "method %s of a %s value has no model", name, o.Kind)
}

// embeddedRecv walks the embedded fields a promoted method is reached through.
func (m *Machine) embeddedRecv(pos token.Pos, x Value, sel *types.Selection) (Value, error) {
	cur := x
	idx := sel.Index()
	for _, fi := range idx[:len(idx)-1] {
		var st *Struct
		switch c := cur.(type) {
		case *Ptr:
			st = c.Elem
		case *Struct:
			st = c
		default:
			return nil, undecided(pos, "embedded receiver of %s in %s", sel.Obj().Name(), Show(cur))
		}
		stt, ok := st.Type.Underlying().(*types.Struct)
		if !ok || fi >= stt.NumFields() {
			return nil, undecided(pos, "embedded field index out of range on %s", Show(cur))
		}
		v, ok := st.Fields[stt.Field(fi).Name()]
		if !ok {
			return nil, undecided(pos, "embedded field %s is not populated in the abstract environment", stt.Field(fi).Name())
		}
		cur = v
	}
	return cur, nil
}

// dynamicMethod finds the method a struct value (or a pointer to one) has under the given name.
func (m *Machine) dynamicMethod(recv Value, name string) *types.Func {
	var t types.Type
	switch r := recv.(type) {
	case *Ptr:
		if r.Elem != nil && r.Elem.Type != nil {
			t = types.NewPointer(r.Elem.Type)
		}
	case *Struct:
		t = r.Type
	}
	if t == nil {
		return nil
	}
	obj, _, _ := types.LookupFieldOrMethod(t, true, nil, name)
	if f, ok := obj.(*types.Func); ok {
		return f
	}
	// unexported methods are found only with their package
	if n, ok := types.Unalias(derefType(t)).(*types.Named); ok && n.Obj().Pkg() != nil {
		obj, _, _ = types.LookupFieldOrMethod(t, true, n.Obj().Pkg(), name)
		if f, ok := obj.(*types.Func); ok {
			return f
		}
	}
	return nil
}

func derefType(t types.Type) types.Type {
	if p, ok := t.(*types.Pointer); ok {
		return p.Elem()
	}
	return t
}

// CallMethod calls the method a struct value (or a pointer to one) has under the given name, following
// promotion through embedded fields the way a selector expression does.
func (m *Machine) CallMethod(pos token.Pos, recv Value, name string, args []Value) (Value, error) {
	var st *Struct
	switch r := recv.(type) {
	case *Ptr:
		st = r.Elem
	case *Struct:
		st = r
	}
	if st == nil || st.Type == nil {
		return nil, undecided(pos, "method %s of %s", name, Show(recv))
	}
	var pkg *types.Package
	if n, ok := types.Unalias(st.Type).(*types.Named); ok {
		pkg = n.Obj().Pkg()
	}
	obj, index, _ := types.LookupFieldOrMethod(types.NewPointer(st.Type), true, pkg, name)
	fn, ok := obj.(*types.Func)
	if !ok {
		return nil, undecided(pos, "%s has no method %s", Show(recv), name)
	}
	cur := st
	for _, fi := range index[:len(index)-1] {
		stt, ok := cur.Type.Underlying().(*types.Struct)
		if !ok || fi >= stt.NumFields() {
			return nil, undecided(pos, "embedded path of method %s", name)
		}
		switch inner := cur.Fields[stt.Field(fi).Name()].(type) {
		case *Struct:
			cur = inner
		case *Ptr:
			cur = inner.Elem
		default:
			return nil, undecided(pos, "embedded receiver of method %s is %s", name, Show(inner))
		}
	}
	return m.CallFunc(pos, fn, &Ptr{Elem: cur}, args)
}

// substT replaces a type parameter by the type argument the enclosing generic call bound it to.
func (f *frame) substT(t types.Type) types.Type {
	tp, ok := types.Unalias(t).(*types.TypeParam)
	if !ok {
		return t
	}
	for fr := f; fr != nil; fr = fr.parent {
		if a, ok := fr.targs[tp]; ok {
			return a
		}
	}
	return t
}
