package interp

import (
	"fmt"
	"go/token"
	"path"
	"path/filepath"
	"sort"
	"strconv"
	"strings"
)

func concreteArgs(args []Value) ([]string, bool) {
	var out []string
	for _, a := range args {
		s, ok := a.(*Sym)
		if !ok {
			return nil, false
		}
		c, ok := s.Concrete()
		if !ok {
			return nil, false
		}
		out = append(out, c)
	}
	return out, true
}

func symArgs(args []Value) bool {
	for _, a := range args {
		if _, ok := a.(*Sym); !ok {
			return false
		}
	}
	return true
}

func unknownCall(name string, args []Value) Value {
	var ss []string
	for _, a := range args {
		ss = append(ss, TermOf(a))
	}
	return &Unknown{Why: name + "(" + strings.Join(ss, ",") + ")"}
}

// TermOf renders a value as a canonical term: unknown values keep the
// expression that produced them, so two unknowns can be compared by shape.
func TermOf(v Value) string {
	switch v := v.(type) {
	case *Unknown:
		return v.Why
	case *Sym:
		return fmt.Sprintf("%q", v.Flat())
	case int64:
		return fmt.Sprint(v)
	case bool:
		return fmt.Sprint(v)
	}
	return Show(v)
}

func strList(ss []string) *List {
	l := &List{}
	for _, s := range ss {
		l.Elems = append(l.Elems, Lit(s))
	}
	return l
}

func installStdlib(m *Machine) {
	pure1 := func(name string, f func(string) string) {
		m.Ext[name] = func(m *Machine, pos token.Pos, recv Value, args []Value) (Value, error) {
			if c, ok := concreteArgs(args); ok && len(c) == 1 {
				return Lit(f(c[0])), nil
			}
			return unknownCall(name, args), nil
		}
	}
	pure1("strings.ToUpper", strings.ToUpper)
	pure1("strings.ToLower", strings.ToLower)
	pure1("strings.TrimSpace", strings.TrimSpace)
	pure1("strings.Title", strings.Title)
	pure1("path.Base", path.Base)
	pure1("path/filepath.Base", filepath.Base)

	pure2 := func(name string, f func(a, b string) Value) {
		m.Ext[name] = func(m *Machine, pos token.Pos, recv Value, args []Value) (Value, error) {
			if c, ok := concreteArgs(args); ok && len(c) == 2 {
				return f(c[0], c[1]), nil
			}
			return unknownCall(name, args), nil
		}
	}
	pure2("strings.TrimLeft", func(a, b string) Value { return Lit(strings.TrimLeft(a, b)) })
	pure2("strings.TrimRight", func(a, b string) Value { return Lit(strings.TrimRight(a, b)) })
	pure2("strings.Trim", func(a, b string) Value { return Lit(strings.Trim(a, b)) })
	pure2("strings.TrimSuffix", func(a, b string) Value { return Lit(strings.TrimSuffix(a, b)) })
	pure2("strings.Split", func(a, b string) Value { return strList(strings.Split(a, b)) })
	pure2("strings.Contains", func(a, b string) Value { return strings.Contains(a, b) })
	pure2("strings.EqualFold", func(a, b string) Value { return strings.EqualFold(a, b) })
	pure2("strings.HasSuffix", func(a, b string) Value { return strings.HasSuffix(a, b) })

	m.Ext["strings.HasPrefix"] = func(m *Machine, pos token.Pos, recv Value, args []Value) (Value, error) {
		if c, ok := concreteArgs(args); ok && len(c) == 2 {
			return strings.HasPrefix(c[0], c[1]), nil
		}
		// a literal prefix of a symbolic string decides the question
		if len(args) == 2 {
			s, ok1 := args[0].(*Sym)
			p, ok2 := args[1].(*Sym)
			if ok1 && ok2 {
				if pc, ok := p.Concrete(); ok && len(s.Parts) > 0 && s.Parts[0].Tok == "" && len(s.Parts[0].Lit) >= len(pc) {
					return strings.HasPrefix(s.Parts[0].Lit, pc), nil
				}
			}
		}
		return unknownCall("strings.HasPrefix", args), nil
	}
	// TrimPrefix/CutPrefix of a symbolic string that starts with enough literal text to decide
	trimPrefix := func(args []Value) (*Sym, bool, bool) { // result, found, decided
		if len(args) != 2 {
			return nil, false, false
		}
		s, ok1 := args[0].(*Sym)
		p, ok2 := args[1].(*Sym)
		if !ok1 || !ok2 {
			return nil, false, false
		}
		pc, ok := p.Concrete()
		if !ok {
			return nil, false, false
		}
		if pc == "" {
			return s, true, true
		}
		if len(s.Parts) == 0 {
			return s, false, true
		}
		if s.Parts[0].Tok != "" || len(s.Parts[0].Lit) < len(pc) {
			// the string starts with a token, or with less literal text than the prefix: a literal start
			// that already disagrees decides it, otherwise unknown
			if s.Parts[0].Tok == "" && !strings.HasPrefix(pc, s.Parts[0].Lit) {
				return s, false, true
			}
			return nil, false, false
		}
		if !strings.HasPrefix(s.Parts[0].Lit, pc) {
			return s, false, true
		}
		rest, ok := s.SliceFrom(len(pc))
		if !ok {
			return nil, false, false
		}
		return rest, true, true
	}
	m.Ext["strings.TrimPrefix"] = func(m *Machine, pos token.Pos, recv Value, args []Value) (Value, error) {
		if c, ok := concreteArgs(args); ok && len(c) == 2 {
			return Lit(strings.TrimPrefix(c[0], c[1])), nil
		}
		if r, _, decided := trimPrefix(args); decided {
			return r, nil
		}
		return unknownCall("strings.TrimPrefix", args), nil
	}
	m.Ext["strings.CutPrefix"] = func(m *Machine, pos token.Pos, recv Value, args []Value) (Value, error) {
		if c, ok := concreteArgs(args); ok && len(c) == 2 {
			r, found := strings.CutPrefix(c[0], c[1])
			return Tuple{Lit(r), found}, nil
		}
		if r, found, decided := trimPrefix(args); decided {
			return Tuple{r, found}, nil
		}
		return Tuple{unknownCall("strings.CutPrefix", args), &Unknown{Why: "strings.CutPrefix found"}}, nil
	}
	// the text of an error value
	m.Ext["(error).Error"] = func(m *Machine, pos token.Pos, recv Value, args []Value) (Value, error) {
		switch e := recv.(type) {
		case *Unknown:
			return Tok("«text of " + e.Why + "»"), nil
		case *Opaque:
			return Tok("«text of " + e.ID + "»"), nil
		}
		return unknownCall("error.Error", []Value{recv}), nil
	}
	// strings.Index and relatives on a symbolic string: tokens stand for identifiers and type texts and never
	// contain the separator (the assumption SplitN makes too); the result is a position in that string
	indexModel := func(name string, last bool, byteArg bool) {
		m.Ext[name] = func(m *Machine, pos token.Pos, recv Value, args []Value) (Value, error) {
			if len(args) != 2 {
				return nil, undecided(pos, "%s arity", name)
			}
			s, ok := args[0].(*Sym)
			if !ok {
				return unknownCall(name, args), nil
			}
			sep := ""
			switch a := args[1].(type) {
			case *Sym:
				c, ok := a.Concrete()
				if !ok {
					return unknownCall(name, args), nil
				}
				sep = c
			case int64:
				sep = string(rune(a))
			default:
				return unknownCall(name, args), nil
			}
			if sep == "" {
				return unknownCall(name, args), nil
			}
			if c, ok := s.Concrete(); ok {
				if last {
					return int64(strings.LastIndex(c, sep)), nil
				}
				return int64(strings.Index(c, sep)), nil
			}
			found, fp, fo := false, 0, 0
			for pi, p := range s.Parts {
				if p.Tok != "" {
					continue
				}
				i := strings.Index(p.Lit, sep)
				if last {
					i = strings.LastIndex(p.Lit, sep)
				}
				if i >= 0 && (!found || last) {
					found, fp, fo = true, pi, i
				}
			}
			if !found {
				return int64(-1), nil
			}
			lower := int64(fo)
			for _, p := range s.Parts[:fp] {
				if p.Tok != "" {
					lower++
				} else {
					lower += int64(len(p.Lit))
				}
			}
			return &Unknown{Why: fmt.Sprintf("%s(%q,%q)", name, s.Flat(), sep), Lower: lower, HasLower: true, Cut: &Cut{S: s, Part: fp, Off: fo}}, nil
		}
	}
	indexModel("strings.Index", false, false)
	indexModel("strings.IndexByte", false, true)
	indexModel("strings.IndexRune", false, true)
	indexModel("strings.LastIndex", true, false)
	indexModel("strings.LastIndexByte", true, true)
	m.Ext["strings.SplitN"] = func(m *Machine, pos token.Pos, recv Value, args []Value) (Value, error) {
		// symbolic: tokens stand for identifiers and never contain the separator
		if len(args) == 3 {
			if s, ok := args[0].(*Sym); ok {
				if sepS, ok := args[1].(*Sym); ok {
					if sep, ok := sepS.Concrete(); ok && sep != "" {
						if n, ok := args[2].(int64); ok {
							if _, conc := s.Concrete(); !conc {
								return symSplitN(s, sep, int(n)), nil
							}
						}
					}
				}
			}
		}
		if len(args) == 3 {
			if c, ok := concreteArgs(args[:2]); ok {
				if n, ok := args[2].(int64); ok {
					return strList(strings.SplitN(c[0], c[1], int(n))), nil
				}
			}
		}
		return unknownCall("strings.SplitN", args), nil
	}
	m.Ext["strings.Cut"] = func(m *Machine, pos token.Pos, recv Value, args []Value) (Value, error) {
		if len(args) == 2 {
			if s, ok := args[0].(*Sym); ok {
				if sepS, ok := args[1].(*Sym); ok {
					if sep, ok := sepS.Concrete(); ok && sep != "" {
						parts := symSplitN(s, sep, 2)
						if len(parts.Elems) == 2 {
							return Tuple{parts.Elems[0], parts.Elems[1], true}, nil
						}
						return Tuple{s, Lit(""), false}, nil
					}
				}
			}
		}
		return unknownCall("strings.Cut", args), nil
	}
	m.Ext["strings.Join"] = func(m *Machine, pos token.Pos, recv Value, args []Value) (Value, error) {
		if len(args) != 2 {
			return nil, undecided(pos, "strings.Join arity")
		}
		sep, ok := args[1].(*Sym)
		if !ok {
			return unknownCall("strings.Join", args), nil
		}
		var elems []Value
		switch l := args[0].(type) {
		case *List:
			elems = l.Elems
		case NilV:
		default:
			return unknownCall("strings.Join", args), nil
		}
		out := &Sym{}
		for i, e := range elems {
			s, ok := e.(*Sym)
			if !ok {
				return unknownCall("strings.Join", args), nil
			}
			if i > 0 {
				out = Concat(out, sep)
			}
			out = Concat(out, s)
		}
		return out, nil
	}
	// pure string functions on constants: the library itself gives the answer
	concreteStrings := func(name string, arity int, f func(a []string, n []int64) (Value, bool)) {
		m.Ext[name] = func(m *Machine, pos token.Pos, recv Value, args []Value) (Value, error) {
			var ss []string
			var ns []int64
			for _, a := range args {
				switch x := a.(type) {
				case *Sym:
					c, ok := x.Concrete()
					if !ok {
						return unknownCall(name, args), nil
					}
					ss = append(ss, c)
				case int64:
					ns = append(ns, x)
				default:
					return unknownCall(name, args), nil
				}
			}
			if len(args) != arity {
				return unknownCall(name, args), nil
			}
			if v, ok := f(ss, ns); ok {
				return v, nil
			}
			return unknownCall(name, args), nil
		}
	}
	concreteStrings("strings.Replace", 4, func(a []string, n []int64) (Value, bool) {
		if len(a) != 3 || len(n) != 1 {
			return nil, false
		}
		return Lit(strings.Replace(a[0], a[1], a[2], int(n[0]))), true
	})
	concreteStrings("strings.ReplaceAll", 3, func(a []string, n []int64) (Value, bool) {
		if len(a) != 3 {
			return nil, false
		}
		return Lit(strings.ReplaceAll(a[0], a[1], a[2])), true
	})
	m.Ext["strings.Repeat"] = func(m *Machine, pos token.Pos, recv Value, args []Value) (Value, error) {
		if len(args) == 2 {
			if s, ok := args[0].(*Sym); ok {
				if n, ok := args[1].(int64); ok && n >= 0 && n < 64 {
					out := &Sym{}
					for i := int64(0); i < n; i++ {
						out = Concat(out, s)
					}
					return out, nil
				}
			}
		}
		return unknownCall("strings.Repeat", args), nil
	}
	joinPath := func(name string, f func(...string) string) {
		m.Ext[name] = func(m *Machine, pos token.Pos, recv Value, args []Value) (Value, error) {
			flat := args
			if len(args) == 1 {
				if l, ok := args[0].(*List); ok {
					flat = l.Elems
				}
			}
			if c, ok := concreteArgs(flat); ok {
				return Lit(f(c...)), nil
			}
			return unknownCall(name, args), nil
		}
	}
	joinPath("path.Join", path.Join)
	joinPath("path/filepath.Join", filepath.Join)
	m.Ext["strconv.Itoa"] = func(m *Machine, pos token.Pos, recv Value, args []Value) (Value, error) {
		if n, ok := args[0].(int64); ok {
			return Lit(strconv.Itoa(int(n))), nil
		}
		return unknownCall("strconv.Itoa", args), nil
	}
	m.Ext["strconv.Quote"] = func(m *Machine, pos token.Pos, recv Value, args []Value) (Value, error) {
		// tokens stand for identifiers and import paths: nothing in them needs escaping
		if sv, ok := args[0].(*Sym); ok {
			plain := true
			for _, p := range sv.Parts {
				for _, r := range p.Lit {
					if r < 0x20 || r > 0x7e || r == '"' || r == '\\' {
						plain = false
					}
				}
			}
			if plain {
				return Concat(Concat(Lit("\""), sv), Lit("\"")), nil
			}
		}
		return unknownCall("strconv.Quote", args), nil
	}
	m.Ext["fmt.Sprintf"] = func(m *Machine, pos token.Pos, recv Value, args []Value) (Value, error) {
		if len(args) == 0 {
			return nil, undecided(pos, "fmt.Sprintf without a format")
		}
		fs, ok := args[0].(*Sym)
		if !ok {
			return unknownCall("fmt.Sprintf", args), nil
		}
		format, ok := fs.Concrete()
		if !ok {
			return unknownCall("fmt.Sprintf", args), nil
		}
		rest := args[1:]
		out := &Sym{}
		ai := 0
		for i := 0; i < len(format); i++ {
			c := format[i]
			if c != '%' {
				out.push(Part{Lit: string(c)})
				continue
			}
			i++
			if i >= len(format) {
				return unknownCall("fmt.Sprintf", args), nil
			}
			// an explicit argument index: %[2]s
			if format[i] == '[' {
				j := strings.IndexByte(format[i:], ']')
				if j < 0 {
					return unknownCall("fmt.Sprintf", args), nil
				}
				n, err := strconv.Atoi(format[i+1 : i+j])
				if err != nil || n < 1 || n > len(rest) || i+j+1 >= len(format) {
					return unknownCall("fmt.Sprintf", args), nil
				}
				ai = n - 1
				i += j + 1
			}
			switch format[i] {
			case '%':
				out.push(Part{Lit: "%"})
			case 's', 'v', 'd':
				if ai >= len(rest) {
					return unknownCall("fmt.Sprintf", args), nil
				}
				switch a := rest[ai].(type) {
				case *Sym:
					if format[i] == 'd' {
						return unknownCall("fmt.Sprintf", args), nil
					}
					out = Concat(out, a)
				case int64:
					out.push(Part{Lit: fmt.Sprint(a)})
				case bool:
					if format[i] != 'v' {
						return unknownCall("fmt.Sprintf", args), nil
					}
					out.push(Part{Lit: fmt.Sprint(a)})
				default:
					return unknownCall("fmt.Sprintf", args), nil
				}
				ai++
			case 'q':
				if ai >= len(rest) {
					return unknownCall("fmt.Sprintf", args), nil
				}
				a, ok := rest[ai].(*Sym)
				if !ok {
					return unknownCall("fmt.Sprintf", args), nil
				}
				out.push(Part{Lit: `"`})
				out = Concat(out, a)
				out.push(Part{Lit: `"`})
				ai++
			default:
				return unknownCall("fmt.Sprintf", args), nil
			}
		}
		if ai != len(rest) {
			return unknownCall("fmt.Sprintf", args), nil
		}
		return out, nil
	}
	// strings.Builder / bytes.Buffer used as a string accumulator by a helper
	for _, kind := range []string{"strings.Builder", "bytes.Buffer"} {
		kind := kind
		buf := func(recv Value) (*Opaque, *Sym) {
			o, ok := recv.(*Opaque)
			if !ok {
				return nil, nil
			}
			if o.Attrs == nil {
				o.Attrs = map[string]Value{}
			}
			s, _ := o.Attrs["buf"].(*Sym)
			if s == nil {
				s = &Sym{}
			}
			return o, s
		}
		m.Ext["("+kind+").WriteString"] = func(m *Machine, pos token.Pos, recv Value, args []Value) (Value, error) {
			o, s := buf(recv)
			a, ok := args[0].(*Sym)
			if o == nil || !ok {
				return unknownCall(kind+".WriteString", args), nil
			}
			o.Attrs["buf"] = Concat(s, a)
			return Tuple{int64(0), NilV{}}, nil
		}
		m.Ext["("+kind+").WriteByte"] = func(m *Machine, pos token.Pos, recv Value, args []Value) (Value, error) {
			o, s := buf(recv)
			c, ok := args[0].(int64)
			if o == nil || !ok {
				return unknownCall(kind+".WriteByte", args), nil
			}
			o.Attrs["buf"] = Concat(s, Lit(string(rune(c))))
			return NilV{}, nil
		}
		m.Ext["("+kind+").WriteRune"] = func(m *Machine, pos token.Pos, recv Value, args []Value) (Value, error) {
			o, s := buf(recv)
			c, ok := args[0].(int64)
			if o == nil || !ok {
				return unknownCall(kind+".WriteRune", args), nil
			}
			o.Attrs["buf"] = Concat(s, Lit(string(rune(c))))
			return Tuple{int64(0), NilV{}}, nil
		}
		m.Ext["("+kind+").String"] = func(m *Machine, pos token.Pos, recv Value, args []Value) (Value, error) {
			_, s := buf(recv)
			if s == nil {
				return unknownCall(kind+".String", args), nil
			}
			return s, nil
		}
		m.Ext["("+kind+").Len"] = func(m *Machine, pos token.Pos, recv Value, args []Value) (Value, error) {
			_, s := buf(recv)
			if s != nil {
				if c, ok := s.Concrete(); ok {
					return int64(len(c)), nil
				}
			}
			return &Unknown{Why: kind + ".Len()"}, nil
		}
		m.Ext["("+kind+").Grow"] = func(m *Machine, pos token.Pos, recv Value, args []Value) (Value, error) { return NilV{}, nil }
	}
	// the spelling of a go/token token (keywords, operators)
	m.Ext["(go/token.Token).String"] = func(m *Machine, pos token.Pos, recv Value, args []Value) (Value, error) {
		if t, ok := recv.(int64); ok {
			return Lit(token.Token(t).String()), nil
		}
		return unknownCall("token.Token.String", []Value{recv}), nil
	}
	m.Ext["(go/token.Token).IsKeyword"] = func(m *Machine, pos token.Pos, recv Value, args []Value) (Value, error) {
		if t, ok := recv.(int64); ok {
			return token.Token(t).IsKeyword(), nil
		}
		return unknownCall("token.Token.IsKeyword", []Value{recv}), nil
	}
	// a buffer made around an empty byte slice (only the capacity is chosen) is an empty buffer
	m.Ext["bytes.NewBuffer"] = func(m *Machine, pos token.Pos, recv Value, args []Value) (Value, error) {
		if len(args) == 1 {
			empty := false
			switch b := args[0].(type) {
			case NilV:
				empty = true
			case *List:
				empty = len(b.Elems) == 0
			}
			if empty {
				m.seq++
				return &Opaque{Kind: "bytes.Buffer", ID: fmt.Sprintf("buffer%d", m.seq), GoType: "*bytes.Buffer", Attrs: map[string]Value{}}, nil
			}
		}
		return nil, undecided(pos, "bytes.NewBuffer around initial content")
	}
	m.Ext["bytes.NewBufferString"] = func(m *Machine, pos token.Pos, recv Value, args []Value) (Value, error) {
		if len(args) == 1 {
			if s, ok := args[0].(*Sym); ok {
				m.seq++
				return &Opaque{Kind: "bytes.Buffer", ID: fmt.Sprintf("buffer%d", m.seq), GoType: "*bytes.Buffer", Attrs: map[string]Value{"buf": s}}, nil
			}
		}
		return nil, undecided(pos, "bytes.NewBufferString of a value that is not a string")
	}
	m.Ext["fmt.Fprintf"] = func(m *Machine, pos token.Pos, recv Value, args []Value) (Value, error) {
		if len(args) >= 2 {
			if o, ok := args[0].(*Opaque); ok && (o.Kind == "strings.Builder" || o.Kind == "bytes.Buffer") {
				v, err := m.Ext["fmt.Sprintf"](m, pos, nil, args[1:])
				if err != nil {
					return nil, err
				}
				if s, ok := v.(*Sym); ok {
					if o.Attrs == nil {
						o.Attrs = map[string]Value{}
					}
					cur, _ := o.Attrs["buf"].(*Sym)
					if cur == nil {
						cur = &Sym{}
					}
					o.Attrs["buf"] = Concat(cur, s)
					return Tuple{int64(0), NilV{}}, nil
				}
			}
		}
		return unknownCall("fmt.Fprintf", args), nil
	}
	// slices helpers with a predicate or a comparable needle
	listOf := func(v Value) ([]Value, bool) {
		switch l := v.(type) {
		case *List:
			return l.Elems, true
		case NilV:
			return nil, true
		}
		return nil, false
	}
	indexFunc := func(name string, wantBool bool) {
		m.Ext[name] = func(m *Machine, pos token.Pos, recv Value, args []Value) (Value, error) {
			if len(args) != 2 {
				return nil, undecided(pos, "%s arity", name)
			}
			elems, ok := listOf(args[0])
			if !ok {
				return unknownCall(name, args), nil
			}
			for i, e := range elems {
				v, err := m.Call(pos, args[1], []Value{e})
				if err != nil {
					return nil, err
				}
				b, err := m.truth(pos, v, fmt.Sprintf("%d:%s#%d", pos, name, i))
				if err != nil {
					return nil, err
				}
				if b {
					if wantBool {
						return true, nil
					}
					return int64(i), nil
				}
			}
			if wantBool {
				return false, nil
			}
			return int64(-1), nil
		}
	}
	indexFunc("slices.ContainsFunc", true)
	indexFunc("slices.IndexFunc", false)
	index := func(name string, wantBool bool) {
		m.Ext[name] = func(m *Machine, pos token.Pos, recv Value, args []Value) (Value, error) {
			if len(args) != 2 {
				return nil, undecided(pos, "%s arity", name)
			}
			elems, ok := listOf(args[0])
			if !ok {
				return unknownCall(name, args), nil
			}
			for i, e := range elems {
				// the i-th comparison is the equality it stands for: keyed like `elem == needle` written out
				eq := m.equal(pos, e, args[1])
				b, err := m.truth(pos, eq, fmt.Sprintf("%d:%s", pos, TermOf(eq)))
				if err != nil {
					return nil, err
				}
				if b {
					if wantBool {
						return true, nil
					}
					return int64(i), nil
				}
			}
			if wantBool {
				return false, nil
			}
			return int64(-1), nil
		}
	}
	index("slices.Contains", true)
	index("slices.Index", false)
	m.Ext["maps.Keys"] = func(m *Machine, pos token.Pos, recv Value, args []Value) (Value, error) {
		if len(args) == 1 {
			switch mv := args[0].(type) {
			case *MapV:
				m.Notes = append(m.Notes, Note{Rule: "H-MAPRANGE", Key: "map-range@" + m.Prog.Pos(pos), Pos: pos, Msg: "iteration over the keys of a map during interpretation"})
				return &Seq{Elems: append([]Value{}, mv.Keys...)}, nil
			case NilV:
				return &Seq{}, nil
			}
		}
		return unknownCall("maps.Keys", args), nil
	}
	m.Ext["maps.Values"] = func(m *Machine, pos token.Pos, recv Value, args []Value) (Value, error) {
		if len(args) == 1 {
			switch mv := args[0].(type) {
			case *MapV:
				m.Notes = append(m.Notes, Note{Rule: "H-MAPRANGE", Key: "map-range@" + m.Prog.Pos(pos), Pos: pos, Msg: "iteration over the values of a map during interpretation"})
				return &Seq{Elems: append([]Value{}, mv.Vals...)}, nil
			case NilV:
				return &Seq{}, nil
			}
		}
		return unknownCall("maps.Values", args), nil
	}
	m.Ext["slices.Values"] = func(m *Machine, pos token.Pos, recv Value, args []Value) (Value, error) {
		if len(args) == 1 {
			if elems, ok := listOf(args[0]); ok {
				return &Seq{Elems: append([]Value{}, elems...)}, nil
			}
		}
		return unknownCall("slices.Values", args), nil
	}
	m.Ext["slices.All"] = func(m *Machine, pos token.Pos, recv Value, args []Value) (Value, error) {
		if len(args) == 1 {
			if elems, ok := listOf(args[0]); ok {
				sq := &Seq{Two: true, Elems: append([]Value{}, elems...)}
				for i := range elems {
					sq.Keys = append(sq.Keys, int64(i))
				}
				return sq, nil
			}
		}
		return unknownCall("slices.All", args), nil
	}
	m.Ext["slices.Collect"] = func(m *Machine, pos token.Pos, recv Value, args []Value) (Value, error) {
		if len(args) == 1 {
			if sq, ok := args[0].(*Seq); ok && !sq.Two {
				return &List{Elems: append([]Value{}, sq.Elems...)}, nil
			}
		}
		return unknownCall("slices.Collect", args), nil
	}
	sortStrings := func(elems []Value) ([]Value, bool) {
		c, ok := concreteArgs(elems)
		if !ok {
			return nil, false
		}
		sort.Strings(c)
		return strList(c).Elems, true
	}
	m.Ext["slices.Sorted"] = func(m *Machine, pos token.Pos, recv Value, args []Value) (Value, error) {
		if len(args) == 1 {
			if sq, ok := args[0].(*Seq); ok && !sq.Two {
				if out, ok := sortStrings(sq.Elems); ok {
					return &List{Elems: out}, nil
				}
			}
		}
		return unknownCall("slices.Sorted", args), nil
	}
	// sort.Slice with a less function over concrete keys: a stable insertion sort driven by the closure
	for _, name := range []string{"sort.Slice", "sort.SliceStable"} {
		name := name
		m.Ext[name] = func(m *Machine, pos token.Pos, recv Value, args []Value) (Value, error) {
			if len(args) != 2 {
				return nil, undecided(pos, "%s arity", name)
			}
			l, ok := args[0].(*List)
			if !ok {
				if _, isNil := args[0].(NilV); isNil {
					return NilV{}, nil
				}
				return nil, undecided(pos, "%s of %s", name, Show(args[0]))
			}
			// the closure indexes the slice it captured, which is this very list: sort in place by
			// adjacent swaps so that the closure always sees the current order
			n := len(l.Elems)
			for i := 1; i < n; i++ {
				for j := i; j > 0; j-- {
					v, err := m.Call(pos, args[1], []Value{int64(j), int64(j - 1)})
					if err != nil {
						return nil, err
					}
					less, ok := v.(bool)
					if !ok {
						return nil, undecided(pos, "%s: the order of two elements is not determined by the abstract values", name)
					}
					if !less {
						break
					}
					l.Elems[j], l.Elems[j-1] = l.Elems[j-1], l.Elems[j]
				}
			}
			return NilV{}, nil
		}
	}
	// sorting with a three-way comparator over the elements: an insertion sort driven by the closure
	sortByCmp := func(m *Machine, pos token.Pos, name string, elems []Value, cmp Value) error {
		for i := 1; i < len(elems); i++ {
			for j := i; j > 0; j-- {
				v, err := m.Call(pos, cmp, []Value{elems[j], elems[j-1]})
				if err != nil {
					return err
				}
				c, ok := v.(int64)
				if !ok {
					return undecided(pos, "%s: the order of two elements is not determined by the abstract values", name)
				}
				if c >= 0 {
					break
				}
				elems[j], elems[j-1] = elems[j-1], elems[j]
			}
		}
		return nil
	}
	for _, name := range []string{"slices.SortFunc", "slices.SortStableFunc"} {
		name := name
		m.Ext[name] = func(m *Machine, pos token.Pos, recv Value, args []Value) (Value, error) {
			if len(args) != 2 {
				return nil, undecided(pos, "%s arity", name)
			}
			switch l := args[0].(type) {
			case *List:
				return NilV{}, sortByCmp(m, pos, name, l.Elems, args[1])
			case NilV:
				return NilV{}, nil
			}
			return nil, undecided(pos, "%s of %s", name, Show(args[0]))
		}
	}
	for _, name := range []string{"slices.SortedFunc", "slices.SortedStableFunc"} {
		name := name
		m.Ext[name] = func(m *Machine, pos token.Pos, recv Value, args []Value) (Value, error) {
			if len(args) == 2 {
				if sq, ok := args[0].(*Seq); ok && !sq.Two {
					out := append([]Value{}, sq.Elems...)
					if err := sortByCmp(m, pos, name, out, args[1]); err != nil {
						return nil, err
					}
					return &List{Elems: out}, nil
				}
			}
			return nil, undecided(pos, "%s of %s", name, Show(args[0]))
		}
	}
	m.Ext["slices.AppendSeq"] = func(m *Machine, pos token.Pos, recv Value, args []Value) (Value, error) {
		if len(args) == 2 {
			base, ok := listOf(args[0])
			if sq, isSeq := args[1].(*Seq); ok && isSeq && !sq.Two {
				return &List{Elems: append(append([]Value{}, base...), sq.Elems...)}, nil
			}
		}
		return nil, undecided(pos, "slices.AppendSeq of %s", Show(args[0]))
	}
	for _, name := range []string{"strings.Compare", "cmp.Compare"} {
		name := name
		m.Ext[name] = func(m *Machine, pos token.Pos, recv Value, args []Value) (Value, error) {
			if len(args) == 2 {
				if a, ok := args[0].(*Sym); ok {
					if b, ok := args[1].(*Sym); ok {
						ca, ok1 := a.Concrete()
						cb, ok2 := b.Concrete()
						if ok1 && ok2 {
							return int64(strings.Compare(ca, cb)), nil
						}
					}
				}
				if a, ok := args[0].(int64); ok {
					if b, ok := args[1].(int64); ok {
						switch {
						case a < b:
							return int64(-1), nil
						case a > b:
							return int64(1), nil
						}
						return int64(0), nil
					}
				}
			}
			return unknownCall(name, args), nil
		}
	}
	m.Ext["strings.NewReplacer"] = func(m *Machine, pos token.Pos, recv Value, args []Value) (Value, error) {
		c, ok := concreteArgs(args)
		if !ok {
			return &Unknown{Why: "strings.NewReplacer with symbolic arguments"}, nil
		}
		m.seq++
		return &Opaque{Kind: "strings.Replacer", ID: fmt.Sprintf("replacer%d", m.seq), GoType: "*strings.Replacer", Attrs: map[string]Value{"pairs": strList(c)}}, nil
	}
	m.Ext["(strings.Replacer).Replace"] = func(m *Machine, pos token.Pos, recv Value, args []Value) (Value, error) {
		o, ok := recv.(*Opaque)
		if ok && len(args) == 1 {
			if pl, ok := o.Attrs["pairs"].(*List); ok {
				if pairs, ok := concreteArgs(pl.Elems); ok {
					if c, ok := concreteArgs(args); ok {
						return Lit(strings.NewReplacer(pairs...).Replace(c[0])), nil
					}
				}
			}
		}
		return unknownCall("strings.Replacer.Replace", args), nil
	}
	m.Ext["strconv.Unquote"] = func(m *Machine, pos token.Pos, recv Value, args []Value) (Value, error) {
		if c, ok := concreteArgs(args); ok && len(c) == 1 {
			u, err := strconv.Unquote(c[0])
			if err != nil {
				return Tuple{Lit(""), &Opaque{Kind: "error", ID: "strconv.Unquote: " + err.Error()}}, nil
			}
			return Tuple{Lit(u), NilV{}}, nil
		}
		return Tuple{unknownCall("strconv.Unquote", args), &Unknown{Why: "error of strconv.Unquote"}}, nil
	}
	m.Ext["strings.Count"] = func(m *Machine, pos token.Pos, recv Value, args []Value) (Value, error) {
		if c, ok := concreteArgs(args); ok && len(c) == 2 {
			return int64(strings.Count(c[0], c[1])), nil
		}
		return unknownCall("strings.Count", args), nil
	}
	for _, name := range []string{"sort.Strings", "slices.Sort"} {
		name := name
		m.Ext[name] = func(m *Machine, pos token.Pos, recv Value, args []Value) (Value, error) {
			if len(args) == 1 {
				if l, ok := args[0].(*List); ok {
					if out, ok := sortStrings(l.Elems); ok {
						copy(l.Elems, out)
						return NilV{}, nil
					}
				}
			}
			return nil, undecided(pos, "%s of values that are not concrete strings", name)
		}
	}
	m.Ext["slices.Reverse"] = func(m *Machine, pos token.Pos, recv Value, args []Value) (Value, error) {
		if len(args) == 1 {
			switch l := args[0].(type) {
			case *List:
				for i, j := 0, len(l.Elems)-1; i < j; i, j = i+1, j-1 {
					l.Elems[i], l.Elems[j] = l.Elems[j], l.Elems[i]
				}
				return NilV{}, nil
			case NilV:
				return NilV{}, nil
			}
		}
		return nil, undecided(pos, "slices.Reverse of %s", Show(args[0]))
	}
	m.Ext["slices.Backward"] = func(m *Machine, pos token.Pos, recv Value, args []Value) (Value, error) {
		if len(args) == 1 {
			if elems, ok := listOf(args[0]); ok {
				sq := &Seq{Two: true}
				for i := len(elems) - 1; i >= 0; i-- {
					sq.Keys = append(sq.Keys, int64(i))
					sq.Elems = append(sq.Elems, elems[i])
				}
				return sq, nil
			}
		}
		return unknownCall("slices.Backward", args), nil
	}
	m.Ext["slices.Concat"] = func(m *Machine, pos token.Pos, recv Value, args []Value) (Value, error) {
		out := &List{}
		for _, a := range args {
			// variadic: the arguments arrive as they were written, or as one list of lists
			elems, ok := listOf(a)
			if !ok {
				return unknownCall("slices.Concat", args), nil
			}
			out.Elems = append(out.Elems, elems...)
		}
		return out, nil
	}
	for _, name := range []string{"slices.Clip", "slices.Grow"} {
		m.Ext[name] = func(m *Machine, pos token.Pos, recv Value, args []Value) (Value, error) {
			return args[0], nil
		}
	}
	m.Ext["slices.Clone"] = func(m *Machine, pos token.Pos, recv Value, args []Value) (Value, error) {
		if len(args) == 1 {
			if elems, ok := listOf(args[0]); ok {
				return &List{Elems: append([]Value{}, elems...)}, nil
			}
		}
		return unknownCall("slices.Clone", args), nil
	}
	m.Ext["fmt.Sprint"] = func(m *Machine, pos token.Pos, recv Value, args []Value) (Value, error) {
		out := &Sym{}
		for _, a := range args {
			s, ok := a.(*Sym)
			if !ok {
				return unknownCall("fmt.Sprint", args), nil
			}
			out = Concat(out, s)
		}
		return out, nil
	}
}

// symSplitN splits a symbolic string at sep; tokens are opaque and assumed
// not to contain sep (they stand for Go identifiers).
func symSplitN(s *Sym, sep string, n int) *List {
	out := &List{}
	cur := &Sym{}
	for pi, p := range s.Parts {
		if p.Tok != "" {
			cur.push(p)
			continue
		}
		rest := p.Lit
		for {
			if n > 0 && len(out.Elems) == n-1 {
				break
			}
			i := strings.Index(rest, sep)
			if i < 0 {
				break
			}
			cur.push(Part{Lit: rest[:i]})
			out.Elems = append(out.Elems, cur)
			cur = &Sym{}
			rest = rest[i+len(sep):]
		}
		cur.push(Part{Lit: rest})
		_ = pi
	}
	out.Elems = append(out.Elems, cur)
	return out
}
