// Package interp is an abstract interpreter for the small, structured Go
// functions that moq's template calls (template data methods and template
// functions). Strings are symbolic: a sequence of literal pieces and opaque
// tokens that stand for input-dependent text (names, type texts). Booleans,
// integers and list lengths are concrete (they are the finite abstract
// domain the template is expanded over); a condition that depends on a token
// is unknown and both outcomes are explored.
package interp

import (
	"fmt"
	"go/ast"
	"go/token"
	"go/types"
	"strings"
)

// Part is a piece of a symbolic string: literal text or an opaque token.
type Part struct {
	Lit string
	Tok string // spelling of the token; opaque to every string operation
}

// Sym is a symbolic string.
type Sym struct{ Parts []Part }

func Lit(s string) *Sym {
	if s == "" {
		return &Sym{}
	}
	return &Sym{Parts: []Part{{Lit: s}}}
}

func Tok(spelling string) *Sym { return &Sym{Parts: []Part{{Tok: spelling}}} }

func Concat(a, b *Sym) *Sym {
	out := &Sym{}
	for _, p := range append(append([]Part{}, a.Parts...), b.Parts...) {
		out.push(p)
	}
	return out
}

func (s *Sym) push(p Part) {
	if p.Tok == "" && p.Lit == "" {
		return
	}
	if p.Tok == "" && len(s.Parts) > 0 && s.Parts[len(s.Parts)-1].Tok == "" {
		s.Parts[len(s.Parts)-1].Lit += p.Lit
		return
	}
	s.Parts = append(s.Parts, p)
}

// Concrete returns the string when it contains no token.
func (s *Sym) Concrete() (string, bool) {
	var b strings.Builder
	for _, p := range s.Parts {
		if p.Tok != "" {
			return "", false
		}
		b.WriteString(p.Lit)
	}
	return b.String(), true
}

// Flat renders the string with tokens spelled out.
func (s *Sym) Flat() string {
	var b strings.Builder
	for _, p := range s.Parts {
		if p.Tok != "" {
			b.WriteString(p.Tok)
		} else {
			b.WriteString(p.Lit)
		}
	}
	return b.String()
}

// SingleTok returns the token when the string is exactly one token.
func (s *Sym) SingleTok() (string, bool) {
	if len(s.Parts) == 1 && s.Parts[0].Tok != "" {
		return s.Parts[0].Tok, true
	}
	return "", false
}

func (s *Sym) String() string { return s.Flat() }

// Equal compares two symbolic strings: known reports whether the answer is
// determined. Tokens are assumed to stand for non-empty text.
func (s *Sym) Equal(t *Sym) (eq, known bool) {
	a, aok := s.Concrete()
	b, bok := t.Concrete()
	if aok && bok {
		return a == b, true
	}
	if s.Flat() == t.Flat() && len(s.Parts) == len(t.Parts) {
		same := true
		for i := range s.Parts {
			if s.Parts[i] != t.Parts[i] {
				same = false
			}
		}
		if same {
			return true, true
		}
	}
	if (aok && a == "") || (bok && b == "") {
		return false, true // a token is never the empty string
	}
	// a constant can only equal a symbolic string whose literal ends it starts and ends with, and
	// every token stands for at least one byte
	if aok != bok {
		c, sym := a, t
		if bok {
			c, sym = b, s
		}
		if n := len(sym.Parts); n > 0 {
			min := 0
			for _, p := range sym.Parts {
				if p.Tok != "" {
					min++
				} else {
					min += len(p.Lit)
				}
			}
			first, last := sym.Parts[0], sym.Parts[n-1]
			if len(c) < min || (first.Tok == "" && !strings.HasPrefix(c, first.Lit)) || (last.Tok == "" && !strings.HasSuffix(c, last.Lit)) {
				return false, true
			}
		}
	}
	// distinct tokens are distinct atoms: coincidences between input names are
	// modelled by separate environments, not by aliasing of tokens
	if ta, ok := s.SingleTok(); ok {
		if tb, ok := t.SingleTok(); ok {
			return ta == tb, true
		}
	}
	// the same literal pieces around tokens: equal exactly when the tokens are ("(p.I)." + A vs "(p.I)." + B)
	if len(s.Parts) == len(t.Parts) {
		aligned, differ := true, false
		for i := range s.Parts {
			p, q := s.Parts[i], t.Parts[i]
			switch {
			case p.Tok == "" && q.Tok == "":
				if p.Lit != q.Lit {
					aligned = false
				}
			case p.Tok != "" && q.Tok != "":
				if p.Tok != q.Tok {
					differ = true
				}
			default:
				aligned = false
			}
		}
		if aligned && differ {
			// one differing token position is decisive only when nothing after it can make up for it:
			// take the first differing position with identical text before it — the strings then differ there
			// or one token is a proper prefix of the other followed by the same text, which atoms exclude
			return false, true
		}
	}
	return false, false
}

// SliceFrom returns s[lo:] when the first lo bytes are literal.
func (s *Sym) SliceFrom(lo int) (*Sym, bool) {
	if lo == 0 {
		return s, true
	}
	if len(s.Parts) == 0 || s.Parts[0].Tok != "" || len(s.Parts[0].Lit) < lo {
		return nil, false
	}
	out := &Sym{}
	out.push(Part{Lit: s.Parts[0].Lit[lo:]})
	for _, p := range s.Parts[1:] {
		out.push(p)
	}
	return out, true
}

// Values ---------------------------------------------------------------

// Value is an abstract value: bool, int64, *Sym, NilV, *List, *Struct, *Ptr,
// *MapV, *Closure, *FuncV, *Opaque, *Unknown or Tuple.
type Value interface{}

type NilV struct{}

// List is a slice. Cap is the capacity known for its array (0: no more than the length): an append within
// it keeps the elements where they are; one beyond it moves them to a new array, which for elements that are
// struct values means copies — pointers taken to the old elements then refer to dead copies.
type List struct {
	Elems []Value
	Cap   int
}

type Struct struct {
	Type   types.Type
	Fields map[string]Value
	ID     string // identity tag for structs built by the environment
	// Aux carries what a model knows about the value without relying on the names of its fields.
	Aux map[string]Value
}

func (s *Struct) Copy() *Struct {
	c := &Struct{Type: s.Type, Fields: map[string]Value{}, ID: s.ID, Aux: s.Aux}
	for k, v := range s.Fields {
		if sv, ok := v.(*Struct); ok {
			v = sv.Copy()
		}
		c.Fields[k] = v
	}
	return c
}

type Ptr struct{ Elem *Struct }

// Seq is an iterator (iter.Seq when Keys is nil, iter.Seq2 otherwise) over known elements.
type Seq struct {
	Keys  []Value
	Elems []Value
	Two   bool
}

// Ref is a pointer to a variable or struct field that holds a non-struct value (&x, &s.f).
type Ref struct {
	Get func() Value
	Set func(Value)
	ID  string
}

type MapV struct {
	Keys []Value
	Vals []Value
}

type Closure struct {
	Lit  *ast.FuncLit
	Env  *frame
	Info *types.Info
}

// FuncV is a declared function or a method value (Recv set).
type FuncV struct {
	Fn   *types.Func
	Recv Value
	// MethodExpr marks T.Method: the receiver is the first argument of a call.
	MethodExpr bool
	Sel        *types.Selection // of a method expression: the path to a promoted method's receiver
}

// Native is a function value implemented by the interpreter itself (the yield function of a range over
// an iterator function).
type Native struct {
	Fn func(args []Value) (Value, error)
}

// Opaque is a value of a type from outside moq (go/types objects ...).
type Opaque struct {
	Kind  string
	ID    string
	Attrs map[string]Value
	// GoType is the dynamic Go type the value stands for (for type assertions), e.g. "*go/types.Signature".
	GoType string
	// Methods models methods of the value; they take precedence over Machine.Ext.
	Methods map[string]func(m *Machine, pos token.Pos, args []Value) (Value, error)
}

// Unknown is a value the abstract domain cannot represent.
type Unknown struct {
	Why string
	// Lower is a known lower bound of an unknown integer (a length), valid when HasLower.
	Lower    int64
	HasLower bool
	// Cut marks an unknown integer that is a byte position inside a symbolic string
	// (the result of strings.Index on it): slicing that string there is decided.
	Cut *Cut
}

// Cut is the position before byte Off of the literal part Part of S.
type Cut struct {
	S    *Sym
	Part int
	Off  int
}

// CutPos resolves a slice bound of s: a concrete offset into a leading literal, or a Cut of s.
func (s *Sym) CutPos(v Value) (part, off int, ok bool) {
	switch v := v.(type) {
	case int64:
		if v == 0 {
			return 0, 0, true
		}
		if len(s.Parts) > 0 && s.Parts[0].Tok == "" && int(v) <= len(s.Parts[0].Lit) && v >= 0 {
			return 0, int(v), true
		}
	case *Unknown:
		if v.Cut != nil && v.Cut.S.Flat() == s.Flat() && v.Cut.Part < len(s.Parts) {
			return v.Cut.Part, v.Cut.Off, true
		}
	}
	return 0, 0, false
}

// Between returns the text from one position to another (an absent end is the end of the string).
func (s *Sym) Between(p1, o1, p2, o2 int, toEnd bool) (*Sym, bool) {
	if toEnd {
		p2, o2 = len(s.Parts), 0
	}
	if p1 > p2 || (p1 == p2 && o1 > o2) {
		return nil, false
	}
	out := &Sym{}
	for i := p1; i <= p2 && i < len(s.Parts); i++ {
		p := s.Parts[i]
		if p.Tok != "" {
			if (i == p1 && o1 != 0) || (i == p2 && o2 != 0) {
				return nil, false
			}
			if i == p2 {
				break
			}
			out.push(p)
			continue
		}
		lo, hi := 0, len(p.Lit)
		if i == p1 {
			lo = o1
		}
		if i == p2 {
			hi = o2
		}
		if lo > hi || hi > len(p.Lit) {
			return nil, false
		}
		out.push(Part{Lit: p.Lit[lo:hi]})
	}
	return out, true
}

type Tuple []Value

func Show(v Value) string {
	switch v := v.(type) {
	case nil:
		return "<none>"
	case bool:
		return fmt.Sprint(v)
	case int64:
		return fmt.Sprint(v)
	case *Sym:
		return fmt.Sprintf("%q", v.Flat())
	case NilV:
		return "nil"
	case *List:
		var ss []string
		for _, e := range v.Elems {
			ss = append(ss, Show(e))
		}
		return "[" + strings.Join(ss, ", ") + "]"
	case *Seq:
		return fmt.Sprintf("iterator over %d elements", len(v.Elems))
	case *Ref:
		return "&" + v.ID
	case *Struct:
		return "struct " + types.TypeString(v.Type, nil)
	case *Ptr:
		return "&" + Show(v.Elem)
	case *Opaque:
		return v.Kind + "#" + v.ID
	case *Unknown:
		return "unknown(" + v.Why + ")"
	case *FuncV:
		return "func " + v.Fn.FullName()
	case *Closure:
		return "closure"
	case Tuple:
		var ss []string
		for _, e := range v {
			ss = append(ss, Show(e))
		}
		return "(" + strings.Join(ss, ", ") + ")"
	}
	return fmt.Sprintf("%T", v)
}
