// Package core holds the reporting protocol shared by all rules:
// obligations, violations, known findings, evidence and replay files.
package core

import (
	"bufio"
	"encoding/json"
	"fmt"
	"os"
	"path/filepath"
	"sort"
	"strings"
	"time"
)

// Violation is one report. Key identifies rule + construct (never a line
// number) and is what known_findings.jsonl is matched against.
type Violation struct {
	Property string   `json:"property"`
	Rule     string   `json:"rule"`
	Key      string   `json:"key"`
	Kind     string   `json:"kind"` // "violation" or "undecided"
	Pos      string   `json:"pos"`
	Msg      string   `json:"msg"`
	Path     []string `json:"path,omitempty"`
	Env      string   `json:"env,omitempty"`
}

// Obligation is one rule instance that was examined.
type Obligation struct {
	Rule string `json:"rule"`
	Key  string `json:"key"`
	Pos  string `json:"pos,omitempty"`
	OK   bool   `json:"ok"`
	Note string `json:"note,omitempty"`
	// Instances counts how many times the rule instance was evaluated (e.g. in how many skeleton functions).
	Instances int `json:"instances"`
}

// Known is a line of known_findings.jsonl.
type Known struct {
	Property string `json:"property"`
	Key      string `json:"key"`
	Status   string `json:"status"` // "known" or "fixed:<commit>"
	Witness  string `json:"witness,omitempty"`
	Observed string `json:"observed,omitempty"`
	Defect   string `json:"defect,omitempty"`
}

// Run accumulates the result of checking one property.
type Run struct {
	Property string
	Tier     string
	Level    string
	Root     string // /verif
	start    time.Time

	obl        map[string]*Obligation // by rule+key
	oblOrder   []string
	viol       map[string]*Violation
	violOrder  []string
	Counts     map[string]int
	Samples    []any
	Explain    []string
	Assume     []string
	Trusted    []string
	Floors     map[string]int // rule -> minimal number of instances
	extraNotes []string
	Replay     string // replay file to highlight
}

func NewRun(property, tier, level, root string) *Run {
	return &Run{Property: property, Tier: tier, Level: level, Root: root, start: time.Now(),
		obl: map[string]*Obligation{}, viol: map[string]*Violation{}, Counts: map[string]int{}, Floors: map[string]int{}}
}

// Count adds n to a named measured counter.
func (r *Run) Count(name string, n int) { r.Counts[name] += n }

// Floor demands at least n obligations of the given rule (a rule that matches
// nothing must not pass vacuously).
func (r *Run) Floor(rule string, n int) {
	if n > r.Floors[rule] {
		r.Floors[rule] = n
	}
}

// Check records an obligation; when ok is false it also records a violation.
func (r *Run) Check(rule, key, pos string, ok bool, msg string) bool {
	id := rule + "\x00" + key
	o := r.obl[id]
	if o == nil {
		o = &Obligation{Rule: rule, Key: key, Pos: pos, OK: true}
		r.obl[id] = o
		r.oblOrder = append(r.oblOrder, id)
	}
	o.Instances++
	if !ok {
		o.OK = false
		o.Note = msg
		r.Violate(Violation{Rule: rule, Key: rule + ":" + key, Pos: pos, Msg: msg, Kind: "violation"})
	}
	return ok
}

// Fail records a failed obligation with a fully specified violation.
func (r *Run) Fail(rule, key, pos string, v Violation) {
	id := rule + "\x00" + key
	o := r.obl[id]
	if o == nil {
		o = &Obligation{Rule: rule, Key: key, Pos: pos, OK: true}
		r.obl[id] = o
		r.oblOrder = append(r.oblOrder, id)
	}
	o.Instances++
	o.OK = false
	o.Note = v.Msg
	v.Rule = rule
	if v.Key == "" {
		v.Key = rule + ":" + key
	}
	if v.Pos == "" {
		v.Pos = pos
	}
	r.Violate(v)
}

// Violate records a violation (deduplicated by key; the first report wins).
func (r *Run) Violate(v Violation) {
	v.Property = r.Property
	if v.Kind == "" {
		v.Kind = "violation"
	}
	if v.Key == "" {
		v.Key = v.Rule + ":" + v.Pos
	}
	if _, dup := r.viol[v.Key]; dup {
		return
	}
	r.viol[v.Key] = &v
	r.violOrder = append(r.violOrder, v.Key)
}

// Undecided records that a rule could not be evaluated; it fails the check.
func (r *Run) Undecided(rule, key, pos, msg string) {
	r.Violate(Violation{Rule: rule, Key: rule + ":" + key, Pos: pos, Msg: msg, Kind: "undecided"})
}

func (r *Run) Explainf(format string, a ...any) {
	r.Explain = append(r.Explain, fmt.Sprintf(format, a...))
}
func (r *Run) Assumef(format string, a ...any) {
	r.Assume = append(r.Assume, fmt.Sprintf(format, a...))
}
func (r *Run) Sample(s any) {
	if len(r.Samples) < 40 {
		r.Samples = append(r.Samples, s)
	}
}

// Violations returns the recorded violations in report order.
func (r *Run) Violations() []*Violation {
	var out []*Violation
	for _, k := range r.violOrder {
		out = append(out, r.viol[k])
	}
	return out
}

// LoadKnown reads known_findings.jsonl.
func LoadKnown(root string) ([]Known, error) {
	f, err := os.Open(filepath.Join(root, "known_findings.jsonl"))
	if err != nil {
		if os.IsNotExist(err) {
			return nil, nil
		}
		return nil, err
	}
	defer f.Close()
	var out []Known
	sc := bufio.NewScanner(f)
	sc.Buffer(make([]byte, 1<<20), 1<<20)
	for sc.Scan() {
		line := strings.TrimSpace(sc.Text())
		if line == "" || strings.HasPrefix(line, "#") {
			continue
		}
		var k Known
		if err := json.Unmarshal([]byte(line), &k); err != nil {
			return nil, fmt.Errorf("known_findings.jsonl: %v", err)
		}
		out = append(out, k)
	}
	return out, sc.Err()
}

// Finish enforces floors, applies the known-findings protocol, writes the
// evidence file and replay files, prints the protocol lines and returns the
// exit code.
func (r *Run) Finish() int {
	// floors
	perRule := map[string]int{}
	for _, id := range r.oblOrder {
		perRule[r.obl[id].Rule]++
	}
	var rules []string
	for rule := range r.Floors {
		rules = append(rules, rule)
	}
	sort.Strings(rules)
	for _, rule := range rules {
		if perRule[rule] < r.Floors[rule] {
			r.Undecided("floor", rule, "-", fmt.Sprintf("rule %s matched %d instances, fewer than the %d confirmed by hand: the rule no longer sees the code it was written for", rule, perRule[rule], r.Floors[rule]))
		}
	}
	known, kerr := LoadKnown(r.Root)
	if kerr != nil {
		r.Undecided("protocol", "known_findings", "-", kerr.Error())
	}
	isKnown := func(v *Violation) *Known {
		for i := range known {
			k := &known[i]
			if k.Property == r.Property && k.Key == v.Key && k.Status == "known" && v.Kind == "violation" {
				return k
			}
		}
		return nil
	}
	outDir := filepath.Join(r.Root, "out", r.Property)
	// replay: re-evaluate and say whether the recorded finding is still there
	if r.Replay != "" {
		var old Violation
		if b, err := os.ReadFile(r.Replay); err == nil && json.Unmarshal(b, &old) == nil {
			found := false
			for _, v := range r.Violations() {
				if v.Key == old.Key {
					found = true
					fmt.Printf("REPLAY: reproduced %s at %s: %s\n", v.Key, v.Pos, v.Msg)
					if v.Env != "" {
						fmt.Printf("  env: %s\n", v.Env)
					}
				}
			}
			if !found {
				fmt.Printf("REPLAY: the finding %s (recorded at %s) is not reported on the current tree\n", old.Key, old.Pos)
			}
		} else {
			fmt.Printf("REPLAY: cannot read %s\n", r.Replay)
		}
	} else {
		os.RemoveAll(outDir)
	}
	exit := 0
	nviol, nknown := 0, 0
	for i, v := range r.Violations() {
		if k := isKnown(v); k != nil {
			nknown++
			fmt.Printf("KNOWN-FINDING: property=%s %s — %s [%s] (witness: %s)\n", r.Property, v.Key, v.Msg, v.Pos, k.Witness)
			continue
		}
		nviol++
		exit = 1
		os.MkdirAll(outDir, 0o755)
		path := filepath.Join(outDir, fmt.Sprintf("%d.json", i))
		b, _ := json.MarshalIndent(v, "", " ")
		os.WriteFile(path, append(b, '\n'), 0o644)
		fmt.Printf("%s rule=%s kind=%s at %s: %s\n", strings.ToUpper(v.Kind), v.Rule, v.Kind, v.Pos, v.Msg)
		if v.Env != "" {
			fmt.Printf("  env: %s\n", v.Env)
		}
		for _, p := range v.Path {
			fmt.Printf("  path: %s\n", p)
		}
		fmt.Printf("VIOLATION property=%s replay=%s\n", r.Property, path)
	}
	// evidence
	nobl, ndis, nevals := 0, 0, 0
	ruleCounts := map[string]int{}
	var samples []any
	seenRule := map[string]int{}
	for _, id := range r.oblOrder {
		o := r.obl[id]
		nobl++
		nevals += o.Instances
		if o.OK {
			ndis++
		}
		ruleCounts[o.Rule]++
		if seenRule[o.Rule] < 3 {
			seenRule[o.Rule]++
			samples = append(samples, o)
		}
	}
	samples = append(samples, r.Samples...)
	if len(samples) == 0 {
		samples = append(samples, "no obligations were generated")
	}
	seed := 0
	fmt.Sscanf(os.Getenv("VERIF_SEED"), "%d", &seed)
	cov := map[string]any{
		"explanation":         strings.Join(r.Explain, "\n"),
		"obligations":         nobl,
		"discharged":          ndis,
		"obligations_by_rule": ruleCounts,
		"counts":              r.Counts,
		"samples":             samples,
		"checker_cmd":         fmt.Sprintf("bin/moqlint -property %s -tier %s", r.Property, r.Tier),
		"trusted_base":        r.Trusted,
		"known_findings":      nknown,
		"exhaustive":          false,
		"evaluations":         nevals,
		"distinct_nontrivial": nobl,
		"rule":                "obligations are rule instances keyed by rule+construct (distinct by construction, each derived from a construct found in /repo's current source or in a skeleton expanded from it); evaluations counts every time an instance was evaluated (for skeleton rules: once per skeleton function it applies to)",
	}
	if r.Trusted == nil {
		cov["trusted_base"] = []string{}
	}
	ev := map[string]any{
		"property_id": r.Property,
		"tier":        r.Tier,
		"seed":        seed,
		"level":       r.Level,
		"coverage":    cov,
		"assumptions": r.Assume,
		"wall_s":      time.Since(r.start).Seconds(),
		"violations":  nviol,
	}
	if r.Assume == nil {
		ev["assumptions"] = []string{}
	}
	os.MkdirAll(filepath.Join(r.Root, "evidence"), 0o755)
	b, _ := json.MarshalIndent(ev, "", " ")
	if err := os.WriteFile(filepath.Join(r.Root, "evidence", r.Property+".json"), append(b, '\n'), 0o644); err != nil {
		fmt.Printf("cannot write evidence: %v\n", err)
		exit = 1
	}
	fmt.Printf("%s %s: %d obligations, %d discharged, %d violations, %d known findings, %.1fs\n", r.Property, r.Tier, nobl, ndis, nviol, nknown, time.Since(r.start).Seconds())
	return exit
}
