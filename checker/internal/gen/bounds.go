package gen

import (
	"fmt"
	"go/ast"
	"go/constant"
	"go/token"
	"go/types"
	"strings"

	"golang.org/x/tools/go/types/typeutil"

	"verif/checker/internal/cfgx"
	"verif/checker/internal/load"
)

// bounds is a small fact engine for one function: single-assignment locals
// are unfolded to their (pure) definition, lengths of slices made with a
// length are related to that length, loop variables get upper bounds from
// their loop. It answers "index < length" questions for index expressions
// and indexed go/types accessors by comparing canonical terms. It knows
// objects, not spellings: renaming a local or hoisting an operand into a
// variable does not change an answer.
type bounds struct {
	prog    *load.Program
	info    *types.Info
	fd      *ast.FuncDecl
	assigns map[types.Object][]ast.Expr // every value assigned (nil entry: not an expression of its own — ++, range binding, tuple assignment)
	anodes  map[types.Object][]ast.Node // the assigning statements, same order
	// bind: what the creator of this body bound its function-typed parameters to (fnflow.go)
	bind map[types.Object]fnRef
}

func newBounds(prog *load.Program, info *types.Info, fd *ast.FuncDecl) *bounds {
	b := &bounds{prog: prog, info: info, fd: fd, assigns: map[types.Object][]ast.Expr{}, anodes: map[types.Object][]ast.Node{}}
	add := func(l ast.Expr, r ast.Expr, at ast.Node) {
		id, ok := ast.Unparen(l).(*ast.Ident)
		if !ok || id.Name == "_" {
			return
		}
		o := info.ObjectOf(id)
		if o == nil {
			return
		}
		b.assigns[o] = append(b.assigns[o], r)
		b.anodes[o] = append(b.anodes[o], at)
	}
	ast.Inspect(fd, func(n ast.Node) bool {
		switch s := n.(type) {
		case *ast.AssignStmt:
			if len(s.Lhs) == len(s.Rhs) && (s.Tok == token.ASSIGN || s.Tok == token.DEFINE) {
				for i, l := range s.Lhs {
					add(l, s.Rhs[i], s)
				}
			} else {
				for _, l := range s.Lhs {
					add(l, nil, s)
				}
			}
		case *ast.IncDecStmt:
			add(s.X, nil, s)
		case *ast.RangeStmt:
			if s.Key != nil {
				add(s.Key, nil, s)
			}
			if s.Value != nil {
				add(s.Value, nil, s)
			}
		case *ast.ValueSpec:
			for i, nm := range s.Names {
				if len(s.Values) == len(s.Names) {
					add(nm, s.Values[i], s)
				} else {
					add(nm, nil, s)
				}
			}
		case *ast.UnaryExpr:
			if s.Op == token.AND { // address taken: anything may write it
				add(s.X, nil, s)
				add(s.X, nil, s)
			}
		}
		return true
	})
	return b
}

// singleDef returns the only value ever assigned to the local variable behind e.
func (b *bounds) singleDef(e ast.Expr) (ast.Expr, bool) {
	id, ok := ast.Unparen(e).(*ast.Ident)
	if !ok {
		return nil, false
	}
	o, ok := b.info.ObjectOf(id).(*types.Var)
	if !ok || o.IsField() || (o.Pkg() != nil && o.Parent() == o.Pkg().Scope()) {
		return nil, false
	}
	as := b.assigns[o]
	if len(as) == 2 && as[0] == nil && as[1] != nil {
		// `var x T` followed by one assignment that is a statement of the function body itself: read
		// after that statement the variable holds what was assigned
		if vs, ok := b.anodes[o][0].(*ast.ValueSpec); ok && len(vs.Values) == 0 {
			if st, ok := b.anodes[o][1].(*ast.AssignStmt); ok && st.Tok == token.ASSIGN && id.Pos() > st.End() {
				for _, top := range b.fd.Body.List {
					if top == ast.Stmt(st) {
						return as[1], true
					}
				}
			}
		}
	}
	if len(as) != 1 || as[0] == nil {
		return nil, false
	}
	return as[0], true
}

// defExpr: the only value the expression can hold: the single definition of a local, or the value a
// struct literal gives a field of a single-assignment local whose field is never assigned afterwards.
func (b *bounds) defExpr(x ast.Expr) (ast.Expr, bool) {
	x = ast.Unparen(x)
	if d, ok := b.singleDef(x); ok {
		return d, true
	}
	sel, ok := x.(*ast.SelectorExpr)
	if !ok {
		return nil, false
	}
	d, ok := b.singleDef(sel.X)
	if !ok {
		return nil, false
	}
	d = ast.Unparen(d)
	if u, ok := d.(*ast.UnaryExpr); ok && u.Op == token.AND {
		d = ast.Unparen(u.X)
	}
	cl, ok := d.(*ast.CompositeLit)
	if !ok {
		return nil, false
	}
	if b.assignedWithin(x, b.fd) {
		return nil, false
	}
	for _, el := range cl.Elts {
		if kv, ok := el.(*ast.KeyValueExpr); ok {
			if k, ok := kv.Key.(*ast.Ident); ok && k.Name == sel.Sel.Name {
				return kv.Value, true
			}
		}
	}
	return nil, false
}

// pure: evaluating the expression again gives the same value and has no effect
// (getters of go/types, len/min/max, string functions, selections, literals).
func (b *bounds) pure(e ast.Expr) bool {
	ok := true
	ast.Inspect(e, func(n ast.Node) bool {
		switch x := n.(type) {
		case *ast.FuncLit:
			ok = false
		case *ast.CallExpr:
			if tv, isT := b.info.Types[x.Fun]; isT && tv.IsType() {
				return true
			}
			if id, isID := ast.Unparen(x.Fun).(*ast.Ident); isID {
				if bi, isB := b.info.Uses[id].(*types.Builtin); isB {
					switch bi.Name() {
					case "len", "cap", "min", "max":
						return true
					}
					ok = false
					return true
				}
			}
			fn, _ := typeutil.Callee(b.info, x).(*types.Func)
			if fn == nil || fn.Pkg() == nil {
				ok = false
				return true
			}
			switch fn.Pkg().Path() {
			case "go/types", "strings", "path", "path/filepath", "strconv":
			default:
				if !(b.prog.IsMoqPkg(fn.Pkg()) && isMinFunc(b.prog, fn)) {
					ok = false
				}
			}
		}
		return ok
	})
	return ok
}

// isMinFunc: a moq function of two ints that returns the smaller one.
func isMinFunc(prog *load.Program, fn *types.Func) bool {
	d := prog.Decl(fn)
	if d == nil || d.Body == nil || d.Recv != nil || len(d.Body.List) != 2 {
		return false
	}
	sig := fn.Type().(*types.Signature)
	if sig.Params().Len() != 2 || sig.Results().Len() != 1 {
		return false
	}
	a, c := sig.Params().At(0).Name(), sig.Params().At(1).Name()
	is, ok := d.Body.List[0].(*ast.IfStmt)
	if !ok || is.Else != nil || is.Init != nil || len(is.Body.List) != 1 {
		return false
	}
	cond := types.ExprString(is.Cond)
	r1, ok1 := is.Body.List[0].(*ast.ReturnStmt)
	r2, ok2 := d.Body.List[1].(*ast.ReturnStmt)
	if !ok1 || !ok2 || len(r1.Results) != 1 || len(r2.Results) != 1 {
		return false
	}
	x, y := types.ExprString(r1.Results[0]), types.ExprString(r2.Results[0])
	switch cond {
	case a + " < " + c, a + " <= " + c, c + " > " + a, c + " >= " + a:
		return x == a && y == c
	case c + " < " + a, c + " <= " + a, a + " > " + c, a + " >= " + c:
		return x == c && y == a
	}
	return false
}

// unfold replaces a single-assignment local by its pure definition, repeatedly.
func (b *bounds) unfold(e ast.Expr) ast.Expr {
	for i := 0; i < 8; i++ {
		e = ast.Unparen(e)
		d, ok := b.singleDef(e)
		if !ok || !b.pure(d) {
			return e
		}
		e = d
	}
	return e
}

// norm is the canonical term of an expression: locals are identified by their
// declaration, single-assignment locals are replaced by their definition.
func (b *bounds) norm(e ast.Expr) string {
	e = b.unfold(e)
	switch x := e.(type) {
	case *ast.Ident:
		if o := b.info.ObjectOf(x); o != nil {
			if v, ok := o.(*types.Var); ok && !v.IsField() && !(v.Pkg() != nil && v.Parent() == v.Pkg().Scope()) {
				return fmt.Sprintf("%s@%d", x.Name, o.Pos())
			}
		}
		return x.Name
	case *ast.SelectorExpr:
		return b.norm(x.X) + "." + x.Sel.Name
	case *ast.CallExpr:
		var as []string
		for _, a := range x.Args {
			as = append(as, b.norm(a))
		}
		return b.norm(x.Fun) + "(" + strings.Join(as, ",") + ")"
	case *ast.BinaryExpr:
		return "(" + b.norm(x.X) + x.Op.String() + b.norm(x.Y) + ")"
	case *ast.UnaryExpr:
		return x.Op.String() + b.norm(x.X)
	case *ast.StarExpr:
		return "*" + b.norm(x.X)
	case *ast.IndexExpr:
		return b.norm(x.X) + "[" + b.norm(x.Index) + "]"
	case *ast.BasicLit:
		return x.Value
	}
	return types.ExprString(e)
}

func (b *bounds) constInt(e ast.Expr) (int64, bool) {
	tv, ok := b.info.Types[e]
	if !ok || tv.Value == nil || tv.Value.Kind() != constant.Int {
		return 0, false
	}
	return constant.Int64Val(tv.Value)
}

// assignedWithin reports whether the variable behind e is assigned inside the node.
func (b *bounds) assignedWithin(e ast.Expr, scope ast.Node) bool {
	id, ok := ast.Unparen(e).(*ast.Ident)
	if !ok {
		// a field path: any assignment to the same path text inside the scope
		target := types.ExprString(e)
		found := false
		ast.Inspect(scope, func(n ast.Node) bool {
			if as, ok := n.(*ast.AssignStmt); ok {
				for _, l := range as.Lhs {
					if types.ExprString(l) == target {
						found = true
					}
				}
			}
			return !found
		})
		return found
	}
	o := b.info.ObjectOf(id)
	for _, at := range b.anodes[o] {
		if within(scope, at) {
			return true
		}
	}
	return false
}

// lenTerms lists terms equal to len(x) (x itself must not be reassigned where the answer is used).
var iteratorCount = map[string]string{"Variables": "Len", "Methods": "NumMethods", "ExplicitMethods": "NumExplicitMethods", "EmbeddedTypes": "NumEmbeddeds", "Fields": "NumFields", "Terms": "Len", "TypeParams": "Len", "Types": "Len"}

// appendCount: the local slice starts empty and grows by exactly one element per iteration of one loop over a
// collection: after that loop its length is the size of the collection. Returns the terms of that size.
func (b *bounds) appendCount(x ast.Expr) []string {
	id, ok := ast.Unparen(x).(*ast.Ident)
	if !ok {
		return nil
	}
	v := b.info.ObjectOf(id)
	as, at := b.assigns[v], b.anodes[v]
	if len(as) != 2 {
		return nil
	}
	// the initial value: make(T, 0[, c]), nil, or a declaration without value
	emptyInit := func(e ast.Expr, node ast.Node) bool {
		if e == nil {
			_, isSpec := node.(*ast.ValueSpec)
			return isSpec
		}
		if call, ok := ast.Unparen(e).(*ast.CallExpr); ok {
			if fid, ok := ast.Unparen(call.Fun).(*ast.Ident); ok {
				if bi, ok := b.info.Uses[fid].(*types.Builtin); ok && bi.Name() == "make" && len(call.Args) >= 2 {
					c, ok := b.constInt(call.Args[1])
					return ok && c == 0
				}
			}
		}
		if nid, ok := ast.Unparen(e).(*ast.Ident); ok {
			_, isNil := b.info.Uses[nid].(*types.Nil)
			return isNil
		}
		return false
	}
	if !emptyInit(as[0], at[0]) || as[1] == nil {
		return nil
	}
	call, ok := ast.Unparen(as[1]).(*ast.CallExpr)
	if !ok || len(call.Args) != 2 || call.Ellipsis.IsValid() {
		return nil
	}
	fid, ok := ast.Unparen(call.Fun).(*ast.Ident)
	if !ok {
		return nil
	}
	if bi, ok := b.info.Uses[fid].(*types.Builtin); !ok || bi.Name() != "append" {
		return nil
	}
	if a0, ok := ast.Unparen(call.Args[0]).(*ast.Ident); !ok || b.info.ObjectOf(a0) != v {
		return nil
	}
	appendStmt, ok := at[1].(*ast.AssignStmt)
	if !ok {
		return nil
	}
	// the loop whose body holds the append as a top-level statement, with nothing that leaves an iteration early
	var terms []string
	ast.Inspect(b.fd, func(n ast.Node) bool {
		var body *ast.BlockStmt
		var size func() []string
		switch lp := n.(type) {
		case *ast.RangeStmt:
			body = lp.Body
			size = func() []string {
				t := b.info.TypeOf(lp.X)
				if t == nil {
					return nil
				}
				switch t.Underlying().(type) {
				case *types.Slice, *types.Array, *types.Map:
					if b.assignedWithin(lp.X, lp.Body) {
						return nil
					}
					return b.lenTerms(lp.X)
				case *types.Signature:
					// an iterator of go/types: recv.Variables() has recv.Len() elements
					if c, ok := ast.Unparen(lp.X).(*ast.CallExpr); ok {
						if sel, ok := ast.Unparen(c.Fun).(*ast.SelectorExpr); ok {
							if cnt, ok := iteratorCount[sel.Sel.Name]; ok {
								if fn, _ := typeutil.Callee(b.info, c).(*types.Func); fn != nil && fn.Pkg() != nil && fn.Pkg().Path() == "go/types" {
									return []string{b.norm(sel.X) + "." + cnt + "()"}
								}
							}
						}
					}
				}
				return nil
			}
		case *ast.ForStmt:
			body = lp.Body
			size = func() []string {
				if lp.Init == nil || lp.Cond == nil || lp.Post == nil {
					return nil
				}
				be, ok := ast.Unparen(lp.Cond).(*ast.BinaryExpr)
				if !ok || be.Op != token.LSS {
					return nil
				}
				cid, ok := ast.Unparen(be.X).(*ast.Ident)
				if !ok {
					return nil
				}
				cv := b.info.ObjectOf(cid)
				iv, has := b.initValue(lp.Init, cv)
				if !has || b.postStep(lp.Post, cv) != 1 || !b.onlyLoopAssigned(cv, lp) {
					return nil
				}
				if c, ok := b.constInt(iv); !ok || c != 0 {
					return nil
				}
				return b.lenAlternatives(be.Y)
			}
		default:
			return true
		}
		top := false
		for _, st := range body.List {
			if st == ast.Stmt(appendStmt) {
				top = true
			}
		}
		if !top {
			return true
		}
		early := false
		ast.Inspect(body, func(x ast.Node) bool {
			switch x.(type) {
			case *ast.FuncLit:
				return false
			case *ast.BranchStmt, *ast.ReturnStmt:
				early = true
			}
			return true
		})
		if !early {
			terms = size()
		}
		return true
	})
	return terms
}

func (b *bounds) lenTerms(x ast.Expr) []string {
	out := []string{"len(" + b.norm(x) + ")"}
	out = append(out, b.appendCount(x)...)
	if d, ok := b.defExpr(x); ok {
		if call, ok := ast.Unparen(d).(*ast.CallExpr); ok {
			if id, ok := ast.Unparen(call.Fun).(*ast.Ident); ok {
				if bi, ok := b.info.Uses[id].(*types.Builtin); ok && bi.Name() == "make" && len(call.Args) >= 2 {
					out = append(out, b.lenAlternatives(call.Args[1])...)
				}
			}
			out = append(out, b.helperLenTerms(call, 0)...)
		}
	} else if call, ok := ast.Unparen(x).(*ast.CallExpr); ok {
		out = append(out, b.helperLenTerms(call, 0)...)
	}
	return out
}

// helperLenTerms: the call is of a moq function that returns one element per element of one of its
// arguments (a slice it made with that argument's Len() and never re-slices): the length of the result is
// the Len() of that argument, and for an argument types.NewTuple(xs...) the length of xs.
func (b *bounds) helperLenTerms(call *ast.CallExpr, depth int) []string {
	fn, ok := typeutil.Callee(b.info, call).(*types.Func)
	if !ok || depth > 2 || !b.prog.IsMoqPkg(fn.Pkg()) {
		return nil
	}
	var out []string
	sig, _ := fn.Type().(*types.Signature)
	for i, a := range call.Args {
		if sig == nil || (sig.Variadic() && i >= sig.Params().Len()-1) || call.Ellipsis.IsValid() {
			break
		}
		if !resultLenIsParamLen(b.prog, fn, i) {
			continue
		}
		out = append(out, b.norm(a)+".Len()")
		if ac, ok := b.unfold(a).(*ast.CallExpr); ok && ac.Ellipsis.IsValid() && len(ac.Args) == 1 {
			if af, ok := typeutil.Callee(b.info, ac).(*types.Func); ok && af.FullName() == "go/types.NewTuple" {
				out = append(out, b.lenTerms(ac.Args[0])...)
			}
		}
	}
	return out
}

// lenAlternatives: the term of a length expression, and if it is itself len(y), the terms of len(y).
func (b *bounds) lenAlternatives(e ast.Expr) []string {
	out := []string{b.norm(e)}
	u := b.unfold(e)
	if call, ok := u.(*ast.CallExpr); ok && len(call.Args) == 1 {
		if id, ok := ast.Unparen(call.Fun).(*ast.Ident); ok {
			if bi, ok := b.info.Uses[id].(*types.Builtin); ok && bi.Name() == "len" {
				out = append(out, b.lenTerms(call.Args[0])...)
			}
		}
	}
	return out
}

// minOperands: the operands when e is a minimum: min(a, b), a moq function returning the smaller of two
// ints, or a local written `n := a; if n > b { n = b }` (read after that statement, never written again).
func (b *bounds) minOperands(e ast.Expr) ([]ast.Expr, bool) {
	if id, ok := ast.Unparen(e).(*ast.Ident); ok {
		if ops, ok := b.clampIf(id); ok {
			return ops, true
		}
	}
	call, ok := b.unfold(e).(*ast.CallExpr)
	if !ok {
		return nil, false
	}
	if id, ok := ast.Unparen(call.Fun).(*ast.Ident); ok {
		if bi, ok := b.info.Uses[id].(*types.Builtin); ok && bi.Name() == "min" {
			return call.Args, true
		}
	}
	if fn, ok := typeutil.Callee(b.info, call).(*types.Func); ok && b.prog.IsMoqPkg(fn.Pkg()) && isMinFunc(b.prog, fn) {
		return call.Args, true
	}
	return nil, false
}

func (b *bounds) clampIf(id *ast.Ident) ([]ast.Expr, bool) {
	v, _ := b.info.ObjectOf(id).(*types.Var)
	if v == nil || v.IsField() || len(b.assigns[v]) != 2 || b.assigns[v][0] == nil || b.assigns[v][1] == nil {
		return nil, false
	}
	def, ok0 := b.anodes[v][0].(*ast.AssignStmt)
	set, ok1 := b.anodes[v][1].(*ast.AssignStmt)
	if !ok0 || !ok1 || def.Tok != token.DEFINE || set.Tok != token.ASSIGN || len(set.Lhs) != 1 {
		return nil, false
	}
	var is *ast.IfStmt
	var holder *ast.BlockStmt
	for _, enc := range enclosing(b.fd.Body, set) {
		if i, ok := enc.(*ast.IfStmt); ok && i.Else == nil && i.Init == nil && len(i.Body.List) == 1 && i.Body.List[0] == ast.Stmt(set) {
			is = i
		}
	}
	if is == nil {
		return nil, false
	}
	ast.Inspect(b.fd.Body, func(n ast.Node) bool {
		if bl, ok := n.(*ast.BlockStmt); ok {
			for _, st := range bl.List {
				if st == ast.Stmt(is) {
					holder = bl
				}
			}
		}
		return true
	})
	// the definition precedes the statement in the same block, the read follows it inside that block
	if holder == nil || !within(holder, def) || !within(holder, id) || def.End() > is.Pos() || id.Pos() < is.End() {
		return nil, false
	}
	direct := false
	for _, st := range holder.List {
		if st == ast.Stmt(def) {
			direct = true
		}
	}
	if !direct {
		return nil, false
	}
	cb, ok := ast.Unparen(is.Cond).(*ast.BinaryExpr)
	if !ok {
		return nil, false
	}
	isV := func(e ast.Expr) bool {
		i, ok := ast.Unparen(e).(*ast.Ident)
		return ok && b.info.ObjectOf(i) == v
	}
	limit := set.Rhs[0]
	switch {
	case (cb.Op == token.GTR || cb.Op == token.GEQ) && isV(cb.X) && b.norm(cb.Y) == b.norm(limit):
	case (cb.Op == token.LSS || cb.Op == token.LEQ) && isV(cb.Y) && b.norm(cb.X) == b.norm(limit):
	default:
		return nil, false
	}
	return []ast.Expr{b.assigns[v][0], limit}, true
}

// upperTerms: terms T with v < T for every value of e ≤ the given expression: e itself,
// both operands of a min, the minuend of `T - c` (c ≥ 0).
func (b *bounds) upperTerms(e ast.Expr) []string {
	out := b.lenAlternatives(e)
	if ops, ok := b.minOperands(e); ok {
		for _, a := range ops {
			out = append(out, b.upperTerms(a)...)
		}
		return out
	}
	u := b.unfold(e)
	switch x := u.(type) {
	case *ast.BinaryExpr:
		switch x.Op {
		case token.SUB:
			if c, ok := b.constInt(x.Y); ok && c >= 0 {
				out = append(out, b.upperTerms(x.X)...)
			}
		case token.QUO:
			// T / c <= T for a length T and c >= 1
			if c, ok := b.constInt(x.Y); ok && c >= 1 {
				if _, isLen := b.lenOperand(x.X); isLen {
					out = append(out, b.upperTerms(x.X)...)
				}
			}
		}
	}
	return out
}

// lenOperand: the expression is len(y) (after unfolding).
func (b *bounds) lenOperand(e ast.Expr) (ast.Expr, bool) {
	if call, ok := b.unfold(e).(*ast.CallExpr); ok && len(call.Args) == 1 {
		if id, ok := ast.Unparen(call.Fun).(*ast.Ident); ok {
			if bi, ok := b.info.Uses[id].(*types.Builtin); ok && bi.Name() == "len" {
				return call.Args[0], true
			}
		}
	}
	return nil, false
}

// mirrorIndex: the index is len(x)-1-i (in any association) with 0 <= i < len(x) by a loop bound.
func (b *bounds) mirrorIndex(x *ast.IndexExpr, loops []ast.Stmt) (bool, string) {
	e := b.unfold(x.Index)
	// collect the terms of a chain of subtractions: first - r1 - r2 ...
	var first ast.Expr
	var rest []ast.Expr
	for {
		be, ok := ast.Unparen(e).(*ast.BinaryExpr)
		if !ok || be.Op != token.SUB {
			first = ast.Unparen(e)
			break
		}
		rest = append(rest, be.Y)
		e = be.X
	}
	lx, ok := b.lenOperand(first)
	if !ok || b.norm(lx) != b.norm(x.X) || len(rest) != 2 {
		return false, ""
	}
	var one, iv ast.Expr
	for _, r := range rest {
		if c, ok := b.constInt(r); ok && c == 1 {
			one = r
		} else {
			iv = r
		}
	}
	if one == nil || iv == nil {
		return false, ""
	}
	id, ok := ast.Unparen(iv).(*ast.Ident)
	if !ok {
		return false, ""
	}
	if lv, ok := b.loopBound(b.info.ObjectOf(id), loops); ok && lv.nonneg {
		if _, ok := intersects(lv.upper, b.lenTerms(x.X)); ok && !b.assignedWithin(x.X, lv.loop) {
			return true, "the index is len(x)-1-" + id.Name + " with 0 <= " + id.Name + " < len(x) kept by the loop"
		}
	}
	return false, ""
}

type loopVar struct {
	upper  []string // v < each of these
	nonneg bool
	loop   ast.Stmt
}

// loopBound finds what the enclosing loops say about the variable.
func (b *bounds) loopBound(v types.Object, loops []ast.Stmt) (loopVar, bool) {
	for li := len(loops) - 1; li >= 0; li-- {
		switch lp := loops[li].(type) {
		case *ast.RangeStmt:
			kid, ok := lp.Key.(*ast.Ident)
			if !ok || b.info.ObjectOf(kid) != v || lp.Tok != token.DEFINE {
				continue
			}
			if len(b.assigns[v]) != 1 { // only the range binding
				continue
			}
			t := b.info.TypeOf(lp.X)
			if t == nil {
				continue
			}
			switch u := t.Underlying().(type) {
			case *types.Slice, *types.Array:
				if b.assignedWithin(lp.X, lp.Body) {
					continue
				}
				return loopVar{upper: b.lenTerms(lp.X), nonneg: true, loop: lp}, true
			case *types.Pointer:
				if _, isArr := u.Elem().Underlying().(*types.Array); isArr {
					return loopVar{upper: b.lenTerms(lp.X), nonneg: true, loop: lp}, true
				}
			case *types.Basic:
				if u.Info()&types.IsString != 0 {
					return loopVar{upper: b.lenTerms(lp.X), nonneg: true, loop: lp}, true
				}
				if u.Info()&types.IsInteger != 0 {
					return loopVar{upper: b.upperTerms(lp.X), nonneg: true, loop: lp}, true
				}
			}
		case *ast.ForStmt:
			if lp.Cond == nil || lp.Init == nil || lp.Post == nil {
				continue
			}
			// every assignment of v is in Init or Post
			okAssign := len(b.anodes[v]) > 0
			for _, at := range b.anodes[v] {
				if !(within(lp.Init, at) || within(lp.Post, at)) {
					okAssign = false
				}
			}
			if !okAssign {
				continue
			}
			initV, hasInit := b.initValue(lp.Init, v)
			step := b.postStep(lp.Post, v)
			if !hasInit || step == 0 {
				continue
			}
			for _, c := range conjuncts(lp.Cond) {
				be, ok := ast.Unparen(c).(*ast.BinaryExpr)
				if !ok {
					continue
				}
				var lo, hi ast.Expr // lo < hi
				switch be.Op {
				case token.LSS:
					lo, hi = be.X, be.Y
				case token.GTR:
					lo, hi = be.Y, be.X
				case token.GEQ, token.LEQ:
					// v >= c with v counting down from its initial value
					ve, ce := be.X, be.Y
					if be.Op == token.LEQ {
						ve, ce = be.Y, be.X
					}
					if id, ok := ast.Unparen(ve).(*ast.Ident); ok && b.info.ObjectOf(id) == v && step < 0 {
						if c0, ok := b.constInt(ce); ok && c0 >= 0 {
							if up, ok := b.belowInit(initV); ok {
								return loopVar{upper: up, nonneg: true, loop: lp}, true
							}
						}
					}
					continue
				default:
					continue
				}
				loID, loOK := ast.Unparen(lo).(*ast.Ident)
				hiID, hiOK := ast.Unparen(hi).(*ast.Ident)
				switch {
				case hiOK && b.info.ObjectOf(hiID) == v && step < 0 && !loOK:
					// v counts down from its initial value while v > c (c >= -1): 0 <= v <= init
					if c0, ok := b.constInt(lo); ok && c0 >= -1 {
						if up, ok := b.belowInit(initV); ok {
							return loopVar{upper: up, nonneg: true, loop: lp}, true
						}
					}
				case loOK && b.info.ObjectOf(loID) == v && step > 0:
					// v counts up from a non-negative constant and v < hi holds in the body
					if c0, ok := b.constInt(initV); ok && c0 >= 0 {
						up := b.upperTerms(hi)
						// hi may be a second loop variable that only counts down from its initial value
						if hiOK {
							if w := b.info.ObjectOf(hiID); w != nil && w != v {
								if wi, ok := b.initValue(lp.Init, w); ok && b.postStep(lp.Post, w) < 0 && b.onlyLoopAssigned(w, lp) {
									up = append(up, b.upperTerms(wi)...)
								}
							}
						}
						return loopVar{upper: up, nonneg: true, loop: lp}, true
					}
				case hiOK && b.info.ObjectOf(hiID) == v && step < 0:
					// v counts down from its initial value and stays above a counter that starts at ≥ 0 and counts up
					if loOK {
						w := b.info.ObjectOf(loID)
						if wi, ok := b.initValue(lp.Init, w); ok && b.postStep(lp.Post, w) > 0 && b.onlyLoopAssigned(w, lp) {
							if c0, ok := b.constInt(wi); ok && c0 >= 0 {
								// v <= init, so v < init+1: usable when init is T - c with c >= 1
								var up []string
								if ib, ok := b.unfold(initV).(*ast.BinaryExpr); ok && ib.Op == token.SUB {
									if c1, ok := b.constInt(ib.Y); ok && c1 >= 1 {
										up = b.upperTerms(ib.X)
									}
								}
								return loopVar{upper: up, nonneg: true, loop: lp}, true
							}
						}
					}
				}
			}
		}
	}
	return loopVar{}, false
}

// belowInit: terms T with init < T, for init = T' - c (c >= 1) and T' <= T.
func (b *bounds) belowInit(init ast.Expr) ([]string, bool) {
	if ib, ok := b.unfold(init).(*ast.BinaryExpr); ok && ib.Op == token.SUB {
		if c1, ok := b.constInt(ib.Y); ok && c1 >= 1 {
			return b.upperTerms(ib.X), true
		}
	}
	return nil, false
}

func (b *bounds) onlyLoopAssigned(v types.Object, lp *ast.ForStmt) bool {
	if len(b.anodes[v]) == 0 {
		return false
	}
	for _, at := range b.anodes[v] {
		if !(within(lp.Init, at) || within(lp.Post, at)) {
			return false
		}
	}
	return true
}

func conjuncts(e ast.Expr) []ast.Expr {
	e = ast.Unparen(e)
	if be, ok := e.(*ast.BinaryExpr); ok && be.Op == token.LAND {
		return append(conjuncts(be.X), conjuncts(be.Y)...)
	}
	return []ast.Expr{e}
}

// initValue: the value the loop's init statement gives the variable.
func (b *bounds) initValue(init ast.Stmt, v types.Object) (ast.Expr, bool) {
	as, ok := init.(*ast.AssignStmt)
	if !ok || len(as.Lhs) != len(as.Rhs) {
		return nil, false
	}
	for i, l := range as.Lhs {
		if id, ok := ast.Unparen(l).(*ast.Ident); ok && b.info.ObjectOf(id) == v {
			return as.Rhs[i], true
		}
	}
	return nil, false
}

// postStep: +1 / -1 (any positive / negative constant step) or 0 when the post statement does something else to v.
func (b *bounds) postStep(post ast.Stmt, v types.Object) int {
	isV := func(e ast.Expr) bool {
		id, ok := ast.Unparen(e).(*ast.Ident)
		return ok && b.info.ObjectOf(id) == v
	}
	switch s := post.(type) {
	case *ast.IncDecStmt:
		if isV(s.X) {
			if s.Tok == token.INC {
				return 1
			}
			return -1
		}
	case *ast.AssignStmt:
		if len(s.Lhs) != len(s.Rhs) {
			return 0
		}
		for i, l := range s.Lhs {
			if !isV(l) {
				continue
			}
			switch s.Tok {
			case token.ADD_ASSIGN, token.SUB_ASSIGN:
				if c, ok := b.constInt(s.Rhs[i]); ok && c > 0 {
					if s.Tok == token.ADD_ASSIGN {
						return 1
					}
					return -1
				}
			case token.ASSIGN:
				if be, ok := ast.Unparen(s.Rhs[i]).(*ast.BinaryExpr); ok && isV(be.X) {
					if c, ok := b.constInt(be.Y); ok && c > 0 {
						switch be.Op {
						case token.ADD:
							return 1
						case token.SUB:
							return -1
						}
					}
				}
			}
		}
	}
	return 0
}

func intersects(a, c []string) (string, bool) {
	set := map[string]bool{}
	for _, x := range a {
		set[x] = true
	}
	for _, x := range c {
		if set[x] {
			return x, true
		}
	}
	return "", false
}

// indexOK: x.X[x.Index] is in range by a loop bound, a counting argument or a search result.
func (b *bounds) indexOK(f *cfgx.Func, x *ast.IndexExpr, loops []ast.Stmt) (bool, string) {
	if ok, why := b.mirrorIndex(x, loops); ok {
		return true, why
	}
	idx := ast.Unparen(x.Index)
	// a constant index below the length the value is known to have at least
	if c, ok := b.constInt(idx); ok && c >= 0 {
		if n, why := b.minLen(x.X); n > c {
			return true, why
		}
		// the indexed value is a local standing for an expression whose length a guard tests
		// (errs := pkgs[0].Errors under `case len(pkgs[0].Errors) > 1`)
		if d, ok := b.defExpr(x.X); ok {
			target := types.ExprString(ast.Unparen(d))
			if !reachable(f, x, lenOracleIn(b.info, b.fd, target, c)) {
				return true, fmt.Sprintf("unreachable when len(%s) <= %d, and %s is that value (dominating length guard)", target, c, types.ExprString(x.X))
			}
		}
		return false, ""
	}
	// x[len(x)-c] is handled by lastElemOK; here: variables
	id, ok := idx.(*ast.Ident)
	if !ok {
		return false, ""
	}
	v := b.info.ObjectOf(id)
	if v == nil {
		return false, ""
	}
	want := b.lenTerms(x.X)
	if lv, ok := b.loopBound(v, loops); ok && lv.nonneg {
		if t, ok := intersects(lv.upper, want); ok && !b.assignedWithin(x.X, lv.loop) {
			return true, "the loop keeps 0 <= " + id.Name + " < " + t + ", the length of the indexed value"
		}
	}
	if ok, why := b.counterFill(x, v, loops); ok {
		return true, why
	}
	if ok, why := b.rangeGuarded(f, x, v); ok {
		return true, why
	}
	if ok, why := b.searchResult(f, x, v); ok {
		return true, why
	}
	if ok, why := b.sortLess(x, v); ok {
		return true, why
	}
	if ok, why := b.clampedIndex(x, v); ok {
		return true, why
	}
	return false, ""
}

// clampedIndex: r.F[v] after `if v > r.g() { v = r.g() }`, the only write of v, where the moq getter g is
// `return len(r.F) - c` with 1 <= c <= the minimum length of the field F, and v was not negative before.
func (b *bounds) clampedIndex(x *ast.IndexExpr, vo types.Object) (bool, string) {
	v, _ := vo.(*types.Var)
	sel, ok := ast.Unparen(x.X).(*ast.SelectorExpr)
	if v == nil || !ok {
		return false, ""
	}
	fld, _ := b.info.ObjectOf(sel.Sel).(*types.Var)
	if fld == nil || !fld.IsField() {
		return false, ""
	}
	// the clamp
	var set *ast.AssignStmt
	nset := 0
	for i, at := range b.anodes[v] {
		as, ok := at.(*ast.AssignStmt)
		if ok && as.Tok == token.DEFINE && i == 0 {
			continue // the definition of a local
		}
		if !ok || as.Tok != token.ASSIGN || len(as.Lhs) != 1 || len(as.Rhs) != 1 {
			return false, ""
		}
		set = as
		nset++
	}
	if nset != 1 {
		return false, ""
	}
	var is *ast.IfStmt
	ast.Inspect(b.fd.Body, func(n ast.Node) bool {
		blk, ok := n.(*ast.BlockStmt)
		if !ok {
			return true
		}
		for _, st := range blk.List {
			i, ok := st.(*ast.IfStmt)
			if ok && i.Else == nil && i.Init == nil && len(i.Body.List) == 1 && i.Body.List[0] == ast.Stmt(set) && within(blk, x) && i.End() <= x.Pos() {
				is = i
			}
		}
		return true
	})
	if is == nil {
		return false, ""
	}
	limit := set.Rhs[0]
	cb, ok := ast.Unparen(is.Cond).(*ast.BinaryExpr)
	if !ok {
		return false, ""
	}
	isV := func(e ast.Expr) bool {
		i, ok := ast.Unparen(e).(*ast.Ident)
		return ok && b.info.ObjectOf(i) == v
	}
	switch {
	case (cb.Op == token.GTR || cb.Op == token.GEQ) && isV(cb.X) && b.norm(cb.Y) == b.norm(limit):
	case (cb.Op == token.LSS || cb.Op == token.LEQ) && isV(cb.Y) && b.norm(cb.X) == b.norm(limit):
	default:
		return false, ""
	}
	// the limit: recv.g() with g returning len(recv.F) - c
	call, ok := ast.Unparen(limit).(*ast.CallExpr)
	if !ok || len(call.Args) != 0 {
		return false, ""
	}
	gsel, ok := ast.Unparen(call.Fun).(*ast.SelectorExpr)
	if !ok || b.norm(gsel.X) != b.norm(sel.X) || b.assignedWithin(sel.X, b.fd) {
		return false, ""
	}
	g, _ := typeutil.Callee(b.info, call).(*types.Func)
	if g == nil || !b.prog.IsMoqPkg(g.Pkg()) {
		return false, ""
	}
	d := b.prog.Decl(g.Origin())
	if d == nil || d.Body == nil || d.Recv == nil || len(d.Recv.List) != 1 || len(d.Recv.List[0].Names) != 1 || len(d.Body.List) != 1 {
		return false, ""
	}
	ret, ok := d.Body.List[0].(*ast.ReturnStmt)
	if !ok || len(ret.Results) != 1 {
		return false, ""
	}
	ginfo := b.prog.Info(g.Pkg())
	sub, ok := ast.Unparen(ret.Results[0]).(*ast.BinaryExpr)
	if !ok || sub.Op != token.SUB {
		return false, ""
	}
	ctv := ginfo.Types[sub.Y]
	if ctv.Value == nil {
		return false, ""
	}
	c, isInt := constantInt64(ctv)
	if !isInt || c < 1 {
		return false, ""
	}
	lc, ok := ast.Unparen(sub.X).(*ast.CallExpr)
	if !ok || len(lc.Args) != 1 {
		return false, ""
	}
	if id, ok := ast.Unparen(lc.Fun).(*ast.Ident); !ok || id.Name != "len" {
		return false, ""
	} else if _, isB := ginfo.Uses[id].(*types.Builtin); !isB {
		return false, ""
	}
	fs, ok := ast.Unparen(lc.Args[0]).(*ast.SelectorExpr)
	if !ok || ginfo.ObjectOf(fs.Sel) != types.Object(fld) {
		return false, ""
	}
	if rid, ok := ast.Unparen(fs.X).(*ast.Ident); !ok || ginfo.ObjectOf(rid) != ginfo.Defs[d.Recv.List[0].Names[0]] {
		return false, ""
	}
	// never negative: the incoming value, and the limit (the field holds at least c elements)
	n, why := fieldMinLen(b.prog, fld)
	if n < c {
		return false, ""
	}
	if b.isParam(v) {
		if !b.paramNonNeg(v, 0) {
			return false, ""
		}
	} else if len(b.assigns[v]) < 1 || b.assigns[v][0] == nil || !b.nonNeg(b.assigns[v][0], 0) {
		return false, ""
	}
	return true, fmt.Sprintf("%s is clamped to %s, which is len(%s) - %d, just before; it was not negative before, and %s", v.Name(), types.ExprString(limit), types.ExprString(x.X), c, why)
}

// fieldMinLen: a lower bound of the length of a slice-typed field of a moq struct that holds in every
// value of the struct the generator can make: every composite literal of the struct sets the field to a
// value of at least that length, nothing else ever writes the field or takes its address, and no zero value
// of the struct is made (new(T), a variable or a field of type T without a literal).
func fieldMinLen(prog *load.Program, fld *types.Var) (int64, string) {
	var owner *types.Named
	for _, pk := range prog.MoqPackages() {
		sc := pk.Types.Scope()
		for _, nm := range sc.Names() {
			tn, ok := sc.Lookup(nm).(*types.TypeName)
			if !ok {
				continue
			}
			if st, ok := tn.Type().Underlying().(*types.Struct); ok {
				for i := 0; i < st.NumFields(); i++ {
					if st.Field(i) == fld {
						owner, _ = tn.Type().(*types.Named)
					}
				}
			}
		}
	}
	if owner == nil {
		return 0, ""
	}
	isOwner := func(t types.Type) bool {
		if t == nil {
			return false
		}
		n, ok := types.Unalias(t).(*types.Named)
		return ok && n.Origin() == owner.Origin()
	}
	min := int64(-1)
	bad := false
	nlit := 0
	funcsOf(prog, func(pkgPath string, info *types.Info, fd *ast.FuncDecl, fn *types.Func) {
		var fb *bounds
		ast.Inspect(fd, func(n ast.Node) bool {
			switch x := n.(type) {
			case *ast.CompositeLit:
				if !isOwner(info.TypeOf(x)) {
					return true
				}
				nlit++
				var val ast.Expr
				for _, el := range x.Elts {
					kv, ok := el.(*ast.KeyValueExpr)
					if !ok {
						bad = true
						continue
					}
					if k, ok := kv.Key.(*ast.Ident); ok && info.ObjectOf(k) == types.Object(fld) {
						val = kv.Value
					}
				}
				if val == nil {
					bad = true
					return true
				}
				if fb == nil {
					fb = newBounds(prog, info, fd)
				}
				n, _ := fb.minLen(val)
				if min < 0 || n < min {
					min = n
				}
			case *ast.AssignStmt:
				for _, l := range x.Lhs {
					e := ast.Unparen(l)
					if sl, ok := e.(*ast.SelectorExpr); ok && info.ObjectOf(sl.Sel) == types.Object(fld) {
						bad = true
					}
				}
			case *ast.UnaryExpr:
				if sl, ok := ast.Unparen(x.X).(*ast.SelectorExpr); ok && x.Op == token.AND && info.ObjectOf(sl.Sel) == types.Object(fld) {
					bad = true
				}
			case *ast.CallExpr:
				if id, ok := ast.Unparen(x.Fun).(*ast.Ident); ok && len(x.Args) >= 1 {
					if bi, isB := info.Uses[id].(*types.Builtin); isB && (bi.Name() == "new" || bi.Name() == "make") {
						t := info.TypeOf(x.Args[0])
						if isOwner(t) {
							bad = true
						}
						if t != nil {
							switch u := t.Underlying().(type) {
							case *types.Slice:
								bad = bad || isOwner(u.Elem())
							case *types.Map:
								bad = bad || isOwner(u.Elem())
							}
						}
					}
				}
			case *ast.ValueSpec:
				if x.Type != nil && len(x.Values) == 0 && isOwner(info.TypeOf(x.Type)) {
					bad = true
				}
			}
			return true
		})
	})
	if bad || nlit == 0 || min < 0 {
		return 0, ""
	}
	return min, fmt.Sprintf("every %s the generator makes comes from a composite literal (%d) that gives %s at least %d element(s), and nothing else writes that field", owner.Obj().Name(), nlit, fld.Name(), min)
}

// counterFill: dst := make(T, len(src)); n := 0; for ... range src { dst[n] = ...; n++ }.
func (b *bounds) counterFill(x *ast.IndexExpr, v types.Object, loops []ast.Stmt) (bool, string) {
	as, at := b.assigns[v], b.anodes[v]
	if len(as) != 2 || as[0] == nil || as[1] != nil {
		return false, ""
	}
	if c, ok := b.constInt(as[0]); !ok || c != 0 {
		return false, ""
	}
	inc, ok := at[1].(*ast.IncDecStmt)
	if !ok || inc.Tok != token.INC {
		return false, ""
	}
	for li := len(loops) - 1; li >= 0; li-- {
		lp, ok := loops[li].(*ast.RangeStmt)
		if !ok {
			continue
		}
		// the increment is a top-level statement of the loop body, after the statement holding the site
		incAt, siteAt := -1, -1
		for i, s := range lp.Body.List {
			if s == ast.Stmt(inc) {
				incAt = i
			}
			if within(s, x) {
				siteAt = i
			}
		}
		if incAt < 0 || siteAt < 0 || siteAt >= incAt {
			continue
		}
		if !(at[0].End() <= lp.Pos()) {
			continue
		}
		// the ranged value is not changed inside the loop
		changed := b.assignedWithin(lp.X, lp.Body)
		target := types.ExprString(lp.X)
		ast.Inspect(lp.Body, func(n ast.Node) bool {
			switch s := n.(type) {
			case *ast.AssignStmt:
				for _, l := range s.Lhs {
					if ix, ok := ast.Unparen(l).(*ast.IndexExpr); ok && types.ExprString(ix.X) == target {
						changed = true
					}
				}
			case *ast.CallExpr:
				if id, ok := ast.Unparen(s.Fun).(*ast.Ident); ok && (id.Name == "delete" || id.Name == "clear") && len(s.Args) > 0 && types.ExprString(s.Args[0]) == target {
					changed = true
				}
			}
			return true
		})
		if changed {
			continue
		}
		if _, ok := intersects(b.lenTerms(x.X), []string{"len(" + b.norm(lp.X) + ")"}); ok && !b.assignedWithin(x.X, lp) {
			return true, "the counter is the number of completed iterations over " + target + ", and the slice was made with len(" + target + ")"
		}
	}
	return false, ""
}

// searchCall: the expression is a search for a position in a slice (slices.Index / IndexFunc, or a moq
// method that returns exactly such a search on a field of its receiver); it returns the term of the slice.
func (b *bounds) searchCall(e ast.Expr) (string, bool) {
	call, ok := ast.Unparen(e).(*ast.CallExpr)
	if !ok {
		return "", false
	}
	fn, _ := typeutil.Callee(b.info, call).(*types.Func)
	if fn == nil || fn.Pkg() == nil {
		return "", false
	}
	if fn.Pkg().Path() == "slices" && (fn.Name() == "Index" || fn.Name() == "IndexFunc") && len(call.Args) == 2 {
		return b.norm(call.Args[0]), true
	}
	if !b.prog.IsMoqPkg(fn.Pkg()) {
		return "", false
	}
	d := b.prog.Decl(fn.Origin())
	sel, isSel := ast.Unparen(call.Fun).(*ast.SelectorExpr)
	if d == nil || d.Body == nil || d.Recv == nil || len(d.Recv.List) != 1 || len(d.Recv.List[0].Names) != 1 || !isSel {
		return "", false
	}
	// a hand-written search: every return gives a negative constant or the key of a range over recv.field
	if field, ok := loopSearchField(b.prog.Info(fn.Pkg()), d); ok {
		return b.norm(sel.X) + "." + field, true
	}
	if len(d.Body.List) != 1 {
		return "", false
	}
	rs, ok := d.Body.List[0].(*ast.ReturnStmt)
	if !ok || len(rs.Results) != 1 {
		return "", false
	}
	cinfo := b.prog.Info(fn.Pkg())
	inner, ok := ast.Unparen(rs.Results[0]).(*ast.CallExpr)
	if !ok || len(inner.Args) != 2 {
		return "", false
	}
	ifn, _ := typeutil.Callee(cinfo, inner).(*types.Func)
	if ifn == nil || ifn.Pkg() == nil || ifn.Pkg().Path() != "slices" || (ifn.Name() != "Index" && ifn.Name() != "IndexFunc") {
		return "", false
	}
	// the searched slice is recv.field
	fs, ok := ast.Unparen(inner.Args[0]).(*ast.SelectorExpr)
	if !ok {
		return "", false
	}
	rid, ok := ast.Unparen(fs.X).(*ast.Ident)
	if !ok || rid.Name != d.Recv.List[0].Names[0].Name {
		return "", false
	}
	return b.norm(sel.X) + "." + fs.Sel.Name, true
}

// intOracle decides comparisons of the variable with constants under the assumption v == val.
func intOracle(info *types.Info, v types.Object, val int64) func(ast.Expr) (bool, bool) {
	var ev func(e ast.Expr) (bool, bool)
	ev = func(e ast.Expr) (bool, bool) {
		e = ast.Unparen(e)
		switch x := e.(type) {
		case *ast.UnaryExpr:
			if x.Op == token.NOT {
				t, f := ev(x.X)
				return f, t
			}
		case *ast.BinaryExpr:
			switch x.Op {
			case token.LAND:
				lt, lf := ev(x.X)
				rt, rf := ev(x.Y)
				return lt && rt, lf || (lt && rf)
			case token.LOR:
				lt, lf := ev(x.X)
				rt, rf := ev(x.Y)
				return lt || (lf && rt), lf && rf
			}
			isV := func(e ast.Expr) bool {
				id, ok := ast.Unparen(e).(*ast.Ident)
				return ok && info.ObjectOf(id) == v
			}
			cst := func(e ast.Expr) (int64, bool) {
				tv := info.Types[e]
				if tv.Value == nil || tv.Value.Kind() != constant.Int {
					return 0, false
				}
				return constant.Int64Val(tv.Value)
			}
			var l, r int64
			switch {
			case isV(x.X):
				c, ok := cst(x.Y)
				if !ok {
					return true, true
				}
				l, r = val, c
			case isV(x.Y):
				c, ok := cst(x.X)
				if !ok {
					return true, true
				}
				l, r = c, val
			default:
				return true, true
			}
			var res bool
			switch x.Op {
			case token.LSS:
				res = l < r
			case token.LEQ:
				res = l <= r
			case token.GTR:
				res = l > r
			case token.GEQ:
				res = l >= r
			case token.EQL:
				res = l == r
			case token.NEQ:
				res = l != r
			default:
				return true, true
			}
			return res, !res
		}
		return true, true
	}
	return ev
}

// searchResult: i is the result of a search in the indexed slice and the site is unreachable when i == -1.
func (b *bounds) searchResult(f *cfgx.Func, x *ast.IndexExpr, v types.Object) (bool, string) {
	as := b.assigns[v]
	if len(as) != 1 || as[0] == nil {
		return false, ""
	}
	searched, ok := b.searchCall(as[0])
	if !ok || searched != b.norm(x.X) {
		return false, ""
	}
	if reachable(f, x, intOracle(b.info, v, -1)) {
		return false, ""
	}
	return true, "the index is the position a search found in the same slice, and the site is unreachable when nothing was found (-1)"
}

// sortLess: inside the less function handed to sort.Slice(x, less), the indices index x.
func (b *bounds) sortLess(x *ast.IndexExpr, v types.Object) (bool, string) {
	var ok bool
	ast.Inspect(b.fd, func(n ast.Node) bool {
		call, isCall := n.(*ast.CallExpr)
		if !isCall || len(call.Args) != 2 {
			return true
		}
		fn, _ := typeutil.Callee(b.info, call).(*types.Func)
		if fn == nil || fn.Pkg() == nil || fn.Pkg().Path() != "sort" || (fn.Name() != "Slice" && fn.Name() != "SliceStable") {
			return true
		}
		lit, isLit := ast.Unparen(call.Args[1]).(*ast.FuncLit)
		if !isLit || !within(lit, x) || b.norm(call.Args[0]) != b.norm(x.X) {
			return true
		}
		for _, fl := range lit.Type.Params.List {
			for _, nm := range fl.Names {
				if b.info.Defs[nm] == v {
					ok = true
				}
			}
		}
		return true
	})
	if ok {
		return true, "indices handed to the less function by sort.Slice are in range of the sorted slice"
	}
	return false, ""
}

// accessorOK: recv.At(i) and the like with i below recv.Len() by a loop bound.
func (b *bounds) accessorOK(call *ast.CallExpr, sel *ast.SelectorExpr, bound string, loops []ast.Stmt) (bool, string) {
	want := b.norm(sel.X) + "." + bound + "()"
	if c, ok := b.constInt(call.Args[0]); ok && c == 0 {
		// go/types invariant: a union has at least one term
		if t := b.info.TypeOf(sel.X); t != nil && sel.Sel.Name == "Term" {
			if p, ok := t.(*types.Pointer); ok {
				if n, ok := p.Elem().(*types.Named); ok && n.Obj().Pkg() != nil && n.Obj().Pkg().Path() == "go/types" && n.Obj().Name() == "Union" {
					return true, "go/types invariant: a union has at least one term"
				}
			}
		}
		return false, ""
	}
	id, ok := ast.Unparen(call.Args[0]).(*ast.Ident)
	if !ok {
		return false, ""
	}
	v := b.info.ObjectOf(id)
	if lv, ok := b.loopBound(v, loops); ok && lv.nonneg {
		for _, u := range lv.upper {
			if u == want {
				return true, "the loop keeps 0 <= " + id.Name + " < " + want
			}
		}
	}
	if ok, why := b.callbackIndex(call, v, want); ok {
		return true, why
	}
	return false, ""
}

// callbackIndex: the index is the parameter of a function literal that is handed, together with the
// matching count, to a moq helper which calls it only with 0 <= i < count (collect(n, func(i int) T {..})).
func (b *bounds) callbackIndex(site ast.Node, v types.Object, want string) (bool, string) {
	var lit *ast.FuncLit
	pi := -1
	ast.Inspect(b.fd, func(n ast.Node) bool {
		fl, ok := n.(*ast.FuncLit)
		if !ok || !within(fl, site) || fl.Type.Params == nil {
			return true
		}
		k := 0
		for _, f := range fl.Type.Params.List {
			for _, nm := range f.Names {
				if b.info.Defs[nm] == v {
					lit, pi = fl, k
				}
				k++
			}
		}
		return true
	})
	if lit == nil || pi != 0 || len(b.assigns[v]) != 0 {
		return false, ""
	}
	var outer *ast.CallExpr
	q := -1
	ast.Inspect(b.fd, func(n ast.Node) bool {
		c, ok := n.(*ast.CallExpr)
		if !ok {
			return true
		}
		for i, a := range c.Args {
			if ast.Unparen(a) == ast.Expr(lit) {
				outer, q = c, i
			}
			// the literal may be bound to a local first (at := func(i int) T {…}; collect(n, at))
			if aid, ok := ast.Unparen(a).(*ast.Ident); ok && boundFuncLit(b.info, b.fd, aid) == lit {
				uses := 0
				ast.Inspect(b.fd, func(m ast.Node) bool {
					if uid, ok := m.(*ast.Ident); ok && b.info.Uses[uid] == b.info.ObjectOf(aid) {
						uses++
					}
					return true
				})
				if uses == 1 {
					outer, q = c, i
				}
			}
		}
		return true
	})
	if outer == nil {
		return false, ""
	}
	var d *ast.FuncDecl
	var hinfo *types.Info
	hname := ""
	if h, _ := typeutil.Callee(b.info, outer).(*types.Func); h != nil && b.prog.IsMoqPkg(h.Pkg()) {
		d, hinfo, hname = b.prog.Decl(h.Origin()), b.prog.Info(h.Pkg()), load.FuncName(h)
	} else if fid, ok := ast.Unparen(outer.Fun).(*ast.Ident); ok {
		// a local closure bound once to a literal (add := func(n int, at func(i int) T) { … })
		if hl := boundFuncLit(b.info, b.fd, fid); hl != nil {
			d, hinfo, hname = &ast.FuncDecl{Name: ast.NewIdent(fid.Name), Type: hl.Type, Body: hl.Body}, b.info, "the local function "+fid.Name
		}
	}
	if d == nil || d.Body == nil || d.Type.Params == nil {
		return false, ""
	}
	var params []types.Object
	for _, f := range d.Type.Params.List {
		for _, nm := range f.Names {
			params = append(params, hinfo.Defs[nm])
		}
	}
	if q >= len(params) {
		return false, ""
	}
	hb := newBounds(b.prog, hinfo, d)
	// every call of the callback parameter inside the helper: its argument is a loop variable below one of
	// the helper's int parameters; collect which
	countParam := -1
	okAll, n := true, 0
	var walk func(nd ast.Node, loops []ast.Stmt)
	walk = func(nd ast.Node, loops []ast.Stmt) {
		ast.Inspect(nd, func(x ast.Node) bool {
			switch y := x.(type) {
			case *ast.ForStmt:
				if y != nd {
					walk(y.Body, append(append([]ast.Stmt{}, loops...), y))
					return false
				}
			case *ast.RangeStmt:
				if y != nd {
					walk(y.Body, append(append([]ast.Stmt{}, loops...), y))
					return false
				}
			case *ast.CallExpr:
				fid, ok := ast.Unparen(y.Fun).(*ast.Ident)
				if !ok || hinfo.ObjectOf(fid) != params[q] {
					return true
				}
				n++
				if len(y.Args) != 1 {
					okAll = false
					return true
				}
				aid, ok := ast.Unparen(y.Args[0]).(*ast.Ident)
				if !ok {
					okAll = false
					return true
				}
				lv, ok := hb.loopBound(hinfo.ObjectOf(aid), loops)
				if !ok || !lv.nonneg {
					okAll = false
					return true
				}
				hit := -1
				for pidx, po := range params {
					if po == nil {
						continue
					}
					term := fmt.Sprintf("%s@%d", po.Name(), po.Pos())
					for _, u := range lv.upper {
						if u == term {
							hit = pidx
						}
					}
				}
				if hit < 0 || (countParam >= 0 && countParam != hit) {
					okAll = false
					return true
				}
				countParam = hit
			}
			return true
		})
	}
	walk(d.Body, nil)
	if !okAll || n == 0 || countParam < 0 || countParam >= len(outer.Args) {
		return false, ""
	}
	for _, t := range b.lenAlternatives(outer.Args[countParam]) {
		if t == want {
			return true, fmt.Sprintf("the index is the argument %s passes to this function literal: always below its count parameter, which this call sets to %s", hname, want)
		}
	}
	return false, ""
}

// minLen: a lower bound of len(x) known from how x was produced.
func (b *bounds) minLen(x ast.Expr) (int64, string) {
	u := b.unfold(x)
	if types.ExprString(u) == "os.Args" {
		if sel, ok := u.(*ast.SelectorExpr); ok {
			if v, ok := b.info.ObjectOf(sel.Sel).(*types.Var); ok && v.Pkg() != nil && v.Pkg().Path() == "os" {
				return 1, "os.Args holds at least the program name"
			}
		}
	}
	d := u
	if dd, ok := b.singleDef(x); ok {
		d = dd
	}
	call, ok := ast.Unparen(d).(*ast.CallExpr)
	if !ok {
		return 0, ""
	}
	// make(T, len(y)) or make(T, c): the local is never assigned again (single definition), index stores
	// do not change its length
	if id, ok := ast.Unparen(call.Fun).(*ast.Ident); ok && len(call.Args) >= 2 {
		if bi, isB := b.info.Uses[id].(*types.Builtin); isB && bi.Name() == "make" {
			if c, ok := b.constInt(call.Args[1]); ok {
				return c, "made with that many elements"
			}
			if lc, ok := b.unfold(call.Args[1]).(*ast.CallExpr); ok && len(lc.Args) == 1 {
				if lid, ok := ast.Unparen(lc.Fun).(*ast.Ident); ok && lid.Name == "len" {
					if _, isB := b.info.Uses[lid].(*types.Builtin); isB {
						if n, why := b.minLen(lc.Args[0]); n > 0 {
							return n, "made with the length of " + types.ExprString(lc.Args[0]) + ": " + why
						}
					}
				}
			}
			return 0, ""
		}
	}
	fn, _ := typeutil.Callee(b.info, call).(*types.Func)
	// the result of a moq function: the smallest of its returns
	if fn != nil && b.prog.IsMoqPkg(fn.Pkg()) && minLenDepth < 3 {
		if fd := b.prog.Decl(fn.Origin()); fd != nil && fd.Body != nil && fn.Type().(*types.Signature).Results().Len() == 1 {
			minLenDepth++
			defer func() { minLenDepth-- }()
			cb := newBounds(b.prog, b.prog.Info(fn.Pkg()), fd)
			min, nret := int64(-1), 0
			ast.Inspect(fd.Body, func(n ast.Node) bool {
				if _, isLit := n.(*ast.FuncLit); isLit {
					return false
				}
				if rs, ok := n.(*ast.ReturnStmt); ok {
					nret++
					if len(rs.Results) != 1 {
						min = 0
						return true
					}
					if n, _ := cb.minLen(rs.Results[0]); min < 0 || n < min {
						min = n
					}
				}
				return true
			})
			if nret > 0 && min > 0 {
				return min, fmt.Sprintf("every return of %s hands out at least %d element(s)", fn.Name(), min)
			}
		}
		return 0, ""
	}
	if fn == nil || fn.Pkg() == nil || fn.Pkg().Path() != "strings" {
		return 0, ""
	}
	sepOK := func(e ast.Expr) bool {
		tv := b.info.Types[e]
		return tv.Value != nil && tv.Value.Kind() == constant.String && constant.StringVal(tv.Value) != ""
	}
	switch fn.Name() {
	case "Split", "SplitAfter":
		if len(call.Args) == 2 && sepOK(call.Args[1]) {
			return 1, "strings." + fn.Name() + " with a non-empty separator returns at least one element"
		}
	case "SplitN", "SplitAfterN":
		if len(call.Args) == 3 && sepOK(call.Args[1]) {
			if n, ok := b.constInt(call.Args[2]); ok && n != 0 {
				return 1, "strings." + fn.Name() + " with a non-empty separator and n != 0 returns at least one element"
			}
		}
	}
	return 0, ""
}

var minLenDepth int

// stringSearch: the variable is the result of strings.Index & co. on the sliced string; returns the separator length.
func (b *bounds) stringSearch(e ast.Expr, sliced ast.Expr) (types.Object, int64, bool) {
	id, ok := ast.Unparen(e).(*ast.Ident)
	if !ok {
		return nil, 0, false
	}
	v := b.info.ObjectOf(id)
	as := b.assigns[v]
	if len(as) != 1 || as[0] == nil {
		return nil, 0, false
	}
	call, ok := ast.Unparen(as[0]).(*ast.CallExpr)
	if !ok || len(call.Args) != 2 {
		return nil, 0, false
	}
	fn, _ := typeutil.Callee(b.info, call).(*types.Func)
	if fn == nil || fn.Pkg() == nil || fn.Pkg().Path() != "strings" {
		return nil, 0, false
	}
	if b.norm(call.Args[0]) != b.norm(sliced) {
		return nil, 0, false
	}
	tv := b.info.Types[call.Args[1]]
	switch fn.Name() {
	case "Index", "LastIndex":
		if tv.Value != nil && tv.Value.Kind() == constant.String {
			return v, int64(len(constant.StringVal(tv.Value))), true
		}
	case "IndexByte", "LastIndexByte":
		return v, 1, true
	case "IndexRune":
		if tv.Value != nil && tv.Value.Kind() == constant.Int {
			if r, ok := constant.Int64Val(tv.Value); ok && r >= 0 && r < 0x80 {
				return v, 1, true
			}
		}
	}
	return nil, 0, false
}

// sliceOK: s[lo:hi] with bounds that are a position found in s (plus at most the separator's length).
func (b *bounds) sliceOK(f *cfgx.Func, x *ast.SliceExpr) (bool, string) {
	if x.Slice3 {
		return false, ""
	}
	var guard types.Object
	n := 0
	for _, bd := range []ast.Expr{x.Low, x.High} {
		if bd == nil {
			continue
		}
		if c, ok := b.constInt(bd); ok && c == 0 {
			continue
		}
		n++
		e := ast.Unparen(bd)
		extra := int64(0)
		if be, ok := e.(*ast.BinaryExpr); ok && be.Op == token.ADD {
			c, ok := b.constInt(be.Y)
			if !ok || c < 0 {
				return false, ""
			}
			e, extra = be.X, c
		}
		v, sepLen, ok := b.stringSearch(e, x.X)
		if !ok || extra > sepLen {
			return false, ""
		}
		if guard != nil && guard != v {
			return false, ""
		}
		guard = v
	}
	if n == 0 || guard == nil {
		return false, ""
	}
	if x.Low != nil && x.High != nil {
		return false, "" // lo <= hi is not established
	}
	if reachable(f, x, intOracle(b.info, guard, -1)) {
		return false, ""
	}
	return true, "the bound is a position strings.Index found in the sliced string (plus at most the separator), and the site is unreachable when nothing was found"
}

// callOracle decides conditions that are (negations / conjunctions of) a call matched by the predicate.
func callOracle(match func(e ast.Expr) bool, val bool) func(ast.Expr) (bool, bool) {
	var ev func(e ast.Expr) (bool, bool)
	ev = func(e ast.Expr) (bool, bool) {
		e = ast.Unparen(e)
		if match(e) {
			return val, !val
		}
		switch x := e.(type) {
		case *ast.UnaryExpr:
			if x.Op == token.NOT {
				t, f := ev(x.X)
				return f, t
			}
		case *ast.BinaryExpr:
			switch x.Op {
			case token.LAND:
				lt, lf := ev(x.X)
				rt, rf := ev(x.Y)
				return lt && rt, lf || (lt && rf)
			case token.LOR:
				lt, lf := ev(x.X)
				rt, rf := ev(x.Y)
				return lt || (lf && rt), lf && rf
			}
		}
		return true, true
	}
	return ev
}

func isGoTypesMethod(info *types.Info, e ast.Expr, recvType, name string) (*ast.SelectorExpr, bool) {
	call, ok := ast.Unparen(e).(*ast.CallExpr)
	if !ok {
		return nil, false
	}
	fn, _ := typeutil.Callee(info, call).(*types.Func)
	if fn == nil || fn.Pkg() == nil || fn.Pkg().Path() != "go/types" || fn.Name() != name {
		return nil, false
	}
	sel, ok := ast.Unparen(call.Fun).(*ast.SelectorExpr)
	if !ok {
		return nil, false
	}
	if recvType != "" {
		// the static type of the receiver expression (methods may be promoted from embedded structs)
		t := info.TypeOf(sel.X)
		if t == nil || !strings.HasSuffix(types.TypeString(t, nil), "go/types."+recvType) {
			return nil, false
		}
	}
	return sel, true
}

// lastElemOK: x[len(x)-c] where the length is at least c: by how x was produced, or because the site is
// only reached for a variadic signature whose parameter count is the length of x.
func (b *bounds) lastElemOK(f *cfgx.Func, x *ast.IndexExpr) (bool, string) {
	be, ok := b.unfold(x.Index).(*ast.BinaryExpr)
	if !ok || be.Op != token.SUB {
		return false, ""
	}
	c, ok := b.constInt(be.Y)
	if !ok || c < 1 {
		return false, ""
	}
	if _, same := intersects(b.lenAlternatives(be.X), []string{"len(" + b.norm(x.X) + ")"}); !same {
		return false, ""
	}
	if n, why := b.minLen(x.X); n >= c {
		return true, why
	}
	if !reachable(f, x, lenOracleIn(b.info, b.fd, types.ExprString(x.X), c-1)) {
		return true, fmt.Sprintf("unreachable when len(%s) < %d (dominating length guard)", types.ExprString(x.X), c)
	}
	// the statement just before, in the same block, appended at least c elements to the same slice
	if k := b.appendedJustBefore(x); k >= c {
		return true, fmt.Sprintf("the statement before appends %d element(s) to %s", k, types.ExprString(x.X))
	}
	if c != 1 {
		return false, ""
	}
	// variadic signature: at least one parameter
	var sigTerm string
	match := func(e ast.Expr) bool {
		sel, ok := isGoTypesMethod(b.info, e, "Signature", "Variadic")
		if !ok {
			return false
		}
		sigTerm = b.norm(sel.X)
		return true
	}
	// find a Variadic() condition first (the oracle needs to know the signature it speaks about)
	found := false
	ast.Inspect(b.fd, func(n ast.Node) bool {
		if e, ok := n.(ast.Expr); ok && match(e) {
			found = true
		}
		return !found
	})
	if !found {
		return false, ""
	}
	st := sigTerm
	if reachable(f, x, callOracle(func(e ast.Expr) bool { return match(e) && sigTerm == st }, false)) {
		return false, ""
	}
	want := st + ".Params().Len()"
	for _, t := range b.lenTerms(x.X) {
		if t == want {
			return true, "only reached for a variadic signature, which has at least one parameter (go/types invariant), and the slice was made with that signature's parameter count"
		}
	}
	// the slice may be built by a moq helper from the same tuple: len(result) == tuple.Len() when the helper makes it so
	if d, ok := b.defExpr(x.X); ok {
		if call, ok := ast.Unparen(d).(*ast.CallExpr); ok {
			if fn, ok := typeutil.Callee(b.info, call).(*types.Func); ok && b.prog.IsMoqPkg(fn.Pkg()) {
				for i, a := range call.Args {
					if b.norm(a) == st+".Params()" && resultLenIsParamLen(b.prog, fn, i) {
						return true, "only reached for a variadic signature (at least one parameter), and " + fn.Name() + " returns one element per element of the tuple"
					}
				}
			}
			// ... or by a function literal bound to a local
			if id, ok := ast.Unparen(call.Fun).(*ast.Ident); ok {
				if lit := boundFuncLit(b.info, b.fd, id); lit != nil {
					for i, a := range call.Args {
						if b.norm(a) == st+".Params()" && resultLenIsParamLenBody(b.prog, b.info, lit.Type, lit.Body, i) {
							return true, "only reached for a variadic signature (at least one parameter), and the local function " + id.Name + " returns one element per element of the tuple"
						}
					}
				}
			}
		}
	}
	return false, ""
}

// appendedJustBefore: the site sits in a statement whose predecessor in the same block is
// `x = append(x, e1, …, ek)` for the slice x the site indexes; returns k.
func (b *bounds) appendedJustBefore(x *ast.IndexExpr) int64 {
	var k int64
	target := b.norm(x.X)
	ast.Inspect(b.fd.Body, func(n ast.Node) bool {
		blk, ok := n.(*ast.BlockStmt)
		if !ok {
			return true
		}
		for i, st := range blk.List {
			if i == 0 || !within(st, x) {
				continue
			}
			as, ok := blk.List[i-1].(*ast.AssignStmt)
			if !ok || len(as.Lhs) != 1 || len(as.Rhs) != 1 || b.norm(as.Lhs[0]) != target {
				continue
			}
			call, ok := ast.Unparen(as.Rhs[0]).(*ast.CallExpr)
			if !ok || call.Ellipsis.IsValid() || len(call.Args) < 2 {
				continue
			}
			id, ok := ast.Unparen(call.Fun).(*ast.Ident)
			if !ok {
				continue
			}
			if bi, isB := b.info.Uses[id].(*types.Builtin); isB && bi.Name() == "append" && b.norm(call.Args[0]) == target {
				// nothing between the append and the site writes x: the site is in the very next statement,
				// and that statement must not assign x before the site (a plain use)
				if as2, isAs := st.(*ast.AssignStmt); isAs {
					for _, l := range as2.Lhs {
						if b.norm(l) == target {
							return true
						}
					}
				}
				k = int64(len(call.Args) - 1)
			}
		}
		return true
	})
	return k
}

// resultLenIsParamLen: the moq function returns a slice it made with the Len() of its i-th parameter and never re-slices.
func resultLenIsParamLen(prog *load.Program, fn *types.Func, i int) bool {
	d := prog.Decl(fn.Origin())
	if d == nil || d.Body == nil {
		return false
	}
	return resultLenIsParamLenBody(prog, prog.Info(fn.Pkg()), d.Type, d.Body, i)
}

// resultLenIsParamLenBody: the same for any function body (a declared function or a function literal).
func resultLenIsParamLenBody(prog *load.Program, info *types.Info, ftype *ast.FuncType, body *ast.BlockStmt, i int) bool {
	d := &ast.FuncDecl{Name: ast.NewIdent("lit"), Type: ftype, Body: body}
	cb := newBounds(prog, info, d)
	var pname *types.Var
	k := 0
	if ftype.Params != nil {
		for _, f := range ftype.Params.List {
			for _, nm := range f.Names {
				if k == i {
					pname, _ = info.Defs[nm].(*types.Var)
				}
				k++
			}
		}
	}
	if pname == nil {
		return false
	}
	ok := false
	bad := false
	ast.Inspect(d.Body, func(n ast.Node) bool {
		if _, isLit := n.(*ast.FuncLit); isLit {
			return false
		}
		rs, isRet := n.(*ast.ReturnStmt)
		if !isRet || len(rs.Results) != 1 {
			return true
		}
		want := fmt.Sprintf("%s@%d.Len()", pname.Name(), pname.Pos())
		hit := false
		for _, t := range cb.lenTerms(rs.Results[0]) {
			if t == want {
				hit = true
			}
		}
		if hit {
			ok = true
		} else {
			bad = true
		}
		return true
	})
	return ok && !bad
}

// nonNeg: the integer expression is never negative: constants, lengths, min/sum of such, and parameters of
// unexported functions that every call site fills with such a value (assuming the same of the callers'
// own parameters: the claim holds by induction over the call depth).
func (b *bounds) nonNeg(e ast.Expr, depth int) bool {
	if depth > 6 {
		return false
	}
	if c, ok := b.constInt(e); ok {
		return c >= 0
	}
	e = b.unfold(e)
	switch x := e.(type) {
	case *ast.CallExpr:
		if id, ok := ast.Unparen(x.Fun).(*ast.Ident); ok {
			if bi, ok := b.info.Uses[id].(*types.Builtin); ok {
				switch bi.Name() {
				case "len", "cap":
					return true
				case "min":
					for _, a := range x.Args {
						if !b.nonNeg(a, depth+1) {
							return false
						}
					}
					return true
				case "max":
					for _, a := range x.Args {
						if b.nonNeg(a, depth+1) {
							return true
						}
					}
					return false
				}
			}
		}
		if fn, ok := typeutil.Callee(b.info, x).(*types.Func); ok && b.prog.IsMoqPkg(fn.Pkg()) && isMinFunc(b.prog, fn) {
			return b.nonNeg(x.Args[0], depth+1) && b.nonNeg(x.Args[1], depth+1)
		}
		if fn, ok := typeutil.Callee(b.info, x).(*types.Func); ok && fn.FullName() == "strings.Count" {
			return true
		}
	case *ast.BinaryExpr:
		if x.Op == token.ADD || x.Op == token.MUL {
			return b.nonNeg(x.X, depth+1) && b.nonNeg(x.Y, depth+1)
		}
	case *ast.Ident:
		v, _ := b.info.ObjectOf(x).(*types.Var)
		if v == nil || v.IsField() || (v.Pkg() != nil && v.Parent() == v.Pkg().Scope()) {
			return false
		}
		if bt, ok := v.Type().Underlying().(*types.Basic); !ok || bt.Info()&types.IsInteger == 0 {
			return false
		}
		if len(b.assigns[v]) != 0 {
			// every write keeps it non-negative (claims in progress count as true: induction over the writes)
			if st, seen := nonNegVarMemo[v]; seen {
				return st
			}
			mark := len(nonNegJournal)
			nonNegVarMemo[v] = true
			nonNegJournal = append(nonNegJournal, func() { delete(nonNegVarMemo, v) })
			ok := b.writesNonNeg(v, depth+1) && (!b.isParam(v) || b.paramNonNeg(v, depth+1))
			if !ok {
				nonNegRollback(mark)
			}
			nonNegVarMemo[v] = ok
			return ok
		}
		return b.paramNonNeg(v, depth)
	}
	return false
}

func (b *bounds) isParam(v *types.Var) bool {
	if b.fd.Type.Params == nil {
		return false
	}
	for _, fl := range b.fd.Type.Params.List {
		for _, nm := range fl.Names {
			if b.info.Defs[nm] == v {
				return true
			}
		}
	}
	return false
}

// writesNonNeg: every write of the integer variable stores a non-negative value: x++, x += e and x = e
// with e non-negative, a zero-valued declaration, the key of a range over a sequence, or a result of a
// moq function all of whose returns are non-negative there.
func (b *bounds) writesNonNeg(v *types.Var, depth int) bool {
	for i, a := range b.assigns[v] {
		if a != nil {
			if st, ok := b.anodes[v][i].(*ast.AssignStmt); ok && st.Tok != token.ASSIGN && st.Tok != token.DEFINE {
				return false
			}
			if !b.nonNeg(a, depth) {
				return false
			}
			continue
		}
		switch st := b.anodes[v][i].(type) {
		case *ast.IncDecStmt:
			if st.Tok != token.INC {
				return false
			}
		case *ast.ValueSpec:
			if len(st.Values) != 0 {
				return false
			}
		case *ast.RangeStmt:
			id, _ := st.Key.(*ast.Ident)
			if id == nil || b.info.ObjectOf(id) != v {
				return false
			}
			switch b.info.TypeOf(st.X).Underlying().(type) {
			case *types.Slice, *types.Array, *types.Basic:
			default:
				return false
			}
		case *ast.AssignStmt:
			if len(st.Rhs) == 1 && len(st.Lhs) == 1 {
				if st.Tok != token.ADD_ASSIGN && st.Tok != token.MUL_ASSIGN || !b.nonNeg(st.Rhs[0], depth) {
					return false
				}
				continue
			}
			call, _ := ast.Unparen(st.Rhs[0]).(*ast.CallExpr)
			if call == nil || len(st.Rhs) != 1 {
				return false
			}
			ri := -1
			for k, l := range st.Lhs {
				if id, ok := ast.Unparen(l).(*ast.Ident); ok && b.info.ObjectOf(id) == v {
					ri = k
				}
			}
			fn, _ := typeutil.Callee(b.info, call).(*types.Func)
			if ri < 0 || fn == nil || !b.prog.IsMoqPkg(fn.Pkg()) || !nonNegResult(b.prog, fn.Origin(), ri, depth) {
				return false
			}
		default:
			return false
		}
	}
	return true
}

var nonNegVarMemo = map[*types.Var]bool{}
var nonNegResMemo = map[nonNegKey]bool{}

// nonNegResult: every return of fn gives a non-negative value for result ri.
func nonNegResult(prog *load.Program, fn *types.Func, ri, depth int) bool {
	key := nonNegKey{fn, ri}
	if st, seen := nonNegResMemo[key]; seen {
		return st
	}
	d := prog.Decl(fn)
	if d == nil || d.Body == nil {
		return false
	}
	mark := len(nonNegJournal)
	nonNegResMemo[key] = true
	nonNegJournal = append(nonNegJournal, func() { delete(nonNegResMemo, key) })
	cb := newBounds(prog, prog.Info(fn.Pkg()), d)
	okAll, n := true, 0
	ast.Inspect(d.Body, func(x ast.Node) bool {
		if _, isLit := x.(*ast.FuncLit); isLit {
			return false
		}
		if rs, ok := x.(*ast.ReturnStmt); ok {
			n++
			if ri >= len(rs.Results) || !cb.nonNeg(rs.Results[ri], depth) {
				okAll = false
			}
		}
		return true
	})
	if !(okAll && n > 0) {
		nonNegRollback(mark)
	}
	nonNegResMemo[key] = okAll && n > 0
	return okAll && n > 0
}

// paramNonNeg: v is a parameter of an unexported function and every static call passes a non-negative value.
func (b *bounds) paramNonNeg(v *types.Var, depth int) bool {
	if b.fd.Type.Params == nil {
		return false
	}
	pi, k := -1, 0
	for _, fl := range b.fd.Type.Params.List {
		for _, nm := range fl.Names {
			if b.info.Defs[nm] == v {
				pi = k
			}
			k++
		}
	}
	self, _ := b.info.Defs[b.fd.Name].(*types.Func)
	if pi < 0 || self == nil || self.Exported() {
		return false
	}
	key := nonNegKey{self, pi}
	if st, seen := nonNegMemo[key]; seen {
		return st // in progress counts as true: induction hypothesis
	}
	mark := len(nonNegJournal)
	nonNegMemo[key] = true
	nonNegJournal = append(nonNegJournal, func() { delete(nonNegMemo, key) })
	calls := staticCallsOf(b.prog, self)
	ok := len(calls) > 0
	for _, cs := range calls {
		if pi >= len(cs.call.Args) {
			ok = false
			break
		}
		cb := newBounds(b.prog, cs.info, cs.fd)
		if !cb.nonNeg(cs.call.Args[pi], depth+1) {
			ok = false
			break
		}
	}
	if !ok {
		nonNegRollback(mark)
	}
	nonNegMemo[key] = ok
	return ok
}

// Facts derived while a claim was only assumed are forgotten when the claim turns out false.
var nonNegJournal []func()

func nonNegRollback(mark int) {
	for _, undo := range nonNegJournal[mark:] {
		undo()
	}
	nonNegJournal = nonNegJournal[:mark]
}

type nonNegKey struct {
	fn *types.Func
	pi int
}

var nonNegMemo = map[nonNegKey]bool{}

// tailSlice: x[L:] with 0 <= L <= len(x) where L is len(x)-n (possibly through a local, possibly clamped
// with max(.., 0)): n must be non-negative (L <= len(x)) and L non-negative — because n is a minimum that
// includes len(x), because of the clamp, or because an enclosing condition says so (L > 0, len(x) > n).
func (b *bounds) tailSlice(x *ast.SliceExpr) (bool, string) {
	if x.High != nil || x.Slice3 || x.Low == nil {
		return false, ""
	}
	low := b.unfold(x.Low)
	clamped := false
	if call, ok := low.(*ast.CallExpr); ok && len(call.Args) == 2 {
		if id, ok := ast.Unparen(call.Fun).(*ast.Ident); ok {
			if bi, ok := b.info.Uses[id].(*types.Builtin); ok && bi.Name() == "max" {
				for i, a := range call.Args {
					if c, ok := b.constInt(a); ok && c == 0 {
						low = b.unfold(call.Args[1-i])
						clamped = true
					}
				}
			}
		}
	}
	be, ok := ast.Unparen(low).(*ast.BinaryExpr)
	if !ok || be.Op != token.SUB {
		return false, ""
	}
	// len(x) - a - b ...: every subtrahend must be non-negative
	first := ast.Expr(be)
	var subs []ast.Expr
	for {
		sb, ok := ast.Unparen(first).(*ast.BinaryExpr)
		if !ok || sb.Op != token.SUB {
			break
		}
		subs = append(subs, sb.Y)
		first = sb.X
	}
	lx, ok := b.lenOperand(first)
	if !ok || b.norm(lx) != b.norm(x.X) {
		return false, ""
	}
	for _, sub := range subs {
		if !b.nonNeg(sub, 0) {
			return false, ""
		}
	}
	if len(subs) > 1 {
		// only the clamp can keep a chain non-negative here
		if clamped {
			return true, "the slice starts at max(len(x)-a-b, 0) with a, b never negative"
		}
		return false, ""
	}
	// L >= 0
	nonNegL := clamped
	if !nonNegL {
		for _, t := range b.upperTermsIncl(be.Y) {
			if t == "len("+b.norm(x.X)+")" {
				nonNegL = true
			}
		}
	}
	if !nonNegL {
		lowTerm := b.norm(low)
		for _, enc := range enclosing(b.fd.Body, x) {
			is, ok := enc.(*ast.IfStmt)
			if !ok || !within(is.Body, x) {
				continue
			}
			for _, c := range conjuncts(is.Cond) {
				cb, ok := ast.Unparen(c).(*ast.BinaryExpr)
				if !ok {
					continue
				}
				// L > 0, L >= 0, 0 < L ...
				if (cb.Op == token.GTR || cb.Op == token.GEQ) && b.norm(cb.X) == lowTerm {
					if k, ok := b.constInt(cb.Y); ok && k >= 0 {
						nonNegL = true
					}
				}
				if (cb.Op == token.LSS || cb.Op == token.LEQ) && b.norm(cb.Y) == lowTerm {
					if k, ok := b.constInt(cb.X); ok && k >= 0 {
						nonNegL = true
					}
				}
				// len(x) > n, len(x) >= n, n < len(x) ... (n itself, or the a of a subtrahend max(a, 0):
				// a <= len(x) and 0 <= len(x) give max(a, 0) <= len(x))
				subs := []string{b.norm(be.Y)}
				if mc, ok := b.unfold(be.Y).(*ast.CallExpr); ok && len(mc.Args) == 2 {
					if id, ok := ast.Unparen(mc.Fun).(*ast.Ident); ok {
						if bi, ok := b.info.Uses[id].(*types.Builtin); ok && bi.Name() == "max" {
							for i, a := range mc.Args {
								if c, ok := b.constInt(a); ok && c == 0 {
									subs = append(subs, b.norm(mc.Args[1-i]))
								}
							}
						}
					}
				}
				for _, sub := range subs {
					if (cb.Op == token.GTR || cb.Op == token.GEQ) && b.norm(cb.X) == b.norm(be.X) && b.norm(cb.Y) == sub {
						nonNegL = true
					}
					if (cb.Op == token.LSS || cb.Op == token.LEQ) && b.norm(cb.Y) == b.norm(be.X) && b.norm(cb.X) == sub {
						nonNegL = true
					}
				}
			}
		}
	}
	if nonNegL {
		return true, "the slice starts at L = len(x)-n with n never negative (L <= len(x)) and L never negative (a minimum that includes len(x), a clamp with max(.., 0), or an enclosing condition)"
	}
	return false, ""
}

// upperTermsIncl: terms T with e <= T (inclusive): e itself and, for a minimum, its operands.
func (b *bounds) upperTermsIncl(e ast.Expr) []string {
	out := []string{b.norm(e)}
	if ops, ok := b.minOperands(e); ok {
		for _, a := range ops {
			out = append(out, b.upperTermsIncl(a)...)
		}
	}
	return out
}

// sliceMore: further discharges for slice expressions.
func (b *bounds) sliceMore(f *cfgx.Func, x *ast.SliceExpr) (bool, string) {
	if ok, why := b.tailSlice(x); ok {
		return true, why
	}
	// x[:H] with 0 <= H <= len(x): H is a minimum that includes len(x), all of whose operands are non-negative
	if x.Low == nil && x.High != nil && !x.Slice3 {
		isLenOfX := false
		for _, t := range b.upperTermsIncl(x.High) {
			if t == "len("+b.norm(x.X)+")" {
				isLenOfX = true
			}
		}
		if isLenOfX && b.nonNeg(x.High, 0) {
			return true, "the slice ends at a minimum that includes len(x), never negative"
		}
	}
	// x[:len(x)-c] (dropping the last c elements) where len(x) >= c: by how x was produced, or because the
	// site is unreachable for a shorter x (a dominating guard, the condition of the loop it sits in)
	if x.Low == nil && x.High != nil && !x.Slice3 {
		if be, ok := b.unfold(x.High).(*ast.BinaryExpr); ok && be.Op == token.SUB {
			if c, ok := b.constInt(be.Y); ok && c >= 1 {
				if _, same := intersects(b.lenAlternatives(be.X), []string{"len(" + b.norm(x.X) + ")"}); same {
					if n, why := b.minLen(x.X); n >= c {
						return true, why
					}
					if !reachable(f, x, lenOracleIn(b.info, b.fd, types.ExprString(x.X), c-1)) {
						return true, fmt.Sprintf("unreachable when len(%s) < %d (dominating length guard)", types.ExprString(x.X), c)
					}
				}
			}
		}
	}
	need := int64(0)
	constBounds := true
	for _, bd := range []ast.Expr{x.Low, x.High} {
		if bd == nil {
			continue
		}
		c, ok := b.constInt(bd)
		if !ok {
			constBounds = false
			continue
		}
		if c > need {
			need = c
		}
	}
	if constBounds {
		if n, why := b.minLen(x.X); n >= need {
			return true, why
		}
		// s[:1] / s[1:] of a string that is never empty
		if bt, ok := b.info.TypeOf(x.X).Underlying().(*types.Basic); ok && bt.Info()&types.IsString != 0 && need == 1 && b.nonEmptyString(x.X, 0) {
			return true, "the sliced string is never empty (constants, go/types names and texts, concatenations and results of functions that return such, at every call site)"
		}
		// "[]" + element: the text of a variadic parameter's type, only reached when the Variadic flag is set
		if need == 2 && x.High == nil {
			src := ast.Unparen(x.X)
			if d, ok := b.defExpr(src); ok {
				src = ast.Unparen(d)
			} else if id, ok := src.(*ast.Ident); ok {
				// `typ := T(); if flag { typ = "..." + typ[2:] }`: inside the only re-assignment (outside any
				// loop) the variable still holds its definition
				if v, ok := b.info.ObjectOf(id).(*types.Var); ok && len(b.assigns[v]) == 2 && b.assigns[v][0] != nil && within(b.anodes[v][1], x) && b.anodes[v][0].End() <= b.anodes[v][1].Pos() {
					inLoop := false
					for _, enc := range enclosing(b.fd.Body, x) {
						switch enc.(type) {
						case *ast.ForStmt, *ast.RangeStmt:
							inLoop = true
						}
					}
					if !inLoop {
						src = ast.Unparen(b.assigns[v][0])
					}
				}
			}
			if call, ok := src.(*ast.CallExpr); ok {
				if fn, ok := typeutil.Callee(b.info, call).(*types.Func); ok && b.prog.IsMoqPkg(fn.Pkg()) && fn.Name() == "TypeString" {
					isFlag := func(e ast.Expr) bool {
						sel, ok := ast.Unparen(e).(*ast.SelectorExpr)
						if !ok || sel.Sel.Name != "Variadic" {
							return false
						}
						t, ok := b.info.TypeOf(sel).Underlying().(*types.Basic)
						return ok && t.Kind() == types.Bool
					}
					if !reachable(f, x, callOracle(isFlag, false)) {
						return true, "only reached when the Variadic flag is set, which Mock sets only for a last parameter of slice type: go/types prints an unnamed slice as \"[]\" + element (G-DATA/params decides the flag)"
					}
				}
			}
		}
		return false, ""
	}
	return b.sliceOK(f, x)
}

// origins resolves where a value comes from: through single-assignment locals and, for parameters of
// unexported moq functions, through the arguments of every call site. It returns the defining expressions
// with the function they live in.
type origin struct {
	e    ast.Expr
	info *types.Info
}

func (b *bounds) origins(e ast.Expr, depth int) []origin {
	e = ast.Unparen(e)
	if depth > 4 {
		return []origin{{e, b.info}}
	}
	if id, ok := e.(*ast.Ident); ok {
		if d, ok := b.singleDef(id); ok {
			return b.origins(d, depth+1)
		}
		// parameter (or receiver: index -2) of this function
		v, _ := b.info.ObjectOf(id).(*types.Var)
		if v != nil && b.fd.Type.Params != nil && len(b.assigns[v]) == 0 {
			pi := -1
			k := 0
			for _, fl := range b.fd.Type.Params.List {
				for _, nm := range fl.Names {
					if b.info.Defs[nm] == v {
						pi = k
					}
					k++
				}
			}
			if b.fd.Recv != nil && len(b.fd.Recv.List) == 1 && len(b.fd.Recv.List[0].Names) == 1 && b.info.Defs[b.fd.Recv.List[0].Names[0]] == v {
				pi = -2
			}
			fn, _ := b.info.Defs[b.fd.Name].(*types.Func)
			if (pi >= 0 || pi == -2) && fn != nil && !fn.Exported() {
				// a parameter that is being traced already (recursion) adds no origin of its own
				key := nonNegKey{fn, pi}
				if originsBusy[key] {
					return nil
				}
				originsBusy[key] = true
				defer delete(originsBusy, key)
				var out []origin
				n := 0
				for _, cs := range staticCallsOf(b.prog, fn) {
					if pi >= len(cs.call.Args) {
						continue
					}
					cb := newBounds(b.prog, cs.info, cs.fd)
					n++
					if pi == -2 {
						if sel, ok := ast.Unparen(cs.call.Fun).(*ast.SelectorExpr); ok {
							out = append(out, cb.origins(sel.X, depth+1)...)
						} else {
							out = append(out, origin{cs.call.Fun, cs.info})
						}
					} else {
						out = append(out, cb.origins(cs.call.Args[pi], depth+1)...)
					}
				}
				if n > 0 {
					return out
				}
			}
		}
	}
	// an element of a local slice: whatever the function stores into it (xs[i] = v, xs = append(xs, v..));
	// the zero values a make leaves behind are no origin of a usable value
	if ix, ok := e.(*ast.IndexExpr); ok {
		if id, ok := ast.Unparen(ix.X).(*ast.Ident); ok {
			v, _ := b.info.ObjectOf(id).(*types.Var)
			if v != nil && !v.IsField() && v.Parent() != nil && v.Pkg() != nil && v.Parent() != v.Pkg().Scope() && within(b.fd, identDecl(b.info, b.fd, v)) {
				if _, isSlice := v.Type().Underlying().(*types.Slice); isSlice {
					if out, ok := b.elementOrigins(v, depth); ok {
						return out
					}
				}
			}
		}
	}
	return []origin{{e, b.info}}
}

// identDecl: the defining identifier of a local variable inside fd (nil when it is declared elsewhere).
func identDecl(info *types.Info, fd *ast.FuncDecl, v *types.Var) ast.Node {
	var out ast.Node
	ast.Inspect(fd, func(n ast.Node) bool {
		if id, ok := n.(*ast.Ident); ok && info.Defs[id] == v {
			out = id
		}
		return out == nil
	})
	if out == nil {
		return &ast.BadExpr{}
	}
	return out
}

// elementOrigins: the origins of everything stored into the elements of the local slice v; false when the
// slice escapes the forms understood (made or nil, then filled by index or append, never re-assigned from
// something else, never handed out by address).
func (b *bounds) elementOrigins(v *types.Var, depth int) ([]origin, bool) {
	var out []origin
	ok := true
	isV := func(e ast.Expr) bool {
		id, isID := ast.Unparen(e).(*ast.Ident)
		return isID && b.info.ObjectOf(id) == v
	}
	ast.Inspect(b.fd, func(n ast.Node) bool {
		switch x := n.(type) {
		case *ast.UnaryExpr:
			if x.Op == token.AND {
				if isV(x.X) {
					ok = false
				}
				if ix, isIx := ast.Unparen(x.X).(*ast.IndexExpr); isIx && isV(ix.X) {
					ok = false
				}
			}
		case *ast.ValueSpec:
			for i, nm := range x.Names {
				if b.info.Defs[nm] == v && i < len(x.Values) && !b.emptySliceExpr(x.Values[i]) {
					ok = false
				}
			}
		case *ast.AssignStmt:
			if len(x.Lhs) != len(x.Rhs) {
				for _, l := range x.Lhs {
					if isV(l) {
						ok = false
					}
					if ix, isIx := ast.Unparen(l).(*ast.IndexExpr); isIx && isV(ix.X) {
						ok = false
					}
				}
				return true
			}
			for i, l := range x.Lhs {
				if ix, isIx := ast.Unparen(l).(*ast.IndexExpr); isIx && isV(ix.X) {
					out = append(out, b.origins(x.Rhs[i], depth+1)...)
					continue
				}
				if !isV(l) {
					continue
				}
				r := ast.Unparen(x.Rhs[i])
				if b.emptySliceExpr(r) {
					continue
				}
				call, isCall := r.(*ast.CallExpr)
				if !isCall || call.Ellipsis.IsValid() || len(call.Args) < 1 || !isV(call.Args[0]) {
					ok = false
					continue
				}
				fid, isID := ast.Unparen(call.Fun).(*ast.Ident)
				if !isID {
					ok = false
					continue
				}
				if bi, isB := b.info.Uses[fid].(*types.Builtin); !isB || bi.Name() != "append" {
					ok = false
					continue
				}
				for _, a := range call.Args[1:] {
					out = append(out, b.origins(a, depth+1)...)
				}
			}
		}
		return true
	})
	return out, ok && len(out) > 0
}

// emptySliceExpr: nil, an empty composite literal, or make(T, n[, c]).
func (b *bounds) emptySliceExpr(e ast.Expr) bool {
	switch x := ast.Unparen(e).(type) {
	case *ast.Ident:
		_, isNil := b.info.Uses[x].(*types.Nil)
		return isNil
	case *ast.CompositeLit:
		return len(x.Elts) == 0
	case *ast.CallExpr:
		if id, ok := ast.Unparen(x.Fun).(*ast.Ident); ok {
			if bi, ok := b.info.Uses[id].(*types.Builtin); ok && bi.Name() == "make" {
				return true
			}
		}
	}
	return false
}

var originsBusy = map[nonNegKey]bool{}

// assertionOK: unchecked assertions that cannot fail for a reason visible in the types or the control flow.
func (b *bounds) assertionOK(f *cfgx.Func, ta *ast.TypeAssertExpr) (bool, string) {
	want := types.TypeString(b.info.TypeOf(ta.Type), nil)
	switch want {
	case "*go/types.Signature":
		// (*types.Func).Type() is always a *types.Signature
		if sel, ok := isGoTypesMethod(b.info, ta.X, "Func", "Type"); ok && sel != nil {
			return true, "go/types invariant: (*types.Func).Type() is always a *types.Signature"
		}
	case "*go/types.Interface":
		sel, ok := isGoTypesMethod(b.info, ta.X, "", "Underlying")
		if !ok {
			return false, ""
		}
		t := b.norm(sel.X)
		// dominated by types.IsInterface(T), which is defined as exactly this assertion succeeding
		isIface := func(e ast.Expr) bool {
			call, ok := ast.Unparen(e).(*ast.CallExpr)
			if !ok || len(call.Args) != 1 {
				return false
			}
			fn, _ := typeutil.Callee(b.info, call).(*types.Func)
			return fn != nil && fn.FullName() == "go/types.IsInterface" && b.norm(call.Args[0]) == t
		}
		if !reachable(f, ta, callOracle(isIface, false)) {
			return true, "dominated by types.IsInterface on the same type, which is defined as exactly this assertion succeeding"
		}
		// the type is the checked result of a moq function: `t, err := f(..)` with this assertion unreachable
		// when err is non-nil, and inside f every return with a nil error hands out a type that
		// types.IsInterface accepted on the way
		if ok, why := b.checkedResult(f, ta, sel.X); ok {
			return true, why
		}
		// the type is the constraint of a type parameter (possibly wrapped in a variable made for it)
		all := true
		os := b.origins(sel.X, 0)
		for _, o := range os {
			if !isConstraintOrigin(b.prog, o, 0) {
				all = false
			}
		}
		if all && len(os) > 0 {
			return true, "go/types invariant: the constraint of a type parameter has an interface as underlying type (every origin of the asserted type is TypeParam.Constraint())"
		}
	}
	return false, ""
}

func isConstraintOrigin(prog *load.Program, o origin, depth int) bool {
	if depth > 3 {
		return false
	}
	if _, ok := isGoTypesMethod(o.info, o.e, "TypeParam", "Constraint"); ok {
		return true
	}
	// v.Type() of a variable created by types.NewParam/NewVar(_, _, _, T) with T a constraint
	if sel, ok := isGoTypesMethod(o.info, o.e, "", "Type"); ok {
		// resolve the variable in its own function
		var fdOf *ast.FuncDecl
		funcsOf(prog, func(pkgPath string, info *types.Info, fd *ast.FuncDecl, fn *types.Func) {
			if info == o.info && within(fd, sel) {
				fdOf = fd
			}
		})
		if fdOf == nil {
			return false
		}
		vb := newBounds(prog, o.info, fdOf)
		vos := vb.origins(sel.X, 0)
		if len(vos) == 0 {
			return false
		}
		for _, vo := range vos {
			call, ok := ast.Unparen(vo.e).(*ast.CallExpr)
			if !ok || len(call.Args) != 4 {
				return false
			}
			fn, _ := typeutil.Callee(vo.info, call).(*types.Func)
			if fn == nil || (fn.FullName() != "go/types.NewParam" && fn.FullName() != "go/types.NewVar") {
				return false
			}
			var fd2 *ast.FuncDecl
			funcsOf(prog, func(pkgPath string, info *types.Info, fd *ast.FuncDecl, fn *types.Func) {
				if info == vo.info && within(fd, call) {
					fd2 = fd
				}
			})
			if fd2 == nil {
				return false
			}
			tb := newBounds(prog, vo.info, fd2)
			for _, to := range tb.origins(call.Args[3], 0) {
				if !isConstraintOrigin(prog, to, depth+1) {
					return false
				}
			}
		}
		return true
	}
	return false
}

// mapReceiverMade: a store into a map that is this method's receiver (or an unexported function's
// parameter) is safe when every origin of that value, through all call sites, is a made map or a literal.
func (b *bounds) mapOriginsMade(m ast.Expr) (bool, string) {
	os := b.origins(m, 0)
	if len(os) == 0 {
		return false, ""
	}
	for _, o := range os {
		switch x := ast.Unparen(o.e).(type) {
		case *ast.CompositeLit:
		case *ast.SelectorExpr:
			// a field: every literal of its struct initialises it
			var efd *ast.FuncDecl
			funcsOf(b.prog, func(pkgPath string, info *types.Info, fd *ast.FuncDecl, fn *types.Func) {
				if info == o.info && within(fd, x) {
					efd = fd
				}
			})
			if efd == nil {
				return false, ""
			}
			if ok, _ := mapNonNil(b.prog, o.info, efd, x); !ok {
				return false, ""
			}
		case *ast.CallExpr:
			id, ok := ast.Unparen(x.Fun).(*ast.Ident)
			if !ok {
				return false, ""
			}
			if bi, ok := o.info.Uses[id].(*types.Builtin); !ok || bi.Name() != "make" {
				return false, ""
			}
		default:
			return false, ""
		}
	}
	return true, fmt.Sprintf("every origin of the map (%d, through all call sites) is a make or a literal", len(os))
}

// guardedAtCallers: the site sits in an unexported moq function; it is safe when every call of that
// function is unreachable under the violating assumption. mk builds the caller-side oracle from the
// caller's info/decl and a substitution of the callee's receiver and parameters by the call's operands.
func (b *bounds) guardedAtCallers(mk func(info *types.Info, fd *ast.FuncDecl, subst func(string) string) func(ast.Expr) (bool, bool)) (bool, int) {
	fn, _ := b.info.Defs[b.fd.Name].(*types.Func)
	if fn == nil || fn.Exported() {
		return false, 0
	}
	n, bad := 0, 0
	funcsOf(b.prog, func(pkgPath string, info *types.Info, fd *ast.FuncDecl, caller *types.Func) {
		var cf *cfgx.Func
		ast.Inspect(fd.Body, func(x ast.Node) bool {
			call, ok := x.(*ast.CallExpr)
			if !ok {
				return true
			}
			if c, ok := typeutil.Callee(info, call).(*types.Func); !ok || c.Origin() != fn {
				return true
			}
			n++
			if cf == nil {
				cf = cfgx.New(info, fd)
			}
			// callee names -> caller operands
			names := map[string]string{}
			if b.fd.Recv != nil && len(b.fd.Recv.List) == 1 && len(b.fd.Recv.List[0].Names) == 1 {
				if sel, ok := ast.Unparen(call.Fun).(*ast.SelectorExpr); ok {
					names[b.fd.Recv.List[0].Names[0].Name] = types.ExprString(sel.X)
				}
			}
			k := 0
			for _, fl := range b.fd.Type.Params.List {
				for _, nm := range fl.Names {
					if k < len(call.Args) {
						names[nm.Name] = types.ExprString(call.Args[k])
					}
					k++
				}
			}
			subst := func(target string) string {
				// the target is rooted at a receiver/parameter name: root[.path]
				root := target
				rest := ""
				if i := strings.IndexAny(target, ".["); i >= 0 {
					root, rest = target[:i], target[i:]
				}
				if a, ok := names[root]; ok {
					return a + rest
				}
				return ""
			}
			if reachable(cf, call, mk(info, fd, subst)) {
				bad++
			}
			return true
		})
	})
	return n > 0 && bad == 0, n
}

// constNeed: the largest constant bound of a slice expression whose bounds are all constants.
func (b *bounds) constNeed(x *ast.SliceExpr) (int64, bool) {
	need := int64(0)
	for _, bd := range []ast.Expr{x.Low, x.High, x.Max} {
		if bd == nil {
			continue
		}
		c, ok := b.constInt(bd)
		if !ok {
			return 0, false
		}
		if c > need {
			need = c
		}
	}
	return need, true
}

// callOracleExpr is callOracle with a matcher that also says what the matched condition evaluates to.
func callOracleExpr(match func(e ast.Expr) (matched, canTrue, canFalse bool)) func(ast.Expr) (bool, bool) {
	var ev func(e ast.Expr) (bool, bool)
	ev = func(e ast.Expr) (bool, bool) {
		e = ast.Unparen(e)
		if m, t, f := match(e); m {
			return t, f
		}
		switch x := e.(type) {
		case *ast.UnaryExpr:
			if x.Op == token.NOT {
				t, f := ev(x.X)
				return f, t
			}
		case *ast.BinaryExpr:
			switch x.Op {
			case token.LAND:
				lt, lf := ev(x.X)
				rt, rf := ev(x.Y)
				return lt && rt, lf || (lt && rf)
			case token.LOR:
				lt, lf := ev(x.X)
				rt, rf := ev(x.Y)
				return lt || (lf && rt), lf && rf
			}
		}
		return true, true
	}
	return ev
}

// staticCall is one static call of a moq function.
type staticCall struct {
	info *types.Info
	fd   *ast.FuncDecl
	call *ast.CallExpr
}

var (
	callIndexProg *load.Program
	callIndex     map[*types.Func][]staticCall
)

// staticCallsOf lists the static calls of fn in moq's packages (indexed once per program).
func staticCallsOf(prog *load.Program, fn *types.Func) []staticCall {
	if callIndexProg != prog {
		callIndexProg = prog
		callIndex = map[*types.Func][]staticCall{}
		funcsOf(prog, func(pkgPath string, info *types.Info, fd *ast.FuncDecl, caller *types.Func) {
			ast.Inspect(fd.Body, func(n ast.Node) bool {
				if call, ok := n.(*ast.CallExpr); ok {
					if cf, ok := typeutil.Callee(info, call).(*types.Func); ok && prog.IsMoqPkg(cf.Pkg()) {
						callIndex[cf.Origin()] = append(callIndex[cf.Origin()], staticCall{info, fd, call})
					}
				}
				return true
			})
		})
	}
	return callIndex[fn.Origin()]
}

// nonEmptyString: the string expression is never "" — constants, concatenations with a non-empty part,
// names and texts handed out by go/types (an object's Name, a type's String), case mappings and
// in-range slices of non-empty strings, results of moq functions all of whose returns are non-empty,
// locals all of whose assignments are, and parameters (of unexported functions and bound function
// literals) that every call fills with a non-empty string. Claims in progress count as true: the
// fact holds by induction over the call depth.
func (b *bounds) nonEmptyString(e ast.Expr, depth int) bool {
	if depth > 16 {
		return false
	}
	e = ast.Unparen(e)
	if tv, ok := b.info.Types[e]; ok && tv.Value != nil && tv.Value.Kind() == constant.String {
		return constant.StringVal(tv.Value) != ""
	}
	switch x := e.(type) {
	case *ast.BinaryExpr:
		if x.Op == token.ADD {
			return b.nonEmptyString(x.X, depth+1) || b.nonEmptyString(x.Y, depth+1)
		}
	case *ast.SliceExpr:
		// s[:k] / s[k:] of a string: when it does not panic, s[:k] with k >= 1 is non-empty
		if x.Low == nil && x.High != nil {
			if c, ok := b.constInt(x.High); ok && c >= 1 {
				return true
			}
		}
		return false
	case *ast.CallExpr:
		if fn, ok := typeutil.Callee(b.info, x).(*types.Func); ok && fn.Pkg() != nil {
			switch {
			case fn.Pkg().Path() == "go/types" && (fn.Name() == "Name" || fn.Name() == "String"):
				return true // go/types never hands out empty names or type texts for declared objects and types
			case fn.Pkg().Path() == "strings" && (fn.Name() == "ToLower" || fn.Name() == "ToUpper" || fn.Name() == "Title") && len(x.Args) == 1:
				return b.nonEmptyString(x.Args[0], depth+1)
			case b.prog.IsMoqPkg(fn.Pkg()):
				return nonEmptyResult(b.prog, fn.Origin(), depth+1)
			}
		}
		// a call of a local function literal
		if id, ok := ast.Unparen(x.Fun).(*ast.Ident); ok {
			if d, ok := b.singleDef(id); ok {
				if lit, ok := ast.Unparen(d).(*ast.FuncLit); ok {
					return b.nonEmptyReturns(lit.Body, depth+1)
				}
			}
		}
		// a call through a function value whose possible targets are known (a bound parameter, a table)
		if !staticallyResolved(b.info, x) && depth < 14 {
			return b.dynamicNonEmpty(x, false, depth+1)
		}
	case *ast.Ident:
		v, _ := b.info.ObjectOf(x).(*types.Var)
		if v == nil {
			return false
		}
		if as := b.assigns[v]; len(as) > 0 {
			for i, a := range as {
				if a == nil {
					// x += … only makes a string longer; anything else (a range or tuple binding) is unknown
					if st, ok := b.anodes[v][i].(*ast.AssignStmt); ok && st.Tok == token.ADD_ASSIGN {
						continue
					}
					// name, ok := table[k] in the header of `if …; ok {` with a table of non-empty constants
					if st, ok := b.anodes[v][i].(*ast.AssignStmt); ok && b.okGuardedTableLookup(st, x) {
						continue
					}
					// name, ok := f(t) in the header of `if …; ok {` for a function value f with known targets
					if st, ok := b.anodes[v][i].(*ast.AssignStmt); ok && b.okGuardedDynamicCall(st, x, depth) {
						continue
					}
					return false
				}
				if !b.nonEmptyString(a, depth+1) {
					return false
				}
			}
			return true
		}
		// parameter of the enclosing function literal or unexported function
		return b.paramNonEmpty(v, depth+1)
	}
	return false
}

func (b *bounds) nonEmptyReturns(body *ast.BlockStmt, depth int) bool {
	okAll, n := true, 0
	ast.Inspect(body, func(x ast.Node) bool {
		if _, isLit := x.(*ast.FuncLit); isLit {
			return false
		}
		if rs, ok := x.(*ast.ReturnStmt); ok {
			n++
			if len(rs.Results) != 1 || !b.nonEmptyString(rs.Results[0], depth) {
				okAll = false
			}
		}
		return true
	})
	return okAll && n > 0
}

var nonEmptyMemo = map[*types.Func]int{} // 1 in progress (assumed), 2 true, 3 false

func nonEmptyResult(prog *load.Program, fn *types.Func, depth int) bool {
	switch nonEmptyMemo[fn] {
	case 1, 2:
		return true
	case 3:
		return false
	}
	d := prog.Decl(fn)
	if d == nil || d.Body == nil {
		return false
	}
	nonEmptyMemo[fn] = 1
	cb := newBounds(prog, prog.Info(fn.Pkg()), d)
	ok := cb.nonEmptyReturns(d.Body, depth)
	if ok {
		nonEmptyMemo[fn] = 2
	} else {
		nonEmptyMemo[fn] = 3
	}
	return ok
}

func (b *bounds) paramNonEmpty(v *types.Var, depth int) bool {
	// parameter of a function literal bound to a local
	var lit *ast.FuncLit
	pi := -1
	ast.Inspect(b.fd, func(n ast.Node) bool {
		fl, ok := n.(*ast.FuncLit)
		if !ok {
			return true
		}
		k := 0
		for _, f := range fl.Type.Params.List {
			for _, nm := range f.Names {
				if b.info.Defs[nm] == v {
					lit, pi = fl, k
				}
				k++
			}
		}
		return true
	})
	if lit != nil {
		var holder types.Object
		for o, as := range b.assigns {
			if len(as) == 1 && as[0] != nil && ast.Unparen(as[0]) == ast.Expr(lit) {
				holder = o
			}
		}
		if holder == nil {
			return false
		}
		calls, good := 0, 0
		ast.Inspect(b.fd, func(n ast.Node) bool {
			if call, ok := n.(*ast.CallExpr); ok {
				if id, ok := ast.Unparen(call.Fun).(*ast.Ident); ok && b.info.ObjectOf(id) == holder && pi < len(call.Args) {
					calls++
					if b.nonEmptyString(call.Args[pi], depth) {
						good++
					}
				}
			}
			return true
		})
		return calls > 0 && calls == good
	}
	if b.fd.Type.Params == nil {
		return false
	}
	k := 0
	for _, f := range b.fd.Type.Params.List {
		for _, nm := range f.Names {
			if b.info.Defs[nm] == v {
				pi = k
			}
			k++
		}
	}
	self, _ := b.info.Defs[b.fd.Name].(*types.Func)
	if pi < 0 || self == nil || self.Exported() {
		return false
	}
	calls := staticCallsOf(b.prog, self)
	if len(calls) == 0 {
		return false
	}
	for _, cs := range calls {
		if pi >= len(cs.call.Args) {
			return false
		}
		cb := newBounds(b.prog, cs.info, cs.fd)
		if !cb.nonEmptyString(cs.call.Args[pi], depth) {
			return false
		}
	}
	return true
}

// okGuardedTableLookup: `v, ok := table[k]` is the init statement of an if whose condition is ok, the use
// sits in that if's body, and table is a package-level map literal whose values are non-empty constants.
func (b *bounds) okGuardedTableLookup(st *ast.AssignStmt, use *ast.Ident) bool {
	if len(st.Lhs) != 2 || len(st.Rhs) != 1 {
		return false
	}
	ix, ok := ast.Unparen(st.Rhs[0]).(*ast.IndexExpr)
	if !ok {
		return false
	}
	okID, isID := ast.Unparen(st.Lhs[1]).(*ast.Ident)
	if !isID {
		return false
	}
	guarded := false
	ast.Inspect(b.fd, func(n ast.Node) bool {
		is, ok := n.(*ast.IfStmt)
		if !ok || is.Init != ast.Stmt(st) {
			return true
		}
		if cid, ok := ast.Unparen(is.Cond).(*ast.Ident); ok && b.info.ObjectOf(cid) == b.info.ObjectOf(okID) && within(is.Body, use) {
			guarded = true
		}
		return true
	})
	if !guarded {
		return false
	}
	if sel, isSel := ast.Unparen(ix.X).(*ast.SelectorExpr); isSel {
		fld, _ := b.info.ObjectOf(sel.Sel).(*types.Var)
		return fld != nil && fld.IsField() && b.prog.IsMoqPkg(fld.Pkg()) && b.fieldTableNonEmpty(fld)
	}
	tid, isID := ast.Unparen(ix.X).(*ast.Ident)
	if !isID {
		return false
	}
	tv, _ := b.info.ObjectOf(tid).(*types.Var)
	if tv == nil || tv.Pkg() == nil || tv.Parent() != tv.Pkg().Scope() {
		return false
	}
	pk := b.prog.ByPath[tv.Pkg().Path()]
	if pk == nil {
		return false
	}
	okAll, found := true, false
	for _, f := range pk.Syntax {
		for _, d := range f.Decls {
			gd, ok := d.(*ast.GenDecl)
			if !ok || gd.Tok != token.VAR {
				continue
			}
			for _, sp := range gd.Specs {
				vs := sp.(*ast.ValueSpec)
				for i, nm := range vs.Names {
					if pk.TypesInfo.Defs[nm] != tv || i >= len(vs.Values) {
						continue
					}
					cl, ok := ast.Unparen(vs.Values[i]).(*ast.CompositeLit)
					if !ok {
						okAll = false
						continue
					}
					found = true
					for _, el := range cl.Elts {
						kv, ok := el.(*ast.KeyValueExpr)
						if !ok {
							okAll = false
							continue
						}
						val := pk.TypesInfo.Types[kv.Value]
						if val.Value == nil || val.Value.Kind() != constant.String || constant.StringVal(val.Value) == "" {
							okAll = false
						}
					}
				}
			}
		}
	}
	return found && okAll
}

// checkedResult: see assertionOK.
func (b *bounds) checkedResult(f *cfgx.Func, at ast.Node, t ast.Expr) (bool, string) {
	id, ok := ast.Unparen(t).(*ast.Ident)
	if !ok {
		return false, ""
	}
	v, _ := b.info.ObjectOf(id).(*types.Var)
	if v == nil || len(b.assigns[v]) != 1 || b.assigns[v][0] != nil {
		return false, ""
	}
	as, ok := b.anodes[v][0].(*ast.AssignStmt)
	if !ok || len(as.Rhs) != 1 || len(as.Lhs) < 2 {
		return false, ""
	}
	call, ok := ast.Unparen(as.Rhs[0]).(*ast.CallExpr)
	if !ok {
		return false, ""
	}
	fn, _ := typeutil.Callee(b.info, call).(*types.Func)
	if fn == nil || !b.prog.IsMoqPkg(fn.Pkg()) {
		return false, ""
	}
	ri := -1
	for i, l := range as.Lhs {
		if lid, ok := ast.Unparen(l).(*ast.Ident); ok && b.info.ObjectOf(lid) == v {
			ri = i
		}
	}
	eid, ok := ast.Unparen(as.Lhs[len(as.Lhs)-1]).(*ast.Ident)
	if !ok || ri < 0 || ri == len(as.Lhs)-1 {
		return false, ""
	}
	ev, _ := b.info.ObjectOf(eid).(*types.Var)
	if ev == nil || types.TypeString(ev.Type(), nil) != "error" {
		return false, ""
	}
	// caller side: unreachable when the error is non-nil
	errSet := func(cond ast.Expr) (bool, bool) {
		return callOracleExpr(func(e ast.Expr) (bool, bool, bool) {
			if isT, nonNilTrue := cfgx.NilTestOf(b.info, e, ev); isT {
				return true, nonNilTrue, !nonNilTrue
			}
			return false, false, false
		})(cond)
	}
	if reachable(f, at, errSet) {
		return false, ""
	}
	// callee side
	d := b.prog.Decl(fn.Origin())
	cinfo := b.prog.Info(fn.Pkg())
	if d == nil || d.Body == nil || cinfo == nil {
		return false, ""
	}
	cf := cfgx.New(cinfo, d)
	cb := newBounds(b.prog, cinfo, d)
	n, good := 0, 0
	ast.Inspect(d.Body, func(x ast.Node) bool {
		if _, isLit := x.(*ast.FuncLit); isLit {
			return false
		}
		rs, ok := x.(*ast.ReturnStmt)
		if !ok {
			return true
		}
		if len(rs.Results) != len(as.Lhs) {
			n++
			return true
		}
		last, ok := ast.Unparen(rs.Results[len(rs.Results)-1]).(*ast.Ident)
		if _, isNil := cinfo.Uses[last].(*types.Nil); !ok || !isNil {
			return true // an error return: the caller never gets to the assertion
		}
		n++
		want := cb.norm(rs.Results[ri])
		isIface := func(e ast.Expr) bool {
			c, ok := ast.Unparen(e).(*ast.CallExpr)
			if !ok || len(c.Args) != 1 {
				return false
			}
			cfn, _ := typeutil.Callee(cinfo, c).(*types.Func)
			return cfn != nil && cfn.FullName() == "go/types.IsInterface" && cb.norm(c.Args[0]) == want
		}
		if !reachable(cf, rs, callOracle(isIface, false)) {
			good++
		}
		return true
	})
	if n > 0 && n == good {
		return true, fmt.Sprintf("the type is the result of %s, which returns it without an error only behind types.IsInterface on it; the assertion is unreachable when that error is set", load.FuncName(fn))
	}
	return false, ""
}

// fieldTableNonEmpty: the map-typed field of a moq struct is filled only by composite literals
// `field: map[K]string{k: "non-empty constant", ...}` and is never stored into or reassigned.
func (b *bounds) fieldTableNonEmpty(fld *types.Var) bool {
	okAll, found := true, false
	for _, pk := range b.prog.MoqPackages() {
		info := pk.TypesInfo
		for _, f := range pk.Syntax {
			ast.Inspect(f, func(n ast.Node) bool {
				switch x := n.(type) {
				case *ast.KeyValueExpr:
					if id, ok := x.Key.(*ast.Ident); ok && info.ObjectOf(id) == fld {
						cl, ok := ast.Unparen(x.Value).(*ast.CompositeLit)
						if !ok {
							okAll = false
							return true
						}
						found = true
						for _, el := range cl.Elts {
							kv, ok := el.(*ast.KeyValueExpr)
							if !ok {
								okAll = false
								continue
							}
							val := info.Types[kv.Value]
							if val.Value == nil || val.Value.Kind() != constant.String || constant.StringVal(val.Value) == "" {
								okAll = false
							}
						}
					}
				case *ast.AssignStmt:
					for _, l := range x.Lhs {
						e := ast.Unparen(l)
						if ix, ok := e.(*ast.IndexExpr); ok {
							e = ast.Unparen(ix.X)
						}
						if sel, ok := e.(*ast.SelectorExpr); ok && info.ObjectOf(sel.Sel) == fld {
							okAll = false
						}
					}
				case *ast.UnaryExpr:
					if sel, ok := ast.Unparen(x.X).(*ast.SelectorExpr); ok && x.Op == token.AND && info.ObjectOf(sel.Sel) == fld {
						okAll = false
					}
				}
				return true
			})
		}
	}
	return okAll && found
}

// rangeGuarded: x[v] for a variable v that is never written in the function (a parameter, the receiver),
// unreachable both when v < 0 and when v >= len(x): `if v < 0 || int(v) >= len(x) { return .. }` before it.
func (b *bounds) rangeGuarded(f *cfgx.Func, x *ast.IndexExpr, v types.Object) (bool, string) {
	if len(b.assigns[v]) != 0 {
		return false, ""
	}
	// the indexed value is not reassigned here either
	if xid, ok := ast.Unparen(x.X).(*ast.Ident); ok {
		if len(b.assigns[b.info.ObjectOf(xid)]) != 0 {
			return false, ""
		}
	}
	want := b.norm(x.X)
	isV := func(e ast.Expr) bool {
		e = ast.Unparen(e)
		// through a conversion to an integer type
		if call, ok := e.(*ast.CallExpr); ok && len(call.Args) == 1 {
			if tv, ok := b.info.Types[call.Fun]; ok && tv.IsType() {
				e = ast.Unparen(call.Args[0])
			}
		}
		id, ok := e.(*ast.Ident)
		return ok && b.info.ObjectOf(id) == v
	}
	isLen := func(e ast.Expr) bool {
		op, ok := b.lenOperand(e)
		return ok && b.norm(op) == want
	}
	isZero := func(e ast.Expr) bool {
		c, ok := b.constInt(e)
		return ok && c == 0
	}
	// assumption 1: v < 0; assumption 2: v >= len(x)
	mk := func(negative bool) func(ast.Expr) (bool, bool) {
		return callOracleExpr(func(e ast.Expr) (bool, bool, bool) {
			be, ok := ast.Unparen(e).(*ast.BinaryExpr)
			if !ok {
				return false, false, false
			}
			l, r, op := be.X, be.Y, be.Op
			// normalise to v OP other
			if !isV(l) && isV(r) {
				l, r = r, l
				switch op {
				case token.LSS:
					op = token.GTR
				case token.GTR:
					op = token.LSS
				case token.LEQ:
					op = token.GEQ
				case token.GEQ:
					op = token.LEQ
				}
			}
			if !isV(l) {
				return false, false, false
			}
			if negative && isZero(r) {
				switch op {
				case token.LSS:
					return true, true, false
				case token.GEQ:
					return true, false, true
				}
			}
			if !negative && isLen(r) {
				switch op {
				case token.GEQ:
					return true, true, false
				case token.LSS:
					return true, false, true
				}
			}
			return false, false, false
		})
	}
	// an unsigned index cannot be negative
	unsigned := false
	if bt, ok := v.Type().Underlying().(*types.Basic); ok && bt.Info()&types.IsUnsigned != 0 {
		unsigned = true
	}
	if (unsigned || !reachable(f, x, mk(true))) && !reachable(f, x, mk(false)) {
		return true, "unreachable when the index is negative or not below len of the indexed value (dominating range guard on a variable that is never written)"
	}
	return false, ""
}

// okGuardedDynamicCall: `name, ok := f(..)` as the init statement of `if …; ok { … use … }` where f is a
// function value with known targets, each giving a non-empty name whenever it says ok.
func (b *bounds) okGuardedDynamicCall(st *ast.AssignStmt, use *ast.Ident, depth int) bool {
	if len(st.Lhs) != 2 || len(st.Rhs) != 1 || depth > 12 {
		return false
	}
	call, ok := ast.Unparen(st.Rhs[0]).(*ast.CallExpr)
	if !ok || staticallyResolved(b.info, call) {
		return false
	}
	okID, isID := ast.Unparen(st.Lhs[1]).(*ast.Ident)
	if !isID {
		return false
	}
	guarded := false
	ast.Inspect(b.fd, func(n ast.Node) bool {
		is, ok := n.(*ast.IfStmt)
		if !ok || is.Init != ast.Stmt(st) {
			return true
		}
		if cid, ok := ast.Unparen(is.Cond).(*ast.Ident); ok && b.info.ObjectOf(cid) == b.info.ObjectOf(okID) && within(is.Body, use) {
			guarded = true
		}
		return true
	})
	return guarded && b.dynamicNonEmpty(call, true, depth+1)
}

// staticallyResolved: the call names a declared function, method or builtin (not a function value).
func staticallyResolved(info *types.Info, call *ast.CallExpr) bool {
	switch typeutil.Callee(info, call).(type) {
	case *types.Func, *types.Builtin:
		return true
	}
	return false
}

// loopSearchField: the method returns, on every path, a negative constant or the key variable of a range
// over one field of its receiver (and that field is not written in the method): the field's name.
func loopSearchField(info *types.Info, d *ast.FuncDecl) (string, bool) {
	recv := info.Defs[d.Recv.List[0].Names[0]]
	field := ""
	keys := map[types.Object]bool{}
	okAll := true
	ast.Inspect(d.Body, func(n ast.Node) bool {
		switch x := n.(type) {
		case *ast.RangeStmt:
			fs, ok := ast.Unparen(x.X).(*ast.SelectorExpr)
			kid, ok2 := x.Key.(*ast.Ident)
			if !ok || !ok2 {
				return true
			}
			rid, ok := ast.Unparen(fs.X).(*ast.Ident)
			if !ok || info.ObjectOf(rid) != recv {
				return true
			}
			if _, isSlice := info.TypeOf(fs).Underlying().(*types.Slice); !isSlice {
				return true
			}
			if field != "" && field != fs.Sel.Name {
				okAll = false
			}
			field = fs.Sel.Name
			keys[info.ObjectOf(kid)] = true
		case *ast.AssignStmt:
			for _, l := range x.Lhs {
				if fs, ok := ast.Unparen(l).(*ast.SelectorExpr); ok {
					if rid, ok := ast.Unparen(fs.X).(*ast.Ident); ok && info.ObjectOf(rid) == recv {
						okAll = false
					}
				}
			}
		case *ast.FuncLit:
			return false
		}
		return true
	})
	if field == "" || !okAll {
		return "", false
	}
	n := 0
	ast.Inspect(d.Body, func(x ast.Node) bool {
		if _, isLit := x.(*ast.FuncLit); isLit {
			return false
		}
		rs, ok := x.(*ast.ReturnStmt)
		if !ok {
			return true
		}
		n++
		if len(rs.Results) != 1 {
			okAll = false
			return true
		}
		if c, isC := constIntOf(info, rs.Results[0]); isC && c < 0 {
			return true
		}
		if id, ok := ast.Unparen(rs.Results[0]).(*ast.Ident); ok && keys[info.ObjectOf(id)] {
			return true
		}
		okAll = false
		return true
	})
	return field, okAll && n > 0
}
