package gen

import (
	"fmt"
	"go/ast"
	"go/token"
	"go/types"

	"verif/checker/internal/core"
	"verif/checker/internal/load"
)

// CheckResliceAppend (G-ALIAS/reslice-append): `y := x[lo:hi]` shares x's array; appending to y then writes
// over the elements of x behind hi. That is harmless when x is not looked at again, when the capacity is
// cut (`x[lo:hi:hi]`), when y is x itself (a buffer reused), or in the filter idiom — y starts at x[:0] and
// grows by at most one element per element of a `range x` that is the only later use of x. Anything else is
// reported: an element of x can be overwritten before it is read (seed C02i: the next level of a walk built
// in the array of the level being ranged over, several components per element).
func CheckResliceAppend(run *core.Run, prog *load.Program) {
	n := 0
	funcsOf(prog, func(pkgPath string, info *types.Info, fd *ast.FuncDecl, fn *types.Func) {
		rootOf := func(e ast.Expr) types.Object {
			for {
				switch x := ast.Unparen(e).(type) {
				case *ast.Ident:
					return info.ObjectOf(x)
				case *ast.SelectorExpr:
					return info.ObjectOf(x.Sel)
				case *ast.StarExpr:
					e = x.X
				default:
					return nil
				}
			}
		}
		type share struct {
			y    types.Object
			x    types.Object
			se   *ast.SliceExpr
			stmt ast.Node
		}
		var shares []share
		note := func(lhs ast.Expr, rhs ast.Expr, at ast.Node) {
			se, ok := ast.Unparen(rhs).(*ast.SliceExpr)
			if !ok || se.Slice3 {
				return
			}
			t := info.TypeOf(se.X)
			if t == nil {
				return
			}
			if _, isSlice := t.Underlying().(*types.Slice); !isSlice {
				return
			}
			y, x := rootOf(lhs), rootOf(se.X)
			if y == nil || x == nil || y == x {
				return
			}
			shares = append(shares, share{y, x, se, at})
		}
		ast.Inspect(fd, func(nd ast.Node) bool {
			switch s := nd.(type) {
			case *ast.AssignStmt:
				if len(s.Lhs) == len(s.Rhs) {
					for i := range s.Lhs {
						note(s.Lhs[i], s.Rhs[i], s)
					}
				}
			case *ast.ValueSpec:
				for i, nm := range s.Names {
					if i < len(s.Values) {
						note(nm, s.Values[i], s)
					}
				}
			}
			return true
		})
		for _, sh := range shares {
			n++
			fname := load.FuncName(fn)
			key := fname + ":" + types.ExprString(sh.se)
			// appends to y (directly, or through a call that takes y and whose result goes back into y)
			type app struct {
				stmt  *ast.AssignStmt
				count int // elements added: -1 unknown
			}
			var apps []app
			ast.Inspect(fd, func(nd ast.Node) bool {
				as, ok := nd.(*ast.AssignStmt)
				if !ok || len(as.Lhs) != len(as.Rhs) {
					return true
				}
				for i, l := range as.Lhs {
					if rootOf(l) != sh.y {
						continue
					}
					call, ok := ast.Unparen(as.Rhs[i]).(*ast.CallExpr)
					if !ok {
						continue
					}
					takesY := false
					for _, a := range call.Args {
						if rootOf(a) == sh.y {
							takesY = true
						}
					}
					if !takesY {
						continue
					}
					cnt := -1
					if id, ok := ast.Unparen(call.Fun).(*ast.Ident); ok {
						if bi, isB := info.Uses[id].(*types.Builtin); isB && bi.Name() == "append" && !call.Ellipsis.IsValid() && rootOf(call.Args[0]) == sh.y {
							cnt = len(call.Args) - 1
						}
					}
					apps = append(apps, app{as, cnt})
				}
				return true
			})
			if len(apps) == 0 {
				run.Check("G-ALIAS/reslice-append", key, prog.Pos(sh.se.Pos()), true, "")
				continue
			}
			// later uses of x: after the statement, or anywhere in a loop around it
			var loopAround ast.Node
			for _, enc := range enclosing(fd.Body, sh.stmt) {
				switch enc.(type) {
				case *ast.ForStmt, *ast.RangeStmt:
					if loopAround == nil {
						loopAround = enc
					}
				}
			}
			var ranges []*ast.RangeStmt
			other := 0
			ast.Inspect(fd.Body, func(nd ast.Node) bool {
				if rs, ok := nd.(*ast.RangeStmt); ok && rootOf(rs.X) == sh.x && (rs.Pos() > sh.stmt.Pos() || (loopAround != nil && within(loopAround, rs))) {
					ranges = append(ranges, rs)
				}
				id, ok := nd.(*ast.Ident)
				if !ok || info.Uses[id] != sh.x || within(sh.se, id) {
					return true
				}
				if !(id.Pos() > sh.stmt.End() || (loopAround != nil && within(loopAround, id))) {
					return true
				}
				// the loop header of a range over x is accounted for above; an assignment x = … ends the life of the old array
				for _, rs := range ranges {
					if within(rs.X, id) {
						return true
					}
				}
				isLhs := false
				ast.Inspect(fd.Body, func(m ast.Node) bool {
					if as, ok := m.(*ast.AssignStmt); ok {
						for _, l := range as.Lhs {
							if ast.Unparen(l) == ast.Expr(id) {
								isLhs = true
							}
						}
					}
					return !isLhs
				})
				if !isLhs {
					other++
				}
				return true
			})
			if len(ranges) == 0 && other == 0 {
				run.Check("G-ALIAS/reslice-append", key, prog.Pos(sh.se.Pos()), true, "")
				continue
			}
			// the filter idiom
			zero := func(e ast.Expr) bool {
				if e == nil {
					return true
				}
				tv := info.Types[e]
				return tv.Value != nil && tv.Value.String() == "0"
			}
			filter := len(ranges) == 1 && other == 0 && zero(sh.se.Low) && sh.se.High != nil && zero(sh.se.High) && len(apps) == 1 && apps[0].count == 1 && within(ranges[0].Body, apps[0].stmt)
			if filter {
				for _, enc := range enclosing(ranges[0].Body, apps[0].stmt) {
					switch enc.(type) {
					case *ast.ForStmt, *ast.RangeStmt:
						filter = false
					}
				}
			}
			run.Check("G-ALIAS/reslice-append", key, prog.Pos(sh.se.Pos()), filter, fmt.Sprintf("%s takes %s, which shares the array of %s, grows it (%d append site(s)) and still reads %s afterwards: an append can overwrite an element of %s before it has been read (only the filter idiom — start at [:0], one element at most per element of the one range over the original — is safe)", fname, types.ExprString(sh.se), sh.x.Name(), len(apps), sh.x.Name(), sh.x.Name()))
		}
	})
	run.Count("reslice_sites", n)
	_ = token.NoPos
}
