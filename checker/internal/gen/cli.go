// Package gen holds the rules on the generator's own Go source.
package gen

import (
	"fmt"
	"go/ast"
	"go/constant"
	"go/token"
	"go/types"
	"sort"
	"strings"

	"golang.org/x/tools/go/types/typeutil"

	"verif/checker/internal/cfgx"
	"verif/checker/internal/core"
	"verif/checker/internal/load"
)

// CLI is the resolved structure of package main.
type CLI struct {
	Prog    *load.Program
	Info    *types.Info
	Main    *cfgx.Func
	Run     *cfgx.Func
	RunFn   *types.Func
	RunCall *ast.CallExpr
	Param   *types.Var            // run's parameter (the flags struct)
	Flags   map[string]*types.Var // flag name -> struct field bound to it
	Default map[string]string     // flag name -> default value (constant, rendered)
}

func findDecl(prog *load.Program, fn *types.Func) *ast.FuncDecl { return prog.Decl(fn) }

// ResolveCLI locates main, the run function (the function of package main
// whose error result main tests) and the flag bindings.
func ResolveCLI(prog *load.Program) (*CLI, error) {
	pk := prog.Moq[load.PkgMain]
	info := pk.TypesInfo
	mainFn, _ := pk.Types.Scope().Lookup("main").(*types.Func)
	if mainFn == nil || prog.Decl(mainFn) == nil {
		return nil, fmt.Errorf("func main not found in %s", load.PkgMain)
	}
	c := &CLI{Prog: prog, Info: info, Flags: map[string]*types.Var{}, Default: map[string]string{}}
	c.Main = cfgx.New(info, prog.Decl(mainFn))
	for _, s := range c.Main.Sites() {
		if s.Callee == nil || s.Callee.Pkg() != pk.Types || s.InFuncLit {
			continue
		}
		sig := s.Callee.Type().(*types.Signature)
		if sig.Results().Len() == 1 && types.TypeString(sig.Results().At(0).Type(), nil) == "error" && sig.Params().Len() == 1 {
			if c.RunFn != nil && c.RunFn != s.Callee {
				return nil, fmt.Errorf("main calls two error-returning functions of package main (%s, %s): the run role is ambiguous", c.RunFn.Name(), s.Callee.Name())
			}
			c.RunFn, c.RunCall = s.Callee, s.Call
		}
	}
	if c.RunFn == nil || prog.Decl(c.RunFn) == nil {
		return nil, fmt.Errorf("role not found: main does not call a one-argument, error-returning function of package main")
	}
	c.Run = cfgx.New(info, prog.Decl(c.RunFn))
	if ps := c.Run.Decl.Type.Params.List; len(ps) == 1 && len(ps[0].Names) == 1 {
		c.Param, _ = info.Defs[ps[0].Names[0]].(*types.Var)
	}
	if c.Param == nil {
		return nil, fmt.Errorf("run function has no single named parameter")
	}
	// flag bindings in main: flag.XxxVar(&flags.f, "name", default, usage)
	for _, s := range c.Main.Sites() {
		if s.Callee == nil || s.Callee.Pkg() == nil || s.Callee.Pkg().Path() != "flag" || !strings.HasSuffix(s.Callee.Name(), "Var") || len(s.Call.Args) < 3 {
			continue
		}
		ue, ok := ast.Unparen(s.Call.Args[0]).(*ast.UnaryExpr)
		if !ok || ue.Op != token.AND {
			continue
		}
		sel, ok := ast.Unparen(ue.X).(*ast.SelectorExpr)
		if !ok {
			continue
		}
		fld, _ := info.ObjectOf(sel.Sel).(*types.Var)
		name := info.Types[s.Call.Args[1]].Value
		if fld == nil || !fld.IsField() || name == nil || name.Kind() != constant.String {
			continue
		}
		n := constant.StringVal(name)
		c.Flags[n] = fld
		if dv := info.Types[s.Call.Args[2]].Value; dv != nil {
			c.Default[n] = dv.ExactString()
		} else {
			c.Default[n] = "<non-constant>"
		}
	}
	return c, nil
}

// fieldOfParam returns the struct field when e is `param.f`.
func (c *CLI) fieldOfParam(e ast.Expr) *types.Var {
	sel, ok := ast.Unparen(e).(*ast.SelectorExpr)
	if !ok {
		return nil
	}
	id, ok := ast.Unparen(sel.X).(*ast.Ident)
	if !ok || c.Info.ObjectOf(id) != c.Param {
		return nil
	}
	f, _ := c.Info.ObjectOf(sel.Sel).(*types.Var)
	return f
}

// Assume is an assumption about the flags: field -> "true"/"false" for
// booleans, "empty"/"nonempty" for strings.
type Assume map[*types.Var]string

// decide turns assumptions into a branch oracle.
func (c *CLI) decide(a Assume, extra func(cond ast.Expr) (bool, bool, bool)) func(ast.Expr) (bool, bool) {
	var dec func(cond ast.Expr) (bool, bool)
	dec = func(cond ast.Expr) (bool, bool) {
		cond = ast.Unparen(cond)
		if extra != nil {
			if t, f, ok := extra(cond); ok {
				return t, f
			}
		}
		if u, ok := cond.(*ast.UnaryExpr); ok && u.Op == token.NOT {
			t, f := dec(u.X)
			return f, t
		}
		// go/cfg keeps short-circuit conditions in one node: compose three-valued
		if be, ok := cond.(*ast.BinaryExpr); ok && (be.Op == token.LAND || be.Op == token.LOR) {
			lt, lf := dec(be.X)
			rt, rf := dec(be.Y)
			if be.Op == token.LAND {
				return lt && rt, lf || (lt && rf)
			}
			return lt || (lf && rt), lf && rf
		}
		if f := c.fieldOfParam(cond); f != nil {
			switch a[f] {
			case "true":
				return true, false
			case "false":
				return false, true
			}
		}
		// len(flags.f) ⋈ 0 is an emptiness test too
		if be, ok := cond.(*ast.BinaryExpr); ok {
			if op, isLen := LenOperand(c.Info, c.Run.Decl, be.X); isLen {
				if f := c.fieldOfParam(op); f != nil {
					if tv := c.Info.Types[be.Y]; tv.Value != nil && tv.Value.Kind() == constant.Int {
						if k, _ := constant.Int64Val(tv.Value); k == 0 && (a[f] == "empty" || a[f] == "nonempty") {
							empty := a[f] == "empty"
							switch be.Op {
							case token.EQL:
								return empty, !empty
							case token.NEQ, token.GTR:
								return !empty, empty
							}
						}
					}
				}
			}
		}
		if be, ok := cond.(*ast.BinaryExpr); ok && (be.Op == token.EQL || be.Op == token.NEQ) {
			var f *types.Var
			var other ast.Expr
			if f = c.fieldOfParam(be.X); f != nil {
				other = be.Y
			} else if f = c.fieldOfParam(be.Y); f != nil {
				other = be.X
			}
			if f != nil {
				if tv := c.Info.Types[other]; tv.Value != nil && tv.Value.Kind() == constant.String && constant.StringVal(tv.Value) == "" {
					switch a[f] {
					case "empty":
						return be.Op == token.EQL, be.Op == token.NEQ
					case "nonempty":
						return be.Op == token.NEQ, be.Op == token.EQL
					}
				}
			}
		}
		return true, true
	}
	return dec
}

func passedCallee(r *cfgx.Result, fullName string) []cfgx.Site {
	var out []cfgx.Site
	for _, s := range r.Calls {
		if s.Callee != nil && s.Callee.FullName() == fullName {
			out = append(out, s)
		}
	}
	return out
}

const (
	fnNew       = load.PkgMoq + ".New"
	fnMock      = "(*" + load.PkgMoq + ".Mocker).Mock"
	fnRemove    = "os.Remove"
	fnMkdirAll  = "os.MkdirAll"
	fnWriteFile = "os.WriteFile"
)

// Mutators are the file-system / process / environment mutating functions.
var Mutators = map[string]bool{}

func init() {
	for _, n := range []string{"Remove", "RemoveAll", "Rename", "Mkdir", "MkdirAll", "MkdirTemp", "Create", "CreateTemp", "OpenFile", "WriteFile", "Chmod", "Chown", "Lchown", "Chtimes", "Truncate", "Symlink", "Link", "Chdir", "Setenv", "Unsetenv", "Clearenv", "StartProcess", "OpenRoot"} {
		Mutators["os."+n] = true
	}
	for _, n := range []string{"WriteFile", "TempFile", "TempDir"} {
		Mutators["io/ioutil."+n] = true
	}
	for _, n := range []string{"Run", "Start", "Output", "CombinedOutput"} {
		Mutators["(*os/exec.Cmd)."+n] = true
	}
	for _, n := range []string{"Write", "WriteString", "WriteAt", "Truncate", "Chmod", "Chown", "Sync", "ReadFrom"} {
		Mutators["(*os.File)."+n] = true
	}
	for _, n := range []string{"Open", "Create", "Mkdir", "Unlink", "Rmdir", "Rename", "Write", "Exec", "ForkExec", "Truncate", "Chmod", "Symlink", "Link", "Setenv"} {
		Mutators["syscall."+n] = true
	}
	Mutators["os/exec.Command"] = true
	Mutators["os/exec.CommandContext"] = true
}

// EffectSites lists the call sites of mutators in moq's packages.
type EffectSite struct {
	PkgPath string // the package the site is written in
	Value   bool   // the mutator is used as a value, not called
	Fn      string
	Callee  string
	Pos     string
	Call    *ast.CallExpr
	InFn    *types.Func
}

func EffectSites(prog *load.Program, pkgs ...string) []EffectSite {
	var out []EffectSite
	for _, pk := range prog.MoqPackages() {
		if len(pkgs) > 0 {
			keep := false
			for _, p := range pkgs {
				if p == pk.PkgPath {
					keep = true
				}
			}
			if !keep {
				continue
			}
		}
		for _, f := range pk.Syntax {
			for _, d := range f.Decls {
				var owner *types.Func
				var name string
				if fd, ok := d.(*ast.FuncDecl); ok {
					owner, _ = pk.TypesInfo.Defs[fd.Name].(*types.Func)
					name = load.FuncName(owner)
				} else {
					name = "<package initialiser>"
				}
				ast.Inspect(d, func(n ast.Node) bool {
					switch x := n.(type) {
					case *ast.CallExpr:
						if fn, ok := typeutil.Callee(pk.TypesInfo, x).(*types.Func); ok && Mutators[fn.FullName()] {
							out = append(out, EffectSite{PkgPath: pk.PkgPath, Fn: pk.Name + "." + name, Callee: fn.FullName(), Pos: prog.Pos(x.Pos()), Call: x, InFn: owner})
						}
					case *ast.SelectorExpr:
						// a mutator used as a value (stored, passed on) escapes the call-site rule
						if fn, ok := pk.TypesInfo.Uses[x.Sel].(*types.Func); ok && Mutators[fn.FullName()] {
							if !isCallee(d, x) {
								out = append(out, EffectSite{PkgPath: pk.PkgPath, Fn: pk.Name + "." + name, Callee: fn.FullName() + " (used as a value)", Value: true, Pos: prog.Pos(x.Pos()), InFn: owner})
							}
						}
					}
					return true
				})
			}
		}
	}
	sort.Slice(out, func(i, j int) bool { return out[i].Pos < out[j].Pos })
	return out
}

func isCallee(root ast.Node, sel *ast.SelectorExpr) bool {
	found := false
	ast.Inspect(root, func(n ast.Node) bool {
		if c, ok := n.(*ast.CallExpr); ok && ast.Unparen(c.Fun) == ast.Expr(sel) {
			found = true
		}
		return !found
	})
	return found
}

// CheckEffectSites is C18's who-may-call rule on the whole program: mutators of the file system, the
// process or the environment are called only in package main, and only os.Remove, os.MkdirAll and
// os.WriteFile (what they are applied to, and when, is decided by interpreting main: props cliEffects).
func CheckEffectSites(run *core.Run, prog *load.Program) {
	allowed := map[string]bool{fnRemove: true, fnMkdirAll: true, fnWriteFile: true}
	for _, s := range EffectSites(prog) {
		// in package main a mutator may also be held in a variable or field (a seam for tests): where it is
		// called from there, and on what, is decided on every path by interpreting main (props cliEffects),
		// which follows function values
		inMain := s.PkgPath == load.PkgMain
		run.Check("G-EFF/who-may-call", s.Fn+"→"+s.Callee, s.Pos, inMain && allowed[strings.TrimSuffix(s.Callee, " (used as a value)")], fmt.Sprintf("%s calls %s: the only file-system/process/environment mutators allowed in moq's packages are os.Remove, os.MkdirAll and os.WriteFile, in package main", s.Fn, s.Callee))
		run.Sample(map[string]string{"effect_site": s.Pos, "function": s.Fn, "callee": s.Callee})
	}
	run.Floor("G-EFF/who-may-call", 3)
	checkLoaderConfig(run, prog)
}

// CheckEffects is C18's who-may-call rule.
func CheckEffects(run *core.Run, prog *load.Program, c *CLI) {
	sites := EffectSites(prog)
	want := map[string]int{fnRemove: 1, fnMkdirAll: 1, fnWriteFile: 1}
	got := map[string]int{}
	for _, s := range sites {
		inRun := s.InFn != nil && s.InFn == c.RunFn
		ok := inRun && want[s.Callee] > 0
		run.Check("G-EFF/who-may-call", s.Fn+"→"+s.Callee, s.Pos, ok, fmt.Sprintf("%s calls %s: the only file-system/process/environment mutators allowed in moq's packages are os.Remove, os.MkdirAll and os.WriteFile on the -out path, in %s", s.Fn, s.Callee, c.RunFn.Name()))
		run.Sample(map[string]string{"effect_site": s.Pos, "function": s.Fn, "callee": s.Callee})
		if inRun {
			got[s.Callee]++
		}
	}
	for fn, n := range want {
		run.Check("G-EFF/expected-sites", fn, prog.Pos(c.Run.Decl.Pos()), got[fn] == n, fmt.Sprintf("%s is called %d times in %s, want %d", fn, got[fn], c.RunFn.Name(), n))
	}
	run.Floor("G-EFF/who-may-call", 3)
	// operands are derived from the -out flag only
	out := c.Flags["out"]
	if out == nil {
		run.Undecided("G-EFF/operand", "flag-out", prog.Pos(c.Main.Decl.Pos()), "no flag named \"out\" is bound to a field of the flags struct")
		return
	}
	for _, s := range c.Run.Sites() {
		if s.Callee == nil {
			continue
		}
		switch s.Callee.FullName() {
		case fnRemove, fnWriteFile:
			ok := len(s.Call.Args) > 0 && c.fieldOfParam(s.Call.Args[0]) == out
			run.Check("G-EFF/operand", s.Callee.FullName(), prog.Pos(s.Call.Pos()), ok, fmt.Sprintf("%s is applied to %s, want exactly the -out path", s.Callee.FullName(), types.ExprString(s.Call.Args[0])))
		case fnMkdirAll:
			ok := false
			if inner, isCall := ast.Unparen(s.Call.Args[0]).(*ast.CallExpr); isCall {
				if fn, _ := typeutil.Callee(c.Info, inner).(*types.Func); fn != nil && fn.FullName() == "path/filepath.Dir" && len(inner.Args) == 1 {
					ok = c.fieldOfParam(inner.Args[0]) == out
				}
			}
			run.Check("G-EFF/operand", fnMkdirAll, prog.Pos(s.Call.Pos()), ok, fmt.Sprintf("os.MkdirAll is applied to %s, want filepath.Dir of the -out path", types.ExprString(s.Call.Args[0])))
		}
	}
	// without -out nothing is mutated; without -rm nothing is removed
	dec := c.decide(Assume{out: "empty"}, nil)
	r := c.Run.Explore(0, 0, cfgx.Cuts{Decide: dec})
	var reach []string
	for _, s := range r.Calls {
		if s.Callee != nil && Mutators[s.Callee.FullName()] {
			reach = append(reach, s.Callee.FullName())
		}
	}
	run.Check("G-EFF/no-out-no-effect", "run", prog.Pos(c.Run.Decl.Pos()), len(reach) == 0, fmt.Sprintf("with -out unset %v can still be reached: nothing may be created, changed or deleted then", reach))
	if rm := c.Flags["rm"]; rm != nil {
		r := c.Run.Explore(0, 0, cfgx.Cuts{Decide: c.decide(Assume{rm: "false"}, nil)})
		run.Check("G-EFF/remove-only-with-rm", "run", prog.Pos(c.Run.Decl.Pos()), len(passedCallee(r, fnRemove)) == 0 && len(passedCallee(r, "os.RemoveAll")) == 0, "the -out file can be removed although -rm was not given")
	} else {
		run.Undecided("G-EFF/remove-only-with-rm", "flag-rm", prog.Pos(c.Main.Decl.Pos()), "no flag named \"rm\" is bound")
	}
	checkLoaderConfig(run, prog)
}

func checkLoaderConfig(run *core.Run, prog *load.Program) {
	// packages.Config literals: only Mode and Dir may be set (Overlay writes files, BuildFlags/Env can make `go list` rewrite go.mod)
	for _, pk := range prog.MoqPackages() {
		for _, f := range pk.Syntax {
			ast.Inspect(f, func(n ast.Node) bool {
				cl, ok := n.(*ast.CompositeLit)
				if !ok {
					return true
				}
				t := pk.TypesInfo.TypeOf(cl)
				if t == nil || types.TypeString(t, nil) != "golang.org/x/tools/go/packages.Config" {
					return true
				}
				var bad []string
				for _, el := range cl.Elts {
					kv, ok := el.(*ast.KeyValueExpr)
					if !ok {
						bad = append(bad, "<positional>")
						continue
					}
					k := kv.Key.(*ast.Ident).Name
					if k != "Mode" && k != "Dir" {
						bad = append(bad, k)
					}
				}
				run.Check("G-EFF/loader-config", "packages.Config@"+enclosingFunc(pk.TypesInfo, f, cl.Pos()), prog.Pos(cl.Pos()), len(bad) == 0, fmt.Sprintf("the package loader is configured with %v: only Mode and Dir are known not to make the go command write (Overlay writes files; BuildFlags/Env such as -mod=mod let `go list` rewrite go.mod/go.sum)", bad))
				return true
			})
		}
	}
	run.Floor("G-EFF/loader-config", 1)
}

func enclosingFunc(info *types.Info, f *ast.File, pos token.Pos) string {
	for _, d := range f.Decls {
		if fd, ok := d.(*ast.FuncDecl); ok && fd.Pos() <= pos && pos <= fd.End() {
			return fd.Name.Name
		}
	}
	return "?"
}

// CheckRemove is C15's structural core: -rm removes the -out file before the package is loaded.
func CheckRemove(run *core.Run, prog *load.Program, c *CLI) {
	pos := prog.Pos(c.Run.Decl.Pos())
	out, rm := c.Flags["out"], c.Flags["rm"]
	if out == nil || rm == nil {
		run.Undecided("G-RM", "flags", prog.Pos(c.Main.Decl.Pos()), "flags \"out\" and \"rm\" are not both bound to fields of the flags struct")
		return
	}
	rem := c.Run.SitesOf(fnRemove)
	news := c.Run.SitesOf(fnNew)
	if !run.Check("G-RM/sites", "os.Remove+moq.New", pos, len(rem) == 1 && len(news) == 1, fmt.Sprintf("found %d os.Remove and %d moq.New call sites in %s, want 1 and 1", len(rem), len(news), c.RunFn.Name())) {
		return
	}
	// moq.New is the only entry to the package loader
	run.Check("G-RM/operand", "same-path-as-write", prog.Pos(rem[0].Call.Pos()), c.fieldOfParam(rem[0].Call.Args[0]) == out, fmt.Sprintf("-rm removes %s, want the -out path that is written later", types.ExprString(rem[0].Call.Args[0])))
	dec := c.decide(Assume{rm: "true", out: "nonempty"}, nil)
	r := c.Run.Explore(0, 0, cfgx.Cuts{Decide: dec, Nodes: map[ast.Node]bool{rem[0].Call: true}})
	run.Check("G-RM/before-load", "remove-dominates-load", prog.Pos(news[0].Call.Pos()), !r.PassedCall(news[0].Call), "with -rm and -out set, the package can be loaded (moq.New) on a path that has not removed the output file first: a stale or broken file at -out then takes part in the load")
	// an error other than not-exist aborts before the load
	v := c.Run.ErrVarOf(rem[0].Call)
	if !run.Check("G-RM/error", "checked", prog.Pos(rem[0].Call.Pos()), v != nil, "the error of os.Remove is dropped") {
		return
	}
	b, i := rem[0].After()
	extra := func(cond ast.Expr) (bool, bool, bool) {
		if is, nonNilTrue := cfgx.NilTestOf(c.Info, cond, v); is {
			return nonNilTrue, !nonNilTrue, true // assume the removal failed
		}
		if call, ok := cond.(*ast.CallExpr); ok {
			if fn, _ := typeutil.Callee(c.Info, call).(*types.Func); fn != nil && fn.FullName() == "errors.Is" && len(call.Args) == 2 {
				if id, ok := ast.Unparen(call.Args[0]).(*ast.Ident); ok && c.Info.ObjectOf(id) == v && types.ExprString(call.Args[1]) == "os.ErrNotExist" {
					return false, true, true // ... with an error that is not "does not exist"
				}
			}
			if fn, _ := typeutil.Callee(c.Info, call).(*types.Func); fn != nil && fn.FullName() == "os.IsNotExist" {
				return false, true, true
			}
		}
		return false, false, false
	}
	r2 := c.Run.Explore(b, i, cfgx.Cuts{Decide: c.decide(Assume{rm: "true", out: "nonempty"}, extra)})
	run.Check("G-RM/error", "aborts-before-load", prog.Pos(rem[0].Call.Pos()), !r2.PassedCall(news[0].Call), "when os.Remove fails with an error other than not-exist the package is loaded anyway: the result then depends on what was at -out")
	// the not-exist case must continue
	extra2 := func(cond ast.Expr) (bool, bool, bool) {
		if is, nonNilTrue := cfgx.NilTestOf(c.Info, cond, v); is {
			return !nonNilTrue, nonNilTrue, true // removal succeeded
		}
		return false, false, false
	}
	r3 := c.Run.Explore(b, i, cfgx.Cuts{Decide: c.decide(Assume{rm: "true", out: "nonempty"}, extra2)})
	run.Check("G-RM/error", "success-continues", prog.Pos(rem[0].Call.Pos()), r3.PassedCall(news[0].Call), "after a successful removal the load is not reached")
}

// CheckFileReplaced: the -out file is replaced as a whole, whatever was there
// (a regeneration over earlier output must not keep any of its bytes).
func CheckFileReplaced(run *core.Run, prog *load.Program, c *CLI) {
	out := c.Flags["out"]
	pos := prog.Pos(c.Run.Decl.Pos())
	writes := c.Run.SitesOf(fnWriteFile)
	ok := len(writes) == 1 && out != nil && len(writes[0].Call.Args) == 3 && c.fieldOfParam(writes[0].Call.Args[0]) == out
	run.Check("G-FILE/replaced", "single-WriteFile", pos, ok, fmt.Sprintf("the -out file is not written by exactly one os.WriteFile(<-out path>, …) (found %d): os.WriteFile creates or truncates; any other way of writing must be shown to replace the whole file", len(writes)))
	for _, s := range EffectSites(prog, load.PkgMain) {
		allowed := s.Callee == fnRemove || s.Callee == fnMkdirAll || s.Callee == fnWriteFile
		run.Check("G-FILE/replaced", "no-other-file-api:"+s.Callee, s.Pos, allowed, fmt.Sprintf("package main uses %s: a file opened without truncation keeps the tail of a longer earlier output", s.Callee))
	}
}

// CheckAlwaysGenerates: every successful run calls Mock (no "up to date" shortcut).
func CheckAlwaysGenerates(run *core.Run, prog *load.Program, c *CLI) {
	mocks := c.Run.SitesOf(fnMock)
	if len(mocks) != 1 {
		run.Check("G-CLI/always-generates", c.RunFn.Name(), prog.Pos(c.Run.Decl.Pos()), false, fmt.Sprintf("%d call sites of Mock in %s, want 1", len(mocks), c.RunFn.Name()))
		return
	}
	r := c.Run.Explore(0, 0, cfgx.Cuts{Nodes: map[ast.Node]bool{mocks[0].Call: true}})
	bad := 0
	for _, ex := range r.Exits {
		rs, isRet := ex.Node.(*ast.ReturnStmt)
		if !isRet || len(rs.Results) != 1 {
			bad++
			continue
		}
		if id, ok := ast.Unparen(rs.Results[0]).(*ast.Ident); ok {
			if _, isNil := c.Info.Uses[id].(*types.Nil); isNil {
				bad++
			}
		}
	}
	run.Check("G-CLI/always-generates", c.RunFn.Name(), prog.Pos(mocks[0].Call.Pos()), bad == 0, fmt.Sprintf("%s can return success on %d path(s) that never call Mock (e.g. an \"output is up to date\" shortcut): what is at -out then depends on an earlier run, not on this command line", c.RunFn.Name(), bad))
}
