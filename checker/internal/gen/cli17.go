package gen

import (
	"fmt"
	"go/ast"
	"go/constant"
	"go/token"
	"go/types"
	"strings"

	"golang.org/x/tools/go/types/typeutil"

	"verif/checker/internal/cfgx"
	"verif/checker/internal/core"
	"verif/checker/internal/load"
)

// reachingDefs returns the expressions last assigned to v on the paths that
// reach the CFG node holding `at`, under the branch oracle.
func reachingDefs(f *cfgx.Func, v *types.Var, at *ast.CallExpr, decide func(ast.Expr) (bool, bool)) []ast.Expr {
	type state struct {
		b, i int
		def  ast.Expr
	}
	seen := map[state]bool{}
	var out []ast.Expr
	add := func(e ast.Expr) {
		for _, o := range out {
			if o == e {
				return
			}
		}
		out = append(out, e)
	}
	var walk func(b, i int, def ast.Expr)
	walk = func(b, i int, def ast.Expr) {
		if seen[state{b, i, def}] {
			return
		}
		seen[state{b, i, def}] = true
		blk := f.G.Blocks[b]
		for ni := i; ni < len(blk.Nodes); ni++ {
			n := blk.Nodes[ni]
			hit := false
			ast.Inspect(n, func(x ast.Node) bool {
				if x == ast.Node(at) {
					hit = true
				}
				return !hit
			})
			if hit {
				add(def)
				return
			}
			switch s := n.(type) {
			case *ast.AssignStmt:
				for k, l := range s.Lhs {
					if id, ok := ast.Unparen(l).(*ast.Ident); ok && f.Info.ObjectOf(id) == v && len(s.Rhs) == len(s.Lhs) {
						def = s.Rhs[k]
					}
				}
			case *ast.DeclStmt:
				if gd, ok := s.Decl.(*ast.GenDecl); ok {
					for _, sp := range gd.Specs {
						if vs, ok := sp.(*ast.ValueSpec); ok {
							for k, nm := range vs.Names {
								if f.Info.Defs[nm] == v {
									def = nil
									if len(vs.Values) > k {
										def = vs.Values[k]
									}
								}
							}
						}
					}
				}
			case *ast.ValueSpec:
				for k, nm := range s.Names {
					if f.Info.Defs[nm] == v {
						def = nil
						if len(s.Values) > k {
							def = s.Values[k]
						}
					}
				}
			}
		}
		canT, canF := true, true
		if len(blk.Succs) == 2 && decide != nil && len(blk.Nodes) > 0 {
			if cond, ok := blk.Nodes[len(blk.Nodes)-1].(ast.Expr); ok {
				canT, canF = decide(f.Cond(cond))
			}
		}
		for si, s := range blk.Succs {
			if len(blk.Succs) == 2 && ((si == 0 && !canT) || (si == 1 && !canF)) {
				continue
			}
			walk(int(s.Index), 0, def)
		}
	}
	walk(0, 0, nil)
	return out
}

// CheckAllOrNothingCLI is the command-line half of C17.
func CheckAllOrNothingCLI(run *core.Run, prog *load.Program, c *CLI) {
	pos := prog.Pos(c.Run.Decl.Pos())
	info := c.Info
	out := c.Flags["out"]
	if out == nil {
		run.Undecided("G-CLI", "flag-out", prog.Pos(c.Main.Decl.Pos()), "no flag named \"out\" is bound to a field of the flags struct")
		return
	}
	news, mocks := c.Run.SitesOf(fnNew), c.Run.SitesOf(fnMock)
	writes, mkdirs := c.Run.SitesOf(fnWriteFile), c.Run.SitesOf(fnMkdirAll)
	if !run.Check("G-CLI/sites", "New,Mock,MkdirAll,WriteFile", pos, len(news) == 1 && len(mocks) == 1 && len(writes) == 1 && len(mkdirs) == 1,
		fmt.Sprintf("found %d moq.New, %d Mock, %d os.MkdirAll, %d os.WriteFile call sites in %s, want one each (the output file must be written by a single os.WriteFile, which creates or truncates it)", len(news), len(mocks), len(mkdirs), len(writes), c.RunFn.Name())) {
		return
	}
	mock, wr, mk := mocks[0], writes[0], mkdirs[0]
	// --- which writer Mock gets
	var bufVar *types.Var
	if id, ok := ast.Unparen(mock.Call.Args[0]).(*ast.Ident); ok {
		wv, _ := info.ObjectOf(id).(*types.Var)
		defsSet := reachingDefs(c.Run, wv, mock.Call, c.decide(Assume{out: "nonempty"}, nil))
		okBuf := len(defsSet) == 1 && defsSet[0] != nil
		if okBuf {
			ue, isAddr := ast.Unparen(defsSet[0]).(*ast.UnaryExpr)
			okBuf = isAddr && ue.Op == token.AND
			if okBuf {
				bid, isID := ast.Unparen(ue.X).(*ast.Ident)
				okBuf = isID
				if isID {
					bufVar, _ = info.ObjectOf(bid).(*types.Var)
					okBuf = bufVar != nil && types.TypeString(bufVar.Type(), nil) == "bytes.Buffer" && bufVar.Parent() != bufVar.Pkg().Scope()
				}
			}
		}
		run.Check("G-CLI/writer", "buffer-when-out-set", prog.Pos(mock.Call.Pos()), okBuf, fmt.Sprintf("with -out set, Mock does not write into a local bytes.Buffer on every path (reaching definitions of %s: %s): output would reach stdout or the file before generation has succeeded", id.Name, exprs(defsSet)))
		defsEmpty := reachingDefs(c.Run, wv, mock.Call, c.decide(Assume{out: "empty"}, nil))
		run.Check("G-CLI/writer", "stdout-when-out-unset", prog.Pos(mock.Call.Pos()), len(defsEmpty) == 1 && defsEmpty[0] != nil && types.ExprString(defsEmpty[0]) == "os.Stdout", fmt.Sprintf("without -out, Mock's writer is %s, want os.Stdout", exprs(defsEmpty)))
		// the writer variable is used for nothing else
		uses := 0
		lhs := map[*ast.Ident]bool{}
		ast.Inspect(c.Run.Decl.Body, func(n ast.Node) bool {
			if as, ok := n.(*ast.AssignStmt); ok {
				for _, l := range as.Lhs {
					if id, ok := ast.Unparen(l).(*ast.Ident); ok {
						lhs[id] = true
					}
				}
			}
			if x, ok := n.(*ast.Ident); ok && info.Uses[x] == wv && !lhs[x] {
				uses++
			}
			return true
		})
		run.Check("G-CLI/writer", "only-passed-to-Mock", prog.Pos(mock.Call.Pos()), uses == 1, fmt.Sprintf("the writer variable %s is used %d times, want only as Mock's argument", id.Name, uses))
	} else {
		run.Check("G-CLI/writer", "buffer-when-out-set", prog.Pos(mock.Call.Pos()), false, fmt.Sprintf("Mock's writer argument is %s, not a variable selected between os.Stdout and a buffer", types.ExprString(mock.Call.Args[0])))
	}
	// --- what is written to the file
	okWhat := len(wr.Call.Args) == 3 && c.fieldOfParam(wr.Call.Args[0]) == out
	if okWhat {
		bc, isCall := ast.Unparen(wr.Call.Args[1]).(*ast.CallExpr)
		okWhat = isCall
		if isCall {
			sel, isSel := ast.Unparen(bc.Fun).(*ast.SelectorExpr)
			okWhat = isSel && sel.Sel.Name == "Bytes"
			if okWhat {
				id, isID := ast.Unparen(sel.X).(*ast.Ident)
				okWhat = isID && bufVar != nil && info.ObjectOf(id) == bufVar
			}
		}
	}
	run.Check("G-CLI/file", "content-is-the-buffer", prog.Pos(wr.Call.Pos()), okWhat, fmt.Sprintf("os.WriteFile(%s, %s, …): want the -out path and the bytes of the very buffer Mock wrote into", types.ExprString(wr.Call.Args[0]), types.ExprString(wr.Call.Args[1])))
	// the buffer is touched by nothing but Mock (through the writer) and the final Bytes()
	if bufVar != nil {
		uses := 0
		ast.Inspect(c.Run.Decl.Body, func(n ast.Node) bool {
			if x, ok := n.(*ast.Ident); ok && info.Uses[x] == bufVar {
				uses++
			}
			return true
		})
		run.Check("G-CLI/file", "buffer-untouched", pos, uses == 2, fmt.Sprintf("the output buffer is used %d times in %s, want 2 (its address for Mock, its bytes for the file)", uses, c.RunFn.Name()))
	}
	// --- errors of New and Mock are checked before anything is created
	for _, s := range []cfgx.Site{news[0], mock} {
		v := c.Run.ErrVarOf(s.Call)
		name := s.Callee.Name()
		if !run.Check("G-CLI/errors", name+":bound", prog.Pos(s.Call.Pos()), v != nil, "the error of "+name+" is dropped") {
			continue
		}
		failed := func(cond ast.Expr) (bool, bool, bool) {
			if is, nonNilTrue := cfgx.NilTestOf(info, cond, v); is {
				return nonNilTrue, !nonNilTrue, true
			}
			return false, false, false
		}
		b, i := s.After()
		r := c.Run.Explore(b, i, cfgx.Cuts{Decide: c.decide(Assume{}, failed)})
		var reach []string
		for _, x := range r.Calls {
			if x.Callee != nil && Mutators[x.Callee.FullName()] {
				reach = append(reach, x.Callee.FullName())
			}
		}
		run.Check("G-CLI/errors", name+":checked-before-effects", prog.Pos(s.Call.Pos()), len(reach) == 0, fmt.Sprintf("when %s fails, %v can still be reached: a failed generation could create directories or replace the -out file", name, reach))
		okRet := len(r.Exits) > 0
		for _, ex := range r.Exits {
			rs, isRet := ex.Node.(*ast.ReturnStmt)
			if !isRet || len(rs.Results) != 1 || !mentions(info, rs.Results[0], v) {
				okRet = false
			}
		}
		run.Check("G-CLI/errors", name+":returned", prog.Pos(s.Call.Pos()), okRet, "the error of "+name+" is not returned to main on its non-nil branch")
	}
	// --- directory creation precedes the write and its error is checked
	{
		v := c.Run.ErrVarOf(mk.Call)
		ok := v != nil
		if ok {
			failed := func(cond ast.Expr) (bool, bool, bool) {
				if is, nonNilTrue := cfgx.NilTestOf(info, cond, v); is {
					return nonNilTrue, !nonNilTrue, true
				}
				return false, false, false
			}
			b, i := mk.After()
			ok = !c.Run.Explore(b, i, cfgx.Cuts{Decide: c.decide(Assume{}, failed)}).PassedCall(wr.Call)
		}
		run.Check("G-CLI/mkdir", "error-checked", prog.Pos(mk.Call.Pos()), ok, "the error of os.MkdirAll is not checked before the file is written")
		r := c.Run.Explore(0, 0, cfgx.Cuts{Nodes: map[ast.Node]bool{mk.Call: true}, Decide: c.decide(Assume{out: "nonempty"}, nil)})
		run.Check("G-CLI/mkdir", "before-write", prog.Pos(mk.Call.Pos()), !r.PassedCall(wr.Call), "the -out file can be written without its parent directories having been created")
	}
	// --- the write is the last thing run does and its error is returned
	{
		b, i := wr.After()
		r := c.Run.Explore(b, i, cfgx.Cuts{})
		okLast := len(r.Calls) == 0
		run.Check("G-CLI/file", "written-last", prog.Pos(wr.Call.Pos()), okLast, fmt.Sprintf("%d calls follow the file write", len(r.Calls)))
		okRet := false
		ast.Inspect(c.Run.Decl.Body, func(n ast.Node) bool {
			if rs, ok := n.(*ast.ReturnStmt); ok && len(rs.Results) == 1 && ast.Unparen(rs.Results[0]) == ast.Expr(wr.Call) {
				okRet = true
			}
			return true
		})
		if v := c.Run.ErrVarOf(wr.Call); v != nil {
			okRet = true
		}
		run.Check("G-CLI/file", "write-error-returned", prog.Pos(wr.Call.Pos()), okRet, "the error of os.WriteFile is dropped: an unwritable destination would exit 0")
	}
	// --- a successful run always generates, and with -out always writes the file
	{
		r := c.Run.Explore(0, 0, cfgx.Cuts{Nodes: map[ast.Node]bool{mock.Call: true}})
		bad := 0
		for _, ex := range r.Exits {
			rs, isRet := ex.Node.(*ast.ReturnStmt)
			if !isRet || len(rs.Results) != 1 {
				bad++
				continue
			}
			if id, ok := ast.Unparen(rs.Results[0]).(*ast.Ident); ok {
				if _, isNil := info.Uses[id].(*types.Nil); isNil {
					bad++
				}
			}
		}
		run.Check("G-CLI/always-generates", c.RunFn.Name(), prog.Pos(mock.Call.Pos()), bad == 0, fmt.Sprintf("%s can return success on %d path(s) that never call Mock (e.g. an \"output is up to date\" shortcut): what is at -out then depends on an earlier run, not on this command line", c.RunFn.Name(), bad))
		mv := c.Run.ErrVarOf(mock.Call)
		if mv != nil {
			okMock := func(cond ast.Expr) (bool, bool, bool) {
				if is, nonNilTrue := cfgx.NilTestOf(info, cond, mv); is {
					return !nonNilTrue, nonNilTrue, true // Mock succeeded
				}
				return false, false, false
			}
			b, i := mock.After()
			r2 := c.Run.Explore(b, i, cfgx.Cuts{Decide: c.decide(Assume{out: "nonempty"}, okMock), Nodes: map[ast.Node]bool{wr.Call: true}})
			okEvery := true
			for _, ex := range r2.Exits {
				rs, isRet := ex.Node.(*ast.ReturnStmt)
				if !isRet || len(rs.Results) != 1 {
					okEvery = false
					continue
				}
				if id, ok := ast.Unparen(rs.Results[0]).(*ast.Ident); ok {
					if _, isNil := info.Uses[id].(*types.Nil); isNil {
						okEvery = false
					}
				}
			}
			run.Check("G-CLI/file", "written-on-every-success", prog.Pos(wr.Call.Pos()), okEvery, "with -out set and generation successful, the run can still return success without writing the file (a \"nothing changed\" shortcut): the file then keeps what an earlier run left there")
		}
	}
	checkMain(run, prog, c)
}

func mentions(info *types.Info, e ast.Expr, v *types.Var) bool {
	found := false
	ast.Inspect(e, func(n ast.Node) bool {
		if id, ok := n.(*ast.Ident); ok && info.ObjectOf(id) == v {
			found = true
		}
		return !found
	})
	return found
}

func exprs(es []ast.Expr) string {
	var ss []string
	for _, e := range es {
		if e == nil {
			ss = append(ss, "<zero value>")
		} else {
			ss = append(ss, types.ExprString(e))
		}
	}
	return "{" + strings.Join(ss, ", ") + "}"
}

// checkMain: failure → diagnostic on stderr and a non-zero exit status; success → status 0.
func checkMain(run *core.Run, prog *load.Program, c *CLI) {
	info := c.Info
	v := c.Main.ErrVarOf(c.RunCall)
	pos := prog.Pos(c.RunCall.Pos())
	if !run.Check("G-MAIN/error", "bound", pos, v != nil, "main drops the error of "+c.RunFn.Name()) {
		return
	}
	brs := c.Main.Branches(func(cond ast.Expr) bool { is, _ := cfgx.NilTestOf(info, cond, v); return is })
	if !run.Check("G-MAIN/error", "tested", pos, len(brs) == 1, fmt.Sprintf("main tests the error of %s %d times, want once", c.RunFn.Name(), len(brs))) {
		return
	}
	br := brs[0]
	_, nonNilTrue := cfgx.NilTestOf(info, br.Cond, v)
	failB, okB := br.True, br.False
	if !nonNilTrue {
		failB, okB = br.False, br.True
	}
	rf := c.Main.Explore(int(failB), 0, cfgx.Cuts{})
	// every exit of the failure branch is os.Exit(c), c a non-zero constant
	okExit := len(rf.Exits) > 0
	for _, ex := range rf.Exits {
		code, isExit := exitCode(info, ex.Node)
		if !isExit || code == 0 {
			okExit = false
		}
	}
	run.Check("G-MAIN/exit", "nonzero-on-failure", pos, okExit, "on failure main does not always end in os.Exit with a non-zero constant status")
	// diagnostic on stderr mentioning the error, nothing of it on stdout
	stderr, stdout := false, false
	for _, s := range rf.Calls {
		if s.Callee == nil || s.Callee.Pkg() == nil || s.Callee.Pkg().Path() != "fmt" {
			continue
		}
		hasErr := false
		for _, a := range s.Call.Args {
			if mentions(info, a, v) {
				hasErr = true
			}
		}
		if !hasErr {
			continue
		}
		switch {
		case strings.HasPrefix(s.Callee.Name(), "Fprint") && len(s.Call.Args) > 0 && types.ExprString(s.Call.Args[0]) == "os.Stderr":
			stderr = true
		case strings.HasPrefix(s.Callee.Name(), "Print"), strings.HasPrefix(s.Callee.Name(), "Fprint") && len(s.Call.Args) > 0 && types.ExprString(s.Call.Args[0]) == "os.Stdout":
			stdout = true
		}
	}
	run.Check("G-MAIN/diagnostic", "stderr", pos, stderr && !stdout, "on failure the error is not printed to standard error (or is printed to standard output)")
	// the stderr print happens on every failure path before exiting
	var printCalls = map[ast.Node]bool{}
	for _, s := range rf.Calls {
		if s.Callee != nil && strings.HasPrefix(s.Callee.Name(), "Fprint") && len(s.Call.Args) > 0 && types.ExprString(s.Call.Args[0]) == "os.Stderr" {
			printCalls[s.Call] = true
		}
	}
	r2 := c.Main.Explore(int(failB), 0, cfgx.Cuts{Nodes: printCalls})
	run.Check("G-MAIN/diagnostic", "every-path", pos, len(r2.Exits) == 0, "a failing run can exit without printing the diagnostic")
	// success: no non-zero exit
	rs := c.Main.Explore(int(okB), 0, cfgx.Cuts{})
	okZero := true
	for _, ex := range rs.Exits {
		if code, isExit := exitCode(info, ex.Node); isExit && code != 0 {
			okZero = false
		}
	}
	run.Check("G-MAIN/exit", "zero-on-success", pos, okZero, "a successful run can exit with a non-zero status")
}

func exitCode(info *types.Info, n ast.Node) (int64, bool) {
	var call *ast.CallExpr
	switch x := n.(type) {
	case *ast.ExprStmt:
		call, _ = x.X.(*ast.CallExpr)
	case *ast.CallExpr:
		call = x
	}
	if call == nil {
		return 0, false
	}
	fn, _ := typeutil.Callee(info, call).(*types.Func)
	if fn == nil || fn.FullName() != "os.Exit" || len(call.Args) != 1 {
		return 0, false
	}
	tv := info.Types[call.Args[0]]
	if tv.Value == nil || tv.Value.Kind() != constant.Int {
		return 0, true // non-constant: treated as possibly zero
	}
	code, _ := constant.Int64Val(tv.Value)
	return code, true
}
