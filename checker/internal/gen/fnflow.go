package gen

import (
	"go/ast"
	"go/token"
	"go/types"

	"golang.org/x/tools/go/types/typeutil"
)

// Function-value flow, for facts about what a call through a function value can return: a call of a
// local bound to a literal, of a parameter that every creator binds, of an element of a table of
// functions (a slice or map literal, possibly assigned in an init function), of what a moq function
// returns. Each target is a function body together with the bindings of the function-typed parameters of
// the function that created it.

type fnRef struct {
	e    ast.Expr
	info *types.Info
	fd   *ast.FuncDecl
	bind map[types.Object]fnRef
}

type fnBody struct {
	info  *types.Info
	fd    *ast.FuncDecl // the enclosing declared function (context of the body)
	ftype *ast.FuncType
	body  *ast.BlockStmt
	bind  map[types.Object]fnRef
}

// funcValues lists the function bodies the expression can denote; ok is false when some source is not
// understood (then nothing may be concluded).
func (b *bounds) funcValues(e ast.Expr, depth int) ([]fnBody, bool) {
	if depth > 6 {
		return nil, false
	}
	e = ast.Unparen(e)
	switch x := e.(type) {
	case *ast.FuncLit:
		return []fnBody{{b.info, b.fd, x.Type, x.Body, b.bind}}, true
	case *ast.Ident:
		switch o := b.info.ObjectOf(x).(type) {
		case *types.Func:
			if !b.prog.IsMoqPkg(o.Pkg()) {
				return nil, false
			}
			d := b.prog.Decl(o.Origin())
			if d == nil || d.Body == nil {
				return nil, false
			}
			return []fnBody{{b.prog.Info(o.Pkg()), d, d.Type, d.Body, nil}}, true
		case *types.Var:
			// a parameter the creator of this body bound
			if ref, ok := b.bind[o]; ok {
				cb := newBounds(b.prog, ref.info, ref.fd)
				cb.bind = ref.bind
				return cb.funcValues(ref.e, depth+1)
			}
			// a local defined once
			if d, ok := b.singleDef(x); ok {
				return b.funcValues(d, depth+1)
			}
			// the value variable of a range over a table of functions
			var out []fnBody
			found, okAll := false, true
			ast.Inspect(b.fd, func(n ast.Node) bool {
				rs, isR := n.(*ast.RangeStmt)
				if !isR || rs.Value == nil {
					return true
				}
				if vid, isID := rs.Value.(*ast.Ident); isID && b.info.ObjectOf(vid) == types.Object(o) {
					found = true
					elems, ok := b.tableElems(rs.X, depth+1)
					if !ok {
						okAll = false
						return true
					}
					for _, el := range elems {
						cb := newBounds(b.prog, el.info, el.fd)
						cb.bind = el.bind
						bs, ok := cb.funcValues(el.e, depth+1)
						if !ok {
							okAll = false
						}
						out = append(out, bs...)
					}
				}
				return true
			})
			if found {
				return out, okAll && len(out) > 0
			}
		}
	case *ast.CallExpr:
		// a moq function that returns function literals
		fn, _ := typeutil.Callee(b.info, x).(*types.Func)
		if fn == nil || !b.prog.IsMoqPkg(fn.Pkg()) {
			return nil, false
		}
		d := b.prog.Decl(fn.Origin())
		if d == nil || d.Body == nil {
			return nil, false
		}
		cinfo := b.prog.Info(fn.Pkg())
		bind := map[types.Object]fnRef{}
		k := 0
		if d.Type.Params != nil {
			for _, f := range d.Type.Params.List {
				for _, nm := range f.Names {
					if k < len(x.Args) {
						bind[cinfo.Defs[nm]] = fnRef{x.Args[k], b.info, b.fd, b.bind}
					}
					k++
				}
			}
		}
		var out []fnBody
		okAll, n := true, 0
		ast.Inspect(d.Body, func(y ast.Node) bool {
			if _, isLit := y.(*ast.FuncLit); isLit {
				return false
			}
			rs, isRet := y.(*ast.ReturnStmt)
			if !isRet {
				return true
			}
			n++
			if len(rs.Results) != 1 {
				okAll = false
				return true
			}
			cb := newBounds(b.prog, cinfo, d)
			cb.bind = bind
			bs, ok := cb.funcValues(rs.Results[0], depth+1)
			if !ok {
				okAll = false
			}
			out = append(out, bs...)
			return true
		})
		return out, okAll && n > 0 && len(out) > 0
	}
	return nil, false
}

// tableElems: the element expressions of a table of functions: a composite literal, a local or a
// package-level variable holding one (from its initialiser, or assigned once in an init function).
func (b *bounds) tableElems(e ast.Expr, depth int) ([]fnRef, bool) {
	e = ast.Unparen(e)
	switch x := e.(type) {
	case *ast.CompositeLit:
		var out []fnRef
		for _, el := range x.Elts {
			if kv, ok := el.(*ast.KeyValueExpr); ok {
				el = kv.Value
			}
			out = append(out, fnRef{el, b.info, b.fd, b.bind})
		}
		return out, len(out) > 0
	case *ast.Ident:
		v, _ := b.info.ObjectOf(x).(*types.Var)
		if v == nil {
			return nil, false
		}
		if d, ok := b.singleDef(x); ok {
			return b.tableElems(d, depth+1)
		}
		if v.Pkg() == nil || v.Parent() != v.Pkg().Scope() || !b.prog.IsMoqPkg(v.Pkg()) {
			return nil, false
		}
		// package level: the initialiser, or the one assignment in an init function; no other writer
		var src ast.Expr
		var sinfo *types.Info
		var sfd *ast.FuncDecl
		writes := 0
		for _, pk := range b.prog.MoqPackages() {
			for _, f := range pk.Syntax {
				for _, d := range f.Decls {
					switch dd := d.(type) {
					case *ast.GenDecl:
						if dd.Tok != token.VAR {
							continue
						}
						for _, sp := range dd.Specs {
							vs := sp.(*ast.ValueSpec)
							for i, nm := range vs.Names {
								if pk.TypesInfo.Defs[nm] == types.Object(v) && i < len(vs.Values) {
									src, sinfo = vs.Values[i], pk.TypesInfo
									sfd = &ast.FuncDecl{Name: ast.NewIdent("init·" + nm.Name), Type: &ast.FuncType{Params: &ast.FieldList{}}, Body: &ast.BlockStmt{}}
									writes++
								}
							}
						}
					case *ast.FuncDecl:
						if dd.Body == nil {
							continue
						}
						ast.Inspect(dd.Body, func(n ast.Node) bool {
							as, ok := n.(*ast.AssignStmt)
							if !ok {
								return true
							}
							for i, l := range as.Lhs {
								if lid, ok := ast.Unparen(l).(*ast.Ident); ok && pk.TypesInfo.ObjectOf(lid) == types.Object(v) {
									writes++
									if dd.Recv == nil && dd.Name.Name == "init" && len(as.Lhs) == len(as.Rhs) && as.Tok == token.ASSIGN {
										src, sinfo, sfd = as.Rhs[i], pk.TypesInfo, dd
									} else {
										writes += 100
									}
								}
							}
							return true
						})
					}
				}
			}
		}
		if src == nil || writes != 1 {
			return nil, false
		}
		cb := newBounds(b.prog, sinfo, sfd)
		return cb.tableElems(src, depth+1)
	}
	return nil, false
}

// dynamicNonEmpty: `name, ok := f(args)` used under `ok` — for every body f can denote, every return whose
// flag is not the constant false gives a non-empty first result; or, for a single-result call, every return.
func (b *bounds) dynamicNonEmpty(call *ast.CallExpr, withFlag bool, depth int) bool {
	bodies, ok := b.funcValues(call.Fun, 0)
	if !ok || len(bodies) == 0 {
		return false
	}
	for _, fb := range bodies {
		cb := newBounds(b.prog, fb.info, fb.fd)
		cb.bind = fb.bind
		okAll, n := true, 0
		ast.Inspect(fb.body, func(x ast.Node) bool {
			if _, isLit := x.(*ast.FuncLit); isLit {
				return false
			}
			rs, isRet := x.(*ast.ReturnStmt)
			if !isRet {
				return true
			}
			n++
			switch {
			case withFlag && len(rs.Results) == 2:
				if isConstFalseOrNil(fb.info, rs.Results[1]) {
					return true // the caller does not use the name then
				}
				if !cb.nonEmptyString(rs.Results[0], depth+1) {
					okAll = false
				}
			case !withFlag && len(rs.Results) == 1:
				if !cb.nonEmptyString(rs.Results[0], depth+1) {
					okAll = false
				}
			default:
				okAll = false
			}
			return true
		})
		if !okAll || n == 0 {
			return false
		}
	}
	return true
}
