package gen

import (
	"fmt"
	"go/ast"
	"go/constant"
	"go/token"
	"go/types"
	"sort"
	"strings"

	"golang.org/x/tools/go/types/typeutil"

	"verif/checker/internal/cfgx"
	"verif/checker/internal/core"
	"verif/checker/internal/load"
)

func calleeNamed(prog *load.Program, name string) func(cfgx.Site) bool {
	return func(s cfgx.Site) bool {
		return s.Callee != nil && load.FuncName(s.Callee) == name && prog.IsMoqPkg(s.Callee.Pkg())
	}
}

// isStripCall reports whether e is stripVendorPath(...) or a local defined by it.
func isStripped(info *types.Info, fd *ast.FuncDecl, e ast.Expr) bool {
	e = ast.Unparen(e)
	// a constant import path without a vendor directory is canonical as it stands
	if tv := info.Types[e]; tv.Value != nil && tv.Value.Kind() == constant.String {
		return !strings.Contains(constant.StringVal(tv.Value), "/vendor/")
	}
	if call, ok := e.(*ast.CallExpr); ok {
		if fn, ok := typeutil.Callee(info, call).(*types.Func); ok {
			if fn.Name() == "stripVendorPath" || (stripProg != nil && IsCanonicaliser(stripProg, fn)) {
				return true
			}
			// a moq helper all of whose results are canonical paths (importPath(pkg) = stripVendorPath(pkg.Path()))
			if stripProg != nil && stripProg.IsMoqPkg(fn.Pkg()) && stripDepth < 3 {
				if d := stripProg.Decl(fn.Origin()); d != nil && d.Body != nil {
					cinfo := stripProg.Info(fn.Pkg())
					okAll, n := true, 0
					stripDepth++
					ast.Inspect(d.Body, func(x ast.Node) bool {
						if _, isLit := x.(*ast.FuncLit); isLit {
							return false
						}
						if rs, isRet := x.(*ast.ReturnStmt); isRet {
							n++
							if len(rs.Results) != 1 || !isStripped(cinfo, d, rs.Results[0]) {
								okAll = false
							}
						}
						return true
					})
					stripDepth--
					if okAll && n > 0 {
						return true
					}
				}
			}
		}
	}
	if id, ok := e.(*ast.Ident); ok {
		v, _ := info.ObjectOf(id).(*types.Var)
		if v == nil {
			return false
		}
		// a parameter of an unexported function that is never reassigned: every call passes a stripped path
		if fd.Type.Params != nil && stripProg != nil && stripDepth < 3 {
			pi, k := -1, 0
			for _, f := range fd.Type.Params.List {
				for _, nm := range f.Names {
					if info.Defs[nm] == v {
						pi = k
					}
					k++
				}
			}
			self, _ := info.Defs[fd.Name].(*types.Func)
			if pi >= 0 && self != nil && !self.Exported() && len(newBounds(stripProg, info, fd).assigns[v]) == 0 {
				calls := staticCallsOf(stripProg, self)
				good := 0
				stripDepth++
				for _, cs := range calls {
					if pi < len(cs.call.Args) && isStripped(cs.info, cs.fd, cs.call.Args[pi]) {
						good++
					}
				}
				stripDepth--
				return len(calls) > 0 && good == len(calls)
			}
		}
		ok := false
		n := 0
		ast.Inspect(fd, func(x ast.Node) bool {
			if as, isAs := x.(*ast.AssignStmt); isAs && len(as.Lhs) == len(as.Rhs) {
				for i, l := range as.Lhs {
					if lid, isID := ast.Unparen(l).(*ast.Ident); isID && info.ObjectOf(lid) == v {
						n++
						if isStripped(info, fd, as.Rhs[i]) {
							ok = true
						} else {
							ok = false
							n += 100
						}
					}
				}
			}
			if rs, isR := x.(*ast.RangeStmt); isR {
				// range key of a map that is itself keyed by stripped paths (imports maps)
				if kid, isID := rs.Key.(*ast.Ident); isID && info.ObjectOf(kid) == v {
					if _, isMap := info.TypeOf(rs.X).Underlying().(*types.Map); isMap {
						ok = true
						n++
					}
				}
				// range value of the sorted keys of an import map, or of a helper's result made of such keys
				if vid, isID := rs.Value.(*ast.Ident); isID && vid != nil && info.ObjectOf(vid) == v {
					if keysOfImportMap(info, fd, rs.X, 0) {
						ok = true
						n++
					}
				}
				// range value of a slice into which only stripped keys were appended
				if vid, isID := rs.Value.(*ast.Ident); isID && vid != nil && info.ObjectOf(vid) == v {
					if sid, isID := ast.Unparen(rs.X).(*ast.Ident); isID {
						if _, isSlice := info.TypeOf(rs.X).Underlying().(*types.Slice); isSlice && sliceOfStripped(info, fd, info.ObjectOf(sid)) {
							ok = true
							n++
						}
					}
				}
			}
			return true
		})
		return ok && n < 100
	}
	return false
}

var (
	stripProg  *load.Program
	stripDepth int
	// parameters of helpers known, for the call under analysis, to hold an import map
	importMapParams = map[types.Object]bool{}
)

// keysOfImportMap: the expression is a slice holding exactly keys of a map of imports (which are canonical
// paths): slices.Sorted / slices.Collect of maps.Keys(m), a local into which only such keys were appended,
// or the result of a moq helper that returns one of these built from its parameter.
func keysOfImportMap(info *types.Info, fd *ast.FuncDecl, e ast.Expr, depth int) bool {
	if depth > 3 {
		return false
	}
	isImportMap := func(inf *types.Info, m ast.Expr) bool {
		t := inf.TypeOf(m)
		if t == nil {
			return false
		}
		if id, isID := ast.Unparen(m).(*ast.Ident); isID && importMapParams[inf.ObjectOf(id)] {
			return true // a parameter of a (generic) helper that this call fills with an import map
		}
		mt, ok := t.Underlying().(*types.Map)
		return ok && strings.HasSuffix(types.TypeString(mt.Elem(), nil), "registry.Package")
	}
	e = ast.Unparen(e)
	switch x := e.(type) {
	case *ast.CallExpr:
		fn, _ := typeutil.Callee(info, x).(*types.Func)
		if fn == nil || fn.Pkg() == nil {
			return false
		}
		if fn.Pkg().Path() == "slices" && (fn.Name() == "Sorted" || fn.Name() == "Collect") && len(x.Args) == 1 {
			if inner, ok := ast.Unparen(x.Args[0]).(*ast.CallExpr); ok && len(inner.Args) == 1 {
				if ifn, _ := typeutil.Callee(info, inner).(*types.Func); ifn != nil && ifn.Pkg() != nil && ifn.Pkg().Path() == "maps" && ifn.Name() == "Keys" {
					return isImportMap(info, inner.Args[0])
				}
			}
			return false
		}
		if stripProg != nil && stripProg.IsMoqPkg(fn.Pkg()) {
			d := stripProg.Decl(fn.Origin())
			if d == nil || d.Body == nil {
				return false
			}
			cinfo := stripProg.Info(fn.Pkg())
			// parameters this call fills with an import map
			k := 0
			var marked []types.Object
			for _, f := range d.Type.Params.List {
				for _, nm := range f.Names {
					if k < len(x.Args) && isImportMap(info, x.Args[k]) && !importMapParams[cinfo.Defs[nm]] {
						importMapParams[cinfo.Defs[nm]] = true
						marked = append(marked, cinfo.Defs[nm])
					}
					k++
				}
			}
			defer func() {
				for _, o := range marked {
					delete(importMapParams, o)
				}
			}()
			okAll, n := true, 0
			ast.Inspect(d.Body, func(nn ast.Node) bool {
				if _, isLit := nn.(*ast.FuncLit); isLit {
					return false
				}
				if rs, isRet := nn.(*ast.ReturnStmt); isRet {
					n++
					if len(rs.Results) != 1 || !keysOfImportMap(cinfo, d, rs.Results[0], depth+1) {
						okAll = false
					}
				}
				return true
			})
			return okAll && n > 0
		}
	case *ast.Ident:
		v := info.ObjectOf(x)
		if v == nil {
			return false
		}
		if _, isSlice := info.TypeOf(x).Underlying().(*types.Slice); isSlice && sliceOfStripped(info, fd, v) {
			return true
		}
		// a local defined once from such an expression
		okAll, n := true, 0
		ast.Inspect(fd, func(nn ast.Node) bool {
			if as, ok := nn.(*ast.AssignStmt); ok && len(as.Lhs) == len(as.Rhs) {
				for i, l := range as.Lhs {
					if lid, ok := ast.Unparen(l).(*ast.Ident); ok && info.ObjectOf(lid) == v {
						n++
						if !keysOfImportMap(info, fd, as.Rhs[i], depth+1) {
							okAll = false
						}
					}
				}
			}
			return true
		})
		return okAll && n == 1
	}
	return false
}

// CheckImports is the generator side of C11 (and the alias part of C15).
func CheckImports(run *core.Run, prog *load.Program) {
	stripProg = prog
	// the registration itself (canonical key, source alias, conflict search before the store, de-duplication)
	// and the alias harvest are decided by interpreting registry.New and AddImport (props: importTables)
	pos := "internal/registry/registry.go"
	if fn := prog.LookupFunc(load.PkgRegistry, "Registry.AddImport"); fn != nil {
		pos = prog.Pos(fn.Pos())
	} else {
		run.Undecided("G-IMPORT", "role", pos, "(*Registry).AddImport not found")
		return
	}
	reachAddImport := reachableFrom(prog, prog.LookupFunc(load.PkgRegistry, "Registry.AddImport"))
	// destination package: returns without registering iff the stripped path equals moqPkgPath — via decision table (interp) in CheckDestination
	// ---------------- writers of Package.Alias
	nAliasWrites := 0
	funcsOf(prog, func(pkgPath string, inf *types.Info, fd *ast.FuncDecl, fnn *types.Func) {
		ast.Inspect(fd.Body, func(n ast.Node) bool {
			as, ok := n.(*ast.AssignStmt)
			if !ok {
				return true
			}
			for i, l := range as.Lhs {
				sel, ok := ast.Unparen(l).(*ast.SelectorExpr)
				if !ok || sel.Sel.Name != "Alias" {
					continue
				}
				if fv, ok := inf.ObjectOf(sel.Sel).(*types.Var); !ok || !fv.IsField() {
					continue
				}
				nAliasWrites++
				fname := load.FuncName(fnn)
				okW := reachAddImport[fnn] && len(as.Rhs) == len(as.Lhs)
				if okW {
					// the value is (a variable holding) uniqueName(...)
					okW = fromUniqueName(inf, fd, as.Rhs[i])
				}
				run.Check("G-IMPORT/alias-writers", fname, prog.Pos(as.Pos()), okW, fmt.Sprintf("%s assigns Package.Alias (%s): generated aliases must come from uniqueName (sanitised path elements) inside conflict resolution only — never \".\" or \"_\", never an unsanitised string", fname, types.ExprString(as.Rhs[min(i, len(as.Rhs)-1)])))
			}
			return true
		})
	})
	run.Floor("G-IMPORT/alias-writers", 1)
	// ---------------- every lookup into an imports map uses a stripped key; the printed path is stripped too
	type keySite struct {
		obj      types.Object
		key, pos string
		ok       bool
		msg      string
	}
	var keySites []keySite
	funcsOf(prog, func(pkgPath string, inf *types.Info, fd *ast.FuncDecl, fnn *types.Func) {
		if pkgPath != load.PkgRegistry {
			return
		}
		ast.Inspect(fd.Body, func(n ast.Node) bool {
			ix, ok := n.(*ast.IndexExpr)
			if !ok {
				return true
			}
			t := inf.TypeOf(ix.X)
			if t == nil {
				return true
			}
			mt, isMap := t.Underlying().(*types.Map)
			if !isMap || !strings.HasSuffix(types.TypeString(mt.Elem(), nil), "registry.Package") {
				return true
			}
			keySites = append(keySites, keySite{mapObjOf(inf, ix.X), load.FuncName(fnn) + ":" + types.ExprString(ix.X), prog.Pos(ix.Pos()), isStripped(inf, fd, ix.Index),
				fmt.Sprintf("%s indexes the import map %s with %s, which is not a vendor-stripped path: the same package could be registered or looked up under two keys", load.FuncName(fnn), types.ExprString(ix.X), types.ExprString(ix.Index))})
			return true
		})
	})
	// a map to *Package is path-keyed if some site indexes it with a canonical path (a field or variable
	// never indexed that way is another kind of index, e.g. by qualifier: what it does is decided by the
	// registration and search tables of engine R)
	pathKeyed := map[types.Object]bool{}
	for _, ks := range keySites {
		if ks.ok && ks.obj != nil {
			pathKeyed[ks.obj] = true
		}
	}
	for _, ks := range keySites {
		if ks.obj != nil && !pathKeyed[ks.obj] {
			continue
		}
		run.Check("G-IMPORT/keys", ks.key, ks.pos, ks.ok, ks.msg)
	}
	// no floor: wrappers around the map (get/put of a typed map) leave no site to judge here; that one import
	// is kept per canonical path is decided by the registration table of engine R ("vendored", "same-package-twice")
	// who may call AddImport
	// callers: the type walker family (what AddVar reaches inside the registry) and the Mock family (what
	// Mock reaches inside pkg/moq, registering exactly sync and the source package: G-DATA/imports)
	walker := reachableFrom(prog, prog.LookupFunc(load.PkgRegistry, "MethodScope.AddVar"))
	mockFam := reachableFrom(prog, prog.LookupFunc(load.PkgMoq, "Mocker.Mock"))
	var callers []string
	allowed := map[string]bool{}
	funcsOf(prog, func(pkgPath string, inf *types.Info, fd *ast.FuncDecl, fnn *types.Func) {
		ast.Inspect(fd.Body, func(n ast.Node) bool {
			if call, ok := n.(*ast.CallExpr); ok {
				if cf, ok := typeutil.Callee(inf, call).(*types.Func); ok && prog.IsMoqPkg(cf.Pkg()) && isAddImport(prog, cf) {
					name := load.FuncName(fnn)
					callers = append(callers, name)
					switch {
					case pkgPath == load.PkgRegistry && walker[fnn]:
						allowed[name] = true
					case pkgPath == load.PkgMoq && mockFam[fnn]:
						allowed[name] = true
					}
				}
			}
			return true
		})
	})
	sort.Strings(callers)
	for _, cname := range callers {
		run.Check("G-IMPORT/who-may-register", cname, pos, allowed[cname], cname+" registers an import: only the type walker (for packages a printed type mentions) and Mock (sync, the source package) may, otherwise the import block is not exact")
	}
	run.Count("addimport_call_sites", len(callers))
	run.Floor("G-IMPORT/who-may-register", 2)
}

func min(a, b int) int {
	if a < b {
		return a
	}
	return b
}

// rowsFromUniqueName: in every row of the literal table (a slice or array of structs) the value of the
// named field is derived from uniqueName.
func rowsFromUniqueName(info *types.Info, fd *ast.FuncDecl, table *ast.CompositeLit, field string) bool {
	var st *types.Struct
	if t := info.TypeOf(table); t != nil {
		switch u := t.Underlying().(type) {
		case *types.Slice:
			st, _ = u.Elem().Underlying().(*types.Struct)
		case *types.Array:
			st, _ = u.Elem().Underlying().(*types.Struct)
		}
	}
	if st == nil || len(table.Elts) == 0 {
		return false
	}
	fi := -1
	for i := 0; i < st.NumFields(); i++ {
		if st.Field(i).Name() == field {
			fi = i
		}
	}
	if fi < 0 {
		return false
	}
	for _, row := range table.Elts {
		rl, ok := ast.Unparen(row).(*ast.CompositeLit)
		if !ok {
			return false
		}
		var val ast.Expr
		for i, el := range rl.Elts {
			if kv, ok := el.(*ast.KeyValueExpr); ok {
				if kid, ok := kv.Key.(*ast.Ident); ok && kid.Name == field {
					val = kv.Value
				}
			} else if i == fi {
				val = el
			}
		}
		if val == nil || !fromUniqueName(info, fd, val) {
			return false
		}
	}
	return true
}

type uniqueArg struct {
	info *types.Info
	fd   *ast.FuncDecl
	arg  ast.Expr
}

var uniqueArgs = map[types.Object]uniqueArg{}

func fromUniqueName(info *types.Info, fd *ast.FuncDecl, e ast.Expr) bool {
	e = ast.Unparen(e)
	// a sanitised name followed by a decimal counter is still an identifier
	if be, ok := e.(*ast.BinaryExpr); ok && be.Op == token.ADD {
		if call, ok := ast.Unparen(be.Y).(*ast.CallExpr); ok {
			if fn, ok := typeutil.Callee(info, call).(*types.Func); ok && fn.FullName() == "strconv.Itoa" {
				return fromUniqueName(info, fd, be.X)
			}
		}
		return false
	}
	if call, ok := e.(*ast.CallExpr); ok {
		fn, ok := typeutil.Callee(info, call).(*types.Func)
		if !ok {
			return false
		}
		if fn.Name() == "uniqueName" || isUniqueNameRole(fn) {
			return true
		}
		// a moq helper that returns one of its string parameters, possibly numbered, when every call
		// hands it a uniqueName-derived string there
		if stripProg != nil && stripProg.IsMoqPkg(fn.Pkg()) && stripDepth < 3 {
			d := stripProg.Decl(fn.Origin())
			if d == nil || d.Body == nil {
				return false
			}
			cinfo := stripProg.Info(fn.Pkg())
			stripDepth++
			defer func() { stripDepth-- }()
			// inside the helper its parameters stand for the arguments of this very call
			var bound []types.Object
			k := 0
			if d.Type.Params != nil {
				for _, f := range d.Type.Params.List {
					for _, nm := range f.Names {
						if o := cinfo.Defs[nm]; o != nil && k < len(call.Args) && !call.Ellipsis.IsValid() {
							if _, busy := uniqueArgs[o]; !busy {
								uniqueArgs[o] = uniqueArg{info, fd, call.Args[k]}
								bound = append(bound, o)
							}
						}
						k++
					}
				}
			}
			defer func() {
				for _, o := range bound {
					delete(uniqueArgs, o)
				}
			}()
			okAll, n := true, 0
			ast.Inspect(d.Body, func(x ast.Node) bool {
				if _, isLit := x.(*ast.FuncLit); isLit {
					return false
				}
				if rs, isRet := x.(*ast.ReturnStmt); isRet {
					n++
					if len(rs.Results) != 1 || !fromUniqueName(cinfo, d, rs.Results[0]) {
						okAll = false
					}
				}
				return true
			})
			return okAll && n > 0
		}
		return false
	}
	// the field of an element of a literal table ranged over: every row's value for that field
	if sel, ok := e.(*ast.SelectorExpr); ok {
		xid, ok := ast.Unparen(sel.X).(*ast.Ident)
		if !ok {
			return false
		}
		var table *ast.CompositeLit
		var tables []*ast.CompositeLit
		ast.Inspect(fd, func(n ast.Node) bool {
			rs, ok := n.(*ast.RangeStmt)
			if !ok || rs.Value == nil {
				return true
			}
			if vid, ok := rs.Value.(*ast.Ident); ok && info.ObjectOf(vid) == info.ObjectOf(xid) {
				if cl, ok := ast.Unparen(rs.X).(*ast.CompositeLit); ok {
					table = cl
				}
				// a local that only ever holds literal tables: each of them
				if tid, ok := ast.Unparen(rs.X).(*ast.Ident); ok {
					tv := info.ObjectOf(tid)
					okAll, n := true, 0
					ast.Inspect(fd, func(m ast.Node) bool {
						if as, ok := m.(*ast.AssignStmt); ok && len(as.Lhs) == len(as.Rhs) {
							for i, l := range as.Lhs {
								if lid, ok := ast.Unparen(l).(*ast.Ident); ok && info.ObjectOf(lid) == tv {
									n++
									if cl, ok := ast.Unparen(as.Rhs[i]).(*ast.CompositeLit); ok {
										tables = append(tables, cl)
									} else {
										okAll = false
									}
								}
							}
						}
						return true
					})
					if !okAll || n == 0 {
						tables = nil
					}
				}
			}
			return true
		})
		if table == nil && len(tables) > 0 {
			for _, tb := range tables[1:] {
				if !rowsFromUniqueName(info, fd, tb, sel.Sel.Name) {
					return false
				}
			}
			table = tables[0]
		}
		if table == nil {
			return false
		}
		return rowsFromUniqueName(info, fd, table, sel.Sel.Name)
	}
	id, ok := e.(*ast.Ident)
	if !ok {
		return false
	}
	v := info.ObjectOf(id)
	// a parameter of a helper entered through a call under examination: the argument of that call
	if ua, ok := uniqueArgs[v]; ok {
		delete(uniqueArgs, v)
		r := fromUniqueName(ua.info, ua.fd, ua.arg)
		uniqueArgs[v] = ua
		return r
	}
	// a string parameter: every call site passes a uniqueName-derived string
	if pv, isVar := v.(*types.Var); isVar && stripProg != nil && fd.Type.Params != nil {
		pi, k := -1, 0
		for _, f := range fd.Type.Params.List {
			for _, nm := range f.Names {
				if info.Defs[nm] == pv {
					pi = k
				}
				k++
			}
		}
		if self, _ := info.Defs[fd.Name].(*types.Func); pi >= 0 && self != nil && !self.Exported() && stripDepth < 3 {
			stripDepth++
			defer func() { stripDepth-- }()
			calls, good := 0, 0
			funcsOf(stripProg, func(pkgPath string, cinfo *types.Info, cfd *ast.FuncDecl, caller *types.Func) {
				ast.Inspect(cfd.Body, func(x ast.Node) bool {
					if call, ok := x.(*ast.CallExpr); ok {
						if cf, ok := typeutil.Callee(cinfo, call).(*types.Func); ok && cf.Origin() == self && pi < len(call.Args) {
							calls++
							if fromUniqueName(cinfo, cfd, call.Args[pi]) {
								good++
							}
						}
					}
					return true
				})
			})
			return calls > 0 && calls == good
		}
	}
	okAll, n := true, 0
	ast.Inspect(fd, func(x ast.Node) bool {
		if as, ok := x.(*ast.AssignStmt); ok && len(as.Lhs) == len(as.Rhs) {
			for i, l := range as.Lhs {
				if lid, ok := ast.Unparen(l).(*ast.Ident); ok && info.ObjectOf(lid) == v {
					n++
					if !fromUniqueName(info, fd, as.Rhs[i]) {
						okAll = false
					}
				}
			}
		}
		return true
	})
	return okAll && n > 0
}

// checkAliasHarvest: the function that collects aliases from the source
// files stores an alias only if it is neither "." nor "_" (and exists).
func checkAliasHarvest(run *core.Run, prog *load.Program) {
	f, _, info := moqFunc(prog, load.PkgRegistry, "parseImportsAliases")
	if f == nil {
		run.Undecided("G-IMPORT/harvest", "role", "internal/registry/registry.go", "parseImportsAliases not found")
		return
	}
	pos := prog.Pos(f.Decl.Pos())
	var stores []*ast.AssignStmt
	ast.Inspect(f.Decl.Body, func(n ast.Node) bool {
		if as, ok := n.(*ast.AssignStmt); ok && len(as.Lhs) == 1 {
			if ix, ok := ast.Unparen(as.Lhs[0]).(*ast.IndexExpr); ok {
				if _, isMap := info.TypeOf(ix.X).Underlying().(*types.Map); isMap {
					stores = append(stores, as)
				}
			}
		}
		return true
	})
	if !run.Check("G-IMPORT/harvest", "store", pos, len(stores) == 1, fmt.Sprintf("%d map stores in parseImportsAliases, want 1 (path → alias)", len(stores))) {
		return
	}
	st := stores[0]
	val := types.ExprString(st.Rhs[0])
	run.Check("G-IMPORT/harvest", "value-is-import-name", prog.Pos(st.Pos()), strings.HasSuffix(val, ".Name.Name"), "the harvested alias is "+val+", want the import spec's name")
	// assume the name is "." (then "_"): the store must be unreachable
	for _, bad := range []string{".", "_"} {
		dec := func(cond ast.Expr) (bool, bool) {
			var ev func(e ast.Expr) (bool, bool)
			ev = func(e ast.Expr) (bool, bool) {
				e = ast.Unparen(e)
				if be, ok := e.(*ast.BinaryExpr); ok {
					switch be.Op {
					case token.LAND:
						lt, lf := ev(be.X)
						rt, rf := ev(be.Y)
						return lt && rt, lf || (lt && rf)
					case token.LOR:
						lt, lf := ev(be.X)
						rt, rf := ev(be.Y)
						return lt || (lf && rt), lf && rf
					case token.EQL, token.NEQ:
						for _, pair := range [][2]ast.Expr{{be.X, be.Y}, {be.Y, be.X}} {
							if strings.HasSuffix(types.ExprString(pair[0]), ".Name.Name") {
								if tv := info.Types[pair[1]]; tv.Value != nil && tv.Value.Kind() == constant.String {
									eq := constant.StringVal(tv.Value) == bad
									if be.Op == token.EQL {
										return eq, !eq
									}
									return !eq, eq
								}
							}
							if strings.HasSuffix(types.ExprString(pair[0]), ".Name") {
								if id, ok := ast.Unparen(pair[1]).(*ast.Ident); ok {
									if _, isNil := info.Uses[id].(*types.Nil); isNil {
										return be.Op == token.NEQ, be.Op == token.EQL // the name exists
									}
								}
							}
						}
					}
				}
				if u, ok := e.(*ast.UnaryExpr); ok && u.Op == token.NOT {
					t, fl := ev(u.X)
					return fl, t
				}
				return true, true
			}
			return ev(cond)
		}
		r := f.Explore(0, 0, cfgx.Cuts{Decide: dec})
		run.Check("G-IMPORT/harvest", "never-"+map[string]string{".": "dot", "_": "blank"}[bad], prog.Pos(st.Pos()), !r.Passed(nodeHolding(f, st)), fmt.Sprintf("an import named %q in the source can be harvested as an alias: the generated file would contain a %s import", bad, map[string]string{".": "dot", "_": "blank"}[bad]))
	}
	// a proper alias is always stored: no further condition (e.g. "only if the path has none yet") decides
	{
		decValid := func(cond ast.Expr) (bool, bool) {
			var ev func(e ast.Expr) (bool, bool)
			ev = func(e ast.Expr) (bool, bool) {
				e = ast.Unparen(e)
				if be, ok := e.(*ast.BinaryExpr); ok {
					switch be.Op {
					case token.LAND:
						lt, lf := ev(be.X)
						rt, rf := ev(be.Y)
						return lt && rt, lf || (lt && rf)
					case token.LOR:
						lt, lf := ev(be.X)
						rt, rf := ev(be.Y)
						return lt || (lf && rt), lf && rf
					case token.EQL, token.NEQ:
						for _, pair := range [][2]ast.Expr{{be.X, be.Y}, {be.Y, be.X}} {
							if strings.HasSuffix(types.ExprString(pair[0]), ".Name.Name") {
								if tv := info.Types[pair[1]]; tv.Value != nil && tv.Value.Kind() == constant.String {
									c := constant.StringVal(tv.Value)
									if c == "." || c == "_" || c == "" {
										return be.Op == token.NEQ, be.Op == token.EQL // the alias is a proper identifier
									}
								}
							}
							if strings.HasSuffix(types.ExprString(pair[0]), ".Name") {
								if id, ok := ast.Unparen(pair[1]).(*ast.Ident); ok {
									if _, isNil := info.Uses[id].(*types.Nil); isNil {
										return be.Op == token.NEQ, be.Op == token.EQL
									}
								}
							}
						}
					}
				}
				if u, ok := e.(*ast.UnaryExpr); ok && u.Op == token.NOT {
					t, fl := ev(u.X)
					return fl, t
				}
				return true, true
			}
			return ev(cond)
		}
		// start inside the innermost loop body that holds the store; the next iteration must not be reachable without it
		for _, enc := range enclosing(f.Decl.Body, st) {
			rs, ok := enc.(*ast.RangeStmt)
			if !ok || len(rs.Body.List) == 0 {
				continue
			}
			inner := true
			for _, e2 := range enclosing(rs.Body, st) {
				if _, isR := e2.(*ast.RangeStmt); isR {
					inner = false
				}
			}
			if !inner {
				continue
			}
			bb, bi := firstNodeWithin(f, rs.Body)
			if bb < 0 {
				continue
			}
			r := f.Explore(bb, bi, cfgx.Cuts{Decide: decValid, Nodes: map[ast.Node]bool{st: true}})
			skipped := len(r.Exits) > 0 || r.Passed(rs.X) || (rs.Key != nil && r.Passed(rs.Key))
			// go/cfg re-enters the range header for the next iteration
			run.Check("G-IMPORT/harvest", "always-stored", prog.Pos(st.Pos()), !skipped, "an import spec with a proper alias can be skipped by a further condition (e.g. when the path already has an alias): which alias is kept for a path then depends on more than the last spec seen, and an alias moq reads back from its own output can lose against another one")
		}
	}
	// a missing name (no alias) stores nothing
	dec := func(cond ast.Expr) (bool, bool) {
		s := types.ExprString(cond)
		if strings.Contains(s, ".Name != nil") {
			// conjunctions start with the nil test in today's code; evaluate the nil test as false
			return false, true
		}
		return true, true
	}
	r := f.Explore(0, 0, cfgx.Cuts{Decide: dec})
	run.Check("G-IMPORT/harvest", "unnamed-imports-skipped", prog.Pos(st.Pos()), !r.Passed(nodeHolding(f, st)), "an import without a name in the source reaches the alias store")
}

// CheckPure: the functions the template can reach (methods of the data types
// and the template functions) never write to anything but their own locals —
// rendering must not memoise or mutate, otherwise what is printed depends on
// when it was first asked for (e.g. before a later interface re-aliases an import).
func CheckPure(run *core.Run, prog *load.Program, rule string) {
	// roots: methods with value or pointer receivers on template data types and registry.Var / registry.Package
	type key struct{ pkg, typ string }
	roots := map[*types.Func]bool{}
	for _, k := range []key{{load.PkgTemplate, "Data"}, {load.PkgTemplate, "MockData"}, {load.PkgTemplate, "MethodData"}, {load.PkgTemplate, "ParamData"}, {load.PkgTemplate, "TypeParamData"}, {load.PkgRegistry, "Var"}, {load.PkgRegistry, "Package"}} {
		pk := prog.ByPath[k.pkg]
		if pk == nil {
			continue
		}
		tn, _ := pk.Types.Scope().Lookup(k.typ).(*types.TypeName)
		if tn == nil {
			continue
		}
		ms := types.NewMethodSet(types.NewPointer(tn.Type()))
		for i := 0; i < ms.Len(); i++ {
			// text/template can only call exported methods
			if fn, ok := ms.At(i).Obj().(*types.Func); ok && fn.Exported() && prog.Decl(fn) != nil {
				roots[fn] = true
			}
		}
	}
	// closure over static callees inside moq
	work := []*types.Func{}
	for fn := range roots {
		work = append(work, fn)
	}
	seen := map[*types.Func]bool{}
	for len(work) > 0 {
		fn := work[len(work)-1]
		work = work[:len(work)-1]
		if seen[fn] {
			continue
		}
		seen[fn] = true
		decl := prog.Decl(fn)
		if decl == nil || decl.Body == nil {
			continue
		}
		info := prog.Info(fn.Pkg())
		ast.Inspect(decl.Body, func(n ast.Node) bool {
			if call, ok := n.(*ast.CallExpr); ok {
				if cf, ok := typeutil.Callee(info, call).(*types.Func); ok && prog.IsMoqPkg(cf.Pkg()) && !seen[cf.Origin()] {
					work = append(work, cf.Origin())
				}
			}
			return true
		})
	}
	var names []string
	byName := map[string]*types.Func{}
	for fn := range seen {
		n := fn.Pkg().Name() + "." + load.FuncName(fn)
		names = append(names, n)
		byName[n] = fn
	}
	sort.Strings(names)
	for _, n := range names {
		fn := byName[n]
		decl := prog.Decl(fn)
		if decl == nil || decl.Body == nil {
			continue
		}
		info := prog.Info(fn.Pkg())
		var bad []string
		ast.Inspect(decl.Body, func(x ast.Node) bool {
			check := func(l ast.Expr, at token.Pos) {
				root := l
				depth := 0
				for {
					switch e := ast.Unparen(root).(type) {
					case *ast.SelectorExpr:
						root = e.X
						depth++
						continue
					case *ast.IndexExpr:
						root = e.X
						depth++
						continue
					case *ast.StarExpr:
						root = e.X
						depth++
						continue
					}
					break
				}
				if depth == 0 {
					return // plain local
				}
				id, ok := ast.Unparen(root).(*ast.Ident)
				if !ok {
					bad = append(bad, types.ExprString(l))
					return
				}
				v, _ := info.ObjectOf(id).(*types.Var)
				if v == nil {
					return
				}
				// writes into a local slice/map/struct created in this function are fine
				if localFresh(info, decl, v) {
					return
				}
				bad = append(bad, types.ExprString(l))
			}
			switch s := x.(type) {
			case *ast.AssignStmt:
				for _, l := range s.Lhs {
					check(l, s.Pos())
				}
			case *ast.IncDecStmt:
				check(s.X, s.Pos())
			}
			return true
		})
		// package-level state: only immutable tables (strings, string slices, the replacer, the FuncMap) may be used
		ast.Inspect(decl.Body, func(x ast.Node) bool {
			id, ok := x.(*ast.Ident)
			if !ok {
				return true
			}
			v, ok := info.Uses[id].(*types.Var)
			if !ok || v.Pkg() == nil || v.Parent() != v.Pkg().Scope() || !prog.IsMoqPkg(v.Pkg()) {
				return true
			}
			ts := types.TypeString(v.Type(), nil)
			switch ts {
			case "string", "[]string", "*strings.Replacer", "text/template.FuncMap":
				return true
			}
			bad = append(bad, "package-level "+v.Name()+" ("+ts+")")
			return true
		})
		run.Check(rule, n, prog.Pos(decl.Pos()), len(bad) == 0, fmt.Sprintf("%s, which the template reaches, writes to %v: a rendering helper that stores state (a cache, a rename) makes the output depend on when it is first called — e.g. a type string frozen before a later interface forces an import to be re-aliased", n, bad))
	}
	// the template functions (function literals of the FuncMap)
	tp := prog.Moq[load.PkgTemplate]
	if tp != nil {
		for _, file := range tp.Syntax {
			ast.Inspect(file, func(n ast.Node) bool {
				kv, ok := n.(*ast.KeyValueExpr)
				if !ok {
					return true
				}
				fl, ok := ast.Unparen(kv.Value).(*ast.FuncLit)
				if !ok {
					return true
				}
				key := types.ExprString(kv.Key)
				var bad []string
				ast.Inspect(fl.Body, func(x ast.Node) bool {
					switch st := x.(type) {
					case *ast.AssignStmt:
						for _, l := range st.Lhs {
							switch ast.Unparen(l).(type) {
							case *ast.SelectorExpr, *ast.IndexExpr, *ast.StarExpr:
								root := l
								for {
									switch e := ast.Unparen(root).(type) {
									case *ast.SelectorExpr:
										root = e.X
										continue
									case *ast.IndexExpr:
										root = e.X
										continue
									case *ast.StarExpr:
										root = e.X
										continue
									}
									break
								}
								if id, ok := ast.Unparen(root).(*ast.Ident); ok {
									if v, ok := tp.TypesInfo.ObjectOf(id).(*types.Var); ok && v.Parent() == v.Pkg().Scope() {
										bad = append(bad, types.ExprString(l))
									}
								}
							}
						}
					case *ast.Ident:
						v, ok := tp.TypesInfo.Uses[st].(*types.Var)
						if !ok || v.Pkg() == nil || v.Parent() != v.Pkg().Scope() || !prog.IsMoqPkg(v.Pkg()) {
							return true
						}
						switch types.TypeString(v.Type(), nil) {
						case "string", "[]string", "*strings.Replacer", "text/template.FuncMap":
						default:
							bad = append(bad, "package-level "+v.Name()+" ("+types.TypeString(v.Type(), nil)+")")
						}
					}
					return true
				})
				run.Check(rule, "template func "+key, prog.Pos(fl.Pos()), len(bad) == 0, fmt.Sprintf("the template function %s uses mutable package-level state %v: what it returns then depends on what was rendered before (other interfaces of the run, earlier runs of the process)", key, bad))
				return true
			})
		}
	}
	run.Floor(rule, 8)
}

// localFresh: v is a local variable initialised by make/composite literal/new in this function.
func localFresh(info *types.Info, decl *ast.FuncDecl, v *types.Var) bool {
	if v.Parent() == nil || v.Pkg() == nil || v.Parent() == v.Pkg().Scope() {
		return false
	}
	// parameters and receivers are not fresh
	if decl.Recv != nil {
		for _, f := range decl.Recv.List {
			for _, n := range f.Names {
				if info.Defs[n] == v {
					return false
				}
			}
		}
	}
	for _, f := range decl.Type.Params.List {
		for _, n := range f.Names {
			if info.Defs[n] == v {
				return false
			}
		}
	}
	fresh := false
	ast.Inspect(decl.Body, func(x ast.Node) bool {
		switch s := x.(type) {
		case *ast.AssignStmt:
			for i, l := range s.Lhs {
				if id, ok := ast.Unparen(l).(*ast.Ident); ok && info.ObjectOf(id) == v && len(s.Rhs) == len(s.Lhs) {
					switch r := ast.Unparen(s.Rhs[i]).(type) {
					case *ast.CallExpr:
						if fid, ok := r.Fun.(*ast.Ident); ok && (fid.Name == "make" || fid.Name == "new" || fid.Name == "append") {
							fresh = true
						}
						// the result of a moq function every return of which hands out a slice it made itself
						if stripProg != nil && returnsFreshSlice(stripProg, info, r) {
							fresh = true
						}
					case *ast.CompositeLit:
						fresh = true
					}
				}
			}
		case *ast.ValueSpec:
			for _, n := range s.Names {
				if info.Defs[n] == v {
					fresh = true // var x T: a fresh zero value
				}
			}
		}
		return true
	})
	return fresh
}

// returnsFreshSlice: the call is of a moq function (generic helpers included) whose every return hands out a
// local that the function itself made (make, a literal, nil grown by append).
func returnsFreshSlice(prog *load.Program, info *types.Info, call *ast.CallExpr) bool {
	fn, _ := typeutil.Callee(info, call).(*types.Func)
	if fn == nil || !prog.IsMoqPkg(fn.Pkg()) {
		return false
	}
	d := prog.Decl(fn.Origin())
	if d == nil || d.Body == nil {
		return false
	}
	cinfo := prog.Info(fn.Pkg())
	okAll, n := true, 0
	ast.Inspect(d.Body, func(x ast.Node) bool {
		if _, isLit := x.(*ast.FuncLit); isLit {
			return false
		}
		rs, ok := x.(*ast.ReturnStmt)
		if !ok {
			return true
		}
		n++
		if len(rs.Results) != 1 {
			okAll = false
			return true
		}
		id, ok := ast.Unparen(rs.Results[0]).(*ast.Ident)
		if !ok {
			okAll = false
			return true
		}
		if _, isNil := cinfo.Uses[id].(*types.Nil); isNil {
			return true
		}
		v, _ := cinfo.ObjectOf(id).(*types.Var)
		if v == nil || !localFresh(cinfo, d, v) {
			okAll = false
		}
		return true
	})
	return okAll && n > 0
}

// sliceOfStripped: every append into the slice variable adds a stripped key.
func sliceOfStripped(info *types.Info, fd *ast.FuncDecl, sv types.Object) bool {
	okAll, n := true, 0
	ast.Inspect(fd, func(x ast.Node) bool {
		as, ok := x.(*ast.AssignStmt)
		if !ok || len(as.Lhs) != 1 || len(as.Rhs) != 1 {
			return true
		}
		lid, ok := ast.Unparen(as.Lhs[0]).(*ast.Ident)
		if !ok || info.ObjectOf(lid) != sv {
			return true
		}
		call, ok := ast.Unparen(as.Rhs[0]).(*ast.CallExpr)
		if !ok {
			return true
		}
		fid, ok := call.Fun.(*ast.Ident)
		if !ok {
			return true
		}
		switch fid.Name {
		case "make":
		case "append":
			for _, a := range call.Args[1:] {
				n++
				if !isStripped(info, fd, a) {
					okAll = false
				}
			}
		default:
			okAll = false
		}
		return true
	})
	return okAll && n > 0
}

// CheckQualifierFinal: AddImport can re-alias an import that is already
// registered (conflict resolution renames both partners), and AddVar can
// register imports. So a qualifier read into a string (the source-package
// qualifier of the self-check line) is only final once nothing can be
// registered any more: no registration may be reachable after that read.
func CheckQualifierFinal(run *core.Run, prog *load.Program) {
	f, _, info := moqFunc(prog, load.PkgMoq, "Mocker.Mock")
	if f == nil {
		run.Undecided("G-MOCK/qualifier-final", "role", "pkg/moq/moq.go", "(*Mocker).Mock not found")
		return
	}
	registers := func(s cfgx.Site) bool {
		if s.Callee == nil || !prog.IsMoqPkg(s.Callee.Pkg()) {
			return false
		}
		switch load.FuncName(s.Callee) {
		case "Registry.AddImport", "MethodScope.AddVar", "Mocker.methodData", "Mocker.typeParams":
			return true
		}
		return false
	}
	// a call reads a qualifier if it is Package.Qualifier or a moq function that calls it
	readsQualifier := func(fn *types.Func) bool {
		if fn == nil {
			return false
		}
		if load.FuncName(fn) == "Package.Qualifier" && prog.IsMoqPkg(fn.Pkg()) {
			return true
		}
		decl := prog.Decl(fn)
		if decl == nil || decl.Body == nil || !prog.IsMoqPkg(fn.Pkg()) || fn.Pkg().Path() != load.PkgMoq {
			return false
		}
		found := false
		inf := prog.Info(fn.Pkg())
		ast.Inspect(decl.Body, func(n ast.Node) bool {
			if call, ok := n.(*ast.CallExpr); ok {
				if cf, ok := typeutil.Callee(inf, call).(*types.Func); ok && load.FuncName(cf) == "Package.Qualifier" {
					found = true
				}
			}
			return true
		})
		return found
	}
	n := 0
	for _, s := range f.Sites() {
		if s.Callee == nil || !readsQualifier(s.Callee.Origin()) {
			continue
		}
		n++
		b, i := s.After()
		r := f.Explore(b, i, cfgx.Cuts{})
		var later []string
		for _, c := range r.Calls {
			if registers(c) {
				later = append(later, load.FuncName(c.Callee)+"@"+prog.Pos(c.Call.Pos()))
			}
		}
		run.Check("G-MOCK/qualifier-final", "Mock:"+types.ExprString(s.Call), prog.Pos(s.Call.Pos()), len(later) == 0, fmt.Sprintf("the qualifier %s is copied into a string while imports can still be registered afterwards (%v): a later registration can give this import a new alias (e.g. a source package named like a package added later), and the copied qualifier then names the wrong package", types.ExprString(s.Call), later))
	}
	_ = info
	run.Check("G-MOCK/qualifier-final", "Mock:sites", prog.Pos(f.Decl.Pos()), n >= 1, "Mock no longer reads the source import's qualifier")
}

// CheckSearchLive: the qualifier search consults the live registry — it ranges
// over the registered imports and compares each one's *current* qualifier —
// not an index that conflict resolution would have to keep in step.
func CheckSearchLive(run *core.Run, prog *load.Program) {
	f, _, info := moqFunc(prog, load.PkgRegistry, "Registry.searchImport")
	if f == nil {
		run.Undecided("G-IMPORT/search-live", "role", "internal/registry/registry.go", "searchImport not found")
		return
	}
	ok := false
	ast.Inspect(f.Decl.Body, func(n ast.Node) bool {
		rs, isR := n.(*ast.RangeStmt)
		if !isR {
			return true
		}
		sel, isSel := ast.Unparen(rs.X).(*ast.SelectorExpr)
		if !isSel || sel.Sel.Name != "imports" {
			return true
		}
		if _, isMap := info.TypeOf(rs.X).Underlying().(*types.Map); !isMap {
			return true
		}
		// the body compares the element's Qualifier() with the parameter
		ast.Inspect(rs.Body, func(m ast.Node) bool {
			if be, isB := m.(*ast.BinaryExpr); isB && be.Op == token.EQL {
				if strings.HasSuffix(types.ExprString(be.X), ".Qualifier()") || strings.HasSuffix(types.ExprString(be.Y), ".Qualifier()") {
					ok = true
				}
			}
			return true
		})
		return true
	})
	// and uses no other registry state
	other := []string{}
	ast.Inspect(f.Decl.Body, func(n ast.Node) bool {
		if sel, isSel := n.(*ast.SelectorExpr); isSel {
			if fld, isF := info.ObjectOf(sel.Sel).(*types.Var); isF && fld.IsField() && fld.Pkg() != nil && fld.Pkg().Path() == load.PkgRegistry && fld.Name() != "imports" && fld.Name() != "Alias" {
				other = append(other, fld.Name())
			}
		}
		return true
	})
	run.Check("G-IMPORT/search-live", "searchImport", prog.Pos(f.Decl.Pos()), ok && len(other) == 0, fmt.Sprintf("searchImport does not (only) range over the registered imports comparing their current Qualifier() (other state used: %v): conflict resolution renames imports after they were registered, so any index of qualifiers goes stale and name/qualifier collisions are missed", other))
}

// HelperLengthConstants returns the integer constants that functions of
// moq's template package compare a slice length with (len(x) > k, switch
// len(x) { case k: }): the explored list lengths must reach beyond them, as a
// helper may behave differently there.
func HelperLengthConstants(prog *load.Program) []int {
	var out []int
	isLen := func(info *types.Info, e ast.Expr) bool {
		c, ok := ast.Unparen(e).(*ast.CallExpr)
		if !ok || len(c.Args) != 1 {
			return false
		}
		id, ok := c.Fun.(*ast.Ident)
		if !ok || id.Name != "len" {
			return false
		}
		_, isSlice := info.TypeOf(c.Args[0]).Underlying().(*types.Slice)
		return isSlice
	}
	konst := func(info *types.Info, e ast.Expr) (int, bool) {
		tv := info.Types[e]
		if tv.Value == nil || tv.Value.Kind() != constant.Int {
			return 0, false
		}
		v, ok := constant.Int64Val(tv.Value)
		return int(v), ok && v >= 0 && v < 12
	}
	funcsOf(prog, func(pkgPath string, info *types.Info, fd *ast.FuncDecl, fn *types.Func) {
		if pkgPath != load.PkgTemplate {
			return
		}
		ast.Inspect(fd.Body, func(n ast.Node) bool {
			switch x := n.(type) {
			case *ast.BinaryExpr:
				if isLen(info, x.X) {
					if k, ok := konst(info, x.Y); ok {
						out = append(out, k)
					}
				} else if isLen(info, x.Y) {
					if k, ok := konst(info, x.X); ok {
						out = append(out, k)
					}
				}
			case *ast.SwitchStmt:
				if x.Tag != nil && isLen(info, x.Tag) {
					for _, cc := range x.Body.List {
						for _, e := range cc.(*ast.CaseClause).List {
							if k, ok := konst(info, e); ok {
								out = append(out, k)
							}
						}
					}
				}
			}
			return true
		})
	})
	return out
}

// reachableFrom: the moq functions reachable from fn through static calls (fn included).
func reachableFrom(prog *load.Program, fn *types.Func) map[*types.Func]bool {
	out := map[*types.Func]bool{}
	if fn == nil {
		return out
	}
	graph := map[*types.Func][]*types.Func{}
	funcsOf(prog, func(pkgPath string, info *types.Info, fd *ast.FuncDecl, f *types.Func) {
		ast.Inspect(fd.Body, func(n ast.Node) bool {
			if call, ok := n.(*ast.CallExpr); ok {
				if cf, ok := typeutil.Callee(info, call).(*types.Func); ok && prog.IsMoqPkg(cf.Pkg()) {
					graph[f] = append(graph[f], cf.Origin())
				}
			}
			return true
		})
	})
	work := []*types.Func{fn.Origin()}
	for len(work) > 0 {
		f := work[len(work)-1]
		work = work[:len(work)-1]
		if out[f] {
			continue
		}
		out[f] = true
		work = append(work, graph[f]...)
	}
	return out
}

// IsCanonicaliser: by role, the registry's path canonicaliser — an unexported function from string to
// string whose body mentions a constant containing "vendor".
func IsCanonicaliser(prog *load.Program, fn *types.Func) bool {
	if fn == nil || fn.Pkg() == nil || !prog.IsMoqPkg(fn.Pkg()) || fn.Pkg().Path() == load.PkgMain {
		return false
	}
	sig, _ := fn.Type().(*types.Signature)
	if sig == nil || sig.Recv() != nil || sig.Params().Len() != 1 || sig.Results().Len() != 1 {
		return false
	}
	isStr := func(t types.Type) bool {
		b, ok := t.Underlying().(*types.Basic)
		return ok && b.Info()&types.IsString != 0
	}
	if !isStr(sig.Params().At(0).Type()) || !isStr(sig.Results().At(0).Type()) {
		return false
	}
	d := prog.Decl(fn.Origin())
	if d == nil || d.Body == nil {
		return false
	}
	info := prog.Info(fn.Pkg())
	found := false
	ast.Inspect(d.Body, func(n ast.Node) bool {
		if e, ok := n.(ast.Expr); ok {
			if tv, ok := info.Types[e]; ok && tv.Value != nil && tv.Value.Kind() == constant.String && strings.Contains(constant.StringVal(tv.Value), "vendor") {
				found = true
			}
		}
		return !found
	})
	return found
}

// isUniqueNameRole: a method of registry.Package from a level (int) to a name (string).
func isUniqueNameRole(fn *types.Func) bool {
	sig, _ := fn.Type().(*types.Signature)
	if sig == nil || sig.Recv() == nil || sig.Params().Len() != 1 || sig.Results().Len() != 1 {
		return false
	}
	if !strings.HasSuffix(types.TypeString(sig.Recv().Type(), nil), load.PkgRegistry+".Package") {
		return false
	}
	pb, ok1 := sig.Params().At(0).Type().Underlying().(*types.Basic)
	rb, ok2 := sig.Results().At(0).Type().Underlying().(*types.Basic)
	return ok1 && ok2 && pb.Info()&types.IsInteger != 0 && rb.Info()&types.IsString != 0
}

// QualifierSearch finds, by role, the registry function that looks an import up by its qualifier: reachable
// from AddImport, one string parameter, a *Package (and possibly a bool) as result.
func QualifierSearch(prog *load.Program) *types.Func {
	if fn := prog.LookupFunc(load.PkgRegistry, "Registry.searchImport"); fn != nil {
		return fn
	}
	reach := reachableFrom(prog, prog.LookupFunc(load.PkgRegistry, "Registry.AddImport"))
	var cands []*types.Func
	for fn := range reach {
		if fn.Pkg() == nil || fn.Pkg().Path() != load.PkgRegistry {
			continue
		}
		sig, _ := fn.Type().(*types.Signature)
		if sig == nil || sig.Params().Len() != 1 || sig.Results().Len() == 0 || sig.Results().Len() > 2 {
			continue
		}
		if b, ok := sig.Params().At(0).Type().Underlying().(*types.Basic); !ok || b.Info()&types.IsString == 0 {
			continue
		}
		if !strings.HasSuffix(types.TypeString(sig.Results().At(0).Type(), nil), load.PkgRegistry+".Package") {
			continue
		}
		// prefer methods of Registry
		if sig.Recv() != nil && strings.HasSuffix(types.TypeString(sig.Recv().Type(), nil), ".Registry") {
			return fn
		}
		cands = append(cands, fn)
	}
	if len(cands) > 0 {
		sort.Slice(cands, func(i, j int) bool { return cands[i].Pos() < cands[j].Pos() })
		return cands[0]
	}
	return nil
}

// mapObjOf: the variable or struct field a map expression denotes (r.imports -> the field imports).
func mapObjOf(info *types.Info, e ast.Expr) types.Object {
	switch x := ast.Unparen(e).(type) {
	case *ast.Ident:
		if v, ok := info.ObjectOf(x).(*types.Var); ok && v.IsField() {
			return v
		}
		// a local or parameter: sites on different variables are judged one by one
		return nil
	case *ast.SelectorExpr:
		return info.ObjectOf(x.Sel)
	}
	return nil
}

// CheckSourceScopeReaders (G-STABLE/source-scope, C15): the scope of a go/types package — what the
// loaded source package declares, moq's own earlier output included when it was left in place — is
// consulted only to look up the requested interfaces. Name allocation (what AddVar reaches) and import
// registration (what AddImport reaches) must not read it: otherwise a second run over the first run's
// output can name or qualify things differently.
func CheckSourceScopeReaders(run *core.Run, prog *load.Program) {
	naming := reachableFrom(prog, prog.LookupFunc(load.PkgRegistry, "MethodScope.AddVar"))
	for f := range reachableFrom(prog, prog.LookupFunc(load.PkgRegistry, "Registry.AddImport")) {
		naming[f] = true
	}
	n := 0
	funcsOf(prog, func(pkgPath string, info *types.Info, fd *ast.FuncDecl, fn *types.Func) {
		ast.Inspect(fd.Body, func(x ast.Node) bool {
			call, ok := x.(*ast.CallExpr)
			if !ok {
				return true
			}
			callee, _ := typeutil.Callee(info, call).(*types.Func)
			if callee == nil || callee.Pkg() == nil || callee.Pkg().Path() != "go/types" {
				return true
			}
			full := callee.FullName()
			if full != "(*go/types.Package).Scope" && !strings.HasPrefix(full, "(*go/types.Scope).") {
				return true
			}
			// types.Universe is not the source package
			if sel, ok := ast.Unparen(call.Fun).(*ast.SelectorExpr); ok {
				if rs, ok := ast.Unparen(sel.X).(*ast.SelectorExpr); ok {
					if v, ok := info.ObjectOf(rs.Sel).(*types.Var); ok && v.Pkg() != nil && v.Pkg().Path() == "go/types" && v.Name() == "Universe" {
						return true
					}
				}
			}
			n++
			run.Check("G-STABLE/source-scope", load.FuncName(fn)+"→"+callee.Name(), prog.Pos(call.Pos()), fn == nil || !naming[fn], fmt.Sprintf("%s reads the declarations of a loaded package (%s) and is reached from name allocation or import registration: what a parameter is called or how a package is qualified then depends on what else the package declares — including the mocks an earlier run left in place, so regenerating over moq's own output changes it", load.FuncName(fn), full))
			return true
		})
	})
	run.Floor("G-STABLE/source-scope", 1)
	run.Count("source_scope_readers", n)
}

// isAddImport: the callee is (*Registry).AddImport, or a method of an interface declared in moq that
// (*Registry).AddImport implements (a call through a narrow interface the generator injects).
func isAddImport(prog *load.Program, cf *types.Func) bool {
	if load.FuncName(cf) == "Registry.AddImport" {
		return true
	}
	sig, _ := cf.Type().(*types.Signature)
	if sig == nil || sig.Recv() == nil {
		return false
	}
	if _, isIface := sig.Recv().Type().Underlying().(*types.Interface); !isIface {
		return false
	}
	for _, im := range implementations(prog, cf) {
		if load.FuncName(im) == "Registry.AddImport" {
			return true
		}
	}
	return false
}
