package gen

import (
	"fmt"
	"go/ast"
	"go/parser"
	"go/token"
	"go/types"
	"os"
	"path/filepath"
	"sort"
	"strings"

	"golang.org/x/tools/go/types/typeutil"

	"verif/checker/internal/cfgx"
	"verif/checker/internal/core"
	"verif/checker/internal/load"
)

// kindRow describes what go/types' type printer does for one type
// constructor: which components it descends into (so that a type from
// another package can hide there) and whether it can call the qualifier at
// this very node.
type kindRow struct {
	Components []string // accessor chains whose results the printer descends into
	Qualifies  string   // "" or how a package qualifier is produced at this node
	Exempt     string   // reason why import discovery needs no case for it
}

// writerTable is the annotated table of (*typeWriter).typ in go/types'
// typestring.go. The case list is re-read from GOROOT on every run; a kind
// that is not in this table makes the rule undecided.
var writerTable = map[string]kindRow{
	"nil":        {Exempt: "prints <nil>, no components"},
	"*Basic":     {Qualifies: "unsafe.Pointer is printed through the qualifier with package unsafe"},
	"*Array":     {Components: []string{"Elem"}},
	"*Slice":     {Components: []string{"Elem"}},
	"*Struct":    {Components: []string{"Field.Type"}},
	"*Pointer":   {Components: []string{"Elem"}},
	"*Tuple":     {Exempt: "only reachable through *Signature, whose case takes Params/Results directly"},
	"*Signature": {Components: []string{"Params.At.Type", "Results.At.Type"}},
	"*Union":     {Components: []string{"Term.Type"}},
	"*Interface": {Components: []string{"ExplicitMethod.Type", "EmbeddedType"}},
	"*Map":       {Components: []string{"Key", "Elem"}},
	"*Chan":      {Components: []string{"Elem"}},
	"*Named":     {Components: []string{"TypeArgs.At"}, Qualifies: "the object's package is printed through the qualifier"},
	"*TypeParam": {Exempt: "printed by its bare name; its constraint is printed where the parameter is declared, and moq passes the constraint itself to AddVar"},
	"*Alias":     {Components: []string{"TypeArgs.At"}, Qualifies: "the object's package is printed through the qualifier"},
}

// typestringCases extracts the case list of (*typeWriter).typ from a GOROOT.
func typestringCases(goroot string) ([]string, error) {
	path := filepath.Join(goroot, "src/go/types/typestring.go")
	fset := token.NewFileSet()
	f, err := parser.ParseFile(fset, path, nil, 0)
	if err != nil {
		return nil, err
	}
	var out []string
	for _, d := range f.Decls {
		fd, ok := d.(*ast.FuncDecl)
		if !ok || fd.Name.Name != "typ" || fd.Recv == nil {
			continue
		}
		ast.Inspect(fd.Body, func(n ast.Node) bool {
			ts, ok := n.(*ast.TypeSwitchStmt)
			if !ok || len(out) > 0 {
				return true
			}
			for _, cc := range ts.Body.List {
				for _, e := range cc.(*ast.CaseClause).List {
					out = append(out, types.ExprString(e))
				}
			}
			return false
		})
	}
	if len(out) == 0 {
		return nil, fmt.Errorf("no type switch found in (*typeWriter).typ of %s", path)
	}
	sort.Strings(out)
	return out, nil
}

// goroots returns the GOROOTs whose go/types may print moq's types: the
// toolchain that builds moq (go.mod's go line, from the module cache) and the
// one running the checker.
func goroots() []string {
	var out []string
	cands, _ := filepath.Glob("/root/go/pkg/mod/golang.org/toolchain@v0.0.1-go1.24*")
	out = append(out, cands...)
	if home := os.Getenv("HOME"); home != "" {
		c2, _ := filepath.Glob(filepath.Join(home, "go/pkg/mod/golang.org/toolchain@v0.0.1-go1.24*"))
		for _, c := range c2 {
			dup := false
			for _, o := range out {
				if o == c {
					dup = true
				}
			}
			if !dup {
				out = append(out, c)
			}
		}
	}
	out = append(out, "/opt/veriftools/go1.26.8")
	return out
}

// CheckKinds is C01 clause 2: import discovery is exhaustive with respect to the type printer.
func CheckKinds(run *core.Run, prog *load.Program) {
	f, fn, info := walkerByRole(prog)
	noWalker := f == nil
	pos := "internal/registry/method_scope.go"
	if noWalker {
		// no recursive function over a types.Type and an import map (an iterative walk, a visitor ...): the
		// loops over type components are then looked for in everything AddVar reaches
		fn = prog.LookupFunc(load.PkgRegistry, "MethodScope.AddVar")
		if fn == nil {
			run.Undecided("G-KINDS", "role", pos, "neither an import discovery walker nor (*MethodScope).AddVar was found")
			return
		}
		pos = prog.Pos(fn.Pos())
	} else {
		pos = prog.Pos(f.Decl.Pos())
	}
	// writer table vs GOROOTs
	nroots := 0
	for _, gr := range goroots() {
		cases, err := typestringCases(gr)
		if err != nil {
			continue
		}
		nroots++
		for _, k := range cases {
			_, known := writerTable[k]
			if !known {
				run.Undecided("G-KINDS/writer-table", k+"@"+filepath.Base(gr), gr, fmt.Sprintf("go/types in %s prints a type constructor %s that the annotated writer table does not know: the import discovery rule cannot say whether it needs a case", gr, k))
			}
		}
		for k := range writerTable {
			found := false
			for _, c := range cases {
				if c == k {
					found = true
				}
			}
			if !found {
				run.Undecided("G-KINDS/writer-table", k+"-gone@"+filepath.Base(gr), gr, fmt.Sprintf("the annotated writer table lists %s but go/types in %s has no such case", k, gr))
			}
		}
		run.Check("G-KINDS/writer-table", "agrees@"+filepath.Base(gr), gr, true, "")
	}
	if nroots == 0 {
		run.Undecided("G-KINDS/writer-table", "goroot", "-", "no GOROOT with go/types sources found")
	}
	// which packages the walker registers for each kind is decided by interpreting it (props: kindsTable);
	// here: the loops of the walker family treat every component alike, so that the short component lists
	// of that table are representative
	family := reachableFrom(prog, fn)
	nloops := 0
	funcsOf(prog, func(pkgPath string, finfo *types.Info, fd *ast.FuncDecl, ff *types.Func) {
		if pkgPath != load.PkgRegistry || !family[ff] {
			return
		}
		// only functions that can reach the walker again or hand it components matter: every loop in them
		ast.Inspect(fd.Body, func(n ast.Node) bool {
			var idx types.Object
			var body *ast.BlockStmt
			var header []ast.Node
			switch lp := n.(type) {
			case *ast.ForStmt:
				if as, ok := lp.Init.(*ast.AssignStmt); ok && len(as.Lhs) >= 1 {
					if id, ok := as.Lhs[0].(*ast.Ident); ok {
						idx = finfo.ObjectOf(id)
					}
				}
				body = lp.Body
				header = []ast.Node{lp.Init, lp.Cond, lp.Post}
			case *ast.RangeStmt:
				if id, ok := lp.Key.(*ast.Ident); ok && id.Name != "_" {
					if t := finfo.TypeOf(lp.X); t != nil {
						switch u := t.Underlying().(type) {
						case *types.Map:
						case *types.Signature:
							// an iterator: with a one-parameter yield the variable is the component itself
							if u.Params().Len() == 1 {
								if y, ok := u.Params().At(0).Type().Underlying().(*types.Signature); ok && y.Params().Len() == 2 {
									idx = finfo.ObjectOf(id)
								}
							}
						default:
							idx = finfo.ObjectOf(id)
						}
					}
				}
				body = lp.Body
			default:
				return true
			}
			if body == nil {
				return true
			}
			// does the body hand something to the walker family?
			calls := false
			ast.Inspect(body, func(x ast.Node) bool {
				if call, ok := x.(*ast.CallExpr); ok {
					if cf, ok := typeutil.Callee(finfo, call).(*types.Func); ok && prog.IsMoqPkg(cf.Pkg()) && family[cf.Origin()] {
						// the callee is the walker or leads back to it
						if cf.Origin() == fn || reachableFrom(prog, cf.Origin())[fn] {
							calls = true
						}
					}
				}
				return true
			})
			if noWalker {
				// a loop over the components of a type: its body fetches them with a go/types accessor
				calls = false
				ast.Inspect(body, func(x ast.Node) bool {
					if call, ok := x.(*ast.CallExpr); ok {
						if cf, ok := typeutil.Callee(finfo, call).(*types.Func); ok && cf.Pkg() != nil && cf.Pkg().Path() == "go/types" && len(call.Args) == 1 {
							if _, isAcc := accessorBound[cf.Name()]; isAcc {
								calls = true
							}
						}
					}
					return true
				})
			}
			if !calls {
				return true
			}
			nloops++
			var bad []string
			// no branch out of the iteration, no condition on the index
			ast.Inspect(body, func(x ast.Node) bool {
				switch s := x.(type) {
				case *ast.FuncLit:
					return false
				case *ast.BranchStmt:
					bad = append(bad, s.Tok.String())
				case *ast.ReturnStmt:
					bad = append(bad, "return")
				case *ast.Ident:
					if idx != nil && finfo.ObjectOf(s) == idx {
						// allowed: the sole argument of an accessor call or an index into a slice
						okUse := false
						ast.Inspect(body, func(y ast.Node) bool {
							switch u := y.(type) {
							case *ast.CallExpr:
								if len(u.Args) == 1 && ast.Unparen(u.Args[0]) == ast.Expr(s) {
									okUse = true
								}
							case *ast.IndexExpr:
								if ast.Unparen(u.Index) == ast.Expr(s) {
									okUse = true
								}
							}
							return true
						})
						if !okUse {
							bad = append(bad, "the index "+s.Name+" is used other than to fetch the component")
						}
					}
				}
				return true
			})
			_ = header
			run.Check("G-KINDS/uniform-loops", load.FuncName(ff)+":"+types.ExprString(loopSubject(n)), prog.Pos(n.Pos()), len(bad) == 0, fmt.Sprintf("a loop over the components of a type in %s does not treat every component alike (%v): some components' packages may then not be discovered, and a table over short component lists is not representative", load.FuncName(ff), bad))
			return true
		})
	})
	run.Count("walker_component_loops", nloops)
	_ = info
	_ = f
	_ = pos
	_ = cfgx.Cuts{}
	_ = strings.TrimPrefix
	_ = sort.Strings
}

func loopSubject(n ast.Node) ast.Expr {
	switch lp := n.(type) {
	case *ast.RangeStmt:
		return lp.X
	case *ast.ForStmt:
		if lp.Cond != nil {
			return lp.Cond
		}
	}
	return ast.NewIdent("loop")
}

func within(outer ast.Node, n ast.Node) bool {
	return outer.Pos() <= n.Pos() && n.End() <= outer.End()
}

func enclosing(root ast.Node, target ast.Node) []ast.Node {
	var out []ast.Node
	ast.Inspect(root, func(n ast.Node) bool {
		if n == nil || n == root {
			return true
		}
		if within(n, target) && n != target {
			switch n.(type) {
			case *ast.ForStmt, *ast.RangeStmt, *ast.IfStmt:
				out = append(out, n)
			}
		}
		return true
	})
	return out
}

func isNilGuard(info *types.Info, cond ast.Expr) bool {
	be, ok := ast.Unparen(cond).(*ast.BinaryExpr)
	if !ok || be.Op != token.NEQ {
		return false
	}
	for _, e := range []ast.Expr{be.X, be.Y} {
		if id, ok := ast.Unparen(e).(*ast.Ident); ok {
			if _, isNil := info.Uses[id].(*types.Nil); isNil {
				return true
			}
		}
	}
	return false
}

func locate(f *cfgx.Func, n ast.Node) (int, int) {
	for bi, b := range f.G.Blocks {
		for ni, cn := range b.Nodes {
			if cn == n {
				return bi, ni
			}
		}
	}
	return -1, -1
}

// accessorChain decides whether the argument text of a recursive call is
// derived from the component: t.Elem(), t.Params().At(i).Type(), targs.At(i)
// (with targs := t.TypeArgs()) ...
func accessorChain(arg, first, last, comp string) bool {
	parts := strings.Split(comp, ".")
	// every accessor of the chain must occur, in order, except that a leading accessor may have been
	// bound to a local (targs := t.TypeArgs())
	idx := 0
	okAll := true
	for pi, p := range parts {
		j := strings.Index(arg[idx:], p+"(")
		if j < 0 {
			if pi == 0 && len(parts) > 1 {
				continue
			}
			okAll = false
			break
		}
		idx += j + len(p)
	}
	return okAll
}

// firstNodeWithin returns the CFG position of the first node (by source
// position) that lies inside stmt.
func firstNodeWithin(f *cfgx.Func, stmt ast.Node) (int, int) {
	bb, bi := -1, -1
	var best token.Pos
	for b, blk := range f.G.Blocks {
		if !blk.Live {
			continue
		}
		for i, n := range blk.Nodes {
			if n.Pos() >= stmt.Pos() && n.End() <= stmt.End() && (bb < 0 || n.Pos() < best) {
				bb, bi, best = b, i, n.Pos()
			}
		}
	}
	return bb, bi
}

// walkerByRole: the registry function that takes a types.Type and a map of imports and is called by AddVar.
func walkerByRole(prog *load.Program) (*cfgx.Func, *types.Func, *types.Info) {
	var cands []*types.Func
	funcsOf(prog, func(pkgPath string, info *types.Info, fd *ast.FuncDecl, fn *types.Func) {
		if pkgPath != load.PkgRegistry || fn == nil {
			return
		}
		sig, _ := fn.Type().(*types.Signature)
		if sig == nil {
			return
		}
		hasT, hasM := false, false
		for i := 0; i < sig.Params().Len(); i++ {
			pt := sig.Params().At(i).Type()
			if types.TypeString(pt, nil) == "go/types.Type" {
				hasT = true
			}
			if mt, ok := pt.Underlying().(*types.Map); ok && strings.HasSuffix(types.TypeString(mt.Elem(), nil), "registry.Package") {
				hasM = true
			}
		}
		if hasT && hasM {
			cands = append(cands, fn)
		}
	})
	var pick *types.Func
	if av := prog.LookupFunc(load.PkgRegistry, "MethodScope.AddVar"); av != nil && prog.Decl(av) != nil {
		info := prog.Info(av.Pkg())
		ast.Inspect(prog.Decl(av).Body, func(n ast.Node) bool {
			if call, ok := n.(*ast.CallExpr); ok {
				if cf, ok := typeutil.Callee(info, call).(*types.Func); ok {
					for _, c := range cands {
						if cf.Origin() == c && pick == nil {
							pick = c
						}
					}
				}
			}
			return true
		})
	}
	if pick == nil && len(cands) > 0 {
		pick = cands[0]
	}
	if pick == nil || prog.Decl(pick) == nil {
		return nil, nil, nil
	}
	info := prog.Info(pick.Pkg())
	return cfgx.New(info, prog.Decl(pick)), pick, info
}
