package gen

import (
	"fmt"
	"go/ast"
	"go/parser"
	"go/token"
	"go/types"
	"os"
	"path/filepath"
	"sort"
	"strings"

	"golang.org/x/tools/go/types/typeutil"

	"verif/checker/internal/cfgx"
	"verif/checker/internal/core"
	"verif/checker/internal/load"
)

// kindRow describes what go/types' type printer does for one type
// constructor: which components it descends into (so that a type from
// another package can hide there) and whether it can call the qualifier at
// this very node.
type kindRow struct {
	Components []string // accessor chains whose results the printer descends into
	Qualifies  string   // "" or how a package qualifier is produced at this node
	Exempt     string   // reason why import discovery needs no case for it
}

// writerTable is the annotated table of (*typeWriter).typ in go/types'
// typestring.go. The case list is re-read from GOROOT on every run; a kind
// that is not in this table makes the rule undecided.
var writerTable = map[string]kindRow{
	"nil":        {Exempt: "prints <nil>, no components"},
	"*Basic":     {Qualifies: "unsafe.Pointer is printed through the qualifier with package unsafe"},
	"*Array":     {Components: []string{"Elem"}},
	"*Slice":     {Components: []string{"Elem"}},
	"*Struct":    {Components: []string{"Field.Type"}},
	"*Pointer":   {Components: []string{"Elem"}},
	"*Tuple":     {Exempt: "only reachable through *Signature, whose case takes Params/Results directly"},
	"*Signature": {Components: []string{"Params.At.Type", "Results.At.Type"}},
	"*Union":     {Components: []string{"Term.Type"}},
	"*Interface": {Components: []string{"ExplicitMethod.Type", "EmbeddedType"}},
	"*Map":       {Components: []string{"Key", "Elem"}},
	"*Chan":      {Components: []string{"Elem"}},
	"*Named":     {Components: []string{"TypeArgs.At"}, Qualifies: "the object's package is printed through the qualifier"},
	"*TypeParam": {Exempt: "printed by its bare name; its constraint is printed where the parameter is declared, and moq passes the constraint itself to AddVar"},
	"*Alias":     {Components: []string{"TypeArgs.At"}, Qualifies: "the object's package is printed through the qualifier"},
}

// typestringCases extracts the case list of (*typeWriter).typ from a GOROOT.
func typestringCases(goroot string) ([]string, error) {
	path := filepath.Join(goroot, "src/go/types/typestring.go")
	fset := token.NewFileSet()
	f, err := parser.ParseFile(fset, path, nil, 0)
	if err != nil {
		return nil, err
	}
	var out []string
	for _, d := range f.Decls {
		fd, ok := d.(*ast.FuncDecl)
		if !ok || fd.Name.Name != "typ" || fd.Recv == nil {
			continue
		}
		ast.Inspect(fd.Body, func(n ast.Node) bool {
			ts, ok := n.(*ast.TypeSwitchStmt)
			if !ok || len(out) > 0 {
				return true
			}
			for _, cc := range ts.Body.List {
				for _, e := range cc.(*ast.CaseClause).List {
					out = append(out, types.ExprString(e))
				}
			}
			return false
		})
	}
	if len(out) == 0 {
		return nil, fmt.Errorf("no type switch found in (*typeWriter).typ of %s", path)
	}
	sort.Strings(out)
	return out, nil
}

// goroots returns the GOROOTs whose go/types may print moq's types: the
// toolchain that builds moq (go.mod's go line, from the module cache) and the
// one running the checker.
func goroots() []string {
	var out []string
	cands, _ := filepath.Glob("/root/go/pkg/mod/golang.org/toolchain@v0.0.1-go1.24*")
	out = append(out, cands...)
	if home := os.Getenv("HOME"); home != "" {
		c2, _ := filepath.Glob(filepath.Join(home, "go/pkg/mod/golang.org/toolchain@v0.0.1-go1.24*"))
		for _, c := range c2 {
			dup := false
			for _, o := range out {
				if o == c {
					dup = true
				}
			}
			if !dup {
				out = append(out, c)
			}
		}
	}
	out = append(out, "/opt/veriftools/go1.26.8")
	return out
}

// CheckKinds is C01 clause 2: import discovery is exhaustive with respect to the type printer.
func CheckKinds(run *core.Run, prog *load.Program) {
	f, fn, info := moqFunc(prog, load.PkgRegistry, "MethodScope.populateImports")
	if f == nil {
		// role: the recursive function over a types.Type switch that reaches AddImport
		run.Undecided("G-KINDS", "role", "internal/registry/method_scope.go", "the import discovery walker (populateImports) was not found")
		return
	}
	pos := prog.Pos(f.Decl.Pos())
	// writer table vs GOROOTs
	nroots := 0
	for _, gr := range goroots() {
		cases, err := typestringCases(gr)
		if err != nil {
			continue
		}
		nroots++
		for _, k := range cases {
			_, known := writerTable[k]
			if !known {
				run.Undecided("G-KINDS/writer-table", k+"@"+filepath.Base(gr), gr, fmt.Sprintf("go/types in %s prints a type constructor %s that the annotated writer table does not know: the import discovery rule cannot say whether it needs a case", gr, k))
			}
		}
		for k := range writerTable {
			found := false
			for _, c := range cases {
				if c == k {
					found = true
				}
			}
			if !found {
				run.Undecided("G-KINDS/writer-table", k+"-gone@"+filepath.Base(gr), gr, fmt.Sprintf("the annotated writer table lists %s but go/types in %s has no such case", k, gr))
			}
		}
		run.Check("G-KINDS/writer-table", "agrees@"+filepath.Base(gr), gr, true, "")
	}
	if nroots == 0 {
		run.Undecided("G-KINDS/writer-table", "goroot", "-", "no GOROOT with go/types sources found")
	}
	// reader: the type switch of populateImports
	var ts *ast.TypeSwitchStmt
	ast.Inspect(f.Decl.Body, func(n ast.Node) bool {
		if x, ok := n.(*ast.TypeSwitchStmt); ok && ts == nil {
			ts = x
		}
		return true
	})
	if ts == nil {
		run.Undecided("G-KINDS", "switch", pos, "populateImports has no type switch")
		return
	}
	// which clause handles a value of each concrete go/types type: the first clause (in order) that
	// lists the type itself or an interface type it implements
	clauses := map[string]*ast.CaseClause{}
	gt := prog.ByPath["go/types"]
	for k := range writerTable {
		if k == "nil" || gt == nil {
			continue
		}
		tn, _ := gt.Types.Scope().Lookup(strings.TrimPrefix(k, "*")).(*types.TypeName)
		if tn == nil {
			continue
		}
		ptr := types.NewPointer(tn.Type())
		for _, cc := range ts.Body.List {
			cl := cc.(*ast.CaseClause)
			matched := false
			for _, e := range cl.List {
				ct := info.TypeOf(e)
				if ct == nil {
					continue
				}
				if types.Identical(ct, ptr) {
					matched = true
				} else if it, ok := ct.Underlying().(*types.Interface); ok && types.Implements(ptr, it) {
					matched = true
				}
			}
			if matched {
				clauses[k] = cl
				break
			}
		}
	}
	// an exempt kind that lands in a clause must not register or descend there
	for k, row := range writerTable {
		if row.Exempt == "" || clauses[k] == nil {
			continue
		}
		cl := clauses[k]
		var does []string
		for _, st := range f.Sites() {
			if !within(cl, st.Call) || st.Callee == nil {
				continue
			}
			if st.Callee == fn || load.FuncName(st.Callee) == "Registry.AddImport" {
				does = append(does, load.FuncName(st.Callee))
			}
		}
		shared := false // the clause is shared with a non-exempt kind through an interface case
		for k2, c2 := range clauses {
			if c2 == cl && writerTable[k2].Exempt == "" {
				shared = true
			}
		}
		if shared || len(does) > 0 {
			run.Check("G-KINDS/only-printed", k+":case", prog.Pos(cl.Pos()), len(does) == 0, fmt.Sprintf("values of kind %s are handled by a case that calls %v, but the type printer prints no package at such a node (%s): a package is imported that the file never refers to", k, does, row.Exempt))
		}
	}
	var kinds []string
	for k := range writerTable {
		kinds = append(kinds, k)
	}
	sort.Strings(kinds)
	for _, k := range kinds {
		row := writerTable[k]
		if row.Exempt != "" {
			continue
		}
		cl := clauses[k]
		if !run.Check("G-KINDS/case", k, pos, cl != nil, fmt.Sprintf("populateImports has no case for %s although the type printer can print a package-qualified name inside it: the qualifier finds no registered import and the type text is wrong or the import missing", k)) {
			continue
		}
		cpos := prog.Pos(cl.Pos())
		// qualifier-calling node registers a package on every path through the case
		if row.Qualifies != "" {
			var adds = map[ast.Node]bool{}
			for _, s := range f.Sites() {
				if s.Callee != nil && load.FuncName(s.Callee) == "Registry.AddImport" && within(cl, s.Call) {
					adds[s.Call] = true
				}
			}
			run.Check("G-KINDS/registers", k, cpos, len(adds) > 0, fmt.Sprintf("the %s case never registers a package (%s)", k, row.Qualifies))
		}
		for _, comp := range row.Components {
			// recursive calls in this clause whose argument is derived from the component accessor
			last := comp
			if i := strings.LastIndexByte(comp, '.'); i >= 0 {
				last = comp[i+1:]
			}
			first := comp
			if i := strings.IndexByte(comp, '.'); i >= 0 {
				first = comp[:i]
			}
			cut := map[ast.Node]bool{}
			n := 0
			for _, s := range f.Sites() {
				if s.Callee != fn || !within(cl, s.Call) || len(s.Call.Args) == 0 {
					continue
				}
				arg := types.ExprString(s.Call.Args[0])
				if !accessorChain(arg, first, last, comp) {
					continue
				}
				n++
				cut[s.Call] = true
				// loops and nil guards that enclose the call
				for _, enc := range enclosing(cl, s.Call) {
					switch e := enc.(type) {
					case *ast.ForStmt:
						if e.Cond != nil {
							cut[e.Cond] = true
						}
					case *ast.RangeStmt:
						cut[e.X] = true
					case *ast.IfStmt:
						if isNilGuard(info, e.Cond) {
							cut[e.Cond] = true
						}
					}
				}
			}
			if !run.Check("G-KINDS/component", k+"."+comp, cpos, n > 0, fmt.Sprintf("the %s case does not descend into %s, which the type printer prints: a type from another package there is printed but its import is not discovered", k, comp)) {
				continue
			}
			if len(cl.Body) == 0 {
				continue
			}
			// every path through the clause passes the descent (or the loop/nil guard that holds it)
			sb, si := firstNodeWithin(f, cl.Body[0])
			if sb < 0 {
				run.Undecided("G-KINDS/component-every-path", k+"."+comp, cpos, "cannot locate the start of the case in the control-flow graph")
				continue
			}
			r := f.Explore(sb, si, cfgx.Cuts{Nodes: cut})
			run.Check("G-KINDS/component-every-path", k+"."+comp, cpos, len(r.Exits) == 0, fmt.Sprintf("the %s case can be left without descending into %s (an early return or a condition skips it)", k, comp))
			// inside a loop over the components, every iteration descends: from the start of the loop body
			// the next iteration (post statement / condition) must not be reachable without the call
			for _, s := range f.Sites() {
				if s.Callee != fn || !within(cl, s.Call) || !cut[s.Call] {
					continue
				}
				for _, enc := range enclosing(cl, s.Call) {
					fs, ok := enc.(*ast.ForStmt)
					if !ok || len(fs.Body.List) == 0 {
						continue
					}
					bb, bi := firstNodeWithin(f, fs.Body)
					if bb < 0 {
						continue
					}
					rr := f.Explore(bb, bi, cfgx.Cuts{Nodes: map[ast.Node]bool{s.Call: true}})
					skipped := len(rr.Exits) > 0
					if fs.Post != nil && rr.Passed(fs.Post) {
						skipped = true
					}
					if fs.Cond != nil && rr.Passed(fs.Cond) {
						skipped = true
					}
					run.Check("G-KINDS/component-every-iteration", k+"."+comp, cpos, !skipped, fmt.Sprintf("an iteration of the loop over %s in the %s case can skip the descent (a `continue`, `break` or condition inside the loop): some components' imports are then not discovered", comp, k))
				}
			}
		}
	}
	// nothing else is descended into: an import discovered for something the printer never prints is an unused import
	for _, cc := range ts.Body.List {
		cl := cc.(*ast.CaseClause)
		var handled []string
		for k, c2 := range clauses {
			if c2 == cl && writerTable[k].Exempt == "" {
				handled = append(handled, k)
			}
		}
		sort.Strings(handled)
		if len(handled) == 0 {
			continue
		}
		for _, s := range f.Sites() {
			if s.Callee != fn || !within(cl, s.Call) || len(s.Call.Args) == 0 {
				continue
			}
			arg := types.ExprString(s.Call.Args[0])
			okArg := !strings.Contains(arg, "Constraint(") && !strings.Contains(arg, "TypeParams(") && !strings.Contains(arg, "Underlying(")
			for _, kind := range handled {
				match := false
				for _, comp := range writerTable[kind].Components {
					last := comp
					if i := strings.LastIndexByte(comp, '.'); i >= 0 {
						last = comp[i+1:]
					}
					first := comp
					if i := strings.IndexByte(comp, '.'); i >= 0 {
						first = comp[:i]
					}
					if accessorChain(arg, first, last, comp) {
						match = true
					}
				}
				if !match {
					okArg = false
				}
			}
			run.Check("G-KINDS/only-printed", strings.Join(handled, ",")+":"+arg, prog.Pos(s.Call.Pos()), okArg, fmt.Sprintf("the case for %s descends into %s, which the type printer does not print at such a node: packages found there are imported but never referred to (unused import) and the walk may not terminate (constraints can refer back to their type parameter)", strings.Join(handled, ","), arg))
		}
	}
	run.Floor("G-KINDS/case", 11)
	run.Floor("G-KINDS/component", 12)
	// the imports map filled here is keyed like the qualifier looks it up (stripVendorPath)
	_ = typeutil.Callee
}

func within(outer ast.Node, n ast.Node) bool {
	return outer.Pos() <= n.Pos() && n.End() <= outer.End()
}

func enclosing(root ast.Node, target ast.Node) []ast.Node {
	var out []ast.Node
	ast.Inspect(root, func(n ast.Node) bool {
		if n == nil || n == root {
			return true
		}
		if within(n, target) && n != target {
			switch n.(type) {
			case *ast.ForStmt, *ast.RangeStmt, *ast.IfStmt:
				out = append(out, n)
			}
		}
		return true
	})
	return out
}

func isNilGuard(info *types.Info, cond ast.Expr) bool {
	be, ok := ast.Unparen(cond).(*ast.BinaryExpr)
	if !ok || be.Op != token.NEQ {
		return false
	}
	for _, e := range []ast.Expr{be.X, be.Y} {
		if id, ok := ast.Unparen(e).(*ast.Ident); ok {
			if _, isNil := info.Uses[id].(*types.Nil); isNil {
				return true
			}
		}
	}
	return false
}

func locate(f *cfgx.Func, n ast.Node) (int, int) {
	for bi, b := range f.G.Blocks {
		for ni, cn := range b.Nodes {
			if cn == n {
				return bi, ni
			}
		}
	}
	return -1, -1
}

// accessorChain decides whether the argument text of a recursive call is
// derived from the component: t.Elem(), t.Params().At(i).Type(), targs.At(i)
// (with targs := t.TypeArgs()) ...
func accessorChain(arg, first, last, comp string) bool {
	parts := strings.Split(comp, ".")
	// every accessor of the chain must occur, in order, except that a leading accessor may have been
	// bound to a local (targs := t.TypeArgs())
	idx := 0
	okAll := true
	for pi, p := range parts {
		j := strings.Index(arg[idx:], p+"(")
		if j < 0 {
			if pi == 0 && len(parts) > 1 {
				continue
			}
			okAll = false
			break
		}
		idx += j + len(p)
	}
	return okAll
}

// firstNodeWithin returns the CFG position of the first node (by source
// position) that lies inside stmt.
func firstNodeWithin(f *cfgx.Func, stmt ast.Node) (int, int) {
	bb, bi := -1, -1
	var best token.Pos
	for b, blk := range f.G.Blocks {
		if !blk.Live {
			continue
		}
		for i, n := range blk.Nodes {
			if n.Pos() >= stmt.Pos() && n.End() <= stmt.End() && (bb < 0 || n.Pos() < best) {
				bb, bi, best = b, i, n.Pos()
			}
		}
	}
	return bb, bi
}
