package gen

import (
	"fmt"
	"os"
	"path/filepath"
	"strconv"
	"strings"

	"verif/checker/internal/core"
	"verif/checker/internal/load"
)

// godebugSettings: GODEBUG settings that change what moq's dependencies compute from the same source
// package — and with it the generated text. One line of reason each; other settings are not moq's business.
var godebugSettings = map[string]string{
	"gotypesalias": "go/types materialises declared aliases (types.Alias) only with gotypesalias=1, the default from go 1.23 on: with 0 the signature of a method mentions the alias's target, moq prints and imports the target (an internal package, an unexported type) instead of the alias the interface is written with",
}

// CheckBuildSettings (G-BUILD/godebug): what the linked moq binary computes must be what the library
// computes under `go test`. A `//go:debug` directive in package main applies to the binary only, a
// `godebug` line or a lowered `go` line in go.mod changes the defaults of both; none may switch off a
// setting of godebugSettings.
func CheckBuildSettings(run *core.Run, prog *load.Program) {
	relevant := func(setting string) (string, string, bool) {
		kv := strings.SplitN(strings.TrimSpace(setting), "=", 2)
		if len(kv) != 2 {
			return "", "", false
		}
		_, ok := godebugSettings[kv[0]]
		return kv[0], kv[1], ok
	}
	nFiles := 0
	if pk := prog.Moq[load.PkgMain]; pk != nil {
		for _, f := range pk.Syntax {
			nFiles++
			bad := ""
			pos := prog.Pos(f.Package)
			for _, cg := range f.Comments {
				if cg.Pos() > f.Package {
					break
				}
				for _, c := range cg.List {
					if !strings.HasPrefix(c.Text, "//go:debug ") {
						continue
					}
					if k, v, ok := relevant(strings.TrimPrefix(c.Text, "//go:debug ")); ok && !(k == "gotypesalias" && v == "1") {
						bad = k + "=" + v
						pos = prog.Pos(c.Pos())
					}
				}
			}
			key := filepath.Base(prog.Fset.Position(f.Package).Filename)
			msg := ""
			if bad != "" {
				k := strings.SplitN(bad, "=", 2)[0]
				msg = fmt.Sprintf("package main carries `//go:debug %s`: the directive applies to the linked moq command only (the test suite drives the library and keeps the default), and %s", bad, godebugSettings[k])
			}
			run.Check("G-BUILD/godebug", "directive:"+key, pos, bad == "", msg)
		}
	}
	run.Count("main_files_scanned_for_go_debug", nFiles)
	if prog.Repo == "/fixture" {
		return
	}
	modPath := filepath.Join(prog.Repo, "go.mod")
	data, err := os.ReadFile(modPath)
	if err != nil {
		run.Undecided("G-BUILD/godebug", "go.mod", "go.mod", "go.mod cannot be read: "+err.Error())
		return
	}
	goLine, inBlock := "", false
	var settings []string
	for _, ln := range strings.Split(string(data), "\n") {
		if i := strings.Index(ln, "//"); i >= 0 {
			ln = ln[:i]
		}
		ln = strings.TrimSpace(ln)
		switch {
		case inBlock && ln == ")":
			inBlock = false
		case inBlock:
			settings = append(settings, ln)
		case ln == "godebug (":
			inBlock = true
		case strings.HasPrefix(ln, "godebug "):
			settings = append(settings, strings.TrimPrefix(ln, "godebug "))
		case strings.HasPrefix(ln, "go "):
			goLine = strings.TrimSpace(strings.TrimPrefix(ln, "go "))
		}
	}
	bad := ""
	for _, s := range settings {
		if k, v, ok := relevant(s); ok && !(k == "gotypesalias" && v == "1") {
			bad = k + "=" + v
		}
	}
	msg := ""
	if bad != "" {
		msg = fmt.Sprintf("go.mod sets `godebug %s`: %s", bad, godebugSettings[strings.SplitN(bad, "=", 2)[0]])
	}
	run.Check("G-BUILD/godebug", "go.mod:godebug", "go.mod", bad == "", msg)
	// the language version of the main module decides the defaults
	parts := strings.Split(goLine, ".")
	minor := -1
	if len(parts) >= 2 && parts[0] == "1" {
		minor, _ = strconv.Atoi(parts[1])
	}
	run.Check("G-BUILD/godebug", "go.mod:go-version", "go.mod", minor >= 23, fmt.Sprintf("go.mod declares `go %s`: below go 1.23 the default is gotypesalias=0 — %s", goLine, godebugSettings["gotypesalias"]))
}

// PositiveControlBuild: the fixture's `//go:debug gotypesalias=0` must be reported.
func PositiveControlBuild(run *core.Run, prog *load.Program) {
	control(run, prog, "build-settings", []string{"G-BUILD/godebug"}, func(r *core.Run, fp *load.Program) { CheckBuildSettings(r, fp) })
}
