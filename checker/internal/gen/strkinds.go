package gen

import (
	"fmt"
	"go/ast"
	"go/token"
	"go/types"
	"sort"
	"strings"

	"golang.org/x/tools/go/types/typeutil"

	"verif/checker/internal/core"
	"verif/checker/internal/load"
)

// String kinds: what a string value stands for. Values of different kinds must
// never be compared with each other or passed where the other kind is expected
// (a package *name* is not an import *path* is not a *directory*).
const (
	kIdent = "package-name"
	kPath  = "import-path"
	kDir   = "directory"
	kElem  = "path-element"
)

type kindInfer struct {
	prog  *load.Program
	memo  map[string]string
	depth int
	// function declarations of registry and pkg/moq
	calls map[*types.Func][]callSite
}

type callSite struct {
	call *ast.CallExpr
	info *types.Info
	fd   *ast.FuncDecl
}

func join(a, b string) string {
	switch {
	case a == "":
		return b
	case b == "" || a == b:
		return a
	}
	return "mixed"
}

func newKindInfer(prog *load.Program) *kindInfer {
	k := &kindInfer{prog: prog, memo: map[string]string{}, calls: map[*types.Func][]callSite{}}
	funcsOf(prog, func(pkgPath string, info *types.Info, fd *ast.FuncDecl, fn *types.Func) {
		ast.Inspect(fd.Body, func(n ast.Node) bool {
			if call, ok := n.(*ast.CallExpr); ok {
				if cf, ok := typeutil.Callee(info, call).(*types.Func); ok && prog.IsMoqPkg(cf.Pkg()) {
					k.calls[cf.Origin()] = append(k.calls[cf.Origin()], callSite{call, info, fd})
				}
			}
			return true
		})
	})
	return k
}

func isStringType(t types.Type) bool {
	if t == nil {
		return false
	}
	b, ok := t.Underlying().(*types.Basic)
	return ok && b.Info()&types.IsString != 0
}

// kindOf infers the kind of a string expression ("" = unknown).
func (k *kindInfer) kindOf(info *types.Info, fd *ast.FuncDecl, e ast.Expr) string {
	k.depth++
	defer func() { k.depth-- }()
	if k.depth > 12 {
		return ""
	}
	e = ast.Unparen(e)
	if tv := info.Types[e]; tv.Value != nil {
		return ""
	}
	switch x := e.(type) {
	case *ast.SelectorExpr:
		if sel, ok := info.Selections[x]; ok && sel.Kind() == types.FieldVal {
			fld := sel.Obj().(*types.Var)
			owner := types.TypeString(derefT(info.TypeOf(x.X)), nil)
			switch {
			case owner == "golang.org/x/tools/go/packages.Package" && fld.Name() == "Name":
				return kIdent
			case owner == "golang.org/x/tools/go/packages.Package" && fld.Name() == "PkgPath":
				return kPath
			case owner == "golang.org/x/tools/go/packages.Config" && fld.Name() == "Dir":
				return kDir
			case owner == load.PkgMoq+".Config" && fld.Name() == "PkgName":
				return kIdent // -pkg: "package name (default will infer)"
			case owner == load.PkgMoq+".Config" && fld.Name() == "SrcDir":
				return kDir
			}
			return k.fieldKind(fld)
		}
	case *ast.CallExpr:
		fn, _ := typeutil.Callee(info, x).(*types.Func)
		if fn == nil {
			return ""
		}
		switch fn.FullName() {
		case "(*go/types.Package).Name":
			return kIdent
		case "(*go/types.Package).Path":
			return kPath
		case "path/filepath.Join", "path/filepath.Dir", "path/filepath.Abs", "path/filepath.Clean":
			return kDir
		case "path/filepath.Base", "path.Base":
			// the last element of a path or import path: a directory name, which is not the package's name
			return kElem
		case "path.Join":
			if len(x.Args) > 0 {
				return k.kindOf(info, fd, x.Args[0])
			}
		case "strings.TrimLeft", "strings.TrimSuffix", "strings.TrimPrefix", "strings.Trim":
			if len(x.Args) > 0 {
				return k.kindOf(info, fd, x.Args[0])
			}
		}
		if k.prog.IsMoqPkg(fn.Pkg()) {
			return k.resultKind(fn.Origin())
		}
	case *ast.BinaryExpr:
		if x.Op == token.ADD {
			return join(k.kindOf(info, fd, x.X), k.kindOf(info, fd, x.Y))
		}
	case *ast.Ident:
		v, _ := info.ObjectOf(x).(*types.Var)
		if v == nil || !isStringType(v.Type()) {
			return ""
		}
		return k.varKind(info, fd, v)
	}
	return ""
}

func derefT(t types.Type) types.Type {
	if t == nil {
		return nil
	}
	if p, ok := t.Underlying().(*types.Pointer); ok {
		return p.Elem()
	}
	return t
}

// fieldKind: join of the kinds assigned to a struct field of moq anywhere.
func (k *kindInfer) fieldKind(fld *types.Var) string {
	key := "field:" + fld.Pkg().Path() + "." + fld.Name() + fmt.Sprint(fld.Pos())
	if v, ok := k.memo[key]; ok {
		return v
	}
	k.memo[key] = ""
	out := ""
	funcsOf(k.prog, func(pkgPath string, info *types.Info, fd *ast.FuncDecl, fn *types.Func) {
		ast.Inspect(fd.Body, func(n ast.Node) bool {
			switch s := n.(type) {
			case *ast.KeyValueExpr:
				if id, ok := s.Key.(*ast.Ident); ok && info.ObjectOf(id) == fld {
					out = join(out, k.kindOf(info, fd, s.Value))
				}
			case *ast.AssignStmt:
				for i, l := range s.Lhs {
					if sel, ok := ast.Unparen(l).(*ast.SelectorExpr); ok && info.ObjectOf(sel.Sel) == fld && len(s.Rhs) == len(s.Lhs) {
						out = join(out, k.kindOf(info, fd, s.Rhs[i]))
					}
				}
			}
			return true
		})
	})
	k.memo[key] = out
	return out
}

// resultKind: join over the (first string) results a moq function returns.
func (k *kindInfer) resultKind(fn *types.Func) string {
	key := "result:" + fn.FullName()
	if v, ok := k.memo[key]; ok {
		return v
	}
	k.memo[key] = ""
	decl := k.prog.Decl(fn)
	if decl == nil || decl.Body == nil {
		return ""
	}
	info := k.prog.Info(fn.Pkg())
	sig := fn.Type().(*types.Signature)
	if sig.Results().Len() == 0 || !isStringType(sig.Results().At(0).Type()) {
		return ""
	}
	out := ""
	ast.Inspect(decl.Body, func(n ast.Node) bool {
		if _, isLit := n.(*ast.FuncLit); isLit {
			return false
		}
		if rs, ok := n.(*ast.ReturnStmt); ok && len(rs.Results) > 0 {
			out = join(out, k.kindOf(info, decl, rs.Results[0]))
		}
		return true
	})
	k.memo[key] = out
	return out
}

// varKind: parameters take the join of their arguments at all call sites,
// locals the join of what is assigned to them.
func (k *kindInfer) varKind(info *types.Info, fd *ast.FuncDecl, v *types.Var) string {
	key := fmt.Sprintf("var:%s:%d", v.Name(), v.Pos())
	if r, ok := k.memo[key]; ok {
		return r
	}
	k.memo[key] = ""
	out := ""
	// parameter?
	if fn, idx := k.paramOf(v); fn != nil {
		for _, cs := range k.calls[fn] {
			if idx < len(cs.call.Args) {
				out = join(out, k.kindOf(cs.info, cs.fd, cs.call.Args[idx]))
			}
		}
		// struct-literal configuration: moq.New(moq.Config{...}) passes fields, handled by field seeds
		k.memo[key] = out
		return out
	}
	ast.Inspect(fd, func(n ast.Node) bool {
		if as, ok := n.(*ast.AssignStmt); ok && len(as.Lhs) == len(as.Rhs) {
			for i, l := range as.Lhs {
				if id, ok := ast.Unparen(l).(*ast.Ident); ok && info.ObjectOf(id) == v {
					out = join(out, k.kindOf(info, fd, as.Rhs[i]))
				}
			}
		}
		return true
	})
	k.memo[key] = out
	return out
}

func (k *kindInfer) paramOf(v *types.Var) (*types.Func, int) {
	var rf *types.Func
	ri := -1
	funcsOf(k.prog, func(pkgPath string, info *types.Info, fd *ast.FuncDecl, fn *types.Func) {
		i := 0
		for _, fl := range fd.Type.Params.List {
			for _, n := range fl.Names {
				if info.Defs[n] == v {
					rf, ri = fn, i
				}
				i++
			}
			if len(fl.Names) == 0 {
				i++
			}
		}
	})
	return rf, ri
}

// expectedKind: what a parameter is used as inside its function: compared with
// a value of a known kind, stored into a field of a known kind, or passed on
// to a parameter with an expected kind.
func (k *kindInfer) expectedKind(fn *types.Func, idx int) string {
	key := fmt.Sprintf("expect:%s#%d", fn.FullName(), idx)
	if r, ok := k.memo[key]; ok {
		return r
	}
	k.memo[key] = ""
	decl := k.prog.Decl(fn)
	if decl == nil || decl.Body == nil {
		return ""
	}
	info := k.prog.Info(fn.Pkg())
	var pv *types.Var
	i := 0
	for _, fl := range decl.Type.Params.List {
		for _, n := range fl.Names {
			if i == idx {
				pv, _ = info.Defs[n].(*types.Var)
			}
			i++
		}
	}
	if pv == nil || !isStringType(pv.Type()) {
		return ""
	}
	isP := func(e ast.Expr) bool {
		id, ok := ast.Unparen(e).(*ast.Ident)
		return ok && info.ObjectOf(id) == pv
	}
	out := ""
	ast.Inspect(decl.Body, func(n ast.Node) bool {
		switch s := n.(type) {
		case *ast.BinaryExpr:
			if s.Op == token.EQL || s.Op == token.NEQ {
				if isP(s.X) {
					out = join(out, k.kindOf(info, decl, s.Y))
				} else if isP(s.Y) {
					out = join(out, k.kindOf(info, decl, s.X))
				}
			}
		case *ast.KeyValueExpr:
			if isP(s.Value) {
				if id, ok := s.Key.(*ast.Ident); ok {
					if fld, ok := info.ObjectOf(id).(*types.Var); ok && fld.IsField() {
						// kind of the field by its declaration seeds
						fake := &ast.SelectorExpr{}
						_ = fake
						switch {
						case fld.Pkg() != nil && fld.Pkg().Path() == "golang.org/x/tools/go/packages" && fld.Name() == "Dir":
							out = join(out, kDir)
						case k.prog.IsMoqPkg(fld.Pkg()):
							// parked in a field of a moq struct: what the field is used as
							out = join(out, k.fieldUseKind(fld))
						}
					}
				}
			}
		case *ast.AssignStmt:
			for i, l := range s.Lhs {
				if sel, ok := ast.Unparen(l).(*ast.SelectorExpr); ok && len(s.Rhs) == len(s.Lhs) && isP(s.Rhs[i]) {
					if fld, ok := info.ObjectOf(sel.Sel).(*types.Var); ok && fld.IsField() && k.prog.IsMoqPkg(fld.Pkg()) {
						out = join(out, k.fieldUseKind(fld))
					}
				}
			}
		case *ast.CallExpr:
			if cf, ok := typeutil.Callee(info, s).(*types.Func); ok && k.prog.IsMoqPkg(cf.Pkg()) && cf.Origin() != fn {
				for ai, a := range s.Args {
					if isP(a) {
						out = join(out, k.expectedKind(cf.Origin(), ai))
					}
				}
			}
		}
		return true
	})
	k.memo[key] = out
	return out
}

// fieldUseKind: what a string field of a moq struct is used as, wherever it is read: compared with a
// value of a known kind, stored into a field of a known kind, or passed to a parameter with an expected kind.
func (k *kindInfer) fieldUseKind(fld *types.Var) string {
	if !isStringType(fld.Type()) {
		return ""
	}
	key := "fielduse:" + fld.Pkg().Path() + "." + fld.Name() + fmt.Sprint(fld.Pos())
	if v, ok := k.memo[key]; ok {
		return v
	}
	k.memo[key] = ""
	out := ""
	funcsOf(k.prog, func(pkgPath string, info *types.Info, fd *ast.FuncDecl, fn *types.Func) {
		isF := func(e ast.Expr) bool {
			sel, ok := ast.Unparen(e).(*ast.SelectorExpr)
			return ok && info.ObjectOf(sel.Sel) == fld
		}
		ast.Inspect(fd.Body, func(n ast.Node) bool {
			switch s := n.(type) {
			case *ast.BinaryExpr:
				if s.Op == token.EQL || s.Op == token.NEQ {
					if isF(s.X) {
						out = join(out, k.kindOf(info, fd, s.Y))
					} else if isF(s.Y) {
						out = join(out, k.kindOf(info, fd, s.X))
					}
				}
			case *ast.KeyValueExpr:
				if isF(s.Value) {
					if id, ok := s.Key.(*ast.Ident); ok {
						if f2, ok := info.ObjectOf(id).(*types.Var); ok && f2.IsField() && f2 != fld {
							switch {
							case f2.Pkg() != nil && f2.Pkg().Path() == "golang.org/x/tools/go/packages" && f2.Name() == "Dir":
								out = join(out, kDir)
							case k.prog.IsMoqPkg(f2.Pkg()):
								out = join(out, k.fieldUseKind(f2))
							}
						}
					}
				}
			case *ast.CallExpr:
				if cf, ok := typeutil.Callee(info, s).(*types.Func); ok && k.prog.IsMoqPkg(cf.Pkg()) {
					for ai, a := range s.Args {
						if isF(a) {
							out = join(out, k.expectedKind(cf.Origin(), ai))
						}
					}
				}
			}
			return true
		})
	})
	k.memo[key] = out
	return out
}

// CheckDestKinds is the string-kind consistency rule of C10: in the code that
// computes the destination package, a package name, an import path and a
// directory are never confused.
func CheckDestKinds(run *core.Run, prog *load.Program) {
	k := newKindInfer(prog)
	n := 0
	var fns []*types.Func
	for fn := range k.calls {
		fns = append(fns, fn)
	}
	sort.Slice(fns, func(i, j int) bool { return fns[i].FullName() < fns[j].FullName() })
	for _, fn := range fns {
		sig := fn.Type().(*types.Signature)
		for _, cs := range k.calls[fn] {
			for ai, a := range cs.call.Args {
				if ai >= sig.Params().Len() || !isStringType(sig.Params().At(ai).Type()) {
					continue
				}
				want := k.expectedKind(fn, ai)
				got := k.kindOf(cs.info, cs.fd, a)
				if want == "" || got == "" || want == "mixed" || got == "mixed" {
					continue
				}
				n++
				caller := "?"
				if cfn, ok := cs.info.Defs[cs.fd.Name].(*types.Func); ok {
					caller = load.FuncName(cfn)
				}
				key := fmt.Sprintf("%s→%s#%s", caller, load.FuncName(fn), sig.Params().At(ai).Name())
				_ = key
				// keyed by the kinds that meet, not by who passes what to whom: the same mix-up keeps its key
				// when helpers are renamed or split
				run.Check("G-KIND/argument", got+"-used-as-"+want, prog.Pos(cs.call.Pos()), got == want, fmt.Sprintf("%s passes %s, a %s, as parameter %q of %s, which uses it as a %s: the decision whether -pkg names the source package is then made on the wrong kind of string (e.g. `-pkg <same name>` is not recognised and the generated file imports its own package)", caller, types.ExprString(a), got, sig.Params().At(ai).Name(), load.FuncName(fn), want))
			}
		}
	}
	// comparisons between different kinds
	funcsOf(prog, func(pkgPath string, info *types.Info, fd *ast.FuncDecl, fn *types.Func) {
		if pkgPath == load.PkgMain || pkgPath == load.PkgTemplate {
			return
		}
		ast.Inspect(fd.Body, func(x ast.Node) bool {
			be, ok := x.(*ast.BinaryExpr)
			if !ok || (be.Op != token.EQL && be.Op != token.NEQ) || !isStringType(info.TypeOf(be.X)) {
				return true
			}
			a, b := k.kindOf(info, fd, be.X), k.kindOf(info, fd, be.Y)
			if a == "" || b == "" || a == "mixed" || b == "mixed" {
				return true
			}
			n++
			run.Check("G-KIND/comparison", load.FuncName(fn)+":"+types.ExprString(be), prog.Pos(be.Pos()), a == b, fmt.Sprintf("%s compares %s (a %s) with %s (a %s)", load.FuncName(fn), types.ExprString(be.X), a, types.ExprString(be.Y), b))
			return true
		})
	})
	run.Count("string_kind_obligations", n)
	run.Floor("G-KIND/argument", 2)
	_ = strings.TrimSpace
}
