package gen

import (
	"fmt"
	"go/ast"
	"go/token"
	"go/types"
	"sort"

	"golang.org/x/tools/go/cfg"
	"golang.org/x/tools/go/types/typeutil"

	"verif/checker/internal/core"
	"verif/checker/internal/load"
)

// CheckGeneratorLocks (G-LOCK/reentrant): the generator is single-threaded today and owns no mutex. If one
// is introduced (a registry "safe for concurrent use"), sync's mutexes are not reentrant: a function that
// holds m on every path to a call whose callee — through calls on the same receiver, or anywhere for a
// package-level mutex — locks m again never returns, and moq hangs instead of terminating with output or
// a diagnostic. Decided per function on go/cfg with a must-hold set (intersection at joins, so a lock
// taken on one branch only never counts); deferred unlocks keep the mutex until the function returns.
// RLock inside RLock is not reported (it blocks only with a writer waiting, and the generator has one
// goroutine).
func CheckGeneratorLocks(run *core.Run, prog *load.Program) {
	type key struct{ root, field types.Object }
	type op struct {
		k    key
		name string // Lock RLock Unlock RUnlock
	}
	leftmost := func(info *types.Info, e ast.Expr) types.Object {
		for {
			switch x := ast.Unparen(e).(type) {
			case *ast.SelectorExpr:
				e = x.X
			case *ast.StarExpr:
				e = x.X
			case *ast.Ident:
				return info.ObjectOf(x)
			default:
				return nil
			}
		}
	}
	mutexOp := func(info *types.Info, call *ast.CallExpr) (op, bool) {
		cf, ok := typeutil.Callee(info, call).(*types.Func)
		if !ok || cf.Pkg() == nil || cf.Pkg().Path() != "sync" {
			return op{}, false
		}
		switch cf.Name() {
		case "Lock", "RLock", "Unlock", "RUnlock":
		default:
			return op{}, false
		}
		sig, _ := cf.Type().(*types.Signature)
		if sig == nil || sig.Recv() == nil {
			return op{}, false
		}
		sel, ok := ast.Unparen(call.Fun).(*ast.SelectorExpr)
		if !ok {
			return op{}, false
		}
		var field types.Object
		x := ast.Unparen(sel.X)
		if s := info.Selections[sel]; s != nil && len(s.Index()) > 1 {
			// promoted through an embedded mutex: the embedded field is the mutex
			t := s.Recv()
			for _, i := range s.Index()[:len(s.Index())-1] {
				if p, ok := t.Underlying().(*types.Pointer); ok {
					t = p.Elem()
				}
				st, ok := t.Underlying().(*types.Struct)
				if !ok || i >= st.NumFields() {
					return op{}, false
				}
				field = st.Field(i)
				t = field.Type()
			}
			return op{key{leftmost(info, x), field}, cf.Name()}, true
		}
		switch xx := x.(type) {
		case *ast.SelectorExpr:
			field = info.ObjectOf(xx.Sel)
			return op{key{leftmost(info, xx.X), field}, cf.Name()}, field != nil
		case *ast.Ident:
			field = info.ObjectOf(xx)
			if v, ok := field.(*types.Var); ok && v.Pkg() != nil && v.Parent() == v.Pkg().Scope() {
				return op{key{nil, field}, cf.Name()}, true
			}
			return op{key{field, field}, cf.Name()}, field != nil
		}
		return op{}, false
	}
	recvOf := func(info *types.Info, fd *ast.FuncDecl) types.Object {
		if fd.Recv == nil || len(fd.Recv.List) == 0 || len(fd.Recv.List[0].Names) == 0 {
			return nil
		}
		return info.ObjectOf(fd.Recv.List[0].Names[0])
	}
	type fnInfo struct {
		info *types.Info
		fd   *ast.FuncDecl
		fn   *types.Func
		recv types.Object
	}
	var fns []*fnInfo
	byFunc := map[*types.Func]*fnInfo{}
	funcsOf(prog, func(pkgPath string, info *types.Info, fd *ast.FuncDecl, fn *types.Func) {
		fi := &fnInfo{info: info, fd: fd, fn: fn, recv: recvOf(info, fd)}
		fns = append(fns, fi)
		if fn != nil {
			byFunc[fn] = fi
		}
	})
	// acq[fn][field] = "Lock"/"RLock": fn locks the field of its own receiver (or the package-level mutex)
	// itself or through calls on its own receiver (anywhere for package-level mutexes); via = the call chain
	type acqInfo struct {
		mode string
		via  string
	}
	acq := map[*types.Func]map[types.Object]acqInfo{}
	set := func(fn *types.Func, f types.Object, a acqInfo) bool {
		if fn == nil {
			return false
		}
		if acq[fn] == nil {
			acq[fn] = map[types.Object]acqInfo{}
		}
		old, ok := acq[fn][f]
		if ok && (old.mode == "Lock" || a.mode == "RLock") {
			return false
		}
		acq[fn][f] = a
		return true
	}
	isGlobal := func(o types.Object) bool {
		v, ok := o.(*types.Var)
		return ok && !v.IsField() && v.Pkg() != nil && v.Parent() == v.Pkg().Scope()
	}
	nLocks := 0
	walkCalls := func(n ast.Node, visit func(call *ast.CallExpr, deferred, spawned bool)) {
		var rec func(n ast.Node)
		rec = func(n ast.Node) {
			ast.Inspect(n, func(x ast.Node) bool {
				switch x := x.(type) {
				case *ast.FuncLit:
					return false
				case *ast.DeferStmt:
					for _, a := range x.Call.Args {
						rec(a)
					}
					visit(x.Call, true, false)
					return false
				case *ast.GoStmt:
					for _, a := range x.Call.Args {
						rec(a)
					}
					visit(x.Call, false, true)
					return false
				case *ast.CallExpr:
					for _, a := range x.Args {
						rec(a)
					}
					rec(x.Fun)
					visit(x, false, false)
					return false
				}
				return true
			})
		}
		rec(n)
	}
	for _, fi := range fns {
		walkCalls(fi.fd.Body, func(call *ast.CallExpr, deferred, spawned bool) {
			if o, ok := mutexOp(fi.info, call); ok && (o.name == "Lock" || o.name == "RLock") && !spawned {
				nLocks++
				if o.k.root == nil || (fi.recv != nil && o.k.root == fi.recv) {
					set(fi.fn, o.k.field, acqInfo{o.name, ""})
				}
			}
		})
	}
	run.Count("generator_mutex_lock_sites", nLocks)
	calleeOnRecv := func(fi *fnInfo, call *ast.CallExpr) (*types.Func, bool) {
		cf, ok := typeutil.Callee(fi.info, call).(*types.Func)
		if !ok || byFunc[cf] == nil {
			return nil, false
		}
		sel, ok := ast.Unparen(call.Fun).(*ast.SelectorExpr)
		onRecv := ok && fi.recv != nil && leftmost(fi.info, sel.X) == fi.recv && fi.info.Selections[sel] != nil
		return cf, onRecv
	}
	for changed := true; changed; {
		changed = false
		for _, fi := range fns {
			walkCalls(fi.fd.Body, func(call *ast.CallExpr, deferred, spawned bool) {
				if spawned {
					return
				}
				cf, onRecv := calleeOnRecv(fi, call)
				if cf == nil {
					return
				}
				for f, a := range acq[cf] {
					if isGlobal(f) || onRecv {
						via := load.FuncName(cf)
						if a.via != "" {
							via += " → " + a.via
						}
						if set(fi.fn, f, acqInfo{a.mode, via}) {
							changed = true
						}
					}
				}
			})
		}
	}
	// held regions
	nChecked := 0
	for _, fi := range fns {
		has := false
		walkCalls(fi.fd.Body, func(call *ast.CallExpr, deferred, spawned bool) {
			if o, ok := mutexOp(fi.info, call); ok && (o.name == "Lock" || o.name == "RLock") {
				has = true
			}
		})
		if !has {
			continue
		}
		g := cfg.New(fi.fd.Body, func(*ast.CallExpr) bool { return true })
		type held map[key]string // mode
		in := map[*cfg.Block]held{}
		var top held // nil = ⊤ (not reached yet)
		_ = top
		reached := map[*cfg.Block]bool{}
		if len(g.Blocks) == 0 {
			continue
		}
		in[g.Blocks[0]] = held{}
		reached[g.Blocks[0]] = true
		meet := func(a, b held) held {
			out := held{}
			for k, m := range a {
				if m2, ok := b[k]; ok {
					if m == "RLock" || m2 == "RLock" {
						out[k] = "RLock"
					} else {
						out[k] = m
					}
				}
			}
			return out
		}
		equal := func(a, b held) bool {
			if len(a) != len(b) {
				return false
			}
			for k, m := range a {
				if b[k] != m {
					return false
				}
			}
			return true
		}
		reported := map[token.Pos]bool{}
		transfer := func(b *cfg.Block, h held, report bool) held {
			cur := held{}
			for k, m := range h {
				cur[k] = m
			}
			for _, n := range b.Nodes {
				walkCalls(n, func(call *ast.CallExpr, deferred, spawned bool) {
					if spawned {
						return
					}
					if o, ok := mutexOp(fi.info, call); ok {
						switch o.name {
						case "Lock", "RLock":
							if deferred {
								return
							}
							if m, isHeld := cur[o.k]; isHeld && !(m == "RLock" && o.name == "RLock") && report && !reported[call.Pos()] {
								reported[call.Pos()] = true
								run.Check("G-LOCK/reentrant", load.FuncName(fi.fn)+":"+o.k.field.Name(), prog.Pos(call.Pos()), false, fmt.Sprintf("%s calls %s on %s while it already holds it on every path here: sync's mutexes are not reentrant, the call never returns and moq hangs", load.FuncName(fi.fn), o.name, o.k.field.Name()))
							}
							cur[o.k] = o.name
						default:
							if !deferred {
								delete(cur, o.k)
							}
						}
						return
					}
					cf, onRecv := calleeOnRecv(fi, call)
					if cf == nil {
						return
					}
					var fields []types.Object
					for f := range acq[cf] {
						fields = append(fields, f)
					}
					sort.Slice(fields, func(i, j int) bool { return fields[i].Pos() < fields[j].Pos() })
					for _, f := range fields {
						a := acq[cf][f]
						var k key
						switch {
						case isGlobal(f):
							k = key{nil, f}
						case onRecv:
							k = key{fi.recv, f}
						default:
							continue
						}
						m, isHeld := cur[k]
						if !isHeld || (m == "RLock" && a.mode == "RLock") {
							continue
						}
						if report && !reported[call.Pos()] {
							reported[call.Pos()] = true
							chain := load.FuncName(cf)
							if a.via != "" {
								chain += " → " + a.via
							}
							run.Check("G-LOCK/reentrant", load.FuncName(fi.fn)+"→"+load.FuncName(cf)+":"+f.Name(), prog.Pos(call.Pos()), false, fmt.Sprintf("%s holds %s (%s) on every path to this call, and the callee locks it again (%s, %s): sync's mutexes are not reentrant — the call never returns and moq hangs instead of ending with output or a diagnostic", load.FuncName(fi.fn), f.Name(), m, chain, a.mode))
						}
					}
				})
			}
			return cur
		}
		for changed := true; changed; {
			changed = false
			for _, b := range g.Blocks {
				if !reached[b] {
					continue
				}
				out := transfer(b, in[b], false)
				for _, s := range b.Succs {
					if !reached[s] {
						reached[s] = true
						in[s] = out
						changed = true
						continue
					}
					m := meet(in[s], out)
					if !equal(m, in[s]) {
						in[s] = m
						changed = true
					}
				}
			}
		}
		for _, b := range g.Blocks {
			if reached[b] {
				transfer(b, in[b], true)
			}
		}
		nChecked++
		run.Check("G-LOCK/analysed", load.FuncName(fi.fn), prog.Pos(fi.fd.Pos()), true, "")
	}
	run.Count("generator_functions_with_locks_analysed", nChecked)
}
