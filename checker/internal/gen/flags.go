package gen

import (
	"fmt"
	"go/ast"
	"go/types"

	"verif/checker/internal/core"
	"verif/checker/internal/load"
)

// configField returns the moq.Config field that run's Config literal fills
// with exactly `flags.<f>`.
func (c *CLI) configField(f *types.Var) (*types.Var, ast.Expr) {
	var out *types.Var
	var val ast.Expr
	ast.Inspect(c.Run.Decl.Body, func(n ast.Node) bool {
		cl, ok := n.(*ast.CompositeLit)
		if !ok {
			return true
		}
		t := c.Info.TypeOf(cl)
		if t == nil || types.TypeString(t, nil) != load.PkgMoq+".Config" {
			return true
		}
		for _, el := range cl.Elts {
			kv, ok := el.(*ast.KeyValueExpr)
			if !ok {
				continue
			}
			if c.fieldOfParam(kv.Value) == f {
				if k, ok := kv.Key.(*ast.Ident); ok {
					out, _ = c.Info.ObjectOf(k).(*types.Var)
					val = kv.Value
				}
			}
		}
		return true
	})
	return out, val
}

// CheckFlagBinding: the command-line flag reaches moq.Config unchanged
// (main.go is not covered by any test). The way from Config to the template
// data is checked by interpreting Mock (G-DATA/flags).
func CheckFlagBinding(run *core.Run, prog *load.Program, flagName string) {
	c, err := ResolveCLI(prog)
	if err != nil {
		run.Undecided("G-FLAGS", "cli", "main.go", err.Error())
		return
	}
	pos := prog.Pos(c.Main.Decl.Pos())
	f := c.Flags[flagName]
	if !run.Check("G-FLAGS/bound", flagName, pos, f != nil, fmt.Sprintf("no command-line flag named %q is bound to a field of the flags struct", flagName)) {
		return
	}
	if b, ok := f.Type().Underlying().(*types.Basic); ok && b.Kind() == types.Bool {
		run.Check("G-FLAGS/default", flagName, pos, c.Default[flagName] == "false", fmt.Sprintf("flag -%s defaults to %s, want false (the feature is on request only)", flagName, c.Default[flagName]))
	}
	want := map[string]string{"stub": "StubImpl", "skip-ensure": "SkipEnsure", "with-resets": "WithResets", "fmt": "Formatter", "pkg": "PkgName"}[flagName]
	cf, _ := c.configField(f)
	got := "<none>"
	if cf != nil {
		got = cf.Name()
	}
	run.Check("G-FLAGS/config", flagName, prog.Pos(c.Run.Decl.Pos()), cf != nil && cf.Name() == want, fmt.Sprintf("flag -%s is copied into Config.%s (as the plain value `flags.%s`), want Config.%s — a negation, a conjunction with another flag or a missing line changes what the user asked for", flagName, got, f.Name(), want))
	// the flags field is written nowhere but by the flag package
	writes := 0
	for _, fd := range []*ast.FuncDecl{c.Main.Decl, c.Run.Decl} {
		ast.Inspect(fd.Body, func(n ast.Node) bool {
			if as, ok := n.(*ast.AssignStmt); ok {
				for _, l := range as.Lhs {
					if sel, ok := ast.Unparen(l).(*ast.SelectorExpr); ok && c.Info.ObjectOf(sel.Sel) == f {
						writes++
					}
				}
			}
			return true
		})
	}
	run.Check("G-FLAGS/untouched", flagName, pos, writes == 0, fmt.Sprintf("the field holding -%s is assigned %d times after flag parsing", flagName, writes))
}
