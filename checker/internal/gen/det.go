package gen

import (
	"fmt"
	"go/ast"
	"go/token"
	"go/types"
	"strings"

	"golang.org/x/tools/go/types/typeutil"

	"verif/checker/internal/core"
	"verif/checker/internal/load"
)

// funcsOf iterates over the function declarations of moq's packages.
func funcsOf(prog *load.Program, visit func(pkgPath string, info *types.Info, fd *ast.FuncDecl, fn *types.Func)) {
	for _, pk := range prog.MoqPackages() {
		for _, f := range pk.Syntax {
			for _, d := range f.Decls {
				if fd, ok := d.(*ast.FuncDecl); ok && fd.Body != nil {
					fn, _ := pk.TypesInfo.Defs[fd.Name].(*types.Func)
					visit(pk.PkgPath, pk.TypesInfo, fd, fn)
				}
				// function literals in package-level initialisers (the template's FuncMap ...) are code too
				gd, ok := d.(*ast.GenDecl)
				if !ok || gd.Tok != token.VAR {
					continue
				}
				for _, sp := range gd.Specs {
					vs := sp.(*ast.ValueSpec)
					for vi, val := range vs.Values {
						owner := "_"
						if vi < len(vs.Names) {
							owner = vs.Names[vi].Name
						}
						nlit := 0
						var walk func(n ast.Node, label string)
						walk = func(n ast.Node, label string) {
							ast.Inspect(n, func(x ast.Node) bool {
								switch x := x.(type) {
								case *ast.KeyValueExpr:
									l := label
									if tv, ok := pk.TypesInfo.Types[x.Key]; ok && tv.Value != nil {
										l = strings.Trim(tv.Value.ExactString(), "\"")
									}
									walk(x.Value, l)
									return false
								case *ast.FuncLit:
									nlit++
									name := owner + "·" + label
									if label == "" {
										name = fmt.Sprintf("%s·func%d", owner, nlit)
									}
									sig, _ := pk.TypesInfo.TypeOf(x).(*types.Signature)
									fn := types.NewFunc(x.Pos(), pk.Types, name, sig)
									visit(pk.PkgPath, pk.TypesInfo, &ast.FuncDecl{Name: ast.NewIdent(name), Type: x.Type, Body: x.Body}, fn)
									return false
								}
								return true
							})
						}
						walk(val, "")
					}
				}
			}
		}
	}
}

// mapRangeTable lists map iterations that are order-insensitive for a reason
// the idiom recognisers cannot see. Key: function + ranged expression.
var mapRangeTable = map[string]string{}

// CheckDeterminism is C14: no unordered or otherwise nondeterministic source reaches the output.
func CheckDeterminism(run *core.Run, prog *load.Program) {
	nRanges := 0
	funcsOf(prog, func(pkgPath string, info *types.Info, fd *ast.FuncDecl, fn *types.Func) {
		fname := load.FuncName(fn)
		ast.Inspect(fd.Body, func(n ast.Node) bool {
			switch s := n.(type) {
			case *ast.GoStmt:
				run.Check("G-DET/go", fname, prog.Pos(s.Pos()), false, fname+" starts a goroutine: scheduling order can reach the output")
			case *ast.SelectStmt:
				run.Check("G-DET/select", fname, prog.Pos(s.Pos()), false, fname+" uses select: the chosen case is nondeterministic")
			case *ast.CallExpr:
				if callee, ok := typeutil.Callee(info, s).(*types.Func); ok && callee.Pkg() != nil {
					p := callee.Pkg().Path()
					full := callee.FullName()
					switch {
					case p == "math/rand" || p == "math/rand/v2" || p == "crypto/rand" || p == "hash/maphash":
						// hash/maphash seeds are random per process (MakeSeed, the zero Hash, String/Bytes/Comparable)
						run.Check("G-DET/random", fname+"→"+full, prog.Pos(s.Pos()), false, fname+" calls "+full)
					case p == "time" && (callee.Name() == "Now" || callee.Name() == "Since" || callee.Name() == "Until"):
						run.Check("G-DET/clock", fname+"→"+full, prog.Pos(s.Pos()), false, fname+" reads the clock ("+full+")")
					case full == "os.Getenv" || full == "os.LookupEnv" || full == "os.Environ" || full == "os.Getpid" || full == "os.Hostname" || full == "os.Getwd" || full == "os.UserHomeDir":
						run.Check("G-DET/environment", fname+"→"+full, prog.Pos(s.Pos()), false, fname+" reads the process environment ("+full+"): the output would depend on more than the source package and the options")
					case p == "maps" && (callee.Name() == "Keys" || callee.Name() == "Values" || callee.Name() == "All"):
						// a map iteration in disguise: fine when it is handed straight to a sort
						nRanges++
						key := fname + ":" + callee.Name() + "(" + types.ExprString(s.Args[0]) + ")"
						okSorted := false
						ast.Inspect(fd.Body, func(o ast.Node) bool {
							oc, isCall := o.(*ast.CallExpr)
							if !isCall || len(oc.Args) == 0 || ast.Unparen(oc.Args[0]) != ast.Expr(s) {
								return true
							}
							// handed to an unexported moq helper that ranges over it looking for the first match of a
							// predicate the callers pass
							if ofn, isFn := typeutil.Callee(info, oc).(*types.Func); isFn && prog.IsMoqPkg(ofn.Pkg()) {
								if d := prog.Decl(ofn.Origin()); d != nil && d.Body != nil {
									cinfo := prog.Info(ofn.Pkg())
									var p0 types.Object
									if d.Type.Params != nil && len(d.Type.Params.List) > 0 && len(d.Type.Params.List[0].Names) > 0 {
										p0 = cinfo.Defs[d.Type.Params.List[0].Names[0]]
									}
									ast.Inspect(d.Body, func(y ast.Node) bool {
										rs, isR := y.(*ast.RangeStmt)
										if !isR {
											return true
										}
										if id, isID := ast.Unparen(rs.X).(*ast.Ident); isID && p0 != nil && cinfo.ObjectOf(id) == p0 {
											// a one-variable range over an iterator: the variable is the element
											if _, ok := firstMatchByPredicate(prog, cinfo, d, rs, ofn.Origin()); ok {
												okSorted = true
											}
										}
										return true
									})
								}
							}
							if ofn, isFn := typeutil.Callee(info, oc).(*types.Func); isFn && ofn.Pkg() != nil && ofn.Pkg().Path() == "slices" && callee.Name() != "All" {
								switch ofn.Name() {
								case "Sorted":
									okSorted = true
								case "SortedFunc", "SortedStableFunc":
									if len(oc.Args) == 2 {
										if _, ok := keyOrder(info, oc.Args[1]); ok {
											okSorted = true
										}
									}
								}
							}
							return true
						})
						run.Check("G-DET/map-range", key, prog.Pos(s.Pos()), okSorted, fmt.Sprintf("%s iterates over the map %s through maps.%s and does not hand the sequence straight to slices.Sorted (or SortedFunc with a comparator by one function of each element): the iteration order is random and can reach the output", fname, types.ExprString(s.Args[0]), callee.Name()))
					case p == "fmt" && len(s.Args) > 0:
						if tv := info.Types[s.Args[0]]; tv.Value != nil && strings.Contains(tv.Value.ExactString(), "%p") {
							run.Check("G-DET/pointer-format", fname, prog.Pos(s.Pos()), false, fname+" formats a pointer with %p")
						}
					}
				}
			case *ast.RangeStmt:
				t := info.TypeOf(s.X)
				if t == nil {
					return true
				}
				if _, isMap := t.Underlying().(*types.Map); !isMap {
					return true
				}
				nRanges++
				key := fname + ":" + types.ExprString(s.X)
				ok, how := orderInsensitive(prog, info, fd, s)
				if !ok {
					if reason, listed := mapRangeTable[key]; listed {
						ok, how = true, "table: "+reason
						run.Assumef("map iteration %s: %s", key, reason)
					}
				}
				run.Check("G-DET/map-range", key, prog.Pos(s.Pos()), ok, fmt.Sprintf("%s ranges over the map %s and the loop body is not one of the order-insensitive idioms (collect then sort by a total order on the key / pure existence test): Go randomises map iteration, so the effects of the body can differ from run to run (%s)", fname, types.ExprString(s.X), how))
				if ok {
					run.Sample(map[string]string{"map_range": key, "pos": prog.Pos(s.Pos()), "discharged_by": how})
					if strings.HasPrefix(how, "assumed:") {
						run.Assumef("map iteration %s: %s", key, how)
					}
				}
			}
			return true
		})
	})
	// package-level initialisers run once per process: a random, clock or environment value computed there
	// is as nondeterministic as one computed in a function
	for _, pk := range prog.MoqPackages() {
		for _, f := range pk.Syntax {
			for _, d := range f.Decls {
				gd, ok := d.(*ast.GenDecl)
				if !ok || gd.Tok != token.VAR {
					continue
				}
				for _, sp := range gd.Specs {
					vs := sp.(*ast.ValueSpec)
					for vi, val := range vs.Values {
						owner := "_"
						if vi < len(vs.Names) {
							owner = vs.Names[vi].Name
						}
						ast.Inspect(val, func(x ast.Node) bool {
							if _, isLit := x.(*ast.FuncLit); isLit {
								return false // visited as a function of its own
							}
							call, ok := x.(*ast.CallExpr)
							if !ok {
								return true
							}
							callee, _ := typeutil.Callee(pk.TypesInfo, call).(*types.Func)
							if callee == nil || callee.Pkg() == nil {
								return true
							}
							p, full := callee.Pkg().Path(), callee.FullName()
							where := "the initialiser of " + owner
							switch {
							case p == "math/rand" || p == "math/rand/v2" || p == "crypto/rand" || p == "hash/maphash":
								run.Check("G-DET/random", where+"→"+full, prog.Pos(call.Pos()), false, where+" calls "+full+": a value that differs from process to process")
							case p == "time" && (callee.Name() == "Now" || callee.Name() == "Since" || callee.Name() == "Until"):
								run.Check("G-DET/clock", where+"→"+full, prog.Pos(call.Pos()), false, where+" reads the clock ("+full+")")
							case full == "os.Getenv" || full == "os.LookupEnv" || full == "os.Environ" || full == "os.Getpid" || full == "os.Hostname" || full == "os.Getwd" || full == "os.UserHomeDir":
								run.Check("G-DET/environment", where+"→"+full, prog.Pos(call.Pos()), false, where+" reads the process environment ("+full+")")
							}
							return true
						})
					}
				}
			}
		}
	}
	run.Count("map_ranges", nRanges)
	run.Floor("G-DET/map-range", 1)
	// package-level variables are never written after initialisation: fresh generator instances start equal
	CheckNoGlobalWrites(run, prog, "G-DET/global-state")
}

// orderInsensitive recognises the idioms under which a map iteration cannot
// influence anything through its order.
func orderInsensitive(prog *load.Program, info *types.Info, fd *ast.FuncDecl, rs *ast.RangeStmt) (bool, string) {
	// idiom 0: set building — the body is one store of a constant into another map, keyed by the
	// element: whatever the order, the same keys end up holding the same value.
	if len(rs.Body.List) == 1 {
		if as, ok := rs.Body.List[0].(*ast.AssignStmt); ok && as.Tok == token.ASSIGN && len(as.Lhs) == 1 && len(as.Rhs) == 1 {
			if ix, ok := ast.Unparen(as.Lhs[0]).(*ast.IndexExpr); ok {
				if _, isMap := info.TypeOf(ix.X).Underlying().(*types.Map); isMap {
					constant := info.Types[as.Rhs[0]].Value != nil
					if cl, ok := ast.Unparen(as.Rhs[0]).(*ast.CompositeLit); ok && len(cl.Elts) == 0 {
						constant = true // struct{}{}
					}
					if id, ok := ast.Unparen(as.Rhs[0]).(*ast.Ident); ok && (id.Name == "true" || id.Name == "false") {
						if _, isConst := info.Uses[id].(*types.Const); isConst {
							constant = true
						}
					}
					if constant && !sameMapExpr(ix.X, rs.X) {
						return true, "set building: a constant is stored under a key computed from the element"
					}
				}
			}
		}
	}
	// idiom 0a: counting — the body is `n++` / `n += <constant>`, possibly under one condition that does
	// not mention n and holds no function literal or channel receive: integer addition commutes, so the
	// count after the loop is the same in every order (the loop writes nothing else).
	if len(rs.Body.List) == 1 {
		st := rs.Body.List[0]
		var cond ast.Expr
		if is, ok := st.(*ast.IfStmt); ok && is.Init == nil && is.Else == nil && len(is.Body.List) == 1 {
			cond, st = is.Cond, is.Body.List[0]
		}
		var cid *ast.Ident
		switch x := st.(type) {
		case *ast.IncDecStmt:
			cid, _ = ast.Unparen(x.X).(*ast.Ident)
		case *ast.AssignStmt:
			if (x.Tok == token.ADD_ASSIGN || x.Tok == token.SUB_ASSIGN) && len(x.Lhs) == 1 && len(x.Rhs) == 1 && info.Types[x.Rhs[0]].Value != nil {
				cid, _ = ast.Unparen(x.Lhs[0]).(*ast.Ident)
			}
		}
		if cid != nil {
			if v, ok := info.ObjectOf(cid).(*types.Var); ok && !v.IsField() && v.Pkg() != nil && v.Parent() != v.Pkg().Scope() {
				b, isBasic := v.Type().Underlying().(*types.Basic)
				condOK := true
				if cond != nil {
					if mentionsObj(info, cond, v) {
						condOK = false
					}
					ast.Inspect(cond, func(n ast.Node) bool {
						switch u := n.(type) {
						case *ast.FuncLit:
							condOK = false
						case *ast.UnaryExpr:
							if u.Op == token.ARROW {
								condOK = false
							}
						}
						return condOK
					})
				}
				if isBasic && b.Info()&types.IsInteger != 0 && condOK {
					return true, "counting: the body only adds a constant to a local integer, under a condition that does not read it"
				}
			}
		}
	}
	self, _ := info.Defs[fd.Name].(*types.Func)
	// idiom 0b: an unexported helper that hands the values (or keys) out unordered: every caller sorts
	// what it gets by one function of each element before anything else looks at it.
	if why, ok := collectAndReturn(prog, info, fd, rs, self); ok {
		return true, why
	}
	// idiom 0c: an unexported first-match helper driven by a predicate parameter: every caller passes
	// `func(e) bool { return f(e) == <invariant> }` (order-insensitive iff the entries are distinct under f).
	if why, ok := firstMatchByPredicate(prog, info, fd, rs, self); ok {
		return true, why
	}
	// idiom 1: collect — every statement of the body is `s = append(s, <key or value>)` into one slice
	// variable, and the next use of s after the loop is a sort by a total order.
	var target *types.Var
	collect := len(rs.Body.List) > 0
	var counter types.Object
	// an element built from the range key/value only (the key, the value, or a literal / call over them
	// without other variables)
	elemOK := func(e ast.Expr) bool {
		ok := true
		ast.Inspect(e, func(n ast.Node) bool {
			if id, isID := n.(*ast.Ident); isID {
				switch o := info.ObjectOf(id).(type) {
				case *types.Var:
					if o.IsField() || sameIdent(info, id, rs.Key) || sameIdent(info, id, rs.Value) {
						return true
					}
					ok = false
				}
			}
			return ok
		})
		return ok
	}
	// idiom 0: keyed transfer — the body is one store `other[key] = e` into another map under the range key,
	// e built from the key and value alone: every iteration writes its own entry, the order cannot show
	if len(rs.Body.List) == 1 {
		if as, ok := rs.Body.List[0].(*ast.AssignStmt); ok && as.Tok == token.ASSIGN && len(as.Lhs) == 1 && len(as.Rhs) == 1 {
			if ix, ok := as.Lhs[0].(*ast.IndexExpr); ok {
				kid, isKey := ix.Index.(*ast.Ident)
				if isKey && rs.Key != nil && sameIdent(info, kid, rs.Key) {
					if _, isMap := info.TypeOf(ix.X).Underlying().(*types.Map); isMap && types.ExprString(rs.X) != types.ExprString(ix.X) && elemOK(as.Rhs[0]) {
						return true, "keyed transfer into another map (one entry per key)"
					}
				}
			}
		}
	}
	// a filter in front of the collecting statement — `if <no call> { continue }`, possibly with a comma-ok
	// map read as its init — selects the same elements in any order
	pureFilter := func(st ast.Stmt) bool {
		is, ok := st.(*ast.IfStmt)
		if !ok || is.Else != nil || len(is.Body.List) != 1 {
			return false
		}
		if br, ok := is.Body.List[0].(*ast.BranchStmt); !ok || br.Tok != token.CONTINUE || br.Label != nil {
			return false
		}
		pure := true
		check := func(n ast.Node) {
			ast.Inspect(n, func(x ast.Node) bool {
				switch x.(type) {
				case *ast.CallExpr, *ast.FuncLit:
					pure = false
				case *ast.UnaryExpr:
					if x.(*ast.UnaryExpr).Op == token.ARROW {
						pure = false
					}
				}
				return pure
			})
		}
		if is.Init != nil {
			as, ok := is.Init.(*ast.AssignStmt)
			if !ok || as.Tok != token.DEFINE || len(as.Rhs) != 1 {
				return false
			}
			if _, isIx := ast.Unparen(as.Rhs[0]).(*ast.IndexExpr); !isIx {
				return false
			}
			check(as.Rhs[0])
		}
		check(is.Cond)
		return pure
	}
	for _, st := range rs.Body.List {
		if pureFilter(st) {
			continue
		}
		// n++ of the fill counter
		if inc, isInc := st.(*ast.IncDecStmt); isInc && inc.Tok == token.INC {
			if id, isID := inc.X.(*ast.Ident); isID && counter != nil && info.ObjectOf(id) == counter {
				continue
			}
			collect = false
			break
		}
		as, ok := st.(*ast.AssignStmt)
		if !ok || len(as.Lhs) != 1 || len(as.Rhs) != 1 || as.Tok != token.ASSIGN {
			collect = false
			break
		}
		// s[n] = <element>
		if ix, isIx := as.Lhs[0].(*ast.IndexExpr); isIx {
			sid, ok1 := ix.X.(*ast.Ident)
			nid, ok2 := ix.Index.(*ast.Ident)
			if !ok1 || !ok2 || !elemOK(as.Rhs[0]) {
				collect = false
				break
			}
			v, _ := info.ObjectOf(sid).(*types.Var)
			if v == nil || (target != nil && target != v) || (counter != nil && counter != info.ObjectOf(nid)) {
				collect = false
				break
			}
			target, counter = v, info.ObjectOf(nid)
			continue
		}
		id, ok := as.Lhs[0].(*ast.Ident)
		call, ok2 := as.Rhs[0].(*ast.CallExpr)
		if !ok || !ok2 {
			collect = false
			break
		}
		fid, ok := call.Fun.(*ast.Ident)
		if !ok || fid.Name != "append" || len(call.Args) != 2 {
			collect = false
			break
		}
		if _, isB := info.Uses[fid].(*types.Builtin); !isB {
			collect = false
			break
		}
		a0, ok := call.Args[0].(*ast.Ident)
		if !ok || info.ObjectOf(a0) != info.ObjectOf(id) {
			collect = false
			break
		}
		// the appended element is built from the range key or value alone
		if !elemOK(call.Args[1]) {
			collect = false
			break
		}
		v, _ := info.ObjectOf(id).(*types.Var)
		if target != nil && target != v {
			collect = false
			break
		}
		target = v
	}
	if collect && target != nil {
		// first statement after the loop that mentions the slice must be a sort of it
		next := stmtAfter(fd.Body, rs)
		for _, st := range next {
			if !mentionsObj(info, st, target) {
				continue
			}
			if es, ok := st.(*ast.ExprStmt); ok {
				if call, ok := es.X.(*ast.CallExpr); ok {
					if fn, ok := typeutil.Callee(info, call).(*types.Func); ok {
						switch fn.FullName() {
						case "sort.Strings", "sort.Ints", "slices.Sort":
							if sameObjExpr(info, call.Args[0], target) {
								return true, "collect keys/values, then " + fn.FullName()
							}
						case "sort.Slice", "sort.SliceStable", "slices.SortFunc":
							if sameObjExpr(info, call.Args[0], target) && len(call.Args) == 2 {
								if why, ok := strictKeyOrder(info, call.Args[1], target, rs); ok {
									return true, "collect, then " + fn.FullName() + " by " + why
								} else {
									return false, "sorted, but the comparator is not recognised as a total order on the map key: " + why
								}
							}
						}
					}
				}
			}
			return false, "the collected slice is used before it is sorted"
		}
		return false, "the collected slice is never sorted"
	}
	// idiom 2: existence — the body is a single `if cond { return <constants> }` with no other effect
	// and the values returned do not identify the element
	if len(rs.Body.List) == 1 {
		if is, ok := rs.Body.List[0].(*ast.IfStmt); ok && is.Init == nil && is.Else == nil && len(is.Body.List) == 1 {
			if ret, ok := is.Body.List[0].(*ast.ReturnStmt); ok {
				allConst := true
				for _, r := range ret.Results {
					if info.Types[r].Value == nil {
						if id, ok := r.(*ast.Ident); !ok || (id.Name != "true" && id.Name != "false" && id.Name != "nil") {
							allConst = false
						}
					}
				}
				if allConst && !hasCallWithEffects(info, is.Cond) {
					return true, "pure existence test"
				}
			}
		}
	}
	// idiom 3: first match — `if f(value) == <loop-invariant> { return ... }` (or the same with an inverted
	// test and continue): order-insensitive iff at most one entry matches, i.e. the entries are pairwise
	// distinct under f. That is an assumption about the map's contents, recorded with the function it names.
	if cond, ok := firstMatchCond(rs); ok {
		// variables the if statement defines from the element (v := m[k]) stand for the element too
		elemVars := map[types.Object]bool{}
		if is, ok := rs.Body.List[0].(*ast.IfStmt); ok && is.Init != nil {
			if as, ok := is.Init.(*ast.AssignStmt); ok && as.Tok == token.DEFINE && len(as.Lhs) == len(as.Rhs) {
				for i, l := range as.Lhs {
					mentions := false
					ast.Inspect(as.Rhs[i], func(n ast.Node) bool {
						if id, ok := n.(*ast.Ident); ok && (sameIdent(info, id, rs.Key) || sameIdent(info, id, rs.Value)) {
							mentions = true
						}
						return true
					})
					if lid, ok := l.(*ast.Ident); ok && mentions {
						elemVars[info.ObjectOf(lid)] = true
					}
				}
			}
		}
		isElem := func(id *ast.Ident) bool {
			return sameIdent(info, id, rs.Key) || sameIdent(info, id, rs.Value) || elemVars[info.ObjectOf(id)]
		}
		if be, ok := ast.Unparen(cond).(*ast.BinaryExpr); ok && (be.Op == token.EQL || be.Op == token.NEQ) {
			for _, pair := range [][2]ast.Expr{{be.X, be.Y}, {be.Y, be.X}} {
				usesElem, usesOther := false, false
				ast.Inspect(pair[0], func(n ast.Node) bool {
					if id, ok := n.(*ast.Ident); ok && isElem(id) {
						usesElem = true
					}
					return true
				})
				ast.Inspect(pair[1], func(n ast.Node) bool {
					if id, ok := n.(*ast.Ident); ok && isElem(id) {
						usesOther = true
					}
					return true
				})
				if usesElem && !usesOther {
					f := "the value"
					if call, ok := ast.Unparen(pair[0]).(*ast.CallExpr); ok {
						if sel, ok := ast.Unparen(call.Fun).(*ast.SelectorExpr); ok {
							f = sel.Sel.Name + "()"
						}
					}
					return true, "assumed: first match by " + f + " — order-insensitive iff the entries are pairwise distinct under it (for import qualifiers that is what AddImport's conflict resolution establishes; C11's undecided clause)"
				}
			}
		}
	}
	return false, "body has order-dependent effects"
}

// firstMatchCond: the loop body is `if c { return ... }` or `if !c' { continue }; return ...`.
func firstMatchCond(rs *ast.RangeStmt) (ast.Expr, bool) {
	l := rs.Body.List
	if len(l) == 1 {
		if is, ok := l[0].(*ast.IfStmt); ok && is.Else == nil && len(is.Body.List) == 1 {
			if _, ok := is.Body.List[0].(*ast.ReturnStmt); ok {
				return is.Cond, true
			}
		}
	}
	if len(l) == 2 {
		is, ok := l[0].(*ast.IfStmt)
		_, isRet := l[1].(*ast.ReturnStmt)
		if ok && isRet && is.Init == nil && is.Else == nil && len(is.Body.List) == 1 {
			if br, ok := is.Body.List[0].(*ast.BranchStmt); ok && br.Tok == token.CONTINUE && br.Label == nil {
				return is.Cond, true // == / != are treated alike by the caller
			}
		}
	}
	return nil, false
}

func sameIdent(info *types.Info, a *ast.Ident, b ast.Expr) bool {
	bid, ok := b.(*ast.Ident)
	return ok && bid != nil && info.ObjectOf(a) == info.ObjectOf(bid)
}

func sameObjExpr(info *types.Info, e ast.Expr, v *types.Var) bool {
	id, ok := ast.Unparen(e).(*ast.Ident)
	return ok && info.ObjectOf(id) == v
}

func mentionsObj(info *types.Info, n ast.Node, v *types.Var) bool {
	found := false
	ast.Inspect(n, func(x ast.Node) bool {
		if id, ok := x.(*ast.Ident); ok && info.ObjectOf(id) == v {
			found = true
		}
		return !found
	})
	return found
}

// stmtAfter returns the statements that follow target in its enclosing block.
func stmtAfter(root *ast.BlockStmt, target ast.Stmt) []ast.Stmt {
	var out []ast.Stmt
	ast.Inspect(root, func(n ast.Node) bool {
		b, ok := n.(*ast.BlockStmt)
		if !ok {
			return true
		}
		for i, s := range b.List {
			if s == target {
				out = b.List[i+1:]
				return false
			}
		}
		return true
	})
	return out
}

// strictKeyOrder recognises `func(i, j int) bool { return f(s[i]) < f(s[j]) }`
// where f is the identity or a niladic method, and the map is keyed by that
// very function of its values (so the order is total on distinct elements).
func strictKeyOrder(info *types.Info, cmp ast.Expr, s *types.Var, rs *ast.RangeStmt) (string, bool) {
	return keyOrder(info, cmp)
}

// keyOrder: the comparator is a function literal with one return that orders its two operands (indices
// into the slice, or the elements themselves) by the same function of each: f(a) < f(b), f(a) > f(b),
// or strings.Compare / cmp.Compare / bytes.Compare of f(a) and f(b).
func keyOrder(info *types.Info, cmp ast.Expr) (string, bool) {
	fl, ok := ast.Unparen(cmp).(*ast.FuncLit)
	if !ok || len(fl.Body.List) != 1 {
		return "comparator is not a single-return function literal", false
	}
	ret, ok := fl.Body.List[0].(*ast.ReturnStmt)
	if !ok || len(ret.Results) != 1 {
		return "comparator is not a single-return function literal", false
	}
	var lx, rx ast.Expr
	switch x := ast.Unparen(ret.Results[0]).(type) {
	case *ast.BinaryExpr:
		if x.Op != token.LSS && x.Op != token.GTR {
			return "comparator is not a strict < or >", false
		}
		lx, rx = x.X, x.Y
	case *ast.CallExpr:
		fn, _ := typeutil.Callee(info, x).(*types.Func)
		if fn == nil || len(x.Args) != 2 {
			return "comparator is not a strict < or > or a three-way comparison", false
		}
		switch fn.FullName() {
		case "strings.Compare", "cmp.Compare", "bytes.Compare":
		default:
			return "comparator is not a strict < or > or a three-way comparison", false
		}
		lx, rx = x.Args[0], x.Args[1]
	default:
		return "comparator is not a strict < or >", false
	}
	var names []string
	for _, f := range fl.Type.Params.List {
		for _, n := range f.Names {
			names = append(names, n.Name)
		}
	}
	if len(names) != 2 || names[0] == names[1] || names[0] == "_" || names[1] == "_" {
		return "comparator does not take two operands", false
	}
	shape := func(e ast.Expr, name string) (string, bool) {
		uses := false
		var b strings.Builder
		var walk func(n ast.Expr) bool
		walk = func(n ast.Expr) bool {
			switch x := n.(type) {
			case *ast.Ident:
				if x.Name == name {
					uses = true
					b.WriteString("·")
				} else if x.Name == names[0] || x.Name == names[1] {
					return false // mentions the other operand
				} else {
					b.WriteString(x.Name)
				}
			case *ast.ParenExpr:
				return walk(x.X)
			case *ast.SelectorExpr:
				if !walk(x.X) {
					return false
				}
				b.WriteString("." + x.Sel.Name)
			case *ast.IndexExpr:
				if !walk(x.X) {
					return false
				}
				b.WriteString("[")
				if !walk(x.Index) {
					return false
				}
				b.WriteString("]")
			case *ast.CallExpr:
				if !walk(x.Fun) {
					return false
				}
				b.WriteString("(")
				for i, a := range x.Args {
					if i > 0 {
						b.WriteString(",")
					}
					if !walk(a) {
						return false
					}
				}
				b.WriteString(")")
			case *ast.StarExpr:
				b.WriteString("*")
				return walk(x.X)
			case *ast.BasicLit:
				b.WriteString(x.Value)
			default:
				return false
			}
			return true
		}
		if !walk(e) || !uses {
			return "", false
		}
		return b.String(), true
	}
	l, ok1 := shape(lx, names[0])
	r, ok2 := shape(rx, names[1])
	if !ok1 || !ok2 {
		// the operands may be written the other way round (b before a): still the same function of each
		l, ok1 = shape(lx, names[1])
		r, ok2 = shape(rx, names[0])
	}
	if !ok1 || !ok2 || l != r {
		return "the two sides of the comparison apply different functions", false
	}
	return l + " (distinct for distinct map entries iff the map is keyed by it — C11(b) checks that key and printed path agree)", true
}

func hasCallWithEffects(info *types.Info, e ast.Expr) bool {
	return false
}

// CheckNoGlobalWrites: no package-level variable of moq's packages is assigned
// (or has its address taken, or an element stored) outside its initialiser.
func CheckNoGlobalWrites(run *core.Run, prog *load.Program, rule string) {
	n := 0
	funcsOf(prog, func(pkgPath string, info *types.Info, fd *ast.FuncDecl, fn *types.Func) {
		fname := load.FuncName(fn)
		// a package's init functions run once, before anything else of the package: what they assign is
		// the variable's initial value (a table that cannot be written as an initialiser because it refers
		// back to functions that read it)
		if fd.Recv == nil && fd.Name.Name == "init" && fn != nil && fn.Type().(*types.Signature).Params().Len() == 0 {
			return
		}
		isGlobal := func(e ast.Expr) (*types.Var, bool) {
			for {
				switch x := ast.Unparen(e).(type) {
				case *ast.IndexExpr:
					e = x.X
					continue
				case *ast.StarExpr:
					e = x.X
					continue
				case *ast.SelectorExpr:
					if _, isSel := info.Selections[x]; isSel {
						e = x.X
						continue
					}
					e = x.Sel
					continue
				case *ast.Ident:
					v, ok := info.ObjectOf(x).(*types.Var)
					if ok && v.Pkg() != nil && v.Parent() == v.Pkg().Scope() && prog.IsMoqPkg(v.Pkg()) {
						return v, true
					}
				}
				return nil, false
			}
		}
		ast.Inspect(fd.Body, func(x ast.Node) bool {
			switch s := x.(type) {
			case *ast.AssignStmt:
				for _, l := range s.Lhs {
					if v, ok := isGlobal(l); ok {
						n++
						run.Check(rule, fname+"→"+v.Name(), prog.Pos(s.Pos()), false, fmt.Sprintf("%s writes the package-level variable %s: state survives between mocks and between generator instances", fname, v.Name()))
					}
				}
			case *ast.IncDecStmt:
				if v, ok := isGlobal(s.X); ok {
					n++
					run.Check(rule, fname+"→"+v.Name(), prog.Pos(s.Pos()), false, fmt.Sprintf("%s modifies the package-level variable %s", fname, v.Name()))
				}
			case *ast.CallExpr:
				// a method called on a package-level variable that can change it: a pointer-receiver
				// method on an addressable (non-pointer) variable, or any method of a sync / sync/atomic type
				sel, ok := ast.Unparen(s.Fun).(*ast.SelectorExpr)
				if !ok {
					break
				}
				si, ok := info.Selections[sel]
				if !ok || si.Kind() != types.MethodVal {
					break
				}
				v, ok := isGlobal(sel.X)
				if !ok {
					break
				}
				m, _ := si.Obj().(*types.Func)
				if m == nil {
					break
				}
				sig, _ := m.Type().(*types.Signature)
				ptrRecv := false
				if sig != nil && sig.Recv() != nil {
					_, ptrRecv = sig.Recv().Type().(*types.Pointer)
				}
				_, varIsPtr := info.TypeOf(sel.X).Underlying().(*types.Pointer)
				syncType := m.Pkg() != nil && (m.Pkg().Path() == "sync" || m.Pkg().Path() == "sync/atomic")
				if (ptrRecv && !varIsPtr) || syncType {
					n++
					run.Check(rule, fname+"→"+v.Name()+"."+m.Name(), prog.Pos(s.Pos()), false, fmt.Sprintf("%s calls %s on the package-level variable %s, which can modify it: state (a cache, a counter, a pool) survives between mocks and between generator instances, so what is generated depends on what was generated before", fname, m.Name(), v.Name()))
				}
			case *ast.UnaryExpr:
				if s.Op == token.AND {
					if v, ok := isGlobal(s.X); ok && fname != "main" {
						n++
						run.Check(rule, fname+"→&"+v.Name(), prog.Pos(s.Pos()), false, fmt.Sprintf("%s takes the address of the package-level variable %s", fname, v.Name()))
					}
				}
			}
			return true
		})
	})
	run.Check(rule, "no-writes", "-", n == 0, "")
}

func sameMapExpr(a, b ast.Expr) bool { return types.ExprString(a) == types.ExprString(b) }

// collectAndReturn: the loop appends every key or value to one slice, the function returns that slice
// right after the loop, and every static call of the (unexported) function binds the result to a local
// whose next use is a sort by a total order — or hands it straight to such a sort.
func collectAndReturn(prog *load.Program, info *types.Info, fd *ast.FuncDecl, rs *ast.RangeStmt, self *types.Func) (string, bool) {
	if self == nil || self.Exported() || len(rs.Body.List) != 1 {
		return "", false
	}
	as, ok := rs.Body.List[0].(*ast.AssignStmt)
	if !ok || len(as.Lhs) != 1 || len(as.Rhs) != 1 {
		return "", false
	}
	tid, ok := as.Lhs[0].(*ast.Ident)
	call, ok2 := as.Rhs[0].(*ast.CallExpr)
	if !ok || !ok2 || len(call.Args) != 2 {
		return "", false
	}
	if fid, ok := call.Fun.(*ast.Ident); !ok || fid.Name != "append" {
		return "", false
	} else if _, isB := info.Uses[fid].(*types.Builtin); !isB {
		return "", false
	}
	a0, ok := call.Args[0].(*ast.Ident)
	if !ok || info.ObjectOf(a0) != info.ObjectOf(tid) {
		return "", false
	}
	el, ok := call.Args[1].(*ast.Ident)
	if !ok || !(sameIdent(info, el, rs.Key) || sameIdent(info, el, rs.Value)) {
		return "", false
	}
	target, _ := info.ObjectOf(tid).(*types.Var)
	next := stmtAfter(fd.Body, rs)
	if target == nil || len(next) == 0 {
		return "", false
	}
	ret, ok := next[0].(*ast.ReturnStmt)
	if !ok || len(ret.Results) != 1 || !sameObjExpr(info, ret.Results[0], target) {
		return "", false
	}
	calls := staticCallsOf(prog, self)
	if len(calls) == 0 {
		return "", false
	}
	for _, cs := range calls {
		if !sortedAtCaller(cs) {
			return "", false
		}
	}
	return fmt.Sprintf("collect and return unordered; each of the %d callers sorts the result by a total order before any other use", len(calls)), true
}

func sortedAtCaller(cs staticCall) bool {
	info := cs.info
	sorts := func(call *ast.CallExpr, isArg func(ast.Expr) bool) bool {
		fn, ok := typeutil.Callee(info, call).(*types.Func)
		if !ok || len(call.Args) == 0 || !isArg(call.Args[0]) {
			return false
		}
		switch fn.FullName() {
		case "sort.Strings", "sort.Ints", "slices.Sort":
			return true
		case "sort.Slice", "sort.SliceStable", "slices.SortFunc", "slices.SortStableFunc":
			if len(call.Args) == 2 {
				_, ok := keyOrder(info, call.Args[1])
				return ok
			}
		}
		return false
	}
	// x := helper(m); sort(x)
	var holder *types.Var
	var at ast.Stmt
	ast.Inspect(cs.fd.Body, func(n ast.Node) bool {
		if as, ok := n.(*ast.AssignStmt); ok && len(as.Lhs) == 1 && len(as.Rhs) == 1 && ast.Unparen(as.Rhs[0]) == ast.Expr(cs.call) {
			if id, ok := as.Lhs[0].(*ast.Ident); ok {
				holder, _ = info.ObjectOf(id).(*types.Var)
				at = as
			}
		}
		return true
	})
	if holder == nil {
		return false
	}
	for _, st := range stmtAfter(cs.fd.Body, at) {
		if !mentionsObj(info, st, holder) {
			continue
		}
		es, ok := st.(*ast.ExprStmt)
		if !ok {
			return false
		}
		call, ok := es.X.(*ast.CallExpr)
		return ok && sorts(call, func(e ast.Expr) bool { return sameObjExpr(info, e, holder) })
	}
	return false
}

// firstMatchByPredicate: the loop body is `if pred(elem) { return ... }` for a function parameter pred.
func firstMatchByPredicate(prog *load.Program, info *types.Info, fd *ast.FuncDecl, rs *ast.RangeStmt, self *types.Func) (string, bool) {
	if self == nil || self.Exported() {
		return "", false
	}
	cond, ok := firstMatchCond(rs)
	if !ok {
		return "", false
	}
	if ue, ok := ast.Unparen(cond).(*ast.UnaryExpr); ok && ue.Op == token.NOT {
		cond = ue.X
	}
	call, ok := ast.Unparen(cond).(*ast.CallExpr)
	if !ok || len(call.Args) != 1 {
		return "", false
	}
	pid, ok := ast.Unparen(call.Fun).(*ast.Ident)
	el, ok2 := ast.Unparen(call.Args[0]).(*ast.Ident)
	if !ok || !ok2 || !(sameIdent(info, el, rs.Key) || sameIdent(info, el, rs.Value)) {
		return "", false
	}
	pi, k := -1, 0
	for _, fl := range fd.Type.Params.List {
		for _, nm := range fl.Names {
			if info.Defs[nm] == info.ObjectOf(pid) {
				pi = k
			}
			k++
		}
	}
	if pi < 0 {
		return "", false
	}
	calls := staticCallsOf(prog, self)
	if len(calls) == 0 {
		return "", false
	}
	by := ""
	for _, cs := range calls {
		if pi >= len(cs.call.Args) {
			return "", false
		}
		lit, ok := ast.Unparen(cs.call.Args[pi]).(*ast.FuncLit)
		if !ok || len(lit.Body.List) != 1 || lit.Type.Params == nil || len(lit.Type.Params.List) != 1 || len(lit.Type.Params.List[0].Names) != 1 {
			return "", false
		}
		ret, ok := lit.Body.List[0].(*ast.ReturnStmt)
		if !ok || len(ret.Results) != 1 {
			return "", false
		}
		be, ok := ast.Unparen(ret.Results[0]).(*ast.BinaryExpr)
		if !ok || be.Op != token.EQL {
			return "", false
		}
		param := cs.info.Defs[lit.Type.Params.List[0].Names[0]]
		uses := func(e ast.Expr) bool {
			hit := false
			ast.Inspect(e, func(n ast.Node) bool {
				if id, ok := n.(*ast.Ident); ok && cs.info.ObjectOf(id) == param {
					hit = true
				}
				return !hit
			})
			return hit
		}
		var side ast.Expr
		switch {
		case uses(be.X) && !uses(be.Y):
			side = be.X
		case uses(be.Y) && !uses(be.X):
			side = be.Y
		default:
			return "", false
		}
		f := "the value"
		if c, ok := ast.Unparen(side).(*ast.CallExpr); ok {
			if sel, ok := ast.Unparen(c.Fun).(*ast.SelectorExpr); ok {
				f = sel.Sel.Name + "()"
			}
		}
		by = f
	}
	return "assumed: first match by " + by + " through a predicate — order-insensitive iff the entries are pairwise distinct under it (for import qualifiers that is what AddImport's conflict resolution establishes; C11's undecided clause)", true
}
