package gen

import (
	"fmt"
	"go/ast"
	"go/constant"
	"go/token"
	"go/types"
	"strings"

	"golang.org/x/tools/go/types/typeutil"

	"verif/checker/internal/cfgx"
	"verif/checker/internal/load"
)

// isMembership: the moq function answers "is there an element whose key equals the pi-th parameter?"
// over a collection — a loop or slices search comparing with ==, or a boolean combination / forwarding of
// such functions. For each argument there are then only finitely many values for which it says yes.
func isMembership(prog *load.Program, fn *types.Func, pi int, depth int) bool {
	if depth > 3 || fn == nil || !prog.IsMoqPkg(fn.Pkg()) {
		return false
	}
	sig := fn.Type().(*types.Signature)
	if pi >= sig.Params().Len() {
		return false
	}
	// a method of an interface declared in moq: every implementation in moq's packages
	if sig.Recv() != nil {
		if _, isIface := sig.Recv().Type().Underlying().(*types.Interface); isIface {
			impls := implementations(prog, fn)
			if len(impls) == 0 {
				return false
			}
			for _, im := range impls {
				if !isMembership(prog, im, pi, depth+1) {
					return false
				}
			}
			return true
		}
	}
	d := prog.Decl(fn.Origin())
	if d == nil || d.Body == nil {
		return false
	}
	return membershipBody(prog, prog.Info(fn.Pkg()), d.Type, d.Body, pi, depth)
}

// implementations: the methods of moq's named types that a call of the interface method can reach.
func implementations(prog *load.Program, im *types.Func) []*types.Func {
	sig, _ := im.Type().(*types.Signature)
	if sig == nil || sig.Recv() == nil {
		return nil
	}
	iface, ok := sig.Recv().Type().Underlying().(*types.Interface)
	if !ok {
		return nil
	}
	var out []*types.Func
	for _, pk := range prog.MoqPackages() {
		sc := pk.Types.Scope()
		for _, name := range sc.Names() {
			tn, ok := sc.Lookup(name).(*types.TypeName)
			if !ok || tn.IsAlias() {
				continue
			}
			if _, isIface := tn.Type().Underlying().(*types.Interface); isIface {
				continue
			}
			for _, t := range []types.Type{tn.Type(), types.NewPointer(tn.Type())} {
				if !types.Implements(t, iface) {
					continue
				}
				obj, _, _ := types.LookupFieldOrMethod(t, true, im.Pkg(), im.Name())
				if f, ok := obj.(*types.Func); ok {
					dup := false
					for _, have := range out {
						if have == f {
							dup = true
						}
					}
					if !dup {
						out = append(out, f)
					}
				}
				break
			}
		}
	}
	return out
}

// membershipBody: the function body (of a declared function or of a function literal bound to a local)
// answers whether its pi-th parameter is among finitely many stored strings.
func membershipBody(prog *load.Program, info *types.Info, ftype *ast.FuncType, fbody *ast.BlockStmt, pi int, depth int) bool {
	return membershipBodyX(prog, info, ftype, fbody, pi, depth, false)
}

// membershipBodyX: with viaItoa the parameter is a number and the key searched for is a string built from
// strconv.Itoa(parameter) by concatenation: still only finitely many numbers are answered with yes.
func membershipBodyX(prog *load.Program, info *types.Info, ftype *ast.FuncType, fbody *ast.BlockStmt, pi int, depth int, viaItoa bool) bool {
	if depth > 3 || info == nil || ftype.Params == nil {
		return false
	}
	d := &ast.FuncDecl{Name: ast.NewIdent("membership"), Type: ftype, Body: fbody}
	var param types.Object
	k := 0
	for _, f := range d.Type.Params.List {
		for _, nm := range f.Names {
			if k == pi {
				param = info.Defs[nm]
			}
			k++
		}
	}
	if param == nil {
		return false
	}
	isParam := func(e ast.Expr) bool {
		id, ok := ast.Unparen(e).(*ast.Ident)
		return ok && info.ObjectOf(id) == param
	}
	if viaItoa {
		// locals defined once from such a string count as the key too
		keyLocals := map[types.Object]bool{}
		var isKey func(e ast.Expr) bool
		isKey = func(e ast.Expr) bool {
			e = ast.Unparen(e)
			switch y := e.(type) {
			case *ast.Ident:
				return keyLocals[info.ObjectOf(y)]
			case *ast.BinaryExpr:
				return y.Op == token.ADD && (isKey(y.X) || isKey(y.Y))
			case *ast.CallExpr:
				if cf, _ := typeutil.Callee(info, y).(*types.Func); cf != nil && cf.FullName() == "strconv.Itoa" && len(y.Args) == 1 {
					id, ok := ast.Unparen(y.Args[0]).(*ast.Ident)
					return ok && info.ObjectOf(id) == param
				}
			}
			return false
		}
		ast.Inspect(d.Body, func(y ast.Node) bool {
			if as, ok := y.(*ast.AssignStmt); ok && as.Tok == token.DEFINE && len(as.Lhs) == len(as.Rhs) {
				for i, l := range as.Lhs {
					if id, ok := l.(*ast.Ident); ok && isKey(as.Rhs[i]) {
						keyLocals[info.Defs[id]] = true
					}
				}
			}
			return true
		})
		isParam = isKey
	}
	eqParam := func(e ast.Expr) bool {
		// equality with the parameter, exact or up to case (finitely many strings fold to a stored one)
		if call, ok := ast.Unparen(e).(*ast.CallExpr); ok && len(call.Args) == 2 {
			if cf, _ := typeutil.Callee(info, call).(*types.Func); cf != nil && cf.FullName() == "strings.EqualFold" {
				return isParam(call.Args[0]) || isParam(call.Args[1])
			}
		}
		be, ok := ast.Unparen(e).(*ast.BinaryExpr)
		return ok && be.Op == token.EQL && (isParam(be.X) || isParam(be.Y))
	}
	// an expression that is a membership answer
	answerVars := map[types.Object]bool{}
	var answer func(e ast.Expr) bool
	answer = func(e ast.Expr) bool {
		e = ast.Unparen(e)
		switch x := e.(type) {
		case *ast.Ident:
			// a variable that holds an answer (_, ok := search(param))
			return answerVars[info.ObjectOf(x)]
		case *ast.BinaryExpr:
			switch x.Op {
			case token.LOR, token.LAND:
				return answer(x.X) && answer(x.Y)
			case token.GEQ, token.NEQ, token.GTR:
				// search(...) >= 0, != -1, != nil
				return answer(x.X)
			}
		case *ast.IndexExpr:
			// a lookup in a map under the parameter: maps are finite
			if t := info.TypeOf(x.X); t != nil {
				if _, isMap := t.Underlying().(*types.Map); isMap && isParam(x.Index) {
					return true
				}
			}
		case *ast.CallExpr:
			cf, _ := typeutil.Callee(info, x).(*types.Func)
			if cf == nil || cf.Pkg() == nil {
				return false
			}
			if cf.FullName() == "(*go/types.Scope).Lookup" {
				// a lookup in a go/types scope under the parameter: scopes are finite
				return len(x.Args) == 1 && isParam(x.Args[0])
			}
			if cf.Pkg().Path() == "slices" {
				switch cf.Name() {
				case "Contains", "Index":
					return len(x.Args) == 2 && isParam(x.Args[1])
				case "ContainsFunc", "IndexFunc":
					if len(x.Args) == 2 {
						if lit, ok := ast.Unparen(x.Args[1]).(*ast.FuncLit); ok && len(lit.Body.List) == 1 {
							if rs, ok := lit.Body.List[0].(*ast.ReturnStmt); ok && len(rs.Results) == 1 {
								return eqParam(rs.Results[0])
							}
						}
					}
				}
				return false
			}
			if prog.IsMoqPkg(cf.Pkg()) {
				for ai, a := range x.Args {
					if isParam(a) && isMembership(prog, cf, ai, depth+1) {
						return true
					}
				}
				// a moq search helper driven by a predicate `elem.key == param`
				for _, a := range x.Args {
					if lit, ok := ast.Unparen(a).(*ast.FuncLit); ok && len(lit.Body.List) == 1 {
						if rs, ok := lit.Body.List[0].(*ast.ReturnStmt); ok && len(rs.Results) == 1 && eqParam(rs.Results[0]) && searchesWithPredicate(prog, cf) {
							return true
						}
					}
				}
			}
		}
		return false
	}
	// variables that hold a membership answer (v, ok := search(param))
	ast.Inspect(d.Body, func(y ast.Node) bool {
		if as, ok := y.(*ast.AssignStmt); ok && len(as.Rhs) == 1 && answer(as.Rhs[0]) {
			if lid, ok := ast.Unparen(as.Lhs[len(as.Lhs)-1]).(*ast.Ident); ok && lid.Name != "_" {
				answerVars[info.ObjectOf(lid)] = true
			}
		}
		return true
	})
	// shape 1: a single return of an answer (possibly through a local defined from one)
	okAll, n := true, 0
	found := false
	ast.Inspect(d.Body, func(x ast.Node) bool {
		if _, isLit := x.(*ast.FuncLit); isLit {
			return false
		}
		rs, ok := x.(*ast.ReturnStmt)
		if !ok {
			return true
		}
		n++
		if len(rs.Results) == 0 {
			okAll = false
			return true
		}
		last := rs.Results[len(rs.Results)-1]
		if len(rs.Results) == 1 {
			if call, isCall := ast.Unparen(last).(*ast.CallExpr); isCall {
				// return search(name): tuple forwarding
				if cf, _ := typeutil.Callee(info, call).(*types.Func); cf != nil && prog.IsMoqPkg(cf.Pkg()) {
					for ai, a := range call.Args {
						if isParam(a) && isMembership(prog, cf, ai, depth+1) {
							found = true
							return true
						}
					}
				}
			}
		}
		isNo := func() bool {
			for _, r := range rs.Results {
				if isConstFalseOrNil(info, r) {
					continue
				}
				if c, ok := constIntOf(info, r); ok && c < 0 {
					continue
				}
				return false
			}
			return true
		}
		lastIsAnswerVar := false
		if id, ok := ast.Unparen(last).(*ast.Ident); ok && answerVars[info.ObjectOf(id)] {
			lastIsAnswerVar = true
		}
		switch {
		case answer(last), lastIsAnswerVar:
			found = true
		case isNo():
		default:
			// a local bool defined from an answer
			if id, ok := ast.Unparen(last).(*ast.Ident); ok && len(rs.Results) == 1 {
				def := false
				ast.Inspect(d.Body, func(y ast.Node) bool {
					if as, ok := y.(*ast.AssignStmt); ok {
						for i, l := range as.Lhs {
							if lid, ok := ast.Unparen(l).(*ast.Ident); ok && info.ObjectOf(lid) == info.ObjectOf(id) {
								if len(as.Rhs) == len(as.Lhs) && answer(as.Rhs[i]) {
									def = true
								}
								if len(as.Rhs) == 1 && len(as.Lhs) > 1 && answer(as.Rhs[0]) {
									def = true
								}
							}
						}
					}
					return true
				})
				if def {
					found = true
					return true
				}
			}
			// a "yes" (an element, true, an index): it must sit under `key == param`, or directly after
			// `if key != param { continue }`, inside a loop
			guarded := false
			viaAnswer := false
			for _, enc := range enclosing(d.Body, rs) {
				if is, ok := enc.(*ast.IfStmt); ok && within(is.Body, rs) {
					for _, c := range conjuncts(is.Cond) {
						if eqParam(c) {
							guarded = true
						}
						if id, ok := ast.Unparen(c).(*ast.Ident); ok && answerVars[info.ObjectOf(id)] {
							viaAnswer = true
						}
					}
				}
			}
			// ... or it follows, in its block, `if <answer says no> { return <no> }` (i < 0, !ok, i == -1)
			if !viaAnswer {
				mentionsAnswer := func(e ast.Expr) bool {
					hit := false
					ast.Inspect(e, func(y ast.Node) bool {
						if id, ok := y.(*ast.Ident); ok && answerVars[info.ObjectOf(id)] {
							hit = true
						}
						return !hit
					})
					return hit
				}
				ast.Inspect(d.Body, func(y ast.Node) bool {
					blk, ok := y.(*ast.BlockStmt)
					if !ok {
						return true
					}
					at := -1
					for i, st := range blk.List {
						if st == ast.Stmt(rs) {
							at = i
						}
					}
					for i := 0; i < at; i++ {
						is, ok := blk.List[i].(*ast.IfStmt)
						if !ok || is.Else != nil || len(is.Body.List) == 0 || !mentionsAnswer(is.Cond) {
							continue
						}
						if ret, ok := is.Body.List[len(is.Body.List)-1].(*ast.ReturnStmt); ok {
							no := len(ret.Results) > 0
							for _, r := range ret.Results {
								if c, isC := constIntOf(info, r); !(isConstFalseOrNil(info, r) || isC && c < 0) {
									no = false
								}
							}
							if no {
								viaAnswer = true
							}
						}
					}
					return true
				})
			}
			if viaAnswer {
				found = true
				return true
			}
			if !guarded {
				ast.Inspect(d.Body, func(y ast.Node) bool {
					blk, ok := y.(*ast.BlockStmt)
					if !ok {
						return true
					}
					for i, st := range blk.List {
						if st != ast.Stmt(rs) || i == 0 {
							continue
						}
						if is, ok := blk.List[i-1].(*ast.IfStmt); ok && is.Else == nil && len(is.Body.List) == 1 {
							if br, ok := is.Body.List[0].(*ast.BranchStmt); ok && br.Tok == token.CONTINUE {
								if be, ok := ast.Unparen(is.Cond).(*ast.BinaryExpr); ok && be.Op == token.NEQ && (isParam(be.X) || isParam(be.Y)) {
									guarded = true
								}
							}
						}
					}
					return true
				})
			}
			inLoop := false
			for _, enc := range enclosing(d.Body, rs) {
				switch enc.(type) {
				case *ast.RangeStmt, *ast.ForStmt:
					inLoop = true
				}
			}
			if guarded && inLoop {
				found = true
			} else {
				okAll = false
			}
		}
		return true
	})
	return okAll && found && n > 0
}

func isConstFalseOrNil(info *types.Info, e ast.Expr) bool {
	id, ok := ast.Unparen(e).(*ast.Ident)
	if !ok {
		return false
	}
	if _, isNil := info.Uses[id].(*types.Nil); isNil {
		return true
	}
	if c, ok := info.Uses[id].(*types.Const); ok && c.Name() == "false" {
		return true
	}
	return false
}

func isConstTrue(info *types.Info, e ast.Expr) bool {
	id, ok := ast.Unparen(e).(*ast.Ident)
	if !ok {
		return false
	}
	c, ok := info.Uses[id].(*types.Const)
	return ok && c.Name() == "true"
}

// numberingLoop: `for n := k; ; n++` that tries the candidates base+Itoa(n) against membership searches and
// leaves in the first iteration in which every search says "not there" (and no one-shot branch is taken).
// The candidates are pairwise distinct and each search says yes for finitely many of them, so that
// iteration comes (the loop's purity until exit is a separate rule).
func numberingLoop(prog *load.Program, info *types.Info, fd *ast.FuncDecl, fs *ast.ForStmt) (bool, string) {
	inc, ok := fs.Post.(*ast.IncDecStmt)
	var stepNode ast.Node = fs.Post
	if fs.Post == nil && len(fs.Body.List) > 0 {
		// `for { …; n++ }`: the step is the last statement of the body; with a condition
		// (`for taken(name + Itoa(n)) { n++; … }`) any statement of the body itself. Either way no `continue`
		// may skip it.
		inc, ok = fs.Body.List[len(fs.Body.List)-1].(*ast.IncDecStmt)
		if !ok && fs.Cond != nil {
			for _, st := range fs.Body.List {
				if i, isInc := st.(*ast.IncDecStmt); isInc && i.Tok == token.INC {
					inc, ok = i, true
					break
				}
			}
		}
		stepNode = inc
		if ok && loopHasContinue(fs) {
			return false, ""
		}
	}
	if !ok || inc == nil || inc.Tok != token.INC {
		return false, ""
	}
	cid, ok := ast.Unparen(inc.X).(*ast.Ident)
	if !ok {
		return false, ""
	}
	counter := info.ObjectOf(cid)
	// expressions that spell a candidate: contain strconv.Itoa(counter), directly or through a local of the body
	candLocals := map[types.Object]bool{}
	mentionsItoa := func(e ast.Expr) bool {
		hit := false
		ast.Inspect(e, func(n ast.Node) bool {
			switch x := n.(type) {
			case *ast.CallExpr:
				if cf, _ := typeutil.Callee(info, x).(*types.Func); cf != nil && cf.FullName() == "strconv.Itoa" && len(x.Args) == 1 {
					if id, ok := ast.Unparen(x.Args[0]).(*ast.Ident); ok && info.ObjectOf(id) == counter {
						hit = true
					}
				}
				// a local closure numbered(n)
				if id, ok := ast.Unparen(x.Fun).(*ast.Ident); ok && candLocals[info.ObjectOf(id)] {
					hit = true
				}
				// a function literal bound once to a local, or a moq function, that builds its result from
				// strconv.Itoa of the parameter the counter is passed for
				for ai, a := range x.Args {
					aid, ok := ast.Unparen(a).(*ast.Ident)
					if !ok || info.ObjectOf(aid) != counter {
						continue
					}
					if id, ok := ast.Unparen(x.Fun).(*ast.Ident); ok {
						if lit := boundFuncLit(info, fd, id); lit != nil && itoaOfParam(info, lit.Type, lit.Body, ai) {
							hit = true
						}
					}
					if cf, _ := typeutil.Callee(info, x).(*types.Func); cf != nil && prog.IsMoqPkg(cf.Pkg()) {
						if d := prog.Decl(cf.Origin()); d != nil && d.Body != nil && itoaOfParam(prog.Info(cf.Pkg()), d.Type, d.Body, ai) {
							hit = true
						}
					}
				}
			case *ast.Ident:
				if candLocals[info.ObjectOf(x)] {
					hit = true
				}
			}
			return !hit
		})
		return hit
	}
	ast.Inspect(fs.Body, func(n ast.Node) bool {
		if as, ok := n.(*ast.AssignStmt); ok && len(as.Lhs) == len(as.Rhs) {
			for i, l := range as.Lhs {
				if id, ok := ast.Unparen(l).(*ast.Ident); ok && mentionsItoa(as.Rhs[i]) {
					candLocals[info.ObjectOf(id)] = true
				}
			}
		}
		return true
	})
	// search calls on a candidate, and the bool variables that hold their answers
	isSearch := func(e ast.Expr) bool {
		// a lookup of the candidate in a map (maps are finite collections)
		if ix, ok := ast.Unparen(e).(*ast.IndexExpr); ok {
			if t := info.TypeOf(ix.X); t != nil {
				if _, isMap := t.Underlying().(*types.Map); isMap && mentionsItoa(ix.Index) {
					return true
				}
			}
		}
		call, ok := ast.Unparen(e).(*ast.CallExpr)
		if !ok {
			return false
		}
		cf, _ := typeutil.Callee(info, call).(*types.Func)
		// a lookup of the candidate in a go/types scope (the universe: finitely many predeclared names)
		if cf != nil && cf.FullName() == "(*go/types.Scope).Lookup" && len(call.Args) == 1 && mentionsItoa(call.Args[0]) {
			return true
		}
		if cf == nil {
			// a function literal bound once to a local (taken := func(name string) bool { ... })
			if id, ok := ast.Unparen(call.Fun).(*ast.Ident); ok {
				if lit := boundFuncLit(info, fd, id); lit != nil {
					for ai, a := range call.Args {
						if mentionsItoa(a) && membershipBody(prog, info, lit.Type, lit.Body, ai, 1) {
							return true
						}
						// taken(n): the literal builds the candidate itself
						if aid, ok := ast.Unparen(a).(*ast.Ident); ok && info.ObjectOf(aid) == counter && membershipBodyX(prog, info, lit.Type, lit.Body, ai, 1, true) {
							return true
						}
					}
				}
				// a function-typed parameter of this (unexported) function: what every call site hands in
				if len(call.Args) == 1 && mentionsItoa(call.Args[0]) && paramIsMembership(prog, info, fd, info.ObjectOf(id)) {
					return true
				}
			}
			return false
		}
		for ai, a := range call.Args {
			if mentionsItoa(a) && isMembership(prog, cf, ai, 0) {
				return true
			}
			if aid, ok := ast.Unparen(a).(*ast.Ident); ok && info.ObjectOf(aid) == counter && prog.IsMoqPkg(cf.Pkg()) {
				if d := prog.Decl(cf.Origin()); d != nil && d.Body != nil && membershipBodyX(prog, prog.Info(cf.Pkg()), d.Type, d.Body, ai, 1, true) {
					return true
				}
			}
		}
		return false
	}
	answers := map[types.Object]bool{}
	nSearch := 0
	var searched ast.Node = fs.Body
	if fs.Cond != nil {
		// the condition is searched too (Init and Post hold no searches that matter)
		searched = &ast.BlockStmt{Lbrace: fs.Cond.Pos(), List: []ast.Stmt{&ast.ExprStmt{X: fs.Cond}, fs.Body}, Rbrace: fs.Body.End()}
	}
	ast.Inspect(searched, func(n ast.Node) bool {
		switch x := n.(type) {
		case *ast.AssignStmt:
			if len(x.Rhs) == 1 && isSearch(x.Rhs[0]) {
				nSearch++
				if id, ok := ast.Unparen(x.Lhs[len(x.Lhs)-1]).(*ast.Ident); ok && id.Name != "_" {
					answers[info.ObjectOf(id)] = true
				}
			}
			// found := search(candidate) != nil (>= 0, > -1): the variable holds the answer
			if len(x.Rhs) == 1 && len(x.Lhs) == 1 {
				if be, ok := ast.Unparen(x.Rhs[0]).(*ast.BinaryExpr); ok && isSearch(be.X) && (be.Op == token.NEQ || be.Op == token.GEQ || be.Op == token.GTR) {
					if id, ok := ast.Unparen(x.Lhs[0]).(*ast.Ident); ok && id.Name != "_" {
						answers[info.ObjectOf(id)] = true
					}
				}
			}
		case *ast.CallExpr:
			if isSearch(x) {
				nSearch++
			}
		case *ast.IndexExpr:
			if isSearch(x) {
				nSearch++
			}
		}
		return true
	})
	if nSearch == 0 {
		return false, ""
	}
	// under "nothing is found, no one-shot branch": the next iteration is unreachable from the body's start
	f := cfgx.New(info, fd)
	dec := callOracleExpr(func(e ast.Expr) (bool, bool, bool) {
		if id, ok := e.(*ast.Ident); ok && answers[info.ObjectOf(id)] {
			return true, false, true
		}
		if isSearch(e) {
			return true, false, true
		}
		// search(...) >= 0 and the like
		if be, ok := e.(*ast.BinaryExpr); ok && isSearch(be.X) {
			switch be.Op {
			case token.GEQ, token.GTR, token.NEQ:
				return true, false, true
			case token.LSS, token.EQL:
				return true, true, false
			}
		}
		// comparisons of the counter with constants, for a counter beyond all of them (what holds only for
		// small counters holds in finitely many iterations)
		if m, t, f := largeCounter(info, counter, e); m {
			return true, t, f
		}
		return false, false, false
	})
	if fs.Cond != nil {
		// with a condition: in the iteration in which every search fails the condition itself lets go
		cb, ci := firstNodeWithin(f, fs.Cond)
		if cb < 0 {
			return false, ""
		}
		r := f.Explore(cb, ci, cfgx.Cuts{Decide: dec})
		if len(fs.Body.List) > 0 {
			bb, bi := firstNodeWithin(f, fs.Body)
			if bb < 0 || r.Passed(f.G.Blocks[bb].Nodes[bi]) {
				return false, ""
			}
		}
		if fs.Post != nil && r.Passed(fs.Post) {
			return false, ""
		}
		if len(fs.Body.List) == 0 && fs.Post == nil {
			return false, ""
		}
		// the answers the condition reads are those of a fresh candidate: every answer variable and every
		// candidate local is written by a statement of the body itself, once in every iteration
		topLevel := func(v types.Object) bool {
			for _, st := range fs.Body.List {
				if as, ok := st.(*ast.AssignStmt); ok {
					for _, l := range as.Lhs {
						if id, ok := ast.Unparen(l).(*ast.Ident); ok && info.ObjectOf(id) == v {
							return true
						}
					}
				}
			}
			return false
		}
		for v := range answers {
			if !topLevel(v) {
				return false, ""
			}
		}
		for v := range candLocals {
			if _, isFn := v.Type().Underlying().(*types.Signature); !isFn && !topLevel(v) {
				return false, ""
			}
		}
		return true, "numbering loop: the candidates built from strconv.Itoa(" + cid.Name + ") are pairwise distinct, each search is a membership test over a finite collection, and in the iteration in which every search fails the condition of the loop is false"
	}
	if len(fs.Body.List) == 0 {
		return false, ""
	}
	bb, bi := firstNodeWithin(f, fs.Body)
	if bb < 0 {
		return false, ""
	}
	r := f.Explore(bb, bi, cfgx.Cuts{Decide: dec})
	if r.Passed(stepNode) {
		return false, ""
	}
	return true, "numbering loop: the candidates built from strconv.Itoa(" + cid.Name + ") are pairwise distinct, each search is a membership test over a finite collection, and the iteration in which every search fails leaves the loop"
}

// argShape describes the arguments of a call by how they relate to the caller's parameters — the only
// thing a termination argument by counting can see: "param", "param+c", "param-c" or "·".
func argShape(info *types.Info, fd *ast.FuncDecl, call *ast.CallExpr) string {
	params := map[types.Object]bool{}
	if fd.Recv != nil {
		for _, f := range fd.Recv.List {
			for _, n := range f.Names {
				params[info.Defs[n]] = true
			}
		}
	}
	for _, f := range fd.Type.Params.List {
		for _, n := range f.Names {
			params[info.Defs[n]] = true
		}
	}
	// the symbol of a type switch over a parameter is that parameter under another static type
	ast.Inspect(fd, func(n ast.Node) bool {
		ts, ok := n.(*ast.TypeSwitchStmt)
		if !ok {
			return true
		}
		as, ok := ts.Assign.(*ast.AssignStmt)
		if !ok || len(as.Rhs) != 1 {
			return true
		}
		ta, ok := ast.Unparen(as.Rhs[0]).(*ast.TypeAssertExpr)
		if !ok {
			return true
		}
		if id, ok := ast.Unparen(ta.X).(*ast.Ident); ok && params[info.ObjectOf(id)] {
			for _, c := range ts.Body.List {
				if o := info.Implicits[c]; o != nil {
					params[o] = true
				}
			}
		}
		return true
	})
	// a local that only ever holds parameters (first, second := a, b; first, second = b, a) is one of them
	for changed := true; changed; {
		changed = false
		cands := map[types.Object]bool{}
		bad := map[types.Object]bool{}
		ast.Inspect(fd, func(n ast.Node) bool {
			switch x := n.(type) {
			case *ast.AssignStmt:
				for i, l := range x.Lhs {
					id, ok := ast.Unparen(l).(*ast.Ident)
					if !ok {
						continue
					}
					o := info.ObjectOf(id)
					if o == nil || params[o] {
						continue
					}
					if len(x.Lhs) != len(x.Rhs) || (x.Tok != token.ASSIGN && x.Tok != token.DEFINE) {
						bad[o] = true
						continue
					}
					if rid, ok := ast.Unparen(x.Rhs[i]).(*ast.Ident); ok && params[info.ObjectOf(rid)] {
						cands[o] = true
					} else {
						bad[o] = true
					}
				}
			case *ast.IncDecStmt:
				if id, ok := ast.Unparen(x.X).(*ast.Ident); ok {
					bad[info.ObjectOf(id)] = true
				}
			case *ast.RangeStmt:
				for _, e := range []ast.Expr{x.Key, x.Value} {
					if id, ok := e.(*ast.Ident); ok {
						bad[info.ObjectOf(id)] = true
					}
				}
			case *ast.UnaryExpr:
				if id, ok := ast.Unparen(x.X).(*ast.Ident); ok && x.Op == token.AND {
					bad[info.ObjectOf(id)] = true
				}
			}
			return true
		})
		for o := range cands {
			if !bad[o] && !params[o] {
				params[o] = true
				changed = true
			}
		}
	}
	var ss []string
	for _, a := range call.Args {
		a = ast.Unparen(a)
		s := "·"
		if id, ok := a.(*ast.Ident); ok && params[info.ObjectOf(id)] {
			s = "param"
		}
		if be, ok := a.(*ast.BinaryExpr); ok && (be.Op == token.ADD || be.Op == token.SUB) {
			if id, ok := ast.Unparen(be.X).(*ast.Ident); ok && params[info.ObjectOf(id)] && info.Types[be.Y].Value != nil {
				s = "param" + be.Op.String() + "c"
			}
		}
		ss = append(ss, s)
	}
	return strings.Join(ss, ",")
}

// forwarding: every argument of the call (and its receiver) is a parameter of the caller, passed on as it is.
func forwarding(info *types.Info, fd *ast.FuncDecl, call *ast.CallExpr) bool {
	for _, s := range strings.Split(argShape(info, fd, call), ",") {
		if s != "param" {
			return false
		}
	}
	return len(call.Args) > 0
}

func constIntOf(info *types.Info, e ast.Expr) (int64, bool) {
	tv := info.Types[e]
	if tv.Value == nil {
		return 0, false
	}
	v, ok := constantInt64(tv)
	return v, ok
}

func constantInt64(tv types.TypeAndValue) (int64, bool) {
	if tv.Value.Kind() != constant.Int {
		return 0, false
	}
	return constant.Int64Val(tv.Value)
}

// largeCounter evaluates `counter ⋈ constant` for a counter larger than every constant.
func largeCounter(info *types.Info, counter types.Object, e ast.Expr) (matched, canTrue, canFalse bool) {
	be, ok := ast.Unparen(e).(*ast.BinaryExpr)
	if !ok {
		return false, false, false
	}
	isC := func(x ast.Expr) bool {
		id, ok := ast.Unparen(x).(*ast.Ident)
		return ok && info.ObjectOf(id) == counter
	}
	isK := func(x ast.Expr) bool { return info.Types[x].Value != nil }
	op := be.Op
	switch {
	case isC(be.X) && isK(be.Y):
	case isC(be.Y) && isK(be.X):
		switch op { // mirror: k op n  ==  n op' k
		case token.LSS:
			op = token.GTR
		case token.GTR:
			op = token.LSS
		case token.LEQ:
			op = token.GEQ
		case token.GEQ:
			op = token.LEQ
		}
	default:
		return false, false, false
	}
	var v bool
	switch op {
	case token.GTR, token.GEQ, token.NEQ:
		v = true
	case token.LSS, token.LEQ, token.EQL:
		v = false
	default:
		return false, false, false
	}
	return true, v, !v
}

// searchesWithPredicate: the moq function ranges over a collection parameter and calls a function-typed
// parameter on the elements (find, findValue, firstIndex ...).
func searchesWithPredicate(prog *load.Program, fn *types.Func) bool {
	d := prog.Decl(fn.Origin())
	if d == nil || d.Body == nil {
		return false
	}
	info := prog.Info(fn.Pkg())
	hasRange, callsParam := false, false
	funcParams := map[types.Object]bool{}
	for _, f := range d.Type.Params.List {
		for _, nm := range f.Names {
			if _, ok := info.TypeOf(f.Type).Underlying().(*types.Signature); ok {
				funcParams[info.Defs[nm]] = true
			}
		}
	}
	ast.Inspect(d.Body, func(n ast.Node) bool {
		switch x := n.(type) {
		case *ast.RangeStmt:
			hasRange = true
		case *ast.CallExpr:
			if id, ok := ast.Unparen(x.Fun).(*ast.Ident); ok && funcParams[info.ObjectOf(id)] {
				callsParam = true
			}
			// delegation to the slices package with the predicate
			if cf, ok := typeutil.Callee(info, x).(*types.Func); ok && cf.Pkg() != nil && cf.Pkg().Path() == "slices" {
				for _, a := range x.Args {
					if id, ok := ast.Unparen(a).(*ast.Ident); ok && funcParams[info.ObjectOf(id)] {
						hasRange, callsParam = true, true
					}
				}
			}
		}
		return true
	})
	return hasRange && callsParam
}

// boundFuncLit: the function literal a local is bound to, if that is its only assignment.
func boundFuncLit(info *types.Info, fd *ast.FuncDecl, id *ast.Ident) *ast.FuncLit {
	v := info.ObjectOf(id)
	if v == nil {
		return nil
	}
	var lit *ast.FuncLit
	n := 0
	ast.Inspect(fd, func(x ast.Node) bool {
		switch s := x.(type) {
		case *ast.AssignStmt:
			for i, l := range s.Lhs {
				if lid, ok := ast.Unparen(l).(*ast.Ident); ok && info.ObjectOf(lid) == v {
					n++
					if len(s.Lhs) == len(s.Rhs) {
						lit, _ = ast.Unparen(s.Rhs[i]).(*ast.FuncLit)
					}
				}
			}
		case *ast.ValueSpec:
			for i, nm := range s.Names {
				if info.Defs[nm] == v {
					n++
					if i < len(s.Values) {
						lit, _ = ast.Unparen(s.Values[i]).(*ast.FuncLit)
					}
				}
			}
		}
		return true
	})
	if n != 1 {
		return nil
	}
	return lit
}

// countingLoop: a `for` with a condition terminates when one conjunct of the condition compares a local
// counter with a limit, every write of the counter inside the loop is a constant step towards the limit,
// one such step is executed in every iteration that goes round (the post statement, or a top-level
// statement of a body without `continue`), and the limit does not move away: it is pure and mentions
// nothing the loop writes, or it is itself a counter stepped the other way (two-index loops).
func (b *bounds) countingLoop(fs *ast.ForStmt) (bool, string) {
	if fs.Cond == nil {
		return false, ""
	}
	hasContinue := false
	var scan func(n ast.Node, nested bool)
	scan = func(n ast.Node, nested bool) {
		ast.Inspect(n, func(x ast.Node) bool {
			switch s := x.(type) {
			case *ast.FuncLit:
				return false
			case *ast.ForStmt:
				if s != fs {
					scan(s.Body, true)
					return false
				}
			case *ast.RangeStmt:
				scan(s.Body, true)
				return false
			case *ast.BranchStmt:
				if s.Tok == token.CONTINUE && (!nested || s.Label != nil) {
					hasContinue = true
				}
				if s.Tok == token.GOTO {
					hasContinue = true
				}
			}
			return true
		})
	}
	scan(fs.Body, false)
	inLoop := func(at ast.Node) bool {
		return within(fs, at) && !(fs.Init != nil && within(fs.Init, at))
	}
	// direction of a counter: +1 / -1 when every write inside the loop is a constant step that way
	dir := func(e ast.Expr) (d int, unavoidable bool) {
		id, ok := ast.Unparen(e).(*ast.Ident)
		if !ok {
			return 0, false
		}
		v, _ := b.info.ObjectOf(id).(*types.Var)
		if v == nil || v.IsField() || v.Pkg() == nil || v.Parent() == v.Pkg().Scope() {
			return 0, false
		}
		if bt, ok := v.Type().Underlying().(*types.Basic); !ok || bt.Info()&types.IsInteger == 0 {
			return 0, false
		}
		for _, at := range b.anodes[v] {
			if !inLoop(at) {
				continue
			}
			st, ok := at.(ast.Stmt)
			if !ok {
				return 0, false
			}
			s := b.postStep(st, v)
			if s == 0 || (d != 0 && s != d) {
				return 0, false
			}
			d = s
			if fs.Post != nil && within(fs.Post, at) {
				unavoidable = true
			} else if !hasContinue {
				for _, top := range fs.Body.List {
					if top == st {
						unavoidable = true
					}
				}
			}
		}
		// the address of the counter is taken nowhere
		escaped := false
		ast.Inspect(b.fd, func(n ast.Node) bool {
			if u, ok := n.(*ast.UnaryExpr); ok && u.Op == token.AND {
				if uid, ok := ast.Unparen(u.X).(*ast.Ident); ok && b.info.ObjectOf(uid) == v {
					escaped = true
				}
			}
			return true
		})
		if escaped {
			return 0, false
		}
		return d, unavoidable
	}
	// the limit does not move in the direction `away` (+1: does not grow, -1: does not shrink)
	still := func(e ast.Expr, away int) bool {
		if d, _ := dir(e); d != 0 {
			return d == -away
		}
		if !b.pure(e) {
			// what an iteration that goes round executes: the branches that leave the loop (an `if` of the
			// body itself that ends in return) contribute their condition only
			var scope []ast.Node
			for _, st := range fs.Body.List {
				if is, ok := st.(*ast.IfStmt); ok && is.Else == nil && len(is.Body.List) > 0 {
					if _, leaves := is.Body.List[len(is.Body.List)-1].(*ast.ReturnStmt); leaves {
						if is.Init != nil {
							scope = append(scope, is.Init)
						}
						scope = append(scope, is.Cond)
						continue
					}
				}
				scope = append(scope, st)
			}
			if fs.Post != nil {
				scope = append(scope, fs.Post)
			}
			if !b.stillCalls(e, scope...) {
				return false
			}
		}
		ok := true
		ast.Inspect(e, func(n ast.Node) bool {
			switch x := n.(type) {
			case *ast.SelectorExpr:
				if b.assignedWithin(x, fs.Body) || (fs.Post != nil && b.assignedWithin(x, fs.Post)) {
					ok = false
				}
			case *ast.Ident:
				if v, isVar := b.info.ObjectOf(x).(*types.Var); isVar && !v.IsField() {
					for _, at := range b.anodes[v] {
						if inLoop(at) {
							ok = false
						}
					}
				}
			}
			return ok
		})
		return ok
	}
	// what every iteration that goes round has passed: the conjuncts of the condition, and the negation of
	// each exit test `if counter >= limit || … { …; return / break }` that is a statement of the body itself
	// (the first one, or any in a body without `continue`)
	type cmp struct {
		small, big ast.Expr
		more       []ast.Expr // further limits on the big side, all of which must stand still
	}
	var kept []cmp
	for _, c := range conjuncts(fs.Cond) {
		be, ok := ast.Unparen(c).(*ast.BinaryExpr)
		if !ok {
			continue
		}
		switch be.Op {
		case token.LSS, token.LEQ:
			kept = append(kept, cmp{be.X, be.Y, nil})
		case token.GTR, token.GEQ:
			kept = append(kept, cmp{be.Y, be.X, nil})
		}
	}
	var disjuncts func(e ast.Expr) []ast.Expr
	disjuncts = func(e ast.Expr) []ast.Expr {
		e = ast.Unparen(e)
		if be, ok := e.(*ast.BinaryExpr); ok && be.Op == token.LOR {
			return append(disjuncts(be.X), disjuncts(be.Y)...)
		}
		return []ast.Expr{e}
	}
	for i, st := range fs.Body.List {
		is, ok := st.(*ast.IfStmt)
		if !ok || is.Init != nil || len(is.Body.List) == 0 || (i > 0 && hasContinue) {
			continue
		}
		leaves := false
		switch last := is.Body.List[len(is.Body.List)-1].(type) {
		case *ast.ReturnStmt:
			leaves = true
		case *ast.BranchStmt:
			leaves = last.Tok == token.BREAK && last.Label == nil
		}
		if !leaves {
			continue
		}
		for _, dj := range disjuncts(is.Cond) {
			// leaving when X >= Y: going round means X < Y; leaving when X >= Y1 && X >= Y2: going round
			// means X below the larger of the two, which stands still when both do
			var first *cmp
			all := true
			for _, cj := range conjuncts(dj) {
				be, ok := ast.Unparen(cj).(*ast.BinaryExpr)
				if !ok {
					all = false
					break
				}
				var c cmp
				switch be.Op {
				case token.GEQ, token.GTR:
					c = cmp{be.X, be.Y, nil}
				case token.LEQ, token.LSS:
					c = cmp{be.Y, be.X, nil}
				default:
					all = false
				}
				if !all {
					break
				}
				if first == nil {
					first = &c
				} else if types.ExprString(ast.Unparen(first.small)) == types.ExprString(ast.Unparen(c.small)) {
					first.more = append(first.more, c.big)
				} else {
					all = false
					break
				}
			}
			if all && first != nil {
				kept = append(kept, *first)
			}
		}
	}
	// a body that ends in return goes round only through its `continue` statements: each sits, with a step
	// of the counter before it, directly in an `if` of the body itself whose condition bounds the counter
	// (`if lvl < a.depth() || lvl < b.depth() { lvl++; continue }`)
	if n := len(fs.Body.List); n > 0 {
		if _, ends := fs.Body.List[n-1].(*ast.ReturnStmt); ends {
			var conts []*ast.BranchStmt
			var scanC func(nd ast.Node, nested bool)
			scanC = func(nd ast.Node, nested bool) {
				ast.Inspect(nd, func(x ast.Node) bool {
					switch y := x.(type) {
					case *ast.FuncLit:
						return false
					case *ast.ForStmt:
						if y != fs {
							scanC(y.Body, true)
							return false
						}
					case *ast.RangeStmt:
						scanC(y.Body, true)
						return false
					case *ast.BranchStmt:
						if y.Tok == token.CONTINUE && (!nested || y.Label != nil) {
							conts = append(conts, y)
						}
					}
					return true
				})
			}
			scanC(fs.Body, false)
			okAll := len(conts) > 0
			var guards []cmp
			for _, ct := range conts {
				found := false
				for _, st := range fs.Body.List {
					is, ok := st.(*ast.IfStmt)
					if !ok || is.Init != nil || len(is.Body.List) < 2 || is.Body.List[len(is.Body.List)-1] != ast.Stmt(ct) {
						continue
					}
					// the condition: comparisons of one counter with limits, joined by ||
					var first *cmp
					good := true
					for _, dj := range disjuncts(is.Cond) {
						be, ok := ast.Unparen(dj).(*ast.BinaryExpr)
						if !ok {
							good = false
							break
						}
						var c cmp
						switch be.Op {
						case token.LSS, token.LEQ:
							c = cmp{be.X, be.Y, nil}
						case token.GTR, token.GEQ:
							c = cmp{be.Y, be.X, nil}
						default:
							good = false
						}
						if !good {
							break
						}
						if first == nil {
							first = &c
						} else if types.ExprString(ast.Unparen(first.small)) == types.ExprString(ast.Unparen(c.small)) {
							first.more = append(first.more, c.big)
						} else {
							good = false
							break
						}
					}
					if !good || first == nil {
						continue
					}
					// a step of the counter directly in the branch
					stepped := false
					if id, ok := ast.Unparen(first.small).(*ast.Ident); ok {
						for _, bs := range is.Body.List[:len(is.Body.List)-1] {
							if b.postStep(bs, b.info.ObjectOf(id)) > 0 {
								stepped = true
							}
						}
					}
					if stepped {
						guards = append(guards, *first)
						found = true
					}
				}
				if !found {
					okAll = false
				}
			}
			if okAll {
				for _, g := range guards {
					d, _ := dir(g.small)
					st := d > 0 && still(g.big, +1)
					for _, m := range g.more {
						st = st && still(m, +1)
					}
					if !st {
						okAll = false
					}
				}
			}
			if okAll {
				return true, "counting loop: the body ends in return, every `continue` sits behind a test that bounds the counter " + types.ExprString(guards[0].small) + " and a step of it, and the limits stand still"
			}
		}
	}
	for _, k := range kept {
		small, big := k.small, k.big
		moreStill := true
		for _, m := range k.more {
			if !still(m, +1) {
				moreStill = false
			}
		}
		if d, must := dir(small); d > 0 && must && still(big, +1) && moreStill {
			return true, "counting loop: " + types.ExprString(small) + " is only ever stepped up inside the loop, once at least per iteration, and the limit " + types.ExprString(big) + " does not grow there"
		}
		if d, must := dir(big); d < 0 && must && still(small, -1) && len(k.more) == 0 {
			return true, "counting loop: " + types.ExprString(big) + " is only ever stepped down inside the loop, once at least per iteration, and the limit " + types.ExprString(small) + " does not shrink there"
		}
	}
	return false, ""
}

// loopHasContinue: a continue (or goto) inside the body that may go round this loop.
func loopHasContinue(fs *ast.ForStmt) bool {
	found := false
	var scan func(n ast.Node, nested bool)
	scan = func(n ast.Node, nested bool) {
		ast.Inspect(n, func(x ast.Node) bool {
			switch s := x.(type) {
			case *ast.FuncLit:
				return false
			case *ast.ForStmt:
				if s != fs {
					scan(s.Body, true)
					return false
				}
			case *ast.RangeStmt:
				scan(s.Body, true)
				return false
			case *ast.BranchStmt:
				if (s.Tok == token.CONTINUE && (!nested || s.Label != nil)) || s.Tok == token.GOTO {
					found = true
				}
			}
			return true
		})
	}
	scan(fs.Body, false)
	return found
}

// itoaOfParam: every return of the body is a string built by concatenation that contains
// strconv.Itoa(<the pi-th parameter>) — distinct arguments give distinct results when the other parts are
// the same (they are: the caller passes the same other arguments in every iteration).
func itoaOfParam(info *types.Info, ftype *ast.FuncType, body *ast.BlockStmt, pi int) bool {
	if info == nil || ftype.Params == nil {
		return false
	}
	var param types.Object
	k := 0
	for _, f := range ftype.Params.List {
		for _, nm := range f.Names {
			if k == pi {
				param = info.Defs[nm]
			}
			k++
		}
	}
	if param == nil {
		return false
	}
	n, okAll := 0, true
	ast.Inspect(body, func(x ast.Node) bool {
		if _, isLit := x.(*ast.FuncLit); isLit {
			return false
		}
		rs, ok := x.(*ast.ReturnStmt)
		if !ok {
			return true
		}
		n++
		if len(rs.Results) != 1 {
			okAll = false
			return true
		}
		hit := false
		var walk func(e ast.Expr)
		walk = func(e ast.Expr) {
			e = ast.Unparen(e)
			switch y := e.(type) {
			case *ast.BinaryExpr:
				if y.Op == token.ADD {
					walk(y.X)
					walk(y.Y)
				}
			case *ast.CallExpr:
				if cf, _ := typeutil.Callee(info, y).(*types.Func); cf != nil && cf.FullName() == "strconv.Itoa" && len(y.Args) == 1 {
					if id, ok := ast.Unparen(y.Args[0]).(*ast.Ident); ok && info.ObjectOf(id) == param {
						hit = true
					}
				}
			}
		}
		walk(rs.Results[0])
		if !hit {
			okAll = false
		}
		return true
	})
	return n > 0 && okAll
}

// paramIsMembership: v is a parameter of the unexported moq function fd of type func(string) bool, and
// every call of fd passes a membership test there: a method value or function of moq that is one, or a
// function literal whose body is one.
func paramIsMembership(prog *load.Program, info *types.Info, fd *ast.FuncDecl, v types.Object) bool {
	if v == nil || fd.Type.Params == nil {
		return false
	}
	pi, k := -1, 0
	for _, f := range fd.Type.Params.List {
		for _, nm := range f.Names {
			if info.Defs[nm] == v {
				pi = k
			}
			k++
		}
	}
	self, _ := info.Defs[fd.Name].(*types.Func)
	if pi < 0 || self == nil || self.Exported() {
		return false
	}
	// the parameter is only ever called
	onlyCalled := true
	ast.Inspect(fd.Body, func(n ast.Node) bool {
		switch x := n.(type) {
		case *ast.CallExpr:
			if id, ok := ast.Unparen(x.Fun).(*ast.Ident); ok && info.ObjectOf(id) == v {
				for _, a := range x.Args {
					ast.Inspect(a, func(m ast.Node) bool {
						if id, ok := m.(*ast.Ident); ok && info.ObjectOf(id) == v {
							onlyCalled = false
						}
						return true
					})
				}
				return false
			}
		case *ast.Ident:
			if info.ObjectOf(x) == v {
				onlyCalled = false
			}
		}
		return true
	})
	if !onlyCalled {
		return false
	}
	calls, good := 0, 0
	for _, cs := range staticCallsOf(prog, self) {
		calls++
		if pi >= len(cs.call.Args) || cs.call.Ellipsis.IsValid() {
			continue
		}
		switch a := ast.Unparen(cs.call.Args[pi]).(type) {
		case *ast.FuncLit:
			if membershipBody(prog, cs.info, a.Type, a.Body, 0, 1) {
				good++
			}
		case *ast.Ident:
			if lit := boundFuncLit(cs.info, cs.fd, a); lit != nil && membershipBody(prog, cs.info, lit.Type, lit.Body, 0, 1) {
				good++
			} else if f, ok := cs.info.ObjectOf(a).(*types.Func); ok && isMembership(prog, f, 0, 1) {
				good++
			}
		case *ast.SelectorExpr:
			if f, ok := cs.info.ObjectOf(a.Sel).(*types.Func); ok && isMembership(prog, f, 0, 1) {
				good++
			}
		}
	}
	// the function is not used as a value anywhere (every use is one of the calls counted)
	uses := 0
	for _, pk := range prog.MoqPackages() {
		for id, o := range pk.TypesInfo.Uses {
			_ = id
			if f, ok := o.(*types.Func); ok && f.Origin() == self {
				uses++
			}
		}
	}
	return calls > 0 && calls == good && uses == calls
}

// worklistLoop: `for len(w) > 0 { t := w[len(w)-1]; w = w[:len(w)-1]; … w = append(w, <components of t>) … }`
// (also the tuple form of the pop, and a queue popped at the front). The loop terminates because go/types
// types are finite trees: every iteration replaces one pending type by strict components of it, so the
// multiset of pending types decreases in the multiset order. Decided: the condition is len(w) > 0 for a
// local slice w; the body begins (statements of the body itself) by taking one element off w into a local
// t that is not written again; every other write of w inside the loop — in the body or in a function
// literal bound once to a local that the loop calls — appends values that are strict components of t (of
// the symbol of a type switch over t), and w is written nowhere else between the loop's start and end.
func worklistLoop(prog *load.Program, info *types.Info, fd *ast.FuncDecl, fs *ast.ForStmt) (bool, string) {
	if fs.Cond == nil || fs.Init != nil || fs.Post != nil {
		return false, ""
	}
	// the condition
	var w types.Object
	isLenOf := func(e ast.Expr) types.Object {
		call, ok := ast.Unparen(e).(*ast.CallExpr)
		if !ok || len(call.Args) != 1 {
			return nil
		}
		id, ok := ast.Unparen(call.Fun).(*ast.Ident)
		if !ok || id.Name != "len" {
			return nil
		}
		if _, isB := info.Uses[id].(*types.Builtin); !isB {
			return nil
		}
		if wid, ok := ast.Unparen(call.Args[0]).(*ast.Ident); ok {
			return info.ObjectOf(wid)
		}
		return nil
	}
	isZero := func(e ast.Expr) bool {
		tv := info.Types[e]
		return tv.Value != nil && tv.Value.String() == "0"
	}
	if be, ok := ast.Unparen(fs.Cond).(*ast.BinaryExpr); ok {
		switch {
		case (be.Op == token.GTR || be.Op == token.NEQ) && isZero(be.Y):
			w = isLenOf(be.X)
		case (be.Op == token.LSS || be.Op == token.NEQ) && isZero(be.X):
			w = isLenOf(be.Y)
		}
	}
	wv, _ := w.(*types.Var)
	if wv == nil || wv.IsField() || wv.Pkg() == nil || wv.Parent() == wv.Pkg().Scope() {
		return false, ""
	}
	if _, isSlice := wv.Type().Underlying().(*types.Slice); !isSlice {
		return false, ""
	}
	isW := func(e ast.Expr) bool {
		id, ok := ast.Unparen(e).(*ast.Ident)
		return ok && info.ObjectOf(id) == w
	}
	// the pop: among the leading statements of the body
	unwrap := func(e ast.Expr) ast.Expr { // types.Unalias(x) names the same pending type
		if call, ok := ast.Unparen(e).(*ast.CallExpr); ok && len(call.Args) == 1 {
			if fn, _ := typeutil.Callee(info, call).(*types.Func); fn != nil && fn.FullName() == "go/types.Unalias" {
				return call.Args[0]
			}
		}
		return e
	}
	isLast := func(e ast.Expr) bool { // w[len(w)-1]
		ix, ok := ast.Unparen(unwrap(e)).(*ast.IndexExpr)
		if !ok || !isW(ix.X) {
			return false
		}
		be, ok := ast.Unparen(ix.Index).(*ast.BinaryExpr)
		return ok && be.Op == token.SUB && isLenOf(be.X) == w && info.Types[be.Y].Value != nil && info.Types[be.Y].Value.String() == "1"
	}
	isFirst := func(e ast.Expr) bool { // w[0]
		ix, ok := ast.Unparen(unwrap(e)).(*ast.IndexExpr)
		return ok && isW(ix.X) && isZero(ix.Index)
	}
	dropLast := func(e ast.Expr) bool { // w[:len(w)-1]
		se, ok := ast.Unparen(e).(*ast.SliceExpr)
		if !ok || !isW(se.X) || se.Low != nil || se.High == nil || se.Slice3 {
			return false
		}
		be, ok := ast.Unparen(se.High).(*ast.BinaryExpr)
		return ok && be.Op == token.SUB && isLenOf(be.X) == w && info.Types[be.Y].Value != nil && info.Types[be.Y].Value.String() == "1"
	}
	dropFirst := func(e ast.Expr) bool { // w[1:]
		se, ok := ast.Unparen(e).(*ast.SliceExpr)
		return ok && isW(se.X) && se.High == nil && se.Low != nil && !se.Slice3 && info.Types[se.Low].Value != nil && info.Types[se.Low].Value.String() == "1"
	}
	var popped types.Object
	var popStmts []ast.Stmt
	take, drop := false, false
	back := false
	for _, st := range fs.Body.List {
		as, ok := st.(*ast.AssignStmt)
		if !ok {
			break
		}
		progress := false
		if len(as.Lhs) == 2 && len(as.Rhs) == 2 && isW(as.Lhs[1]) {
			// t, w = w[len(w)-1], w[:len(w)-1]
			if tid, ok := ast.Unparen(as.Lhs[0]).(*ast.Ident); ok && ((isLast(as.Rhs[0]) && dropLast(as.Rhs[1])) || (isFirst(as.Rhs[0]) && dropFirst(as.Rhs[1]))) {
				popped, take, drop, progress = info.ObjectOf(tid), true, true, true
				back = isLast(as.Rhs[0])
			}
		}
		if len(as.Lhs) == 1 && len(as.Rhs) == 1 {
			if tid, ok := ast.Unparen(as.Lhs[0]).(*ast.Ident); ok && !take && (isLast(as.Rhs[0]) || isFirst(as.Rhs[0])) {
				popped, take, progress = info.ObjectOf(tid), true, true
				back = isLast(as.Rhs[0])
			} else if isW(as.Lhs[0]) && take && !drop && ((back && dropLast(as.Rhs[0])) || (!back && dropFirst(as.Rhs[0]))) {
				drop, progress = true, true
			}
		}
		if !progress {
			break
		}
		popStmts = append(popStmts, st)
		if take && drop {
			break
		}
	}
	if !take || !drop || popped == nil {
		return false, "a loop on len(" + w.Name() + ") > 0 whose body does not begin by taking one element off it"
	}
	inPop := func(n ast.Node) bool {
		for _, st := range popStmts {
			if within(st, n) {
				return true
			}
		}
		return false
	}
	// the popped variable is written by the pop only (a type switch may re-bind the name: another object)
	okAll := true
	ast.Inspect(fd, func(n ast.Node) bool {
		switch x := n.(type) {
		case *ast.AssignStmt:
			for _, l := range x.Lhs {
				if id, ok := ast.Unparen(l).(*ast.Ident); ok && info.ObjectOf(id) == popped && !inPop(x) {
					// a declaration before the loop (var t T) is fine, another write is not
					if within(fs, x) {
						okAll = false
					}
				}
			}
		case *ast.UnaryExpr:
			if id, ok := ast.Unparen(x.X).(*ast.Ident); ok && x.Op == token.AND && (info.ObjectOf(id) == popped || info.ObjectOf(id) == w) {
				okAll = false
			}
		}
		return true
	})
	if !okAll {
		return false, "a work list whose popped element or list is written or addressed elsewhere in the loop"
	}
	// strict components of the popped value: chains of structural accessors rooted at it or at the symbol of
	// a type switch over it
	switchSyms := map[types.Object]bool{}
	ast.Inspect(fs.Body, func(n ast.Node) bool {
		ts, ok := n.(*ast.TypeSwitchStmt)
		if !ok {
			return true
		}
		var x ast.Expr
		switch a := ts.Assign.(type) {
		case *ast.AssignStmt:
			if ta, ok := ast.Unparen(a.Rhs[0]).(*ast.TypeAssertExpr); ok {
				x = ta.X
			}
		case *ast.ExprStmt:
			if ta, ok := ast.Unparen(a.X).(*ast.TypeAssertExpr); ok {
				x = ta.X
			}
		}
		if id, ok := ast.Unparen(x).(*ast.Ident); ok && info.ObjectOf(id) == popped {
			for _, c := range ts.Body.List {
				if o := info.Implicits[c]; o != nil {
					switchSyms[o] = true
				}
			}
		}
		return true
	})
	var component func(e ast.Expr, depth int) bool
	component = func(e ast.Expr, depth int) bool {
		if depth > 6 {
			return false
		}
		n := 0
		e = ast.Unparen(e)
		for {
			switch x := e.(type) {
			case *ast.TypeAssertExpr:
				e = ast.Unparen(x.X)
				continue
			case *ast.CallExpr:
				sel, ok := ast.Unparen(x.Fun).(*ast.SelectorExpr)
				if !ok {
					// at(i) inside a function literal bound to a local: what the loop hands in
					if fid, isID := ast.Unparen(x.Fun).(*ast.Ident); isID {
						return callbackComponentsOf(info, fd, fid, func(a ast.Expr) bool { return component(a, depth+1) }, func(recv ast.Expr) bool {
							id, ok := ast.Unparen(recv).(*ast.Ident)
							if ok && (info.ObjectOf(id) == popped || switchSyms[info.ObjectOf(id)]) {
								return true
							}
							return component(recv, depth+1)
						})
					}
					return false
				}
				if !structuralAccessors[sel.Sel.Name] {
					return false
				}
				n++
				e = ast.Unparen(sel.X)
				continue
			case *ast.Ident:
				o := info.ObjectOf(x)
				if o == popped || switchSyms[o] {
					return n > 0
				}
				// a local defined once from a component (targs := t.TypeArgs())
				def, ndef := ast.Expr(nil), 0
				ast.Inspect(fs.Body, func(nn ast.Node) bool {
					if as, ok := nn.(*ast.AssignStmt); ok && len(as.Lhs) == len(as.Rhs) {
						for i, l := range as.Lhs {
							if lid, ok := ast.Unparen(l).(*ast.Ident); ok && info.ObjectOf(lid) == o {
								ndef++
								def = as.Rhs[i]
							}
						}
					}
					return true
				})
				if ndef == 1 && def != nil {
					if n > 0 {
						// an accessor chain on a local that is itself reached from the popped value
						return component(def, depth+1) || rootedAt(info, def, popped, switchSyms)
					}
					return component(def, depth+1)
				}
				return false
			default:
				return false
			}
		}
	}
	// the general component analysis (locals, lists filled with components, closures and their parameters)
	// speaks about "the value the function switches on": usable here when every type switch of the function
	// is one over the popped value
	onlyPoppedSwitches := true
	ast.Inspect(fd, func(n ast.Node) bool {
		ts, ok := n.(*ast.TypeSwitchStmt)
		if !ok {
			return true
		}
		var x ast.Expr
		switch a := ts.Assign.(type) {
		case *ast.AssignStmt:
			if ta, ok := ast.Unparen(a.Rhs[0]).(*ast.TypeAssertExpr); ok {
				x = ta.X
			}
		case *ast.ExprStmt:
			if ta, ok := ast.Unparen(a.X).(*ast.TypeAssertExpr); ok {
				x = ta.X
			}
		}
		if id, ok := ast.Unparen(x).(*ast.Ident); !ok || !within(fs, ts) || (info.ObjectOf(id) != popped && !switchSyms[info.ObjectOf(id)]) {
			onlyPoppedSwitches = false
		}
		return true
	})
	own := component
	component = func(e ast.Expr, depth int) bool {
		if own(e, depth) {
			return true
		}
		return onlyPoppedSwitches && len(switchSyms) > 0 && structuralFrom(prog, info, fd, e, true, depth)
	}
	// every other write of w inside the loop (and inside literals the function binds to locals) appends components
	napp := 0
	var bad []string
	checkWrite := func(as *ast.AssignStmt, i int) {
		call, ok := ast.Unparen(as.Rhs[i]).(*ast.CallExpr)
		if ok {
			if id, isID := ast.Unparen(call.Fun).(*ast.Ident); isID {
				if bi, isB := info.Uses[id].(*types.Builtin); isB && bi.Name() == "append" && len(call.Args) >= 2 && isW(call.Args[0]) && !call.Ellipsis.IsValid() {
					for _, a := range call.Args[1:] {
						if !component(a, 0) {
							bad = append(bad, types.ExprString(a))
						}
					}
					napp++
					return
				}
			}
		}
		bad = append(bad, types.ExprString(as.Rhs[i]))
	}
	ast.Inspect(fd.Body, func(n ast.Node) bool {
		as, ok := n.(*ast.AssignStmt)
		if !ok || inPop(as) {
			return true
		}
		inside := within(fs, as)
		if !inside {
			// a function literal bound to a local before the loop and called from it counts as part of the loop
			for _, enc := range enclosingLits(fd, as) {
				if litCalledWithin(info, fd, enc, fs) {
					inside = true
				}
			}
		}
		if !inside {
			return true
		}
		for i, l := range as.Lhs {
			if isW(l) {
				if len(as.Lhs) != len(as.Rhs) {
					bad = append(bad, "multi-value assignment")
					continue
				}
				checkWrite(as, i)
			}
			if ix, ok := ast.Unparen(l).(*ast.IndexExpr); ok && isW(ix.X) {
				bad = append(bad, types.ExprString(l)+" = …")
			}
		}
		return true
	})
	if len(bad) > 0 {
		return false, "a work list that is given something other than strict components of the element just taken off: " + strings.Join(bad, ", ")
	}
	// w is not handed to anything inside the loop (a callee could grow it)
	escapes := false
	ast.Inspect(fs.Body, func(n ast.Node) bool {
		call, ok := n.(*ast.CallExpr)
		if !ok {
			return true
		}
		if id, isID := ast.Unparen(call.Fun).(*ast.Ident); isID {
			if bi, isB := info.Uses[id].(*types.Builtin); isB && (bi.Name() == "len" || bi.Name() == "append" || bi.Name() == "cap") {
				return true
			}
		}
		for _, a := range call.Args {
			if isW(a) {
				escapes = true
			}
		}
		return true
	})
	if escapes {
		return false, "a work list that is handed to another function inside the loop"
	}
	return true, fmt.Sprintf("work list: every iteration takes one pending type off %s and puts back only strict components of it (%d append site(s)); types are finite trees, so the multiset of pending types decreases", w.Name(), napp)
}

// rootedAt: the expression is an accessor chain (any go/types getters) on the popped value or a switch symbol.
func rootedAt(info *types.Info, e ast.Expr, popped types.Object, syms map[types.Object]bool) bool {
	for {
		switch x := ast.Unparen(e).(type) {
		case *ast.CallExpr:
			sel, ok := ast.Unparen(x.Fun).(*ast.SelectorExpr)
			if !ok {
				return false
			}
			e = sel.X
		case *ast.TypeAssertExpr:
			e = x.X
		case *ast.Ident:
			o := info.ObjectOf(x)
			return o == popped || syms[o]
		default:
			return false
		}
	}
}

// enclosingLits: the function literals of fd that contain the node, innermost last.
func enclosingLits(fd *ast.FuncDecl, n ast.Node) []*ast.FuncLit {
	var out []*ast.FuncLit
	ast.Inspect(fd, func(x ast.Node) bool {
		if fl, ok := x.(*ast.FuncLit); ok && within(fl, n) {
			out = append(out, fl)
		}
		return true
	})
	return out
}

// litCalledWithin: the literal is bound once to a local of fd and that local is called inside scope.
func litCalledWithin(info *types.Info, fd *ast.FuncDecl, lit *ast.FuncLit, scope ast.Node) bool {
	var holder types.Object
	ast.Inspect(fd, func(x ast.Node) bool {
		if as, ok := x.(*ast.AssignStmt); ok && len(as.Lhs) == len(as.Rhs) {
			for i, r := range as.Rhs {
				if ast.Unparen(r) == ast.Expr(lit) {
					if id, ok := ast.Unparen(as.Lhs[i]).(*ast.Ident); ok {
						holder = info.ObjectOf(id)
					}
				}
			}
		}
		return true
	})
	if holder == nil {
		return false
	}
	called := false
	ast.Inspect(scope, func(x ast.Node) bool {
		if call, ok := x.(*ast.CallExpr); ok {
			if id, ok := ast.Unparen(call.Fun).(*ast.Ident); ok && info.ObjectOf(id) == holder {
				called = true
			}
		}
		return true
	})
	return called
}

// callbackComponentsOf: fid names a function-typed parameter of a function literal bound once to a local of
// fd; every call of that local passes, in that position, a method value of a structural accessor on a
// receiver accepted by okRecv, or a function literal all of whose returns are accepted by okExpr.
func callbackComponentsOf(info *types.Info, fd *ast.FuncDecl, fid *ast.Ident, okExpr func(ast.Expr) bool, okRecv func(ast.Expr) bool) bool {
	v := info.ObjectOf(fid)
	if v == nil {
		return false
	}
	var lit *ast.FuncLit
	pi := -1
	ast.Inspect(fd, func(nn ast.Node) bool {
		fl, ok := nn.(*ast.FuncLit)
		if !ok || fl.Type.Params == nil {
			return true
		}
		k := 0
		for _, f := range fl.Type.Params.List {
			for _, nm := range f.Names {
				if info.Defs[nm] == v {
					lit, pi = fl, k
				}
				k++
			}
		}
		return true
	})
	if lit == nil {
		return false
	}
	var holder types.Object
	ast.Inspect(fd, func(nn ast.Node) bool {
		if as, ok := nn.(*ast.AssignStmt); ok && len(as.Lhs) == len(as.Rhs) {
			for i, r := range as.Rhs {
				if ast.Unparen(r) == ast.Expr(lit) {
					if lid, ok := ast.Unparen(as.Lhs[i]).(*ast.Ident); ok {
						holder = info.ObjectOf(lid)
					}
				}
			}
		}
		return true
	})
	if holder == nil {
		return false
	}
	nbind := 0
	ast.Inspect(fd, func(nn ast.Node) bool {
		if as, ok := nn.(*ast.AssignStmt); ok {
			for _, l := range as.Lhs {
				if lid, ok := ast.Unparen(l).(*ast.Ident); ok && info.ObjectOf(lid) == holder {
					nbind++
				}
			}
		}
		return true
	})
	if nbind != 1 {
		return false
	}
	calls, good, uses := 0, 0, 0
	ast.Inspect(fd, func(nn ast.Node) bool {
		if id, ok := nn.(*ast.Ident); ok && info.Uses[id] == holder {
			uses++
		}
		call, ok := nn.(*ast.CallExpr)
		if !ok {
			return true
		}
		cid, ok := ast.Unparen(call.Fun).(*ast.Ident)
		if !ok || info.ObjectOf(cid) != holder || pi >= len(call.Args) {
			return true
		}
		calls++
		switch a := ast.Unparen(call.Args[pi]).(type) {
		case *ast.SelectorExpr:
			if _, isFn := info.ObjectOf(a.Sel).(*types.Func); isFn && structuralAccessors[a.Sel.Name] && okRecv(a.X) {
				good++
			}
		case *ast.FuncLit:
			okAll, n := true, 0
			ast.Inspect(a.Body, func(m ast.Node) bool {
				if _, isLit := m.(*ast.FuncLit); isLit {
					return false
				}
				if rs, ok := m.(*ast.ReturnStmt); ok {
					n++
					if len(rs.Results) != 1 || !okExpr(rs.Results[0]) {
						okAll = false
					}
				}
				return true
			})
			if okAll && n > 0 {
				good++
			}
		}
		return true
	})
	return calls > 0 && calls == good && uses == calls
}

// descentLoop: `for { switch tt := t.(type) { case A: t = tt.Elem(); continue … }; …; return … }` — a
// condition-less loop over a local or parameter t of an interface type whose body ends in return; every
// `continue` of the loop sits in a clause of one type switch over t, and on the way to it t is assigned a
// strict component of the clause's symbol (a chain of structural accessors) — in the same clause, as a
// statement of the clause itself. t is written nowhere else in the loop. Terminates: t walks down a
// finite type tree.
func descentLoop(info *types.Info, fd *ast.FuncDecl, fs *ast.ForStmt) (bool, string) {
	if fs.Cond != nil || fs.Post != nil || len(fs.Body.List) == 0 {
		return false, ""
	}
	if _, ends := fs.Body.List[len(fs.Body.List)-1].(*ast.ReturnStmt); !ends {
		return false, ""
	}
	// the one type switch, a statement of the body itself
	var ts *ast.TypeSwitchStmt
	for _, st := range fs.Body.List {
		if x, ok := st.(*ast.TypeSwitchStmt); ok {
			if ts != nil {
				return false, ""
			}
			ts = x
		}
	}
	if ts == nil {
		return false, ""
	}
	var sw ast.Expr
	switch a := ts.Assign.(type) {
	case *ast.AssignStmt:
		if ta, ok := ast.Unparen(a.Rhs[0]).(*ast.TypeAssertExpr); ok {
			sw = ta.X
		}
	case *ast.ExprStmt:
		if ta, ok := ast.Unparen(a.X).(*ast.TypeAssertExpr); ok {
			sw = ta.X
		}
	}
	tid, ok := ast.Unparen(sw).(*ast.Ident)
	if !ok {
		return false, ""
	}
	t := info.ObjectOf(tid)
	// every continue of this loop sits directly in a clause of ts, after an assignment of t in that clause
	okAll, nconts := true, 0
	var scan func(n ast.Node, nested bool)
	scan = func(n ast.Node, nested bool) {
		ast.Inspect(n, func(x ast.Node) bool {
			switch y := x.(type) {
			case *ast.FuncLit:
				return false
			case *ast.ForStmt:
				if y != fs {
					scan(y.Body, true)
					return false
				}
			case *ast.RangeStmt:
				scan(y.Body, true)
				return false
			case *ast.BranchStmt:
				if y.Tok == token.GOTO || (y.Tok == token.CONTINUE && (!nested || y.Label != nil)) {
					nconts++
					found := false
					for _, c := range ts.Body.List {
						cc := c.(*ast.CaseClause)
						sym := info.Implicits[cc]
						for i, st := range cc.Body {
							if st != ast.Stmt(y) {
								continue
							}
							// an earlier statement of the clause assigns t a strict component of the symbol
							for _, prev := range cc.Body[:i] {
								as, ok := prev.(*ast.AssignStmt)
								if !ok || as.Tok != token.ASSIGN || len(as.Lhs) != len(as.Rhs) {
									continue
								}
								for k, l := range as.Lhs {
									if lid, ok := ast.Unparen(l).(*ast.Ident); ok && info.ObjectOf(lid) == t && sym != nil && accessorChainOn(info, as.Rhs[k], sym) {
										found = true
									}
								}
							}
						}
					}
					if !found {
						okAll = false
					}
				}
			}
			return true
		})
	}
	scan(fs.Body, false)
	if !okAll || nconts == 0 {
		return false, ""
	}
	// t is written only by those assignments (each is in a clause of ts, as a statement of the clause)
	ast.Inspect(fs.Body, func(n ast.Node) bool {
		switch x := n.(type) {
		case *ast.AssignStmt:
			for k, l := range x.Lhs {
				lid, ok := ast.Unparen(l).(*ast.Ident)
				if !ok || info.ObjectOf(lid) != t {
					continue
				}
				good := false
				for _, c := range ts.Body.List {
					cc := c.(*ast.CaseClause)
					for _, st := range cc.Body {
						if st == ast.Stmt(x) && len(x.Lhs) == len(x.Rhs) && info.Implicits[cc] != nil && accessorChainOn(info, x.Rhs[k], info.Implicits[cc]) {
							good = true
						}
					}
				}
				if !good {
					okAll = false
				}
			}
		case *ast.UnaryExpr:
			if id, ok := ast.Unparen(x.X).(*ast.Ident); ok && x.Op == token.AND && info.ObjectOf(id) == t {
				okAll = false
			}
		}
		return true
	})
	if !okAll {
		return false, ""
	}
	return true, "descent loop: the body ends in return, and every way round assigns " + t.Name() + " a strict component of itself (types are finite trees)"
}

// accessorChainOn: e is sym.A().B()… with one structural accessor at least.
func accessorChainOn(info *types.Info, e ast.Expr, sym types.Object) bool {
	n := 0
	for {
		switch x := ast.Unparen(e).(type) {
		case *ast.CallExpr:
			sel, ok := ast.Unparen(x.Fun).(*ast.SelectorExpr)
			if !ok || !structuralAccessors[sel.Sel.Name] || len(x.Args) > 1 {
				return false
			}
			n++
			e = sel.X
		case *ast.Ident:
			return n > 0 && info.ObjectOf(x) == sym
		default:
			return false
		}
	}
}
