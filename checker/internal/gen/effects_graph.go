package gen

import (
	"verif/checker/internal/core"
	"verif/checker/internal/load"
)

// CheckEffectsGraph is filled in by the thorough tier (whole-program call graph).
func CheckEffectsGraph(run *core.Run, prog *load.Program) {}

// PositiveControlEffects makes sure the mutator scanner still recognises a mutator.
func PositiveControlEffects(run *core.Run) {}
