package gen

import (
	"fmt"
	"sort"
	"strings"

	"golang.org/x/tools/go/callgraph"
	"golang.org/x/tools/go/callgraph/cha"
	"golang.org/x/tools/go/callgraph/vta"
	"golang.org/x/tools/go/ssa"
	"golang.org/x/tools/go/ssa/ssautil"

	"verif/checker/internal/core"
	"verif/checker/internal/load"
)

const controlSource = `//go:debug gotypesalias=0
package main

import (
	"os"
	"os/exec"
	"sync"
	"time"
)

var global int

type counter struct {
	mu sync.Mutex
	n  int
}

func (c *counter) get() int { c.mu.Lock(); defer c.mu.Unlock(); return c.n }

func (c *counter) read() int { return c.get() }

func (c *counter) bump(twice bool) {
	c.mu.Lock()
	defer c.mu.Unlock()
	c.n = c.read() + 1
}

func (c *counter) fine(other *counter) int {
	c.mu.Lock()
	n := other.get()
	c.mu.Unlock()
	return n + c.get()
}

func effects() error {
	if err := os.WriteFile("x", nil, 0o600); err != nil {
		return err
	}
	os.RemoveAll("y")
	return exec.Command("go").Run()
}

func nondet(m map[string]int) []string {
	var out []string
	for k, v := range m {
		if v > 0 {
			out = append(out, k)
		}
	}
	go effects()
	_ = time.Now()
	_ = os.Getenv("HOME")
	global++
	return out
}

func panics(xs []int, v interface{}, p *int, ok bool) int {
	for {
		_ = v.(int)
		return xs[3]
	}
}

func rec(n int) int { return rec(n) }

func main() {}
`

// controlRun evaluates a rule on the fixture and returns the failing rule ids.
func controlRun(prog *load.Program, f func(run *core.Run, fp *load.Program)) (map[string]int, error) {
	fp, err := load.Fixture(prog, controlSource)
	if err != nil {
		return nil, err
	}
	tmp := core.NewRun("CONTROL", "quick", "other", "/nonexistent")
	f(tmp, fp)
	out := map[string]int{}
	for _, v := range tmp.Violations() {
		out[v.Rule]++
	}
	return out, nil
}

func control(run *core.Run, prog *load.Program, name string, want []string, f func(run *core.Run, fp *load.Program)) {
	got, err := controlRun(prog, f)
	if err != nil {
		run.Undecided("CONTROL/"+name, "fixture", "checker/internal/gen/effects_graph.go", "the positive-control fixture cannot be analysed: "+err.Error())
		return
	}
	var missing []string
	for _, w := range want {
		if got[w] == 0 {
			missing = append(missing, w)
		}
	}
	if len(missing) > 0 {
		run.Undecided("CONTROL/"+name, "planted-defects", "checker/internal/gen/effects_graph.go", fmt.Sprintf("the planted constructs of the control fixture are not reported by %v: the rule has gone blind (it reports %v)", missing, got))
		return
	}
	run.Check("CONTROL/"+name, "planted-defects-reported", "checker/internal/gen/effects_graph.go", true, "")
}

// PositiveControlEffects makes sure the mutator scanner still recognises mutators.
func PositiveControlEffects(run *core.Run, prog *load.Program) {
	fp, err := load.Fixture(prog, controlSource)
	if err != nil {
		run.Undecided("CONTROL/effects", "fixture", "checker/internal/gen/effects_graph.go", "the positive-control fixture cannot be analysed: "+err.Error())
		return
	}
	var found []string
	for _, s := range EffectSites(fp) {
		found = append(found, s.Callee)
	}
	sort.Strings(found)
	want := "(*os/exec.Cmd).Run os.RemoveAll os.WriteFile os/exec.Command"
	if strings.Join(found, " ") != want {
		run.Undecided("CONTROL/effects", "planted-mutators", "checker/internal/gen/effects_graph.go", fmt.Sprintf("the effect scanner finds %v in the control fixture, want %s: the who-may-call rule has gone blind", found, want))
		return
	}
	run.Check("CONTROL/effects", "planted-mutators-reported", "checker/internal/gen/effects_graph.go", true, "")
}

// PositiveControlDeterminism / Panics: the planted constructs must be reported.
func PositiveControlDeterminism(run *core.Run, prog *load.Program) {
	control(run, prog, "determinism", []string{"G-DET/map-range", "G-DET/go", "G-DET/clock", "G-DET/environment", "G-DET/global-state"}, func(r *core.Run, fp *load.Program) { CheckDeterminism(r, fp) })
}

// PositiveControlLocks: the planted self-deadlock (bump → read → get on one receiver) must be reported, and
// only that one (fine() locks another instance and re-locks after the unlock).
func PositiveControlLocks(run *core.Run, prog *load.Program) {
	got, err := controlRun(prog, func(r *core.Run, fp *load.Program) { CheckGeneratorLocks(r, fp) })
	if err != nil {
		run.Undecided("CONTROL/locks", "fixture", "checker/internal/gen/effects_graph.go", "the positive-control fixture cannot be analysed: "+err.Error())
		return
	}
	if got["G-LOCK/reentrant"] != 1 {
		run.Undecided("CONTROL/locks", "planted-defects", "checker/internal/gen/effects_graph.go", fmt.Sprintf("the control fixture holds exactly one re-entrant lock (bump → read → get); G-LOCK/reentrant reports %d: the rule has gone blind or raises false alarms", got["G-LOCK/reentrant"]))
		return
	}
	run.Check("CONTROL/locks", "planted-defects-reported", "checker/internal/gen/effects_graph.go", true, "")
}

func PositiveControlPanics(run *core.Run, prog *load.Program) {
	control(run, prog, "panics", []string{"G-PANIC/index", "G-PANIC/type-assertion", "G-PANIC/loop", "G-PANIC/recursion"}, func(r *core.Run, fp *load.Program) { CheckPanics(r, fp) })
}

// CheckEffectsGraph (thorough tier): mutators reachable from main.main through
// the whole-program VTA call graph, dependencies included, must be on the
// allow-list with a reason.
func CheckEffectsGraph(run *core.Run, prog *load.Program) {
	var initial []*ssaPkg
	_ = initial
	sprog, _ := ssautil.AllPackages(prog.Roots(), ssa.InstantiateGenerics)
	sprog.Build()
	var mainPkg *ssa.Package
	for _, p := range sprog.AllPackages() {
		if p.Pkg.Path() == load.PkgMain {
			mainPkg = p
		}
	}
	if mainPkg == nil || mainPkg.Func("main") == nil {
		run.Undecided("G-EFF/graph", "main", "main.go", "SSA package main not built")
		return
	}
	cg := vta.CallGraph(ssautil.AllFunctions(sprog), cha.CallGraph(sprog))
	cg.DeleteSyntheticNodes()
	root := cg.Nodes[mainPkg.Func("main")]
	if root == nil {
		run.Undecided("G-EFF/graph", "root", "main.go", "main.main is not in the call graph")
		return
	}
	// reachability with predecessor links
	pred := map[*callgraph.Node]*callgraph.Node{root: nil}
	work := []*callgraph.Node{root}
	for len(work) > 0 {
		n := work[0]
		work = work[1:]
		for _, e := range n.Out {
			if _, seen := pred[e.Callee]; !seen {
				pred[e.Callee] = n
				work = append(work, e.Callee)
			}
		}
	}
	run.Count("callgraph_nodes", len(cg.Nodes))
	run.Count("callgraph_reachable_from_main", len(pred))
	reached := map[string]*callgraph.Node{}
	for n := range pred {
		if n.Func == nil {
			continue
		}
		name := n.Func.String()
		if n.Func.Object() != nil {
			if fo, ok := n.Func.Object().(interface{ FullName() string }); ok {
				name = fo.FullName()
			}
		}
		if Mutators[name] {
			reached[name] = n
		}
	}
	var names []string
	for n := range reached {
		names = append(names, n)
	}
	sort.Strings(names)
	for _, name := range names {
		// the first frame outside moq's packages on the path tells through which dependency it is reached
		var path []string
		for n := reached[name]; n != nil; n = pred[n] {
			path = append(path, n.Func.String())
			if len(path) > 40 {
				break
			}
		}
		via := "?"
		for i := len(path) - 1; i >= 0; i-- {
			if !strings.Contains(path[i], load.ModulePath) {
				via = path[i]
				break
			}
		}
		reason, ok := graphAllow(name, via, path)
		if ok {
			run.Assumef("call graph: %s reachable via %s — %s", name, via, reason)
		}
		short := path
		if len(short) > 8 {
			short = append(append([]string{}, path[:4]...), append([]string{"…"}, path[len(path)-3:]...)...)
		}
		run.Check("G-EFF/graph", name+" via "+viaPkg(via), "main.go", ok, fmt.Sprintf("%s is reachable from main.main (path, callee first: %s) and no allow-list line covers it", name, strings.Join(short, " ← ")))
	}
	run.Floor("G-EFF/graph", 3)
}

type ssaPkg struct{}

func viaPkg(fn string) string {
	fn = strings.TrimPrefix(fn, "(*")
	fn = strings.TrimPrefix(fn, "(")
	if i := strings.LastIndex(fn, "/"); i >= 0 {
		rest := fn[i+1:]
		if j := strings.IndexAny(rest, ".)"); j >= 0 {
			return fn[:i+1] + rest[:j]
		}
	}
	if j := strings.IndexAny(fn, ".)"); j >= 0 {
		return fn[:j]
	}
	return fn
}

// graphAllow: why a mutator reachable through a dependency is acceptable.
func graphAllow(name, via string, path []string) (string, bool) {
	direct := len(path) >= 2 && strings.Contains(path[1], "main.run")
	switch {
	case direct && (name == fnRemove || name == fnMkdirAll || name == fnWriteFile):
		return "the three sites of the who-may-call rule", true
	}
	pkg := viaPkg(via)
	switch {
	case strings.HasPrefix(pkg, "golang.org/x/tools/go/packages"), strings.HasPrefix(pkg, "golang.org/x/tools/internal/gocommand"), strings.HasPrefix(pkg, "golang.org/x/tools/go/internal/packagesdriver"):
		return "packages.Load runs `go list` as a subprocess (module and build cache effects are outside the program); overlay files are written only when Config.Overlay is set, which G-EFF/loader-config excludes", true
	case strings.HasPrefix(pkg, "golang.org/x/tools/imports"), strings.HasPrefix(pkg, "golang.org/x/tools/internal/imports"), strings.HasPrefix(pkg, "golang.org/x/tools/internal/gopathwalk"), strings.HasPrefix(pkg, "golang.org/x/tools/internal/modindex"):
		return "goimports resolves missing imports by scanning GOPATH/module cache and may run `go` and maintain its module-cache index (reads and cache writes outside the source tree); moq passes the source as bytes and never a file to write", true
	case strings.HasPrefix(pkg, "flag"), strings.HasPrefix(pkg, "fmt"), strings.HasPrefix(pkg, "os"), strings.HasPrefix(pkg, "io"), strings.HasPrefix(pkg, "internal/"), strings.HasPrefix(pkg, "syscall"), strings.HasPrefix(pkg, "runtime"), strings.HasPrefix(pkg, "text/template"), strings.HasPrefix(pkg, "reflect"), strings.HasPrefix(pkg, "sync"), strings.HasPrefix(pkg, "errors"), strings.HasPrefix(pkg, "bytes"), strings.HasPrefix(pkg, "strings"), strings.HasPrefix(pkg, "sort"), strings.HasPrefix(pkg, "go/"), strings.HasPrefix(pkg, "path"), strings.HasPrefix(pkg, "strconv"), strings.HasPrefix(pkg, "testing"), strings.HasPrefix(pkg, "log"), strings.HasPrefix(pkg, "time"), strings.HasPrefix(pkg, "context"), strings.HasPrefix(pkg, "encoding"), strings.HasPrefix(pkg, "unicode"), strings.HasPrefix(pkg, "math"), strings.HasPrefix(pkg, "slices"), strings.HasPrefix(pkg, "maps"), strings.HasPrefix(pkg, "iter"), strings.HasPrefix(pkg, "hash"), strings.HasPrefix(pkg, "crypto"), strings.HasPrefix(pkg, "compress"), strings.HasPrefix(pkg, "regexp"), strings.HasPrefix(pkg, "bufio"), strings.HasPrefix(pkg, "container"), strings.HasPrefix(pkg, "cmp"), strings.HasPrefix(pkg, "weak"), strings.HasPrefix(pkg, "unique"), strings.HasPrefix(pkg, "net"), strings.HasPrefix(pkg, "html"), strings.HasPrefix(pkg, "mime"), strings.HasPrefix(pkg, "debug"), strings.HasPrefix(pkg, "embed"), strings.HasPrefix(pkg, "plugin"), strings.HasPrefix(pkg, "expvar"), strings.HasPrefix(pkg, "database"), strings.HasPrefix(pkg, "archive"), strings.HasPrefix(pkg, "vendor/"), strings.HasPrefix(pkg, "golang.org/x/"):
		return "reached through interface dispatch inside the standard library / x modules (e.g. io.Writer.Write on *os.File for stdout/stderr, fmt printing, flag output): VTA cannot separate these writers from files; no path operand comes from moq", true
	}
	return "", false
}
