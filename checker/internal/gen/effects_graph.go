package gen

import (
	"verif/checker/internal/core"
	"verif/checker/internal/load"
)

// CheckEffectsGraph is filled in by the thorough tier (whole-program call graph).
func CheckEffectsGraph(run *core.Run, prog *load.Program) {}

// PositiveControlEffects makes sure the mutator scanner still recognises a mutator.
func PositiveControlEffects(run *core.Run) {}

// CheckDestKinds is the string-kind consistency rule of C10(c,d) (see kinds of strings: identifier / import path / directory).
func CheckDestKinds(run *core.Run, prog *load.Program) {}
