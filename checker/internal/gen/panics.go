package gen

import (
	"fmt"
	"go/ast"
	"go/constant"
	"go/token"
	"go/types"
	"sort"
	"strings"

	"golang.org/x/tools/go/types/typeutil"

	"verif/checker/internal/cfgx"
	"verif/checker/internal/core"
	"verif/checker/internal/load"
)

// panicTable freezes the potentially panicking or non-terminating constructs
// that no generic rule discharges, each with the reason it is safe. Key:
// function + ":" + construct text. A construct that is neither discharged by
// a rule nor listed here is reported.
var panicTable = map[string]string{
	"recursion:func(*registry.Package, *registry.Package, int):·,·,param+c":     "conflict resolution one level deeper with the holder of a wanted name (argument by hand): when the other member of the pair holds the name wanted for the first, it is renamed first, so a member of the pair is recursed on only if it still holds the name after its own renaming; beyond the deepest path level the wanted names are constant, a frame there either assigns or meets the equal-names branch, which is bounded by depth() and ends in numbering. Not excluded by this argument: two registered packages that each hold, through source aliases, the full-path name of the other. The witnesses that once ran away are interpreted on every run (G-PANIC/conflict-table)",
	"recursion:func(*registry.Package, *registry.Package, int):param,·,param+c": "as above, written in a helper that receives the package as a parameter",
}

// recursion whose argument is a strict component of the value switched on terminates:
// go/types types are finite trees along these accessors (Named types are not unfolded).
var structuralAccessors = map[string]bool{"Elem": true, "Key": true, "Type": true, "At": true, "Field": true, "ExplicitMethod": true, "EmbeddedType": true, "Term": true, "Params": true, "Results": true, "TypeArgs": true}

var accessorBound = map[string]string{"At": "Len", "Method": "NumMethods", "ExplicitMethod": "NumExplicitMethods", "EmbeddedType": "NumEmbeddeds", "Field": "NumFields", "Term": "Len", "Tag": "NumFields"}

type panicSite struct {
	tableKey string // alternative key into the table (rename-proof)
	fn       string
	text     string
	kind     string
	pos      token.Pos
	node     ast.Node
	reason   string
	ok       bool
}

// CheckPanics is C19's obligation table.
func CheckPanics(run *core.Run, prog *load.Program) {
	var sites []*panicSite
	nfuncs := 0
	funcsOf(prog, func(pkgPath string, info *types.Info, fd *ast.FuncDecl, fn *types.Func) {
		nfuncs++
		base := load.FuncName(fn)
		f := cfgx.New(info, fd)
		bd := newBounds(prog, info, fd)
		var walk func(n ast.Node, fname string, loops []ast.Stmt, inSwitch bool)
		walk = func(n ast.Node, fname string, loops []ast.Stmt, inSwitch bool) {
			if n == nil {
				return
			}
			add := func(kind, text string, node ast.Node) *panicSite {
				s := &panicSite{fn: fname, text: text, kind: kind, pos: node.Pos(), node: node}
				sites = append(sites, s)
				return s
			}
			switch x := n.(type) {
			case *ast.FuncLit:
				nlit := 0
				for _, s := range sites {
					if strings.HasPrefix(s.fn, base+"$") {
						nlit++
					}
				}
				walk(x.Body, base+"$1", nil, false)
				return
			case *ast.ForStmt:
				if x.Cond == nil {
					s := add("loop", "for-without-condition", x)
					s.text = "for-without-condition"
					s.ok, s.reason = numberingLoop(prog, info, fd, x)
					if !s.ok {
						s.ok, s.reason = descentLoop(info, fd, x)
					}
				} else {
					s := add("loop", "for "+types.ExprString(x.Cond), x)
					s.ok, s.reason = bd.countingLoop(x)
					if !s.ok {
						s.ok, s.reason = numberingLoop(prog, info, fd, x)
					}
					wl := ""
					if !s.ok {
						s.ok, wl = worklistLoop(prog, info, fd, x)
						s.reason = wl
					}
					if !s.ok {
						s.reason = "the loop is no counting loop (a local counter stepped towards a limit that stands still) and no other measure is visible"
						if wl != "" {
							s.reason += "; " + wl
						}
					}
				}
				if x.Init != nil {
					walk(x.Init, fname, loops, false)
				}
				if x.Cond != nil {
					walk(x.Cond, fname, loops, false)
				}
				if x.Post != nil {
					walk(x.Post, fname, loops, false)
				}
				walk(x.Body, fname, append(loops, x), false)
				return
			case *ast.RangeStmt:
				walk(x.X, fname, loops, false)
				walk(x.Body, fname, append(loops, x), false)
				return
			case *ast.TypeSwitchStmt:
				if x.Init != nil {
					walk(x.Init, fname, loops, false)
				}
				// the guard's assertion cannot fail
				switch a := x.Assign.(type) {
				case *ast.AssignStmt:
					if ta, ok := a.Rhs[0].(*ast.TypeAssertExpr); ok {
						walk(ta.X, fname, loops, false)
					}
				case *ast.ExprStmt:
					if ta, ok := a.X.(*ast.TypeAssertExpr); ok {
						walk(ta.X, fname, loops, false)
					}
				}
				walk(x.Body, fname, loops, false)
				return
			case *ast.AssignStmt:
				// comma-ok forms do not panic
				if len(x.Lhs) == 2 && len(x.Rhs) == 1 {
					switch r := ast.Unparen(x.Rhs[0]).(type) {
					case *ast.TypeAssertExpr:
						walk(r.X, fname, loops, false)
						return
					case *ast.IndexExpr:
						if _, isMap := info.TypeOf(r.X).Underlying().(*types.Map); isMap {
							walk(r.X, fname, loops, false)
							walk(r.Index, fname, loops, false)
							return
						}
					}
				}
				// map store into a possibly nil map
				for _, l := range x.Lhs {
					if ix, ok := ast.Unparen(l).(*ast.IndexExpr); ok {
						if _, isMap := info.TypeOf(ix.X).Underlying().(*types.Map); isMap {
							s := add("map-store", types.ExprString(ix.X)+"[…] =", x)
							s.ok, s.reason = mapNonNil(prog, info, fd, ix.X)
							if !s.ok {
								s.ok, s.reason = bd.mapOriginsMade(ix.X)
							}
						}
					}
				}
			case *ast.TypeAssertExpr:
				if x.Type != nil {
					s := add("type-assertion", types.ExprString(x), x)
					s.ok, s.reason = assertionImplied(info, fd, x)
					if !s.ok {
						s.ok, s.reason = bd.assertionOK(f, x)
					}
				}
			case *ast.IndexExpr:
				t := info.TypeOf(x.X)
				if t != nil {
					switch t.Underlying().(type) {
					case *types.Map:
					case *types.Signature:
					default:
						if _, isTypeArg := info.Types[x.X]; isTypeArg && info.Types[x.X].IsType() {
							break
						}
						if tv, ok := info.Types[x]; ok && tv.IsType() {
							break
						}
						s := add("index", types.ExprString(x), x)
						s.ok, s.reason = indexDischarged(info, fd, f, x, loops)
						if !s.ok {
							if ok, why := bd.indexOK(f, x, loops); ok {
								s.ok, s.reason = true, why
							} else if ok, why := bd.lastElemOK(f, x); ok {
								s.ok, s.reason = true, why
							} else if ok, why := namedSliceInvariant(prog, info, fd, x); ok {
								s.ok, s.reason = true, why
							} else if c, isC := bd.constInt(x.Index); isC && c >= 0 {
								target := types.ExprString(x.X)
								if ok, n := bd.guardedAtCallers(func(ci *types.Info, cfd *ast.FuncDecl, subst func(string) string) func(ast.Expr) (bool, bool) {
									t := subst(target)
									if t == "" {
										return func(ast.Expr) (bool, bool) { return true, true }
									}
									return lenOracleIn(ci, cfd, t, c)
								}); ok {
									s.ok, s.reason = true, fmt.Sprintf("every call of the enclosing function (%d) is unreachable when len(%s) <= %d", n, target, c)
								} else if ok, why := cliSmallModel(prog, pkgPath, x.Pos()); ok {
									s.ok, s.reason = true, why
								}
							}
						}
					}
				}
			case *ast.SliceExpr:
				s := add("slice", types.ExprString(x), x)
				s.ok, s.reason = sliceDischarged(info, fd, f, x)
				if !s.ok {
					if ok, why := bd.sliceMore(f, x); ok {
						s.ok, s.reason = true, why
					} else if need, isC := bd.constNeed(x); isC && need > 0 {
						target := types.ExprString(x.X)
						if ok, n := bd.guardedAtCallers(func(ci *types.Info, cfd *ast.FuncDecl, subst func(string) string) func(ast.Expr) (bool, bool) {
							t := subst(target)
							if t == "" {
								return func(ast.Expr) (bool, bool) { return true, true }
							}
							return lenOracleIn(ci, cfd, t, need-1)
						}); ok {
							s.ok, s.reason = true, fmt.Sprintf("every call of the enclosing function (%d) is unreachable when len(%s) < %d", n, target, need)
						} else if ok, why := cliSmallModel(prog, pkgPath, x.Pos()); ok {
							s.ok, s.reason = true, why
						}
					}
				}
			case *ast.BinaryExpr:
				if x.Op == token.QUO || x.Op == token.REM {
					if b, ok := info.TypeOf(x).Underlying().(*types.Basic); ok && b.Info()&types.IsInteger != 0 {
						s := add("division", types.ExprString(x), x)
						if tv := info.Types[x.Y]; tv.Value != nil && constant.Sign(tv.Value) != 0 {
							s.ok, s.reason = true, "constant non-zero divisor"
						}
					}
				}
			case *ast.CallExpr:
				if id, ok := ast.Unparen(x.Fun).(*ast.Ident); ok {
					if b, ok := info.Uses[id].(*types.Builtin); ok && b.Name() == "panic" {
						add("panic", "panic(…)", x)
					}
				}
				// library functions that panic on bad input by contract (regexp.MustCompile, template.Must,
				// strings.Repeat with a negative count ...): fine on constants, a panic site on anything else
				if callee, ok := typeutil.Callee(info, x).(*types.Func); ok && callee.Pkg() != nil && !prog.IsMoqPkg(callee.Pkg()) && strings.HasPrefix(callee.Name(), "Must") {
					s := add("must-call", callee.FullName()+"(…)", x)
					allConst := len(x.Args) > 0
					for _, a := range x.Args {
						if tv := info.Types[a]; tv.Value == nil {
							allConst = false
						}
					}
					if allConst {
						s.ok, s.reason = true, "constant arguments: the outcome is the same on every run"
					}
				}
				if sel, ok := ast.Unparen(x.Fun).(*ast.SelectorExpr); ok && len(x.Args) == 1 {
					if callee, ok := typeutil.Callee(info, x).(*types.Func); ok && callee.Pkg() != nil && callee.Pkg().Path() == "go/types" {
						if bound, isAcc := accessorBound[sel.Sel.Name]; isAcc {
							if b, ok := info.TypeOf(x.Args[0]).Underlying().(*types.Basic); ok && b.Info()&types.IsInteger != 0 {
								s := add("go/types-accessor", types.ExprString(x), x)
								s.ok, s.reason = accessorDischarged(info, fd, x, sel, bound, loops)
								if !s.ok {
									if ok, why := bd.accessorOK(x, sel, bound, loops); ok {
										s.ok, s.reason = true, why
									}
								}
							}
						}
					}
				}
			}
			// generic descent
			ast.Inspect(n, func(c ast.Node) bool {
				if c == n || c == nil {
					return true
				}
				walk(c, fname, loops, false)
				return false
			})
		}
		walk(fd.Body, base, nil, false)
		// nil-able pointers from comma-ok calls
		for _, s := range commaOkDerefs(prog, info, fd, f, base) {
			sites = append(sites, s)
		}
	})
	// recursion cycles
	for _, s := range recursionSites(prog) {
		sites = append(sites, s)
	}
	sort.SliceStable(sites, func(i, j int) bool { return sites[i].pos < sites[j].pos })
	nAuto, nTable := 0, 0
	for _, s := range sites {
		key := s.fn + ":" + s.text
		pos := prog.Pos(s.pos)
		if s.ok {
			nAuto++
			run.Check("G-PANIC/"+s.kind, key, pos, true, "")
			if nAuto%6 == 1 {
				run.Sample(map[string]string{"site": key, "pos": pos, "discharged_by": s.reason})
			}
			continue
		}
		if reason, listed := panicTable[s.tableKey]; listed && s.tableKey != "" {
			nTable++
			run.Check("G-PANIC/"+s.kind, key, pos, true, "")
			run.Assumef("%s: %s", s.tableKey, reason)
			continue
		}
		if reason, listed := panicTable[key]; listed {
			nTable++
			run.Check("G-PANIC/"+s.kind, key, pos, true, "")
			run.Assumef("%s: %s", key, reason)
			continue
		}
		why := s.reason
		if why == "" {
			why = "no dominating guard, loop bound or table line discharges it"
		}
		if s.tableKey != "" {
			why += " (table key: " + s.tableKey + ")"
		}
		run.Check("G-PANIC/"+s.kind, key, pos, false, fmt.Sprintf("%s in %s can panic or fail to terminate: %s", s.text, s.fn, why))
	}
	run.Count("functions_scanned", nfuncs)
	run.Count("panic_sites", len(sites))
	run.Count("panic_sites_auto_discharged", nAuto)
	run.Count("panic_sites_table", nTable)
	run.Floor("G-PANIC/index", 4)
	run.Floor("G-PANIC/go/types-accessor", 1)
	run.Floor("G-PANIC/type-assertion", 1)
	run.Floor("G-PANIC/recursion", 1)
}

// lenOracle builds a branch oracle under the assumption len(X) <= max (X by source text),
// or X == "" for strings when max < 0.
func lenOracle(info *types.Info, target string, max int64) func(ast.Expr) (bool, bool) {
	return lenOracleIn(info, nil, target, max)
}

// LenOperand returns the expression whose length e denotes: len(x) itself, or
// a local variable defined exactly once as len(x) (e.g. `switch n := len(x); n`).
func LenOperand(info *types.Info, scope ast.Node, e ast.Expr) (ast.Expr, bool) {
	e = ast.Unparen(e)
	if c, ok := e.(*ast.CallExpr); ok && len(c.Args) == 1 {
		if id, ok := c.Fun.(*ast.Ident); ok && id.Name == "len" {
			return c.Args[0], true
		}
	}
	id, ok := e.(*ast.Ident)
	if !ok || scope == nil {
		return nil, false
	}
	v := info.ObjectOf(id)
	if v == nil {
		return nil, false
	}
	var found ast.Expr
	n := 0
	ast.Inspect(scope, func(x ast.Node) bool {
		as, ok := x.(*ast.AssignStmt)
		if !ok || len(as.Lhs) != len(as.Rhs) {
			return true
		}
		for i, l := range as.Lhs {
			if lid, ok := ast.Unparen(l).(*ast.Ident); ok && info.ObjectOf(lid) == v {
				n++
				if op, ok := LenOperand(info, nil, as.Rhs[i]); ok {
					found = op
				}
			}
		}
		return true
	})
	if n == 1 && found != nil {
		return found, true
	}
	return nil, false
}

func lenOracleIn(info *types.Info, scope ast.Node, target string, max int64) func(ast.Expr) (bool, bool) {
	var ev func(e ast.Expr) (bool, bool)
	lenOf := func(e ast.Expr) bool {
		op, ok := LenOperand(info, scope, e)
		return ok && types.ExprString(op) == target
	}
	constInt := func(e ast.Expr) (int64, bool) {
		tv := info.Types[e]
		if tv.Value == nil || tv.Value.Kind() != constant.Int {
			return 0, false
		}
		v, ok := constant.Int64Val(tv.Value)
		return v, ok
	}
	ev = func(e ast.Expr) (bool, bool) {
		e = ast.Unparen(e)
		switch x := e.(type) {
		case *ast.UnaryExpr:
			if x.Op == token.NOT {
				t, f := ev(x.X)
				return f, t
			}
		case *ast.BinaryExpr:
			switch x.Op {
			case token.LAND:
				lt, lf := ev(x.X)
				rt, rf := ev(x.Y)
				return lt && rt, lf || (lt && rf)
			case token.LOR:
				lt, lf := ev(x.X)
				rt, rf := ev(x.Y)
				return lt || (lf && rt), lf && rf
			}
			// string emptiness
			if max < 0 && (x.Op == token.EQL || x.Op == token.NEQ) {
				for _, pair := range [][2]ast.Expr{{x.X, x.Y}, {x.Y, x.X}} {
					if types.ExprString(pair[0]) == target {
						if tv := info.Types[pair[1]]; tv.Value != nil && tv.Value.Kind() == constant.String && constant.StringVal(tv.Value) == "" {
							return x.Op == token.EQL, x.Op == token.NEQ
						}
					}
				}
			}
			var k int64
			var ok bool
			op := x.Op
			if lenOf(x.X) {
				k, ok = constInt(x.Y)
			} else if lenOf(x.Y) {
				k, ok = constInt(x.X)
				switch op { // mirror
				case token.LSS:
					op = token.GTR
				case token.GTR:
					op = token.LSS
				case token.LEQ:
					op = token.GEQ
				case token.GEQ:
					op = token.LEQ
				}
			}
			if ok && max >= 0 {
				// len ranges over [0, max]
				canT, canF := false, false
				for l := int64(0); l <= max; l++ {
					var b bool
					switch op {
					case token.LSS:
						b = l < k
					case token.LEQ:
						b = l <= k
					case token.GTR:
						b = l > k
					case token.GEQ:
						b = l >= k
					case token.EQL:
						b = l == k
					case token.NEQ:
						b = l != k
					default:
						return true, true
					}
					if b {
						canT = true
					} else {
						canF = true
					}
				}
				return canT, canF
			}
		}
		return true, true
	}
	return ev
}

func reachable(f *cfgx.Func, node ast.Node, dec func(ast.Expr) (bool, bool)) bool {
	if f == nil {
		return true
	}
	r := f.Explore(0, 0, cfgx.Cuts{Decide: dec})
	if n := nodeHolding(f, node); n != nil {
		if !r.Passed(n) {
			return false
		}
		// go/cfg keeps `a && b` in one node: b is evaluated only if a holds (a || b: only if a does not)
		return !shortCircuitExcludes(n, node, dec)
	}
	return true
}

// innerMapMadeBefore: see mapNonNil.
func innerMapMadeBefore(info *types.Info, fd *ast.FuncDecl, m *ast.IndexExpr) (bool, string) {
	text := types.ExprString(m)
	mentioned := map[types.Object]bool{}
	ast.Inspect(m, func(n ast.Node) bool {
		if id, ok := n.(*ast.Ident); ok {
			if o := info.ObjectOf(id); o != nil {
				mentioned[o] = true
			}
		}
		return true
	})
	isMake := func(e ast.Expr) bool {
		switch r := ast.Unparen(e).(type) {
		case *ast.CallExpr:
			if fid, ok := r.Fun.(*ast.Ident); ok && fid.Name == "make" {
				return true
			}
		case *ast.CompositeLit:
			return true
		}
		return false
	}
	guard := func(st ast.Stmt) bool {
		is, ok := st.(*ast.IfStmt)
		if !ok || is.Init != nil || is.Else != nil || len(is.Body.List) != 1 {
			return false
		}
		be, ok := ast.Unparen(is.Cond).(*ast.BinaryExpr)
		if !ok || be.Op != token.EQL || types.ExprString(be.X) != text {
			return false
		}
		if id, ok := ast.Unparen(be.Y).(*ast.Ident); !ok || id.Name != "nil" {
			return false
		}
		as, ok := is.Body.List[0].(*ast.AssignStmt)
		return ok && as.Tok == token.ASSIGN && len(as.Lhs) == 1 && len(as.Rhs) == 1 && types.ExprString(as.Lhs[0]) == text && isMake(as.Rhs[0])
	}
	writes := func(st ast.Stmt) bool {
		hit := false
		ast.Inspect(st, func(n ast.Node) bool {
			switch x := n.(type) {
			case *ast.AssignStmt:
				for _, l := range x.Lhs {
					if id, ok := ast.Unparen(l).(*ast.Ident); ok && mentioned[info.ObjectOf(id)] {
						hit = true
					}
					if types.ExprString(l) == text {
						hit = true
					}
				}
			case *ast.IncDecStmt:
				if id, ok := ast.Unparen(x.X).(*ast.Ident); ok && mentioned[info.ObjectOf(id)] {
					hit = true
				}
			case *ast.UnaryExpr:
				if id, ok := ast.Unparen(x.X).(*ast.Ident); ok && x.Op == token.AND && mentioned[info.ObjectOf(id)] {
					hit = true
				}
			case *ast.CallExpr:
				if fid, ok := x.Fun.(*ast.Ident); ok && (fid.Name == "delete" || fid.Name == "clear") {
					hit = true
				}
			}
			return true
		})
		return hit
	}
	found := false
	ast.Inspect(fd.Body, func(n ast.Node) bool {
		blk, ok := n.(*ast.BlockStmt)
		if !ok || found {
			return !found
		}
		for i, st := range blk.List {
			if !(st.Pos() <= m.Pos() && m.End() <= st.End()) {
				continue
			}
			if _, nested := st.(*ast.AssignStmt); !nested {
				continue // the store is deeper: look in the inner block
			}
			for j := i - 1; j >= 0; j-- {
				if guard(blk.List[j]) {
					found = true
					return false
				}
				if writes(blk.List[j]) {
					break
				}
			}
		}
		return true
	})
	if found {
		return true, "the inner map is made, if missing, earlier in the same statement list (" + text + " == nil → make)"
	}
	return false, ""
}

// shortCircuitExcludes: inside root, target sits in the right operand of an && whose left operand cannot
// be true under dec, or of an || whose left operand cannot be false.
func shortCircuitExcludes(root, target ast.Node, dec func(ast.Expr) (bool, bool)) bool {
	excluded := false
	var path []ast.Node
	ast.Inspect(root, func(n ast.Node) bool {
		if n == nil {
			path = path[:len(path)-1]
			return true
		}
		path = append(path, n)
		if n == target {
			for i := 0; i+1 < len(path); i++ {
				be, ok := path[i].(*ast.BinaryExpr)
				if !ok || (be.Op != token.LAND && be.Op != token.LOR) {
					continue
				}
				inY := false
				ast.Inspect(be.Y, func(y ast.Node) bool {
					if y == target {
						inY = true
					}
					return !inY
				})
				if !inY {
					continue
				}
				canT, canF := dec(be.X)
				if (be.Op == token.LAND && !canT) || (be.Op == token.LOR && !canF) {
					excluded = true
				}
			}
		}
		return true
	})
	return excluded
}

func indexDischarged(info *types.Info, fd *ast.FuncDecl, f *cfgx.Func, x *ast.IndexExpr, loops []ast.Stmt) (bool, string) {
	target := types.ExprString(x.X)
	// constant index behind a length guard
	if tv := info.Types[x.Index]; tv.Value != nil && tv.Value.Kind() == constant.Int {
		c, _ := constant.Int64Val(tv.Value)
		if at, isArr := info.TypeOf(x.X).Underlying().(*types.Array); isArr && c < at.Len() {
			return true, "constant index into an array"
		}
		if !reachable(f, x, lenOracleIn(info, fd, target, c)) {
			return true, fmt.Sprintf("unreachable when len(%s) <= %d (dominating length guard)", target, c)
		}
		return false, fmt.Sprintf("no guard excludes len(%s) <= %d on every path", target, c)
	}
	id, ok := ast.Unparen(x.Index).(*ast.Ident)
	if !ok {
		return false, "index is neither a constant nor a loop variable"
	}
	iv := info.ObjectOf(id)
	for _, l := range loops {
		switch lp := l.(type) {
		case *ast.RangeStmt:
			kid, ok := lp.Key.(*ast.Ident)
			if !ok || info.ObjectOf(kid) != iv {
				continue
			}
			ranged := types.ExprString(lp.X)
			if ranged == target {
				return true, "index is the range key of the same slice"
			}
			if madeWithLen(info, fd, x.X, "len("+ranged+")") {
				return true, "index is the range key of " + ranged + " and the slice was made with len(" + ranged + ")"
			}
		case *ast.ForStmt:
			be, ok := lp.Cond.(*ast.BinaryExpr)
			if !ok || be.Op != token.LSS {
				continue
			}
			cid, ok := ast.Unparen(be.X).(*ast.Ident)
			if !ok || info.ObjectOf(cid) != iv {
				continue
			}
			bound := types.ExprString(be.Y)
			if bound == "len("+target+")" {
				return true, "loop condition bounds the index by len of the same slice"
			}
			if madeWithLen(info, fd, x.X, bound) {
				return true, "loop condition bounds the index by " + bound + ", the length the slice was made with"
			}
		}
	}
	// last := len(x) - c (c >= 1), defined once, and every path to x[last] excludes last < 0
	if c, ok := lenMinusConstDef(info, fd, iv, target); ok {
		if !reachable(f, x, identRangeOracle(info, iv, -c, -1)) {
			return true, fmt.Sprintf("index is len(%s)-%d, defined once, and a dominating guard excludes negative values", target, c)
		}
		return false, fmt.Sprintf("index is len(%s)-%d and no guard excludes an empty %s on every path", target, c, target)
	}
	return false, "index variable is not bounded by the length of the indexed value"
}

// lenMinusConstDef: iv is defined exactly once in fd, as `len(target) - c` with a constant c >= 1, and never
// assigned again.
func lenMinusConstDef(info *types.Info, fd *ast.FuncDecl, iv types.Object, target string) (int64, bool) {
	var def ast.Expr
	writes := 0
	ast.Inspect(fd, func(n ast.Node) bool {
		switch st := n.(type) {
		case *ast.AssignStmt:
			for i, l := range st.Lhs {
				if id, ok := ast.Unparen(l).(*ast.Ident); ok && info.ObjectOf(id) == iv {
					writes++
					if len(st.Lhs) == len(st.Rhs) {
						def = st.Rhs[i]
					} else {
						def = nil
					}
				}
			}
		case *ast.IncDecStmt:
			if id, ok := ast.Unparen(st.X).(*ast.Ident); ok && info.ObjectOf(id) == iv {
				writes += 2
			}
		case *ast.UnaryExpr:
			if id, ok := ast.Unparen(st.X).(*ast.Ident); ok && st.Op == token.AND && info.ObjectOf(id) == iv {
				writes += 2
			}
		case *ast.ValueSpec:
			for i, nm := range st.Names {
				if info.ObjectOf(nm) == iv {
					writes++
					if i < len(st.Values) {
						def = st.Values[i]
					}
				}
			}
		}
		return true
	})
	if writes != 1 || def == nil {
		return 0, false
	}
	be, ok := ast.Unparen(def).(*ast.BinaryExpr)
	if !ok || be.Op != token.SUB {
		return 0, false
	}
	op, ok := LenOperand(info, fd, be.X)
	if !ok || types.ExprString(op) != target {
		return 0, false
	}
	tv := info.Types[be.Y]
	if tv.Value == nil || tv.Value.Kind() != constant.Int {
		return 0, false
	}
	c, exact := constant.Int64Val(tv.Value)
	if !exact || c < 1 {
		return 0, false
	}
	return c, true
}

// identRangeOracle decides comparisons of the variable iv with integer constants under the assumption
// lo <= iv <= hi; everything else can go both ways.
func identRangeOracle(info *types.Info, iv types.Object, lo, hi int64) func(ast.Expr) (bool, bool) {
	isIV := func(e ast.Expr) bool {
		id, ok := ast.Unparen(e).(*ast.Ident)
		return ok && info.ObjectOf(id) == iv
	}
	constInt := func(e ast.Expr) (int64, bool) {
		tv := info.Types[e]
		if tv.Value == nil || tv.Value.Kind() != constant.Int {
			return 0, false
		}
		return constant.Int64Val(tv.Value)
	}
	var ev func(e ast.Expr) (bool, bool)
	ev = func(e ast.Expr) (bool, bool) {
		switch x := ast.Unparen(e).(type) {
		case *ast.UnaryExpr:
			if x.Op == token.NOT {
				t, f := ev(x.X)
				return f, t
			}
		case *ast.BinaryExpr:
			switch x.Op {
			case token.LAND:
				lt, lf := ev(x.X)
				rt, rf := ev(x.Y)
				return lt && rt, lf || (lt && rf)
			case token.LOR:
				lt, lf := ev(x.X)
				rt, rf := ev(x.Y)
				return lt || (lf && rt), lf && rf
			}
			op := x.Op
			var k int64
			ok := false
			if isIV(x.X) {
				k, ok = constInt(x.Y)
			} else if isIV(x.Y) {
				k, ok = constInt(x.X)
				switch op {
				case token.LSS:
					op = token.GTR
				case token.GTR:
					op = token.LSS
				case token.LEQ:
					op = token.GEQ
				case token.GEQ:
					op = token.LEQ
				}
			}
			if !ok {
				return true, true
			}
			canT, canF := false, false
			for v := lo; v <= hi; v++ {
				var b bool
				switch op {
				case token.LSS:
					b = v < k
				case token.LEQ:
					b = v <= k
				case token.GTR:
					b = v > k
				case token.GEQ:
					b = v >= k
				case token.EQL:
					b = v == k
				case token.NEQ:
					b = v != k
				default:
					return true, true
				}
				if b {
					canT = true
				} else {
					canF = true
				}
			}
			return canT, canF
		}
		return true, true
	}
	return ev
}

// madeWithLen: the (local) slice expression was defined by make(T, bound) and never reassigned otherwise.
func madeWithLen(info *types.Info, fd *ast.FuncDecl, e ast.Expr, bound string) bool {
	id, ok := ast.Unparen(e).(*ast.Ident)
	if !ok {
		return false
	}
	v := info.ObjectOf(id)
	made, other := 0, 0
	// bound may be a local defined once from an expression; compare both spellings
	alt := map[string]bool{bound: true}
	ast.Inspect(fd, func(n ast.Node) bool {
		as, ok := n.(*ast.AssignStmt)
		if !ok || len(as.Lhs) != len(as.Rhs) {
			return true
		}
		for i, l := range as.Lhs {
			if lid, ok := ast.Unparen(l).(*ast.Ident); ok && lid.Name == bound {
				alt[types.ExprString(as.Rhs[i])] = true
			}
		}
		return true
	})
	ast.Inspect(fd, func(n ast.Node) bool {
		as, ok := n.(*ast.AssignStmt)
		if !ok || len(as.Lhs) != len(as.Rhs) {
			return true
		}
		for i, l := range as.Lhs {
			lid, ok := ast.Unparen(l).(*ast.Ident)
			if !ok || info.ObjectOf(lid) != v {
				continue
			}
			if call, ok := ast.Unparen(as.Rhs[i]).(*ast.CallExpr); ok {
				if fid, ok := call.Fun.(*ast.Ident); ok && fid.Name == "make" && len(call.Args) >= 2 && alt[types.ExprString(call.Args[1])] {
					made++
					continue
				}
			}
			other++
		}
		return true
	})
	return made >= 1 && other == 0
}

func sliceDischarged(info *types.Info, fd *ast.FuncDecl, f *cfgx.Func, x *ast.SliceExpr) (bool, string) {
	target := types.ExprString(x.X)
	need := int64(0)
	for _, b := range []ast.Expr{x.Low, x.High} {
		if b == nil {
			continue
		}
		tv := info.Types[b]
		if tv.Value == nil || tv.Value.Kind() != constant.Int {
			return false, "non-constant slice bound"
		}
		if c, _ := constant.Int64Val(tv.Value); c > need {
			need = c
		}
	}
	if need == 0 {
		return true, "bounds 0"
	}
	if b, ok := info.TypeOf(x.X).Underlying().(*types.Basic); ok && b.Info()&types.IsString != 0 && need == 1 {
		if !reachable(f, x, lenOracleIn(info, fd, target, -1)) {
			return true, "unreachable when " + target + " == \"\" (dominating emptiness guard)"
		}
	}
	if !reachable(f, x, lenOracleIn(info, fd, target, need-1)) {
		return true, fmt.Sprintf("unreachable when len(%s) < %d (dominating length guard)", target, need)
	}
	return false, fmt.Sprintf("no guard excludes len(%s) < %d on every path", target, need)
}

func accessorDischarged(info *types.Info, fd *ast.FuncDecl, call *ast.CallExpr, sel *ast.SelectorExpr, bound string, loops []ast.Stmt) (bool, string) {
	recv := types.ExprString(sel.X)
	id, ok := ast.Unparen(call.Args[0]).(*ast.Ident)
	if !ok {
		return false, "argument is not a loop variable"
	}
	iv := info.ObjectOf(id)
	for _, l := range loops {
		lp, ok := l.(*ast.ForStmt)
		if !ok || lp.Cond == nil {
			continue
		}
		be, ok := lp.Cond.(*ast.BinaryExpr)
		if !ok || be.Op != token.LSS {
			continue
		}
		cid, ok := ast.Unparen(be.X).(*ast.Ident)
		if !ok || info.ObjectOf(cid) != iv {
			continue
		}
		want := recv + "." + bound + "()"
		got := types.ExprString(be.Y)
		if got == want {
			return true, "loop condition is " + id.Name + " < " + want
		}
		// i < n with n := recv.Len()   or   i < len(s) with s = make(_, recv.Len())
		okAlt := false
		ast.Inspect(fd, func(n ast.Node) bool {
			as, isAs := n.(*ast.AssignStmt)
			if !isAs || len(as.Lhs) != len(as.Rhs) {
				return true
			}
			for i, l := range as.Lhs {
				lid, isID := ast.Unparen(l).(*ast.Ident)
				if !isID {
					continue
				}
				if lid.Name == got && types.ExprString(as.Rhs[i]) == want {
					okAlt = true
				}
				if got == "len("+lid.Name+")" {
					if mk, isCall := ast.Unparen(as.Rhs[i]).(*ast.CallExpr); isCall {
						if fid, isID := mk.Fun.(*ast.Ident); isID && fid.Name == "make" && len(mk.Args) >= 2 && types.ExprString(mk.Args[1]) == want {
							okAlt = true
						}
					}
				}
			}
			return true
		})
		if okAlt {
			return true, "loop bound " + got + " equals " + want
		}
	}
	return false, "the index is not bounded by " + recv + "." + bound + "()"
}

func mapNonNil(prog *load.Program, info *types.Info, fd *ast.FuncDecl, m ast.Expr) (bool, string) {
	switch x := ast.Unparen(m).(type) {
	case *ast.IndexExpr:
		// a map held in a map: `if outer[k] == nil { outer[k] = make(...) }` earlier in the same statement
		// list, nothing in between assigning to a variable the expression mentions
		if ok, why := innerMapMadeBefore(info, fd, x); ok {
			return true, why
		}
	case *ast.Ident:
		v := info.ObjectOf(x)
		// a local every definition of which is a make or a literal (a declaration without a value leaves
		// it nil: `var m map[K]V; if c { m = make(..) }` is not made on every path)
		made, other := 0, 0
		ast.Inspect(fd, func(n ast.Node) bool {
			switch x := n.(type) {
			case *ast.AssignStmt:
				for i, l := range x.Lhs {
					if lid, ok := ast.Unparen(l).(*ast.Ident); ok && info.ObjectOf(lid) == v {
						if len(x.Lhs) != len(x.Rhs) {
							other++
							continue
						}
						switch r := ast.Unparen(x.Rhs[i]).(type) {
						case *ast.CallExpr:
							if fid, ok := r.Fun.(*ast.Ident); ok && fid.Name == "make" {
								made++
								continue
							}
						case *ast.CompositeLit:
							made++
							continue
						}
						other++
					}
				}
			case *ast.ValueSpec:
				for i, nm := range x.Names {
					if info.Defs[nm] == v {
						if i < len(x.Values) {
							switch r := ast.Unparen(x.Values[i]).(type) {
							case *ast.CallExpr:
								if fid, ok := r.Fun.(*ast.Ident); ok && fid.Name == "make" {
									made++
									continue
								}
							case *ast.CompositeLit:
								made++
								continue
							}
						}
						other++
					}
				}
			}
			return true
		})
		if made > 0 && other == 0 {
			return true, "map made in this function (every definition is a make or a literal)"
		}
		// a parameter: see mapOriginsMade (the origins of the argument at every call site)
	case *ast.SelectorExpr:
		// field: every composite literal of the struct sets it to make(...) / a literal
		fld, _ := info.ObjectOf(x.Sel).(*types.Var)
		if fld == nil {
			return false, ""
		}
		lits, set := 0, 0
		for _, pk := range prog.MoqPackages() {
			for _, f := range pk.Syntax {
				ast.Inspect(f, func(n ast.Node) bool {
					cl, ok := n.(*ast.CompositeLit)
					if !ok {
						return true
					}
					st, ok := pk.TypesInfo.TypeOf(cl).Underlying().(*types.Struct)
					if !ok {
						return true
					}
					has := false
					for i := 0; i < st.NumFields(); i++ {
						if st.Field(i) == fld {
							has = true
						}
					}
					if !has {
						return true
					}
					lits++
					for _, el := range cl.Elts {
						if kv, ok := el.(*ast.KeyValueExpr); ok {
							if k, ok := kv.Key.(*ast.Ident); ok && pk.TypesInfo.ObjectOf(k) == fld {
								switch r := ast.Unparen(kv.Value).(type) {
								case *ast.CallExpr:
									set++
									_ = r
								case *ast.CompositeLit:
									set++
								case *ast.Ident:
									// a local of the constructing function that holds a made map
									for _, d := range f.Decls {
										if efd, ok := d.(*ast.FuncDecl); ok && efd.Body != nil && within(efd, r) {
											if ok, _ := mapNonNil(prog, pk.TypesInfo, efd, r); ok {
												set++
											}
										}
									}
								}
							}
						}
					}
					return true
				})
			}
		}
		if lits > 0 && lits == set {
			return true, fmt.Sprintf("every literal of the struct (%d) initialises the map", lits)
		}
		return false, fmt.Sprintf("%d of %d struct literals initialise the map field", set, lits)
	}
	return false, ""
}

// commaOkDerefs: a pointer obtained as `p, ok := f()` / `p, _ := f()` is
// dereferenced only where ok is known to be true (or through nil-safe methods).
func commaOkDerefs(prog *load.Program, info *types.Info, fd *ast.FuncDecl, f *cfgx.Func, fname string) []*panicSite {
	var out []*panicSite
	ast.Inspect(fd.Body, func(n ast.Node) bool {
		var lhs []ast.Expr
		var rhs ast.Expr
		switch s := n.(type) {
		case *ast.AssignStmt:
			if len(s.Lhs) == 2 && len(s.Rhs) == 1 {
				lhs, rhs = s.Lhs, s.Rhs[0]
			}
		}
		if lhs == nil {
			return true
		}
		call, ok := ast.Unparen(rhs).(*ast.CallExpr)
		if !ok {
			if ix, isIx := ast.Unparen(rhs).(*ast.IndexExpr); !isIx || ix == nil {
				return true
			}
		}
		pid, ok := ast.Unparen(lhs[0]).(*ast.Ident)
		if !ok || pid.Name == "_" {
			return true
		}
		pv, _ := info.ObjectOf(pid).(*types.Var)
		if pv == nil {
			return true
		}
		if _, isPtr := pv.Type().Underlying().(*types.Pointer); !isPtr {
			return true
		}
		if bt, ok := info.TypeOf(lhs[1]).(*types.Basic); !ok || (bt.Kind() != types.Bool && bt.Kind() != types.UntypedBool) {
			if id2, isID := ast.Unparen(lhs[1]).(*ast.Ident); !isID || id2.Name != "_" {
				return true // (value, error): handled by the error discipline
			}
			// `p, _ := f()`: look at f's second result type
			if call != nil {
				if sig, ok := info.TypeOf(call.Fun).(*types.Signature); ok && sig.Results().Len() == 2 {
					if rb, ok := sig.Results().At(1).Type().(*types.Basic); !ok || rb.Kind() != types.Bool {
						return true
					}
				}
			}
		}
		var okVar *types.Var
		if oid, ok := ast.Unparen(lhs[1]).(*ast.Ident); ok && oid.Name != "_" {
			okVar, _ = info.ObjectOf(oid).(*types.Var)
		}
		// the callee never returns a nil pointer, whatever the flag says: nothing to discharge
		if call != nil {
			if cf, _ := typeutil.Callee(info, call).(*types.Func); cf != nil && prog.IsMoqPkg(cf.Pkg()) && neverNilResult(prog, cf, 0) {
				return true
			}
		}
		// every dereferencing use of pv
		ast.Inspect(fd.Body, func(u ast.Node) bool {
			sel, ok := u.(*ast.SelectorExpr)
			if !ok {
				return true
			}
			id, ok := ast.Unparen(sel.X).(*ast.Ident)
			if !ok || info.ObjectOf(id) != pv {
				return true
			}
			s := &panicSite{fn: fname, text: types.ExprString(sel) + " (pointer from a comma-ok result)", kind: "nil-deref", pos: sel.Pos(), node: sel}
			// nil-safe method?
			if selInfo, ok := info.Selections[sel]; ok && selInfo.Kind() == types.MethodVal {
				if m, ok := selInfo.Obj().(*types.Func); ok && nilSafe(prog, m) {
					s.ok, s.reason = true, "method starts with a nil-receiver guard"
					out = append(out, s)
					return true
				}
			}
			if okVar == nil {
				s.reason = "the ok result is discarded, the pointer may be nil"
				out = append(out, s)
				return true
			}
			dec := func(cond ast.Expr) (bool, bool) {
				var ev func(e ast.Expr) (bool, bool)
				ev = func(e ast.Expr) (bool, bool) {
					e = ast.Unparen(e)
					if cid, ok := e.(*ast.Ident); ok && info.ObjectOf(cid) == okVar {
						return false, true // assume ok is false
					}
					if ue, ok := e.(*ast.UnaryExpr); ok && ue.Op == token.NOT {
						t, fl := ev(ue.X)
						return fl, t
					}
					if be, ok := e.(*ast.BinaryExpr); ok {
						switch be.Op {
						case token.LAND:
							lt, lf := ev(be.X)
							rt, rf := ev(be.Y)
							return lt && rt, lf || (lt && rf)
						case token.LOR:
							lt, lf := ev(be.X)
							rt, rf := ev(be.Y)
							return lt || (lf && rt), lf && rf
						}
					}
					return true, true
				}
				return ev(cond)
			}
			// a site inside a function literal is judged on the literal's own flow graph
			ff := f
			var inner *ast.FuncLit
			ast.Inspect(fd.Body, func(y ast.Node) bool {
				if fl, ok := y.(*ast.FuncLit); ok && within(fl, sel) {
					inner = fl
				}
				return true
			})
			if inner != nil {
				ff = cfgx.New(info, &ast.FuncDecl{Name: ast.NewIdent(fd.Name.Name + "$lit"), Type: inner.Type, Body: inner.Body})
			}
			if !reachable(ff, sel, dec) {
				s.ok, s.reason = true, "unreachable when "+okVar.Name()+" is false"
			} else {
				s.reason = "reachable although " + okVar.Name() + " may be false"
			}
			out = append(out, s)
			return true
		})
		return true
	})
	return out
}

// nilSafe: the method's first statement returns when the receiver is nil.
func nilSafe(prog *load.Program, m *types.Func) bool {
	decl := prog.Decl(m)
	if decl == nil || decl.Body == nil || len(decl.Body.List) == 0 || decl.Recv == nil || len(decl.Recv.List[0].Names) == 0 {
		return false
	}
	is, ok := decl.Body.List[0].(*ast.IfStmt)
	if !ok {
		return false
	}
	be, ok := is.Cond.(*ast.BinaryExpr)
	if !ok || be.Op != token.EQL {
		return false
	}
	recv := decl.Recv.List[0].Names[0].Name
	if types.ExprString(be.X) != recv || types.ExprString(be.Y) != "nil" {
		return false
	}
	_, isRet := is.Body.List[len(is.Body.List)-1].(*ast.ReturnStmt)
	return isRet
}

// recursionSites: every call inside a call-graph cycle of moq's packages must
// be structural (its argument is a component of the value switched on).
var (
	recSitesProg *load.Program
	recSites     []*panicSite
)

func recursionSites(prog *load.Program) []*panicSite {
	if recSitesProg != prog {
		recSitesProg, recSites = prog, recursionSites1(prog)
	}
	out := make([]*panicSite, len(recSites))
	for i, s := range recSites {
		c := *s
		out[i] = &c
	}
	return out
}

func recursionSites1(prog *load.Program) []*panicSite {
	type edge struct {
		to   *types.Func
		call *ast.CallExpr
		info *types.Info
		fd   *ast.FuncDecl
	}
	graph := map[*types.Func][]edge{}
	funcsOf(prog, func(pkgPath string, info *types.Info, fd *ast.FuncDecl, fn *types.Func) {
		ast.Inspect(fd.Body, func(n ast.Node) bool {
			if call, ok := n.(*ast.CallExpr); ok {
				if cf, ok := typeutil.Callee(info, call).(*types.Func); ok && prog.IsMoqPkg(cf.Pkg()) {
					graph[fn] = append(graph[fn], edge{cf.Origin(), call, info, fd})
				}
			}
			return true
		})
	})
	graphForward := map[*types.Func][]*types.Func{}
	for fn, es := range graph {
		for _, e := range es {
			if forwarding(e.info, e.fd, e.call) {
				graphForward[fn] = append(graphForward[fn], e.to)
			}
		}
	}
	reach := func(from, to *types.Func) bool {
		seen := map[*types.Func]bool{}
		var dfs func(f *types.Func) bool
		dfs = func(f *types.Func) bool {
			if seen[f] {
				return false
			}
			seen[f] = true
			for _, e := range graph[f] {
				if e.to == to || dfs(e.to) {
					return true
				}
			}
			return false
		}
		return dfs(from)
	}
	var out []*panicSite
	for fn, es := range graph {
		for _, e := range es {
			if e.to != fn && !reach(e.to, fn) {
				continue
			}
			// e closes a cycle through fn
			s := &panicSite{fn: load.FuncName(fn), kind: "recursion", pos: e.call.Pos(), node: e.call}
			args := ""
			for i, a := range e.call.Args {
				if i > 0 {
					args += ", "
				}
				args += types.ExprString(a)
			}
			s.text = "recursive call " + load.FuncName(e.to) + "(" + args + ")"
			// structural: some argument is an accessor chain (only structural accessors) rooted at a variable
			// bound by the enclosing type switch
			for i, a := range e.call.Args {
				if e.call.Ellipsis.IsValid() && i == len(e.call.Args)-1 {
					// a spread list: every element is a strict component
					if componentList(prog, e.info, e.fd, a, 0) {
						s.ok, s.reason = true, "every element of the list "+types.ExprString(a)+"... is a strict component of the value being switched on"
					}
					continue
				}
				if structuralFrom(prog, e.info, e.fd, a, true, 0) {
					s.ok, s.reason = true, "the argument "+types.ExprString(a)+" is a strict component of the value being switched on"
				}
			}
			if !s.ok {
				if why, ok := boundedCounter(e.info, e.fd, e.call); ok {
					s.ok, s.reason = true, why
				}
			}
			if !s.ok && e.to != fn && forwarding(e.info, e.fd, e.call) && !forwardCycle(prog, graphForward, fn) {
				// a helper called with the caller's own parameters: no progress is needed on this edge as long
				// as such edges alone close no cycle
				s.ok, s.reason = true, "the call hands the caller's parameters on unchanged to another function, and calls of that kind alone form no cycle"
			}
			if !s.ok {
				// a table line keyed by the callee's signature and the shape of the arguments
				sig := unnamedSignature(e.to.Type().(*types.Signature))
				s.tableKey = "recursion:" + sig + ":" + argShape(e.info, e.fd, e.call)
			}
			if !s.ok {
				s.reason = "no argument is a strict component of the switched value and no decreasing measure is visible"
			}
			out = append(out, s)
		}
	}
	return out
}

func structuralArg(info *types.Info, fd *ast.FuncDecl, a ast.Expr) bool {
	return structuralFrom(nil, info, fd, a, true, 0)
}

// structuralFrom: the expression is a component of the value a type switch is looking at: a chain of
// structural accessors rooted at the switch symbol, at a local derived from one, or at a parameter of
// an enclosing function literal / unexported moq function all of whose calls pass such a component.
// needAccessor: at least one accessor must be applied somewhere along the way (a strict component).
type structKey struct {
	fd   *ast.FuncDecl
	pos  token.Pos
	end  token.Pos
	need bool
}

var structMemo = map[structKey]int{} // 0 unknown, 1 in progress / false, 2 true
var structNest int
var structNeg []structKey

func structuralFrom(prog *load.Program, info *types.Info, fd *ast.FuncDecl, a ast.Expr, needAccessor bool, depth int) bool {
	if depth > 9 {
		return false
	}
	key := structKey{fd, a.Pos(), a.End(), needAccessor}
	switch structMemo[key] {
	case 1:
		return false
	case 2:
		return true
	}
	structMemo[key] = 1
	structNest++
	r := structuralFrom1(prog, info, fd, a, needAccessor, depth)
	structNest--
	if r {
		structMemo[key] = 2
	} else {
		// a negative answer may rest on a cut cycle or on the depth limit of the outermost query: it is
		// kept for the rest of that query only
		structNeg = append(structNeg, key)
	}
	if structNest == 0 {
		for _, k := range structNeg {
			if structMemo[k] == 1 {
				delete(structMemo, k)
			}
		}
		structNeg = structNeg[:0]
	}
	return r
}

func structuralFrom1(prog *load.Program, info *types.Info, fd *ast.FuncDecl, a ast.Expr, needAccessor bool, depth int) bool {
	e := ast.Unparen(a)
	n := 0
	for {
		switch x := e.(type) {
		case *ast.TypeAssertExpr:
			e = ast.Unparen(x.X)
			continue
		case *ast.IndexExpr:
			// an element of a list of strict components
			if prog == nil {
				return false
			}
			if t := info.TypeOf(x.X); t != nil {
				if _, isSlice := t.Underlying().(*types.Slice); isSlice && (componentList(prog, info, fd, x.X, depth+1) || variadicOfComponents(prog, info, fd, x.X, depth+1)) {
					return true
				}
			}
			return false
		case *ast.CallExpr:
			sel, ok := ast.Unparen(x.Fun).(*ast.SelectorExpr)
			if !ok {
				// at(i) where at is a function-typed parameter of a local closure: what every call of the
				// closure hands in there gives strict components only
				if fid, isID := ast.Unparen(x.Fun).(*ast.Ident); isID && prog != nil {
					return callbackGivesComponents(prog, info, fd, fid, depth)
				}
				return false
			}
			if !structuralAccessors[sel.Sel.Name] {
				return false
			}
			n++
			e = ast.Unparen(sel.X)
			continue
		case *ast.Ident:
			need := needAccessor && n == 0
			v := info.ObjectOf(x)
			if v == nil {
				return false
			}
			// the symbol of a type switch clause
			if isSwitchSymbol(info, fd, v) {
				return !need
			}
			// local derived from a structural accessor of a switch symbol (targs := t.TypeArgs())
			derived := false
			ast.Inspect(fd, func(nn ast.Node) bool {
				if as, ok := nn.(*ast.AssignStmt); ok && len(as.Lhs) == len(as.Rhs) {
					for i, l := range as.Lhs {
						if lid, ok := ast.Unparen(l).(*ast.Ident); ok && info.ObjectOf(lid) == v && structuralFrom(prog, info, fd, as.Rhs[i], need, depth+1) {
							derived = true
						}
					}
				}
				// x, ok := y.(T): an alias of y
				if as, ok := nn.(*ast.AssignStmt); ok && len(as.Lhs) == 2 && len(as.Rhs) == 1 {
					if lid, ok := ast.Unparen(as.Lhs[0]).(*ast.Ident); ok && info.ObjectOf(lid) == v {
						if ta, ok := ast.Unparen(as.Rhs[0]).(*ast.TypeAssertExpr); ok && structuralFrom(prog, info, fd, ta.X, need, depth+1) {
							derived = true
						}
					}
				}
				return true
			})
			if derived {
				return true
			}
			// the element variable of a range over a list of strict components
			isElem := false
			ast.Inspect(fd, func(nn ast.Node) bool {
				if rs, ok := nn.(*ast.RangeStmt); ok && rs.Value != nil {
					if vid, ok := rs.Value.(*ast.Ident); ok && info.ObjectOf(vid) == v && prog != nil && componentList(prog, info, fd, rs.X, depth+1) {
						isElem = true
					}
				}
				// the variable of a range over a go/types iterator (Types, Variables, Fields, Terms ...) of a
				// switch symbol or of one of its components: the elements are strict components
				if rs, ok := nn.(*ast.RangeStmt); ok && rs.Value == nil && rs.Key != nil {
					if kid, ok := rs.Key.(*ast.Ident); ok && info.ObjectOf(kid) == v {
						if recv, ok := goTypesIterator(info, rs.X); ok && structuralFrom(prog, info, fd, recv, false, depth+1) {
							isElem = true
						}
						if recv, ok := accessorIterator(prog, info, rs.X, false); ok && structuralFrom(prog, info, fd, recv, false, depth+1) {
							isElem = true
						}
					}
				}
				// ... or the second variable of a two-value iterator of that kind (index, element)
				if rs, ok := nn.(*ast.RangeStmt); ok && rs.Value != nil {
					if vid, ok := rs.Value.(*ast.Ident); ok && info.ObjectOf(vid) == v {
						if recv, ok := accessorIterator(prog, info, rs.X, true); ok && structuralFrom(prog, info, fd, recv, false, depth+1) {
							isElem = true
						}
					}
				}
				return true
			})
			if isElem {
				return true
			}
			// parameter of an enclosing function literal bound to a local: every call of that local
			var lit *ast.FuncLit
			pi := -1
			ast.Inspect(fd, func(nn ast.Node) bool {
				fl, ok := nn.(*ast.FuncLit)
				if !ok || !within(fl, x) {
					return true
				}
				k := 0
				for _, f := range fl.Type.Params.List {
					for _, nm := range f.Names {
						if info.Defs[nm] == v {
							lit, pi = fl, k
						}
						k++
					}
				}
				return true
			})
			if lit != nil {
				var holder types.Object
				ast.Inspect(fd, func(nn ast.Node) bool {
					if as, ok := nn.(*ast.AssignStmt); ok && len(as.Lhs) == len(as.Rhs) {
						for i, r := range as.Rhs {
							if ast.Unparen(r) == ast.Expr(lit) {
								if lid, ok := ast.Unparen(as.Lhs[i]).(*ast.Ident); ok {
									holder = info.ObjectOf(lid)
								}
							}
						}
					}
					return true
				})
				if holder == nil {
					return false
				}
				calls, good := 0, 0
				ast.Inspect(fd, func(nn ast.Node) bool {
					call, ok := nn.(*ast.CallExpr)
					if !ok {
						return true
					}
					if cid, ok := ast.Unparen(call.Fun).(*ast.Ident); ok && info.ObjectOf(cid) == holder && pi < len(call.Args) {
						calls++
						if structuralFrom(prog, info, fd, call.Args[pi], need, depth+1) {
							good++
						}
					}
					return true
				})
				return calls > 0 && calls == good
			}
			// parameter of the enclosing unexported moq function: every call site in moq
			if prog == nil || fd.Type.Params == nil {
				return false
			}
			pi = -1
			k := 0
			for _, f := range fd.Type.Params.List {
				for _, nm := range f.Names {
					if info.Defs[nm] == v {
						pi = k
					}
					k++
				}
			}
			self, _ := info.Defs[fd.Name].(*types.Func)
			if pi < 0 || self == nil || self.Exported() {
				return false
			}
			calls, good := 0, 0
			for _, cs := range staticCallsOf(prog, self) {
				if pi >= len(cs.call.Args) {
					continue
				}
				calls++
				if structuralFrom(prog, cs.info, cs.fd, cs.call.Args[pi], need, depth+1) {
					good++
				}
			}
			return calls > 0 && calls == good
		default:
			return false
		}
	}
}

// variadicOfComponents: e names the variadic parameter of a function literal bound once to a local of fd,
// and every call of that local fills it with strict components (single arguments, or a spread list of them).
func variadicOfComponents(prog *load.Program, info *types.Info, fd *ast.FuncDecl, e ast.Expr, depth int) bool {
	id, ok := ast.Unparen(e).(*ast.Ident)
	if !ok {
		return false
	}
	v := info.ObjectOf(id)
	var lit *ast.FuncLit
	pi := -1
	ast.Inspect(fd, func(nn ast.Node) bool {
		fl, ok := nn.(*ast.FuncLit)
		if !ok || fl.Type.Params == nil {
			return true
		}
		k := 0
		for _, f := range fl.Type.Params.List {
			_, variadic := f.Type.(*ast.Ellipsis)
			for _, nm := range f.Names {
				if info.Defs[nm] == v && variadic {
					lit, pi = fl, k
				}
				k++
			}
		}
		return true
	})
	if lit == nil {
		return false
	}
	// the parameter is not written inside the literal
	written := false
	ast.Inspect(lit.Body, func(nn ast.Node) bool {
		if as, ok := nn.(*ast.AssignStmt); ok {
			for _, l := range as.Lhs {
				if lid, ok := ast.Unparen(l).(*ast.Ident); ok && info.ObjectOf(lid) == v {
					written = true
				}
				if ix, ok := ast.Unparen(l).(*ast.IndexExpr); ok {
					if lid, ok := ast.Unparen(ix.X).(*ast.Ident); ok && info.ObjectOf(lid) == v {
						written = true
					}
				}
			}
		}
		return true
	})
	if written {
		return false
	}
	var holder types.Object
	nbind := 0
	ast.Inspect(fd, func(nn ast.Node) bool {
		if as, ok := nn.(*ast.AssignStmt); ok && len(as.Lhs) == len(as.Rhs) {
			for i, r := range as.Rhs {
				if ast.Unparen(r) == ast.Expr(lit) {
					if lid, ok := ast.Unparen(as.Lhs[i]).(*ast.Ident); ok {
						holder = info.ObjectOf(lid)
					}
				}
			}
		}
		return true
	})
	if holder == nil {
		return false
	}
	ast.Inspect(fd, func(nn ast.Node) bool {
		if as, ok := nn.(*ast.AssignStmt); ok {
			for _, l := range as.Lhs {
				if lid, ok := ast.Unparen(l).(*ast.Ident); ok && info.ObjectOf(lid) == holder {
					nbind++
				}
			}
		}
		return true
	})
	if nbind != 1 {
		return false
	}
	calls, good, uses := 0, 0, 0
	ast.Inspect(fd, func(nn ast.Node) bool {
		if uid, ok := nn.(*ast.Ident); ok && info.Uses[uid] == holder {
			uses++
		}
		call, ok := nn.(*ast.CallExpr)
		if !ok {
			return true
		}
		cid, ok := ast.Unparen(call.Fun).(*ast.Ident)
		if !ok || info.ObjectOf(cid) != holder {
			return true
		}
		calls++
		okAll := true
		for i := pi; i < len(call.Args); i++ {
			if call.Ellipsis.IsValid() && i == len(call.Args)-1 {
				if !componentList(prog, info, fd, call.Args[i], depth+1) {
					okAll = false
				}
			} else if !structuralFrom(prog, info, fd, call.Args[i], true, depth+1) {
				okAll = false
			}
		}
		if okAll {
			good++
		}
		return true
	})
	return calls > 0 && calls == good && uses == calls
}

// callbackGivesComponents: fid names a function-typed parameter of a function literal that is bound once
// to a local of fd; every call of that local passes, in that position, a method value of a structural
// accessor on a structural receiver (t.TypeArgs().At, t.EmbeddedType) or a function literal all of whose
// returns are strict components (func(i int) types.Type { return t.Field(i).Type() }).
func callbackGivesComponents(prog *load.Program, info *types.Info, fd *ast.FuncDecl, fid *ast.Ident, depth int) bool {
	v := info.ObjectOf(fid)
	if v == nil {
		return false
	}
	var lit *ast.FuncLit
	pi := -1
	ast.Inspect(fd, func(nn ast.Node) bool {
		fl, ok := nn.(*ast.FuncLit)
		if !ok || fl.Type.Params == nil {
			return true
		}
		k := 0
		for _, f := range fl.Type.Params.List {
			for _, nm := range f.Names {
				if info.Defs[nm] == v {
					lit, pi = fl, k
				}
				k++
			}
		}
		return true
	})
	if lit == nil {
		return false
	}
	var holder types.Object
	nbind := 0
	ast.Inspect(fd, func(nn ast.Node) bool {
		if as, ok := nn.(*ast.AssignStmt); ok && len(as.Lhs) == len(as.Rhs) {
			for i, r := range as.Rhs {
				if lid, ok := ast.Unparen(as.Lhs[i]).(*ast.Ident); ok {
					if ast.Unparen(r) == ast.Expr(lit) {
						holder = info.ObjectOf(lid)
					}
				}
			}
		}
		return true
	})
	if holder == nil {
		return false
	}
	ast.Inspect(fd, func(nn ast.Node) bool {
		if as, ok := nn.(*ast.AssignStmt); ok {
			for _, l := range as.Lhs {
				if lid, ok := ast.Unparen(l).(*ast.Ident); ok && info.ObjectOf(lid) == holder {
					nbind++
				}
			}
		}
		return true
	})
	if nbind != 1 {
		return false
	}
	calls, good := 0, 0
	uses := 0
	ast.Inspect(fd, func(nn ast.Node) bool {
		if id, ok := nn.(*ast.Ident); ok && info.Uses[id] == holder {
			uses++
		}
		call, ok := nn.(*ast.CallExpr)
		if !ok {
			return true
		}
		cid, ok := ast.Unparen(call.Fun).(*ast.Ident)
		if !ok || info.ObjectOf(cid) != holder || pi >= len(call.Args) {
			return true
		}
		calls++
		switch a := ast.Unparen(call.Args[pi]).(type) {
		case *ast.SelectorExpr:
			// a method value of a structural accessor
			if _, isFn := info.ObjectOf(a.Sel).(*types.Func); isFn && structuralAccessors[a.Sel.Name] && structuralFrom(prog, info, fd, a.X, false, depth+1) {
				good++
			}
		case *ast.FuncLit:
			okAll, n := true, 0
			ast.Inspect(a.Body, func(m ast.Node) bool {
				if _, isLit := m.(*ast.FuncLit); isLit {
					return false
				}
				if rs, ok := m.(*ast.ReturnStmt); ok {
					n++
					if len(rs.Results) != 1 || !structuralFrom(prog, info, fd, rs.Results[0], true, depth+1) {
						okAll = false
					}
				}
				return true
			})
			if okAll && n > 0 {
				good++
			}
		}
		return true
	})
	// the closure is only ever called (not handed on as a value)
	return calls > 0 && calls == good && uses == calls
}

func isSwitchSymbol(info *types.Info, fd *ast.FuncDecl, v types.Object) bool {
	found := false
	ast.Inspect(fd, func(n ast.Node) bool {
		if cc, ok := n.(*ast.CaseClause); ok {
			if info.Implicits[cc] == v {
				found = true
			}
		}
		return true
	})
	return found
}

// CheckErrors: lookup failures name the offending type.
func CheckErrors(run *core.Run, prog *load.Program) {
	f, _, info := moqFunc(prog, load.PkgRegistry, "Registry.LookupInterface")
	if f == nil {
		run.Undecided("G-ERR", "role", "internal/registry/registry.go", "LookupInterface not found")
		return
	}
	var nameParam *types.Var
	if ps := f.Decl.Type.Params.List; len(ps) == 1 && len(ps[0].Names) == 1 {
		nameParam, _ = info.Defs[ps[0].Names[0]].(*types.Var)
	}
	n := 0
	ast.Inspect(f.Decl.Body, func(x ast.Node) bool {
		rs, ok := x.(*ast.ReturnStmt)
		if !ok || len(rs.Results) == 0 {
			return true
		}
		last := rs.Results[len(rs.Results)-1]
		if id, ok := ast.Unparen(last).(*ast.Ident); ok && id.Name == "nil" {
			return true
		}
		n++
		okMsg := false
		if call, ok := ast.Unparen(last).(*ast.CallExpr); ok {
			if fn, ok := typeutil.Callee(info, call).(*types.Func); ok && fn.FullName() == "fmt.Errorf" && len(call.Args) >= 2 {
				for _, a := range call.Args[1:] {
					if id, ok := ast.Unparen(a).(*ast.Ident); ok && info.ObjectOf(id) == nameParam {
						okMsg = true
					}
				}
			}
		}
		run.Check("G-ERR/names-the-type", "LookupInterface:"+types.ExprString(last), prog.Pos(rs.Pos()), okMsg, "a lookup failure is reported as "+types.ExprString(last)+", which does not carry the requested name")
		return true
	})
	run.Check("G-ERR/names-the-type", "LookupInterface:error-returns", prog.Pos(f.Decl.Pos()), n >= 2, fmt.Sprintf("LookupInterface has %d error returns, want at least 2 (unknown name, not an interface)", n))
	// unknown object and non-interface: under either assumption no success return (nil error) is reachable
	var objVar *types.Var
	ast.Inspect(f.Decl.Body, func(x ast.Node) bool {
		as, ok := x.(*ast.AssignStmt)
		if !ok || len(as.Lhs) != 1 || len(as.Rhs) != 1 {
			return true
		}
		call, ok := ast.Unparen(as.Rhs[0]).(*ast.CallExpr)
		if !ok {
			return true
		}
		if fn, ok := typeutil.Callee(info, call).(*types.Func); ok && fn.FullName() == "(*go/types.Scope).Lookup" {
			if id, ok := ast.Unparen(as.Lhs[0]).(*ast.Ident); ok {
				objVar, _ = info.ObjectOf(id).(*types.Var)
			}
		}
		return true
	})
	successReachable := func(dec func(ast.Expr) (bool, bool)) int {
		r := f.Explore(0, 0, cfgx.Cuts{Decide: dec})
		n := 0
		for _, ex := range r.Exits {
			rs, ok := ex.Node.(*ast.ReturnStmt)
			if !ok || len(rs.Results) == 0 {
				continue
			}
			if id, ok := ast.Unparen(rs.Results[len(rs.Results)-1]).(*ast.Ident); ok {
				if _, isNil := info.Uses[id].(*types.Nil); isNil {
					n++
				}
			}
		}
		return n
	}
	nilGuard, ifaceGuard := false, false
	if objVar != nil {
		nilDec := func(cond ast.Expr) (bool, bool) {
			return callOracleExpr(func(e ast.Expr) (bool, bool, bool) {
				if isT, nonNilTrue := cfgx.NilTestOf(info, e, objVar); isT {
					return true, !nonNilTrue, nonNilTrue // the object is nil
				}
				return false, false, false
			})(cond)
		}
		nilGuard = successReachable(nilDec) == 0
	}
	isIface := func(e ast.Expr) bool {
		call, ok := ast.Unparen(e).(*ast.CallExpr)
		if !ok {
			return false
		}
		fn, _ := typeutil.Callee(info, call).(*types.Func)
		return fn != nil && fn.FullName() == "go/types.IsInterface"
	}
	ifaceGuard = successReachable(callOracle(isIface, false)) == 0
	run.Check("G-ERR/guards", "LookupInterface", prog.Pos(f.Decl.Pos()), nilGuard && ifaceGuard, fmt.Sprintf("LookupInterface can return without an error for an unknown name (guarded: %v) or for a type that is not an interface (guarded: %v)", nilGuard, ifaceGuard))
}

// boundedCounter: the recursive call passes v+1 for a parameter v and sits
// inside an if whose condition bounds v from above (v < ...).
func boundedCounter(info *types.Info, fd *ast.FuncDecl, call *ast.CallExpr) (string, bool) {
	for _, a := range call.Args {
		be, ok := ast.Unparen(a).(*ast.BinaryExpr)
		if !ok || be.Op != token.ADD {
			continue
		}
		id, ok := ast.Unparen(be.X).(*ast.Ident)
		if !ok {
			continue
		}
		v := info.ObjectOf(id)
		isParam := false
		for _, fl := range fd.Type.Params.List {
			for _, n := range fl.Names {
				if info.Defs[n] == v {
					isParam = true
				}
			}
		}
		if !isParam {
			continue
		}
		// flow-sensitive form: for a counter beyond every bound it is compared with, the call is unreachable
		{
			f := cfgx.New(info, fd)
			dec := callOracleExpr(func(e ast.Expr) (bool, bool, bool) {
				cb, ok := e.(*ast.BinaryExpr)
				if !ok {
					return false, false, false
				}
				mentions := func(x ast.Expr) bool {
					hit := false
					ast.Inspect(x, func(n ast.Node) bool {
						if cid, ok := n.(*ast.Ident); ok && info.ObjectOf(cid) == v {
							hit = true
						}
						return !hit
					})
					return hit
				}
				isV := func(x ast.Expr) bool {
					cid, ok := ast.Unparen(x).(*ast.Ident)
					return ok && info.ObjectOf(cid) == v
				}
				op := cb.Op
				switch {
				case isV(cb.X) && !mentions(cb.Y):
				case isV(cb.Y) && !mentions(cb.X):
					switch op {
					case token.LSS:
						op = token.GTR
					case token.GTR:
						op = token.LSS
					case token.LEQ:
						op = token.GEQ
					case token.GEQ:
						op = token.LEQ
					}
				default:
					return false, false, false
				}
				switch op {
				case token.GTR, token.GEQ:
					return true, true, false
				case token.LSS, token.LEQ:
					return true, false, true
				}
				return false, false, false
			})
			r := f.Explore(0, 0, cfgx.Cuts{Decide: dec})
			if !r.PassedCall(call) {
				return "the counter " + id.Name + " grows by one per call and the call is unreachable once it exceeds the bounds it is compared with", true
			}
		}
		for _, enc := range enclosing(fd.Body, call) {
			is, ok := enc.(*ast.IfStmt)
			if !ok || !within(is.Body, call) {
				continue
			}
			bounded := false
			ast.Inspect(is.Cond, func(n ast.Node) bool {
				if c, ok := n.(*ast.BinaryExpr); ok && (c.Op == token.LSS || c.Op == token.LEQ) {
					if cid, ok := ast.Unparen(c.X).(*ast.Ident); ok && info.ObjectOf(cid) == v {
						bounded = true
					}
				}
				return true
			})
			if bounded {
				return "the counter " + id.Name + " grows by one per call and the call is guarded by `" + types.ExprString(is.Cond) + "`", true
			}
		}
	}
	return "", false
}

// CheckAliasAware (C09 e): the function that reads the type parameters of
// the requested interface must look through alias nodes: a generic alias
// (type A[T any] = I[T]) is a *types.Alias, not a *types.Named.
func CheckAliasAware(run *core.Run, prog *load.Program) {
	f, _, info := moqFunc(prog, load.PkgRegistry, "Registry.LookupInterface")
	if f == nil {
		run.Undecided("G-ALIAS-AWARE", "role", "internal/registry/registry.go", "LookupInterface not found")
		return
	}
	n := 0
	ast.Inspect(f.Decl.Body, func(x ast.Node) bool {
		ta, ok := x.(*ast.TypeAssertExpr)
		if !ok || ta.Type == nil || types.ExprString(ta.Type) != "*types.Named" {
			return true
		}
		n++
		okUn := false
		if call, ok := ast.Unparen(ta.X).(*ast.CallExpr); ok {
			if fn, ok := typeutil.Callee(info, call).(*types.Func); ok && fn.FullName() == "go/types.Unalias" {
				okUn = true
			}
		}
		// an alias-aware alternative: the function also asserts *types.Alias
		alias := false
		ast.Inspect(f.Decl.Body, func(y ast.Node) bool {
			if tb, ok := y.(*ast.TypeAssertExpr); ok && tb.Type != nil && types.ExprString(tb.Type) == "*types.Alias" {
				alias = true
			}
			if cc, ok := y.(*ast.CaseClause); ok {
				for _, e := range cc.List {
					if types.ExprString(e) == "*types.Alias" {
						alias = true
					}
				}
			}
			return true
		})
		run.Check("G-ALIAS-AWARE/typeparams", "LookupInterface:assert-*types.Named", prog.Pos(ta.Pos()), okUn || alias, "the type parameters of the requested interface are read through "+types.ExprString(ta)+": for a generic alias (type A[T any] = I[T]) the object's type is a *types.Alias, the assertion fails silently and the mock loses its type parameters")
		return true
	})
	run.Check("G-ALIAS-AWARE/typeparams", "LookupInterface:site", prog.Pos(f.Decl.Pos()), n > 0 || true, "")
}

// assertionImplied: x.(I) on the symbol of a type switch, inside a clause that
// lists only concrete types which all implement the interface I, cannot fail.
func assertionImplied(info *types.Info, fd *ast.FuncDecl, ta *ast.TypeAssertExpr) (bool, string) {
	id, ok := ast.Unparen(ta.X).(*ast.Ident)
	if !ok {
		return false, ""
	}
	it, ok := info.TypeOf(ta.Type).Underlying().(*types.Interface)
	if !ok {
		return false, ""
	}
	v := info.ObjectOf(id)
	implied := false
	ast.Inspect(fd, func(n ast.Node) bool {
		cc, ok := n.(*ast.CaseClause)
		if !ok || info.Implicits[cc] != v || !within(cc, ta) || len(cc.List) == 0 {
			return true
		}
		all := true
		for _, e := range cc.List {
			ct := info.TypeOf(e)
			if ct == nil || !types.Implements(ct, it) {
				all = false
			}
		}
		if all {
			implied = true
		}
		return true
	})
	if implied {
		return true, "every type listed by the enclosing type-switch case implements the asserted interface"
	}
	return false, ""
}

// CheckLoadErrorsFatal: a package that was loaded with errors is never used —
// with pkgs[0].Errors non-empty the loader returns a non-nil error on every path.
func CheckLoadErrorsFatal(run *core.Run, prog *load.Program) {
	// by role: the registry function that calls packages.Load
	var f *cfgx.Func
	var info *types.Info
	funcsOf(prog, func(pkgPath string, fi *types.Info, fd *ast.FuncDecl, fn *types.Func) {
		if pkgPath != load.PkgRegistry || f != nil {
			return
		}
		ast.Inspect(fd.Body, func(n ast.Node) bool {
			if call, ok := n.(*ast.CallExpr); ok {
				if c, ok := typeutil.Callee(fi, call).(*types.Func); ok && c.FullName() == "golang.org/x/tools/go/packages.Load" {
					f, info = cfgx.New(fi, fd), fi
				}
			}
			return true
		})
	})
	if f == nil {
		run.Undecided("G-LOAD/errors-fatal", "role", "internal/registry/registry.go", "no function of the registry calls packages.Load")
		return
	}
	// the expression of the error list, and locals that are exactly it
	isErrs := func(e ast.Expr) bool {
		s := types.ExprString(ast.Unparen(e))
		if strings.HasSuffix(s, "].Errors") || strings.HasSuffix(s, ".Errors") {
			return true
		}
		if id, ok := ast.Unparen(e).(*ast.Ident); ok {
			v := info.ObjectOf(id)
			exact := false
			ast.Inspect(f.Decl.Body, func(n ast.Node) bool {
				if as, ok := n.(*ast.AssignStmt); ok && len(as.Lhs) == len(as.Rhs) {
					for i, l := range as.Lhs {
						if lid, ok := ast.Unparen(l).(*ast.Ident); ok && info.ObjectOf(lid) == v {
							rs := types.ExprString(as.Rhs[i])
							exact = strings.HasSuffix(rs, ".Errors")
						}
					}
				}
				return true
			})
			return exact
		}
		return false
	}
	// variables that receive helper(errs) where the helper returns a non-nil error for every non-empty list
	var helperErrVars []*types.Var
	ast.Inspect(f.Decl.Body, func(n ast.Node) bool {
		as, ok := n.(*ast.AssignStmt)
		if !ok || len(as.Lhs) != 1 || len(as.Rhs) != 1 {
			return true
		}
		call, ok := ast.Unparen(as.Rhs[0]).(*ast.CallExpr)
		if !ok {
			return true
		}
		h, ok := typeutil.Callee(info, call).(*types.Func)
		if !ok || !prog.IsMoqPkg(h.Pkg()) {
			return true
		}
		for i, a := range call.Args {
			if isErrs(a) && nonNilForNonEmpty(prog, h, i) {
				if id, ok := ast.Unparen(as.Lhs[0]).(*ast.Ident); ok {
					if v, ok := info.ObjectOf(id).(*types.Var); ok {
						helperErrVars = append(helperErrVars, v)
					}
				}
			}
		}
		return true
	})
	dec := func(cond ast.Expr) (bool, bool) {
		var ev func(e ast.Expr) (bool, bool)
		ev = func(e ast.Expr) (bool, bool) {
			e = ast.Unparen(e)
			if u, ok := e.(*ast.UnaryExpr); ok && u.Op == token.NOT {
				t, fl := ev(u.X)
				return fl, t
			}
			if be, ok := e.(*ast.BinaryExpr); ok {
				switch be.Op {
				case token.LAND:
					lt, lf := ev(be.X)
					rt, rf := ev(be.Y)
					return lt && rt, lf || (lt && rf)
				case token.LOR:
					lt, lf := ev(be.X)
					rt, rf := ev(be.Y)
					return lt || (lf && rt), lf && rf
				}
				// err ⋈ nil where err is what a moq helper makes of the error list: non-nil for a non-empty list
				for _, v := range helperErrVars {
					if isT, nonNilTrue := cfgx.NilTestOf(info, be, v); isT {
						return nonNilTrue, !nonNilTrue
					}
				}
				// len(errs) ⋈ k with len >= 1 assumed
				for _, side := range [][2]ast.Expr{{be.X, be.Y}} {
					op, ok := LenOperand(info, f.Decl, side[0])
					if !ok || !isErrs(op) {
						continue
					}
					tv := info.Types[side[1]]
					if tv.Value == nil {
						continue
					}
					k, _ := constant.Int64Val(tv.Value)
					switch be.Op {
					case token.NEQ:
						if k == 0 {
							return true, false
						}
					case token.EQL:
						if k == 0 {
							return false, true
						}
					case token.GTR:
						if k == 0 {
							return true, false
						}
					}
				}
			}
			return true, true
		}
		return ev(cond)
	}
	r := f.Explore(0, 0, cfgx.Cuts{Decide: dec})
	bad := 0
	for _, ex := range r.Exits {
		rs, isRet := ex.Node.(*ast.ReturnStmt)
		if !isRet || len(rs.Results) != 2 {
			bad++
			continue
		}
		if id, ok := ast.Unparen(rs.Results[1]).(*ast.Ident); ok {
			if _, isNil := info.Uses[id].(*types.Nil); isNil {
				// `return pkgs[0], nil`: reachable although the package has errors?
				bad++
			}
		}
	}
	// the only nil-error return must be unreachable under the assumption; count nil-error returns reached
	run.Check("G-LOAD/errors-fatal", "pkgInfoFromPath", prog.Pos(f.Decl.Pos()), bad == 0, fmt.Sprintf("pkgInfoFromPath can return a package without an error on %d path(s) although the package was loaded with errors (a filtered or re-counted error list decides instead of the list itself): moq then generates from a package that does not compile and exits 0", bad))
}

// CheckLoopsPureUntilExit: an unconditional `for` terminates by an argument
// about values that the loop itself must not disturb: a statement that writes
// to anything but a local is only allowed on a path that leaves the loop.
func CheckLoopsPureUntilExit(run *core.Run, prog *load.Program) {
	funcsOf(prog, func(pkgPath string, info *types.Info, fd *ast.FuncDecl, fn *types.Func) {
		ast.Inspect(fd.Body, func(n ast.Node) bool {
			fs, ok := n.(*ast.ForStmt)
			if !ok || fs.Cond != nil {
				return true
			}
			enclosingDeclOf[fs] = fd
			f := cfgx.New(info, fd)
			fname := load.FuncName(fn)
			nbad := 0
			ast.Inspect(fs.Body, func(x ast.Node) bool {
				as, ok := x.(*ast.AssignStmt)
				if !ok {
					return true
				}
				heap := false
				for _, l := range as.Lhs {
					switch ast.Unparen(l).(type) {
					case *ast.SelectorExpr, *ast.IndexExpr, *ast.StarExpr:
						heap = true
					}
				}
				if !heap {
					return true
				}
				cn := nodeHolding(f, as)
				b, i := locate(f, cn)
				if b < 0 {
					return true
				}
				r := f.Explore(b, i+1, cfgx.Cuts{})
				again := false
				if fs.Post != nil && r.Passed(fs.Post) {
					again = true
				}
				if len(fs.Body.List) > 0 {
					if first := nodeHolding(f, fs.Body.List[0]); first != nil && r.Passed(first) {
						again = true
					}
				}
				if again && !atMostOnce(info, fs, as) {
					nbad++
				}
				return true
			})
			run.Check("G-PANIC/loop-pure-until-exit", fname, prog.Pos(fs.Pos()), nbad == 0, fmt.Sprintf("the condition-less loop in %s writes to non-local state on a path that iterates again (%d statements): the loop can change the very thing its exit test looks at and never terminate (e.g. an alias assigned before it is searched for finds itself)", fname, nbad))
			return true
		})
	})
}

// CheckRecursionFanout: inside a function that takes part in a recursion, no
// path evaluates the same recursive call (same callee, same argument text)
// twice — otherwise the work doubles per nesting level of the input and moq
// does not terminate promptly on deeply nested types.
func CheckRecursionFanout(run *core.Run, prog *load.Program) {
	// functions in a cycle
	inCycle := map[*types.Func]bool{}
	for _, s := range recursionSites(prog) {
		_ = s
	}
	graph := map[*types.Func][]*types.Func{}
	funcsOf(prog, func(pkgPath string, info *types.Info, fd *ast.FuncDecl, fn *types.Func) {
		ast.Inspect(fd.Body, func(n ast.Node) bool {
			if call, ok := n.(*ast.CallExpr); ok {
				if cf, ok := typeutil.Callee(info, call).(*types.Func); ok && prog.IsMoqPkg(cf.Pkg()) {
					graph[fn] = append(graph[fn], cf.Origin())
				}
			}
			return true
		})
	})
	var reach func(from, to *types.Func, seen map[*types.Func]bool) bool
	reach = func(from, to *types.Func, seen map[*types.Func]bool) bool {
		if seen[from] {
			return false
		}
		seen[from] = true
		for _, c := range graph[from] {
			if c == to || reach(c, to, seen) {
				return true
			}
		}
		return false
	}
	for fn := range graph {
		if reach(fn, fn, map[*types.Func]bool{}) {
			inCycle[fn] = true
		}
	}
	n := 0
	funcsOf(prog, func(pkgPath string, info *types.Info, fd *ast.FuncDecl, fn *types.Func) {
		if !inCycle[fn] {
			return
		}
		n++
		// the function body and each function literal in it are separate control-flow graphs
		bodies := []*ast.FuncDecl{fd}
		ast.Inspect(fd.Body, func(x ast.Node) bool {
			if fl, ok := x.(*ast.FuncLit); ok {
				bodies = append(bodies, &ast.FuncDecl{Name: ast.NewIdent(fd.Name.Name + "$lit"), Type: fl.Type, Body: fl.Body})
			}
			return true
		})
		for _, b := range bodies {
			f := cfgx.New(info, b)
			type key struct{ callee, args string }
			sites := map[key][]cfgx.Site{}
			for _, s := range f.Sites() {
				if s.InFuncLit {
					continue
				}
				recursive := false
				if s.Callee != nil && inCycle[s.Callee.Origin()] {
					recursive = true
				}
				if id, ok := ast.Unparen(s.Call.Fun).(*ast.Ident); ok && s.Callee == nil {
					if v, ok := info.ObjectOf(id).(*types.Var); ok {
						if _, isSig := v.Type().Underlying().(*types.Signature); isSig {
							recursive = true // a local function value of a recursive function
						}
					}
				}
				if !recursive {
					continue
				}
				var as []string
				for _, a := range s.Call.Args {
					// the same text over different variables (two loops with a variable v each) is not the same call
					txt := types.ExprString(a)
					ast.Inspect(a, func(x ast.Node) bool {
						if id, ok := x.(*ast.Ident); ok {
							if v, ok := info.ObjectOf(id).(*types.Var); ok && !v.IsField() {
								// by object, not by position: the symbol of a type switch is one object per clause
								k, seen := fanoutObjIDs[v]
								if !seen {
									k = len(fanoutObjIDs) + 1
									fanoutObjIDs[v] = k
								}
								txt += fmt.Sprintf("@%d", k)
							}
						}
						return true
					})
					as = append(as, txt)
				}
				k := key{types.ExprString(s.Call.Fun), strings.Join(as, ",")}
				sites[k] = append(sites[k], s)
			}
			for k, ss := range sites {
				dup := false
				for i, a := range ss {
					bb, bi := a.After()
					r := f.Explore(bb, bi, cfgx.Cuts{})
					for j, c := range ss {
						if i != j && r.PassedCall(c.Call) {
							dup = true
						}
					}
					// twice inside one CFG node (a + a)
					for j, c := range ss {
						if i < j && a.Block == c.Block && a.Index == c.Index {
							dup = true
						}
					}
				}
				if len(ss) > 1 || dup {
					run.Check("G-PANIC/recursion-fanout", load.FuncName(fn)+":"+k.callee+"("+k.args+")", prog.Pos(ss[0].Call.Pos()), !dup, fmt.Sprintf("%s evaluates the recursive call %s(%s) more than once on one path: the work doubles with every nesting level of the type (exponential time on deeply nested slices/maps)", load.FuncName(fn), k.callee, k.args))
				}
			}
		}
	})
	run.Check("G-PANIC/recursion-fanout", "functions-in-cycles", "-", n >= 2, fmt.Sprintf("only %d recursive functions found", n))
}

// nonNilForNonEmpty: the moq function returns a non-nil error on every path when its i-th parameter
// (a slice) is not empty: under len(param) >= 1 every reachable return yields something that is not
// the nil identifier and not a plain variable.
func nonNilForNonEmpty(prog *load.Program, h *types.Func, i int) bool {
	d := prog.Decl(h.Origin())
	if d == nil || d.Body == nil {
		return false
	}
	info := prog.Info(h.Pkg())
	sig := h.Type().(*types.Signature)
	if i >= sig.Params().Len() || sig.Results().Len() != 1 {
		return false
	}
	pname := sig.Params().At(i).Name()
	f := cfgx.New(info, d)
	// len(param) ranges over [1, 2]: decide comparisons that hold for both, explore both ways otherwise
	dec := func(cond ast.Expr) (bool, bool) {
		t1, f1 := lenOracleRange(info, d, pname, 1, 3)(cond)
		return t1, f1
	}
	r := f.Explore(0, 0, cfgx.Cuts{Decide: dec})
	if len(r.Exits) == 0 {
		return false
	}
	for _, ex := range r.Exits {
		rs, ok := ex.Node.(*ast.ReturnStmt)
		if !ok || len(rs.Results) != 1 {
			return false
		}
		switch x := ast.Unparen(rs.Results[0]).(type) {
		case *ast.Ident:
			_ = x
			return false // nil, or a variable that may be nil
		case *ast.CallExpr, *ast.IndexExpr, *ast.CompositeLit, *ast.UnaryExpr:
		default:
			return false
		}
	}
	return true
}

// lenOracleRange decides comparisons of len(target) with constants for lengths in [lo, hi].
func lenOracleRange(info *types.Info, scope ast.Node, target string, lo, hi int64) func(ast.Expr) (bool, bool) {
	return func(cond ast.Expr) (bool, bool) {
		canT, canF := false, false
		for l := lo; l <= hi; l++ {
			// lenOracleIn assumes len <= max; evaluate at exactly l by intersecting [0,l] with not [0,l-1]
			t, f := exactLen(info, scope, target, l, cond)
			canT = canT || t
			canF = canF || f
		}
		return canT, canF
	}
}

// exactLen evaluates a condition with len(target) == l where it only compares that length with constants.
func exactLen(info *types.Info, scope ast.Node, target string, l int64, cond ast.Expr) (bool, bool) {
	var ev func(e ast.Expr) (bool, bool)
	ev = func(e ast.Expr) (bool, bool) {
		e = ast.Unparen(e)
		switch x := e.(type) {
		case *ast.UnaryExpr:
			if x.Op == token.NOT {
				t, f := ev(x.X)
				return f, t
			}
		case *ast.BinaryExpr:
			switch x.Op {
			case token.LAND:
				lt, lf := ev(x.X)
				rt, rf := ev(x.Y)
				return lt && rt, lf || (lt && rf)
			case token.LOR:
				lt, lf := ev(x.X)
				rt, rf := ev(x.Y)
				return lt || (lf && rt), lf && rf
			}
			cst := func(e ast.Expr) (int64, bool) {
				tv := info.Types[e]
				if tv.Value == nil || tv.Value.Kind() != constant.Int {
					return 0, false
				}
				return constant.Int64Val(tv.Value)
			}
			isLen := func(e ast.Expr) bool {
				op, ok := LenOperand(info, scope, e)
				return ok && types.ExprString(op) == target
			}
			var a, c int64
			switch {
			case isLen(x.X):
				k, ok := cst(x.Y)
				if !ok {
					return true, true
				}
				a, c = l, k
			case isLen(x.Y):
				k, ok := cst(x.X)
				if !ok {
					return true, true
				}
				a, c = k, l
			default:
				return true, true
			}
			var res bool
			switch x.Op {
			case token.LSS:
				res = a < c
			case token.LEQ:
				res = a <= c
			case token.GTR:
				res = a > c
			case token.GEQ:
				res = a >= c
			case token.EQL:
				res = a == c
			case token.NEQ:
				res = a != c
			default:
				return true, true
			}
			return res, !res
		}
		return true, true
	}
	return ev(cond)
}

var enclosingDeclOf = map[*ast.ForStmt]*ast.FuncDecl{}

// atMostOnce: the statement sits under `counter == constant` where counter is the loop's own counter,
// stepped by the post statement only: it executes in at most one iteration, so it cannot keep the loop
// from reaching a state in which nothing changes any more.
func atMostOnce(info *types.Info, fs *ast.ForStmt, st ast.Stmt) bool {
	inc, ok := fs.Post.(*ast.IncDecStmt)
	if !ok {
		return false
	}
	cid, ok := ast.Unparen(inc.X).(*ast.Ident)
	if !ok {
		return false
	}
	counter := info.ObjectOf(cid)
	// the counter is not assigned in the body
	assigned := false
	ast.Inspect(fs.Body, func(n ast.Node) bool {
		switch x := n.(type) {
		case *ast.AssignStmt:
			for _, l := range x.Lhs {
				if id, ok := ast.Unparen(l).(*ast.Ident); ok && info.ObjectOf(id) == counter {
					assigned = true
				}
			}
		case *ast.IncDecStmt:
			if id, ok := ast.Unparen(x.X).(*ast.Ident); ok && info.ObjectOf(id) == counter {
				assigned = true
			}
		}
		return true
	})
	if assigned {
		return false
	}
	// flow-sensitive form: with the counter different from every constant it is compared with, the
	// statement is unreachable from the start of the body
	if fd := enclosingDeclOf[fs]; fd != nil && len(fs.Body.List) > 0 {
		f := cfgx.New(info, fd)
		dec := callOracleExpr(func(e ast.Expr) (bool, bool, bool) {
			return largeCounter(info, counter, e)
		})
		if bb, bi := firstNodeWithin(f, fs.Body); bb >= 0 {
			r := f.Explore(bb, bi, cfgx.Cuts{Decide: dec})
			if n := nodeHolding(f, st); n != nil && !r.Passed(n) {
				return true
			}
		}
	}
	for _, enc := range enclosing(fs.Body, st) {
		is, ok := enc.(*ast.IfStmt)
		if !ok || !within(is.Body, st) {
			continue
		}
		for _, c := range conjuncts(is.Cond) {
			be, ok := ast.Unparen(c).(*ast.BinaryExpr)
			if !ok || be.Op != token.EQL {
				continue
			}
			for _, pair := range [][2]ast.Expr{{be.X, be.Y}, {be.Y, be.X}} {
				id, ok := ast.Unparen(pair[0]).(*ast.Ident)
				if ok && info.ObjectOf(id) == counter && info.Types[pair[1]].Value != nil {
					return true
				}
			}
		}
	}
	return false
}

// forwardCycle: calls that only hand parameters on form a cycle through fn.
func forwardCycle(prog *load.Program, g map[*types.Func][]*types.Func, fn *types.Func) bool {
	seen := map[*types.Func]bool{}
	var dfs func(f *types.Func) bool
	dfs = func(f *types.Func) bool {
		if seen[f] {
			return false
		}
		seen[f] = true
		for _, t := range g[f] {
			if t == fn || dfs(t) {
				return true
			}
		}
		return false
	}
	return dfs(fn)
}

// componentList: the expression is a slice all of whose elements are strict components of the value the
// enclosing function switches on (or of a parameter that every caller fills with such a value).
func componentList(prog *load.Program, info *types.Info, fd *ast.FuncDecl, e ast.Expr, depth int) bool {
	if depth > 9 {
		return false
	}
	e = ast.Unparen(e)
	switch x := e.(type) {
	case *ast.Ident:
		if _, isNil := info.Uses[x].(*types.Nil); isNil {
			return true
		}
		v := info.ObjectOf(x)
		if v == nil {
			return false
		}
		// a local slice: made, then only filled with components
		okAll, n := true, 0
		ast.Inspect(fd, func(nn ast.Node) bool {
			as, ok := nn.(*ast.AssignStmt)
			if !ok || len(as.Lhs) != len(as.Rhs) {
				return true
			}
			for i, l := range as.Lhs {
				switch lx := ast.Unparen(l).(type) {
				case *ast.Ident:
					if info.ObjectOf(lx) != v {
						continue
					}
					n++
					r := ast.Unparen(as.Rhs[i])
					if call, ok := r.(*ast.CallExpr); ok {
						if fid, ok := ast.Unparen(call.Fun).(*ast.Ident); ok {
							if bi, ok := info.Uses[fid].(*types.Builtin); ok {
								switch bi.Name() {
								case "make":
									continue
								case "append":
									if a0, ok := ast.Unparen(call.Args[0]).(*ast.Ident); ok && info.ObjectOf(a0) == v {
										for _, a := range call.Args[1:] {
											if call.Ellipsis.IsValid() {
												if !componentList(prog, info, fd, a, depth+1) {
													okAll = false
												}
											} else if !structuralFrom(prog, info, fd, a, true, depth+1) {
												okAll = false
											}
										}
										continue
									}
								}
							}
						}
					}
					if !componentList(prog, info, fd, r, depth+1) {
						okAll = false
					}
				case *ast.IndexExpr:
					if id, ok := ast.Unparen(lx.X).(*ast.Ident); ok && info.ObjectOf(id) == v {
						n++
						if !structuralFrom(prog, info, fd, as.Rhs[i], true, depth+1) {
							okAll = false
						}
					}
				}
			}
			return true
		})
		return okAll && n > 0
	case *ast.CompositeLit:
		for _, el := range x.Elts {
			if !structuralFrom(prog, info, fd, el, true, depth+1) {
				return false
			}
		}
		return true
	case *ast.CallExpr:
		if fid, ok := ast.Unparen(x.Fun).(*ast.Ident); ok {
			if bi, ok := info.Uses[fid].(*types.Builtin); ok && bi.Name() == "append" && len(x.Args) >= 1 {
				if !componentList(prog, info, fd, x.Args[0], depth+1) {
					return false
				}
				for _, a := range x.Args[1:] {
					if x.Ellipsis.IsValid() {
						if !componentList(prog, info, fd, a, depth+1) {
							return false
						}
					} else if !structuralFrom(prog, info, fd, a, true, depth+1) {
						return false
					}
				}
				return true
			}
		}
		cf, _ := typeutil.Callee(info, x).(*types.Func)
		if cf == nil || !prog.IsMoqPkg(cf.Pkg()) {
			return false
		}
		d := prog.Decl(cf.Origin())
		if d == nil || d.Body == nil {
			return false
		}
		cinfo := prog.Info(cf.Pkg())
		okAll, n := true, 0
		ast.Inspect(d.Body, func(nn ast.Node) bool {
			if _, isLit := nn.(*ast.FuncLit); isLit {
				return false
			}
			if rs, ok := nn.(*ast.ReturnStmt); ok {
				n++
				if len(rs.Results) != 1 || !componentList(prog, cinfo, d, rs.Results[0], depth+1) {
					okAll = false
				}
			}
			return true
		})
		return okAll && n > 0
	}
	return false
}

// unnamedSignature spells a signature by its parameter and result types only (parameter names are free).
func unnamedSignature(sig *types.Signature) string {
	q := func(p *types.Package) string { return p.Name() }
	var ps, rs []string
	for i := 0; i < sig.Params().Len(); i++ {
		ps = append(ps, types.TypeString(sig.Params().At(i).Type(), q))
	}
	for i := 0; i < sig.Results().Len(); i++ {
		rs = append(rs, types.TypeString(sig.Results().At(i).Type(), q))
	}
	out := "func(" + strings.Join(ps, ", ") + ")"
	if len(rs) > 0 {
		out += " (" + strings.Join(rs, ", ") + ")"
	}
	return out
}

// CLIIndexed, when set, reports the index and slice expressions of package main that the abstract
// interpretation of func main (engine C) evaluated in range on every path, for every number of
// positional arguments from 0 to the returned maximum.
var CLIIndexed func() (sites map[token.Pos]bool, maxArgs int, ok bool)

// cliSmallModel discharges an index or slice expression with constant bounds in package main: the
// interpretation of main reached it and found it in range for 0..K arguments, and package main observes
// the length of a string slice only by comparing len(..) with constants below K — so every longer
// command line takes the branches the K-argument one takes, with lists at least as long.
func cliSmallModel(prog *load.Program, pkgPath string, pos token.Pos) (bool, string) {
	if CLIIndexed == nil || pkgPath != load.PkgMain {
		return false, ""
	}
	sites, k, ok := CLIIndexed()
	if !ok || !sites[pos] {
		return false, ""
	}
	stable := true
	funcsOf(prog, func(pp string, info *types.Info, fd *ast.FuncDecl, fn *types.Func) {
		if pp != load.PkgMain || !stable {
			return
		}
		var stack []ast.Node
		ast.Inspect(fd, func(n ast.Node) bool {
			if n == nil {
				stack = stack[:len(stack)-1]
				return true
			}
			stack = append(stack, n)
			call, isCall := n.(*ast.CallExpr)
			if !isCall || len(call.Args) != 1 {
				return true
			}
			id, _ := ast.Unparen(call.Fun).(*ast.Ident)
			if id == nil {
				return true
			}
			if bi, _ := info.Uses[id].(*types.Builtin); bi == nil || (bi.Name() != "len" && bi.Name() != "cap") {
				return true
			}
			sl, isSlice := info.TypeOf(call.Args[0]).Underlying().(*types.Slice)
			if !isSlice {
				return true
			}
			if b, isB := sl.Elem().Underlying().(*types.Basic); !isB || b.Kind() != types.String {
				return true
			}
			// the parent (parentheses aside) must compare it with a small constant
			var parent ast.Node
			for i := len(stack) - 2; i >= 0; i-- {
				if _, isParen := stack[i].(*ast.ParenExpr); !isParen {
					parent = stack[i]
					break
				}
			}
			small := func(e ast.Expr) bool {
				c, ok := constIntOf(info, e)
				return ok && c < int64(k)
			}
			switch p := parent.(type) {
			case *ast.BinaryExpr:
				switch p.Op {
				case token.LSS, token.LEQ, token.GTR, token.GEQ, token.EQL, token.NEQ:
					other := p.Y
					if ast.Unparen(p.Y) == ast.Expr(call) {
						other = p.X
					}
					if !small(other) {
						stable = false
					}
				default:
					stable = false
				}
			case *ast.SwitchStmt:
				if ast.Unparen(p.Tag) != ast.Expr(call) {
					stable = false
					break
				}
				for _, cc := range p.Body.List {
					for _, e := range cc.(*ast.CaseClause).List {
						if !small(e) {
							stable = false
						}
					}
				}
			default:
				stable = false
			}
			return true
		})
	})
	if !stable {
		return false, ""
	}
	return true, fmt.Sprintf("the abstract interpretation of func main evaluates it in range on every path that reaches it for 0..%d arguments, and package main observes slice lengths only through comparisons of len(..) with constants below %d: longer command lines take the same branches with longer lists", k, k)
}

// neverNilResult: every return of the moq function gives a freshly taken address (&x, &T{..}, new(T)) as
// result ri — directly, or through a local or named result that only ever holds such values.
func neverNilResult(prog *load.Program, fn *types.Func, ri int) bool {
	d := prog.Decl(fn)
	info := prog.Info(fn.Pkg())
	if d == nil || d.Body == nil || info == nil {
		return false
	}
	bd := newBounds(prog, info, d)
	var named []*ast.Ident
	if d.Type.Results != nil {
		for _, fl := range d.Type.Results.List {
			named = append(named, fl.Names...)
		}
	}
	var fresh func(e ast.Expr, depth int) bool
	fresh = func(e ast.Expr, depth int) bool {
		if depth > 4 {
			return false
		}
		switch x := ast.Unparen(e).(type) {
		case *ast.UnaryExpr:
			return x.Op == token.AND
		case *ast.CallExpr:
			if id, ok := ast.Unparen(x.Fun).(*ast.Ident); ok {
				if bi, ok := info.Uses[id].(*types.Builtin); ok && bi.Name() == "new" {
					return true
				}
			}
		case *ast.Ident:
			v, _ := info.ObjectOf(x).(*types.Var)
			if v == nil || v.IsField() || len(bd.assigns[v]) == 0 {
				return false
			}
			for _, a := range bd.assigns[v] {
				if a == nil || !fresh(a, depth+1) {
					return false
				}
			}
			// a named result is nil until its first assignment: that must be a statement of the body
			// itself with no return before it
			for _, nm := range named {
				if info.Defs[nm] != v {
					continue
				}
				first := bd.anodes[v][0]
				top := false
				for _, st := range d.Body.List {
					if ast.Node(st) == first {
						top = true
					}
				}
				early := false
				ast.Inspect(d.Body, func(x ast.Node) bool {
					if rs, ok := x.(*ast.ReturnStmt); ok && rs.Pos() < first.Pos() {
						early = true
					}
					return true
				})
				if !top || early {
					return false
				}
			}
			return true
		}
		return false
	}
	okAll, n := true, 0
	ast.Inspect(d.Body, func(x ast.Node) bool {
		if _, isLit := x.(*ast.FuncLit); isLit {
			return false
		}
		if rs, ok := x.(*ast.ReturnStmt); ok {
			n++
			switch {
			case ri < len(rs.Results) && len(rs.Results) > 1 || len(rs.Results) == 1 && ri == 0 && fn.Type().(*types.Signature).Results().Len() == 1:
				if !fresh(rs.Results[ri], 0) {
					okAll = false
				}
			case len(rs.Results) == 0 && ri < len(named):
				if !fresh(named[ri], 0) {
					okAll = false
				}
			default:
				okAll = false
			}
		}
		return true
	})
	return okAll && n > 0
}

// goTypesIterator: e is a call x.M() of a go/types method that returns a one-value iterator
// (func(yield func(T) bool)); it returns the receiver x.
func goTypesIterator(info *types.Info, e ast.Expr) (ast.Expr, bool) {
	call, ok := ast.Unparen(e).(*ast.CallExpr)
	if !ok || len(call.Args) != 0 {
		return nil, false
	}
	sel, ok := ast.Unparen(call.Fun).(*ast.SelectorExpr)
	if !ok {
		return nil, false
	}
	fn, _ := typeutil.Callee(info, call).(*types.Func)
	if fn == nil || fn.Pkg() == nil || fn.Pkg().Path() != "go/types" {
		return nil, false
	}
	t := info.TypeOf(call)
	if t == nil {
		return nil, false
	}
	sig, ok := t.Underlying().(*types.Signature)
	if !ok || sig.Params().Len() != 1 || sig.Results().Len() != 0 {
		return nil, false
	}
	y, ok := sig.Params().At(0).Type().Underlying().(*types.Signature)
	if !ok || y.Params().Len() != 1 {
		return nil, false
	}
	return sel.X, true
}

// namedSliceInvariant: x[c] on the receiver of a method of a named slice type T declared in moq, where
// values of T only ever come from conversions T(v) that are unreachable when len(v) <= c: T is named
// nowhere but in its declaration, its method receivers and those conversions, and no value of type T is
// produced by slicing or appending.
func namedSliceInvariant(prog *load.Program, info *types.Info, fd *ast.FuncDecl, x *ast.IndexExpr) (bool, string) {
	tv := info.Types[x.Index]
	if tv.Value == nil || tv.Value.Kind() != constant.Int || fd.Recv == nil || len(fd.Recv.List) != 1 || len(fd.Recv.List[0].Names) != 1 {
		return false, ""
	}
	c, _ := constant.Int64Val(tv.Value)
	rid, ok := ast.Unparen(x.X).(*ast.Ident)
	if !ok || info.ObjectOf(rid) != info.Defs[fd.Recv.List[0].Names[0]] || c < 0 {
		return false, ""
	}
	named, ok := types.Unalias(info.TypeOf(x.X)).(*types.Named)
	if !ok || !prog.IsMoqPkg(named.Obj().Pkg()) {
		return false, ""
	}
	if _, isSlice := named.Underlying().(*types.Slice); !isSlice {
		return false, ""
	}
	// the receiver is never reassigned
	if len(newBounds(prog, info, fd).assigns[info.ObjectOf(rid)]) != 0 {
		return false, ""
	}
	okAll, nconv := true, 0
	for _, pk := range prog.MoqPackages() {
		pinfo := pk.TypesInfo
		for _, file := range pk.Syntax {
			// where T is named
			var stack []ast.Node
			ast.Inspect(file, func(n ast.Node) bool {
				if n == nil {
					stack = stack[:len(stack)-1]
					return true
				}
				stack = append(stack, n)
				id, isID := n.(*ast.Ident)
				if !isID || pinfo.Uses[id] != types.Object(named.Obj()) {
					return true
				}
				parent := stack[len(stack)-2]
				for i := len(stack) - 2; i >= 0; i-- {
					if _, isParen := stack[i].(*ast.ParenExpr); isParen {
						continue
					}
					if _, isStar := stack[i].(*ast.StarExpr); isStar {
						continue
					}
					parent = stack[i]
					break
				}
				switch p := parent.(type) {
				case *ast.Field:
					// a method receiver?
					isRecv := false
					for _, anc := range stack {
						if d, ok := anc.(*ast.FuncDecl); ok && d.Recv != nil && len(d.Recv.List) == 1 && d.Recv.List[0] == p {
							isRecv = true
						}
					}
					if !isRecv {
						okAll = false
					}
				case *ast.CallExpr:
					if ast.Unparen(p.Fun) != ast.Expr(id) || len(p.Args) != 1 {
						okAll = false
						break
					}
					// the conversion: unreachable when the operand is too short
					var efd *ast.FuncDecl
					for _, anc := range stack {
						if d, ok := anc.(*ast.FuncDecl); ok {
							efd = d
						}
					}
					if efd == nil || efd.Body == nil {
						okAll = false
						break
					}
					nconv++
					cf := cfgx.New(pinfo, efd)
					if reachable(cf, p, lenOracleIn(pinfo, efd, types.ExprString(p.Args[0]), c)) {
						okAll = false
					}
				default:
					okAll = false
				}
				return true
			})
		}
		// no value of type T made by slicing, appending or a literal
		for e, etv := range pinfo.Types {
			if etv.IsType() || etv.Type == nil || !types.Identical(etv.Type, named) {
				continue
			}
			switch y := ast.Unparen(e).(type) {
			case *ast.SliceExpr, *ast.CompositeLit:
				okAll = false
			case *ast.CallExpr:
				if id, ok := ast.Unparen(y.Fun).(*ast.Ident); ok {
					if _, isB := pinfo.Uses[id].(*types.Builtin); isB {
						okAll = false // append, make ...
					}
				}
			}
		}
	}
	if !okAll || nconv == 0 {
		return false, ""
	}
	return true, fmt.Sprintf("type invariant: values of %s come only from %d conversion(s) %s(v), each unreachable when len(v) <= %d; the type is named nowhere else and never sliced, appended to or built by a literal", named.Obj().Name(), nconv, named.Obj().Name(), c)
}

// accessorIterator: e is a call of a moq iterator helper that is handed a structural accessor as a method
// value (indexed(t.NumFields(), t.Field)) and yields nothing but results of that accessor; it returns
// the accessor's receiver. two: the helper yields (index, element) pairs.
func accessorIterator(prog *load.Program, info *types.Info, e ast.Expr, two bool) (ast.Expr, bool) {
	call, ok := ast.Unparen(e).(*ast.CallExpr)
	if !ok || prog == nil {
		return nil, false
	}
	fn, _ := typeutil.Callee(info, call).(*types.Func)
	if fn == nil || !prog.IsMoqPkg(fn.Pkg()) {
		return nil, false
	}
	d := prog.Decl(fn.Origin())
	cinfo := prog.Info(fn.Pkg())
	if d == nil || d.Body == nil || cinfo == nil || len(d.Body.List) != 1 {
		return nil, false
	}
	// which argument is the accessor
	ai := -1
	var recv ast.Expr
	for i, a := range call.Args {
		sel, ok := ast.Unparen(a).(*ast.SelectorExpr)
		if !ok || !structuralAccessors[sel.Sel.Name] {
			continue
		}
		if s, ok := info.Selections[sel]; ok && s.Kind() == types.MethodVal {
			ai, recv = i, sel.X
		}
	}
	if ai < 0 {
		return nil, false
	}
	var param types.Object
	k := 0
	for _, f := range d.Type.Params.List {
		for _, nm := range f.Names {
			if k == ai {
				param = cinfo.Defs[nm]
			}
			k++
		}
	}
	ret, ok := d.Body.List[0].(*ast.ReturnStmt)
	if !ok || len(ret.Results) != 1 || param == nil {
		return nil, false
	}
	lit, ok := ast.Unparen(ret.Results[0]).(*ast.FuncLit)
	if !ok || lit.Type.Params == nil || len(lit.Type.Params.List) != 1 || len(lit.Type.Params.List[0].Names) != 1 {
		return nil, false
	}
	yield := cinfo.Defs[lit.Type.Params.List[0].Names[0]]
	okAll, n := true, 0
	ast.Inspect(lit.Body, func(x ast.Node) bool {
		c, ok := x.(*ast.CallExpr)
		if !ok {
			return true
		}
		id, ok := ast.Unparen(c.Fun).(*ast.Ident)
		if !ok || cinfo.ObjectOf(id) != yield {
			return true
		}
		n++
		want := 1
		if two {
			want = 2
		}
		if len(c.Args) != want {
			okAll = false
			return true
		}
		el, ok := ast.Unparen(c.Args[want-1]).(*ast.CallExpr)
		if !ok {
			okAll = false
			return true
		}
		if fid, ok := ast.Unparen(el.Fun).(*ast.Ident); !ok || cinfo.ObjectOf(fid) != param {
			okAll = false
		}
		return true
	})
	if !okAll || n == 0 {
		return nil, false
	}
	return recv, true
}

var fanoutObjIDs = map[types.Object]int{}
