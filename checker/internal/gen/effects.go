package gen

import (
	"go/ast"
	"go/types"

	"golang.org/x/tools/go/types/typeutil"

	"verif/checker/internal/load"
)

// effects: which struct fields (and package-level variables) a piece of moq code reads and writes, through
// the moq functions it calls (statically resolved; bounded depth). opaque is set when something is called
// that cannot be followed: a function value, an interface method, or a library function outside the
// packages known to be free of effects on moq's data.
type effects struct {
	reads, writes map[types.Object]bool
	opaque        bool
}

var effectFreePkgs = map[string]bool{"go/types": true, "strings": true, "path": true, "path/filepath": true, "strconv": true, "unicode": true, "unicode/utf8": true, "slices": true, "sort": true, "fmt": true, "errors": true, "go/token": true, "maps": true, "cmp": true}

func effectsOf(prog *load.Program, info *types.Info, node ast.Node) *effects {
	ef := &effects{reads: map[types.Object]bool{}, writes: map[types.Object]bool{}}
	ef.scan(prog, info, node, 0, map[*types.Func]bool{})
	return ef
}

func (ef *effects) scan(prog *load.Program, info *types.Info, node ast.Node, depth int, seen map[*types.Func]bool) {
	if depth > 5 {
		ef.opaque = true
		return
	}
	target := func(e ast.Expr, write bool) {
		// the object a store goes to: a field (x.f, x.f[i], *x.f ...) or a package-level variable;
		// stores through a bare pointer or into the elements of a local are stores to what it shares: opaque
		for {
			e = ast.Unparen(e)
			switch x := e.(type) {
			case *ast.IndexExpr:
				e = x.X
				continue
			case *ast.StarExpr:
				e = x.X
				continue
			case *ast.SelectorExpr:
				if o := info.ObjectOf(x.Sel); o != nil {
					if v, ok := o.(*types.Var); ok {
						if write {
							ef.writes[v] = true
						} else {
							ef.reads[v] = true
						}
					}
				}
				return
			case *ast.Ident:
				if v, ok := info.ObjectOf(x).(*types.Var); ok && v.Pkg() != nil && v.Parent() == v.Pkg().Scope() {
					if write {
						ef.writes[v] = true
					} else {
						ef.reads[v] = true
					}
				}
				return
			default:
				return
			}
		}
	}
	ast.Inspect(node, func(n ast.Node) bool {
		switch x := n.(type) {
		case *ast.AssignStmt:
			for _, l := range x.Lhs {
				if id, ok := ast.Unparen(l).(*ast.Ident); ok {
					if v, isVar := info.ObjectOf(id).(*types.Var); isVar && (v.Pkg() == nil || v.Parent() != v.Pkg().Scope()) {
						continue // a local
					}
				}
				if st, ok := ast.Unparen(l).(*ast.StarExpr); ok {
					if _, isID := ast.Unparen(st.X).(*ast.Ident); isID {
						ef.opaque = true // *p = …: whatever p points to
					}
				}
				target(l, true)
			}
		case *ast.IncDecStmt:
			target(x.X, true)
		case *ast.SelectorExpr:
			target(x, false)
		case *ast.Ident:
			target(x, false)
		case *ast.GoStmt, *ast.SendStmt:
			ef.opaque = true
		case *ast.CallExpr:
			if tv, isT := info.Types[x.Fun]; isT && tv.IsType() {
				return true
			}
			if id, ok := ast.Unparen(x.Fun).(*ast.Ident); ok {
				if _, isB := info.Uses[id].(*types.Builtin); isB {
					if id.Name == "append" || id.Name == "copy" || id.Name == "delete" || id.Name == "clear" {
						// the destination is written when it is a field
						if len(x.Args) > 0 && (id.Name != "append") {
							target(x.Args[0], true)
						}
					}
					return true
				}
			}
			fn, _ := typeutil.Callee(info, x).(*types.Func)
			if fn == nil {
				ef.opaque = true
				return true
			}
			if sig, _ := fn.Type().(*types.Signature); sig != nil && sig.Recv() != nil {
				if _, isIface := sig.Recv().Type().Underlying().(*types.Interface); isIface && (fn.Pkg() == nil || !effectFreePkgs[fn.Pkg().Path()]) {
					ef.opaque = true
					return true
				}
			}
			if fn.Pkg() == nil {
				return true // error.Error and the like
			}
			if !prog.IsMoqPkg(fn.Pkg()) {
				if !effectFreePkgs[fn.Pkg().Path()] {
					ef.opaque = true
				}
				return true
			}
			fn = fn.Origin()
			if seen[fn] {
				return true
			}
			seen[fn] = true
			d := prog.Decl(fn)
			if d == nil || d.Body == nil {
				ef.opaque = true
				return true
			}
			ef.scan(prog, prog.Info(fn.Pkg()), d.Body, depth+1, seen)
		}
		return true
	})
}

// stillCalls: every call inside e is one whose value cannot change while the statements of scope run: a
// builtin or a function of the effect-free packages (on operands the caller checks separately), or a moq
// function that writes nothing and reads no field that scope writes.
func (b *bounds) stillCalls(e ast.Expr, scope ...ast.Node) bool {
	var loopEf *effects
	ok := true
	ast.Inspect(e, func(n ast.Node) bool {
		switch x := n.(type) {
		case *ast.FuncLit:
			ok = false
		case *ast.CallExpr:
			if b.pure(&ast.CallExpr{Fun: x.Fun, Lparen: x.Lparen, Rparen: x.Rparen}) {
				return true
			}
			fn, _ := typeutil.Callee(b.info, x).(*types.Func)
			if fn == nil || !b.prog.IsMoqPkg(fn.Pkg()) {
				ok = false
				return false
			}
			d := b.prog.Decl(fn.Origin())
			if d == nil || d.Body == nil {
				ok = false
				return false
			}
			get := effectsOf(b.prog, b.prog.Info(fn.Pkg()), d.Body)
			if get.opaque || len(get.writes) > 0 {
				ok = false
				return false
			}
			if loopEf == nil {
				loopEf = &effects{reads: map[types.Object]bool{}, writes: map[types.Object]bool{}}
				for _, sc := range scope {
					loopEf.scan(b.prog, b.info, sc, 0, map[*types.Func]bool{})
				}
			}
			if loopEf.opaque {
				ok = false
				return false
			}
			for f := range get.reads {
				if loopEf.writes[f] {
					ok = false
				}
			}
		}
		return ok
	})
	return ok
}
