package gen

import (
	"fmt"
	"go/ast"
	"go/constant"
	"go/token"
	"go/types"
	"sort"
	"strings"

	"golang.org/x/tools/go/types/typeutil"

	"verif/checker/internal/cfgx"
	"verif/checker/internal/core"
	"verif/checker/internal/load"
)

func moqFunc(prog *load.Program, pkg, name string) (*cfgx.Func, *types.Func, *types.Info) {
	fn := prog.LookupFunc(pkg, name)
	if fn == nil || prog.Decl(fn) == nil {
		return nil, nil, nil
	}
	info := prog.Info(fn.Pkg())
	return cfgx.New(info, prog.Decl(fn)), fn, info
}

// NameAlloc resolves the name-allocation roles of the registry.
type NameAlloc struct {
	AddVar      *cfgx.Func
	AddVarFn    *types.Func
	Info        *types.Info
	VarLit      *ast.CompositeLit // the Var literal built by AddVar
	NameVar     *types.Var        // the local that becomes Var.Name
	VarNameFn   *types.Func       // the function that proposes the name
	VarNameCall *ast.CallExpr
}

func ResolveNameAlloc(prog *load.Program) (*NameAlloc, error) {
	f, fn, info := moqFunc(prog, load.PkgRegistry, "MethodScope.AddVar")
	if f == nil {
		return nil, fmt.Errorf("(*MethodScope).AddVar not found")
	}
	na := &NameAlloc{AddVar: f, AddVarFn: fn, Info: info}
	ast.Inspect(f.Decl.Body, func(n ast.Node) bool {
		cl, ok := n.(*ast.CompositeLit)
		if !ok {
			return true
		}
		if nt, _ := types.Unalias(info.TypeOf(cl)).(*types.Named); nt != nil && nt.Obj().Name() == "Var" && nt.Obj().Pkg().Path() == load.PkgRegistry {
			na.VarLit = cl
			for _, el := range cl.Elts {
				if kv, ok := el.(*ast.KeyValueExpr); ok {
					if k, ok := kv.Key.(*ast.Ident); ok && k.Name == "Name" {
						if id, ok := ast.Unparen(kv.Value).(*ast.Ident); ok {
							na.NameVar, _ = info.ObjectOf(id).(*types.Var)
						}
					}
				}
			}
		}
		return true
	})
	if na.VarLit == nil || na.NameVar == nil {
		return nil, fmt.Errorf("AddVar does not build a Var literal whose Name is a local variable")
	}
	// the first definition of the name variable
	ast.Inspect(f.Decl.Body, func(n ast.Node) bool {
		as, ok := n.(*ast.AssignStmt)
		if !ok || as.Tok != token.DEFINE || len(as.Lhs) != 1 || len(as.Rhs) != 1 {
			return true
		}
		if id, ok := as.Lhs[0].(*ast.Ident); ok && info.Defs[id] == na.NameVar {
			if call, ok := ast.Unparen(as.Rhs[0]).(*ast.CallExpr); ok {
				if callee, ok := typeutil.Callee(info, call).(*types.Func); ok && prog.IsMoqPkg(callee.Pkg()) {
					na.VarNameFn, na.VarNameCall = callee, call
				}
			}
		}
		return true
	})
	if na.VarNameFn == nil {
		return nil, fmt.Errorf("the name of a new Var is not first proposed by a function of moq")
	}
	return na, nil
}

// CheckAddVar: C12(c) — the conflict tests dominate the construction of every Var.
func CheckAddVar(run *core.Run, prog *load.Program) *NameAlloc {
	na, err := ResolveNameAlloc(prog)
	if err != nil {
		run.Undecided("G-ADDVAR", "roles", "internal/registry/method_scope.go", "name allocation cannot be resolved by role: "+err.Error())
		return nil
	}
	f, info := na.AddVar, na.Info
	pos := prog.Pos(f.Decl.Pos())
	lit := na.VarLit
	must := func(key, what string, match func(s cfgx.Site) bool) {
		var nodes = map[ast.Node]bool{}
		n := 0
		for _, s := range f.Sites() {
			if match(s) {
				nodes[s.Call] = true
				n++
			}
		}
		if !run.Check("G-ADDVAR/dominates", key+":present", pos, n > 0, "AddVar does not "+what+" at all") {
			return
		}
		r := f.Explore(0, 0, cfgx.Cuts{Nodes: nodes})
		run.Check("G-ADDVAR/dominates", key, pos, !r.Passed(nodeHolding(f, lit)), "a Var can be constructed on a path that does not "+what+" — for which parameters the test runs must not depend on anything (e.g. on the suffix, i.e. on being a result)")
	}
	callee := func(name string) func(cfgx.Site) bool {
		return func(s cfgx.Site) bool {
			return s.Callee != nil && load.FuncName(s.Callee) == name && prog.IsMoqPkg(s.Callee.Pkg())
		}
	}
	must("import-discovery", "discover the imports of the variable's type (populateImports)", callee("MethodScope.populateImports"))
	must("import-var-conflicts", "rename earlier variables that equal a newly imported qualifier (resolveImportVarConflicts)", callee("MethodScope.resolveImportVarConflicts"))
	must("name-vs-imports", "test the proposed name against the imported package qualifiers (searchImport)", func(s cfgx.Site) bool {
		return callee("Registry.searchImport")(s) && len(s.Call.Args) == 1 && mentions(info, s.Call.Args[0], na.NameVar)
	})
	must("name-vs-vars", "test the proposed name against the variables already in the scope (searchVar)", func(s cfgx.Site) bool {
		return callee("MethodScope.searchVar")(s) && len(s.Call.Args) == 1 && mentions(info, s.Call.Args[0], na.NameVar)
	})
	// when the var test finds a conflict the name is re-chosen: assume the conflict, the literal must not be reached without resolveVarNameConflict
	{
		var nodes = map[ast.Node]bool{}
		for _, s := range f.Sites() {
			if callee("MethodScope.resolveVarNameConflict")(s) {
				nodes[s.Call] = true
			}
		}
		run.Check("G-ADDVAR/dominates", "conflict-resolution:present", pos, len(nodes) > 0, "AddVar never resolves a name conflict")
	}
	// the Var's name is the checked variable, its vr the parameter, appended to the scope
	okAppend := false
	ast.Inspect(f.Decl.Body, func(n ast.Node) bool {
		if as, ok := n.(*ast.AssignStmt); ok && len(as.Rhs) == 1 {
			if call, ok := as.Rhs[0].(*ast.CallExpr); ok {
				if id, ok := call.Fun.(*ast.Ident); ok && id.Name == "append" && len(call.Args) == 2 {
					if sel, ok := as.Lhs[0].(*ast.SelectorExpr); ok && sel.Sel.Name == "vars" {
						okAppend = true
					}
				}
			}
		}
		return true
	})
	run.Check("G-ADDVAR/registered", "appended-to-scope", pos, okAppend, "the new Var is not appended to the scope's variable list: later parameters are not de-conflicted against it")
	// resolveVarNameConflict: a candidate is checked against variables and imports before it is used
	if rf, _, rinfo := moqFunc(prog, load.PkgRegistry, "MethodScope.resolveVarNameConflict"); rf != nil {
		rpos := prog.Pos(rf.Decl.Pos())
		var checks = map[ast.Node]bool{}
		nImp, nVar := 0, 0
		for _, s := range rf.Sites() {
			if callee("Registry.searchImport")(s) {
				checks[s.Call] = true
				nImp++
			}
		}
		for _, s := range rf.Sites() {
			if callee("MethodScope.searchVar")(s) {
				nVar++
			}
		}
		run.Check("G-ADDVAR/numbering", "checks-present", rpos, nImp > 0 && nVar > 0, "numbered names are not tested against both the scope's variables and the imported qualifiers")
		if nImp > 0 {
			// with the import test removed neither a rename of an existing variable nor a return may be reachable
			r := rf.Explore(0, 0, cfgx.Cuts{Nodes: checks})
			renames := 0
			ast.Inspect(rf.Decl.Body, func(n ast.Node) bool {
				if as, ok := n.(*ast.AssignStmt); ok {
					for _, l := range as.Lhs {
						if sel, ok := ast.Unparen(l).(*ast.SelectorExpr); ok && sel.Sel.Name == "Name" {
							if r.Passed(nodeHolding(rf, as)) {
								renames++
							}
						}
					}
				}
				return true
			})
			rets := 0
			for _, ex := range r.Exits {
				if ex.Kind == "return" {
					rets++
				}
			}
			run.Check("G-ADDVAR/numbering", "import-test-first", rpos, renames == 0 && rets == 0, fmt.Sprintf("a numbered name can be handed out (%d returns) or an existing variable renamed (%d sites) before the candidate was tested against the imported qualifiers: a variable can end up named like a package it must still refer to", rets, renames))
		}
		_ = rinfo
	} else {
		run.Undecided("G-ADDVAR/numbering", "role", "internal/registry/method_scope.go", "resolveVarNameConflict not found")
	}
	// every newly discovered import is compared with the existing variables: no early exit from the loop(s)
	if vf, _, _ := moqFunc(prog, load.PkgRegistry, "MethodScope.resolveImportVarConflicts"); vf != nil {
		exits := 0
		ast.Inspect(vf.Decl.Body, func(n ast.Node) bool {
			switch x := n.(type) {
			case *ast.ForStmt, *ast.RangeStmt:
				var body *ast.BlockStmt
				if fs, ok := x.(*ast.ForStmt); ok {
					body = fs.Body
				} else {
					body = x.(*ast.RangeStmt).Body
				}
				ast.Inspect(body, func(m ast.Node) bool {
					switch b := m.(type) {
					case *ast.ReturnStmt:
						exits++
					case *ast.BranchStmt:
						if b.Tok == token.BREAK || b.Tok == token.GOTO {
							exits++
						}
					case *ast.FuncLit:
						return false
					}
					return true
				})
				return false
			}
			return true
		})
		run.Check("G-ADDVAR/all-imports-checked", "resolveImportVarConflicts", prog.Pos(vf.Decl.Pos()), exits == 0, fmt.Sprintf("the loop over the new imports can stop early (%d return/break statements): imports visited later are never compared with the existing variable names", exits))
	}
	run.Floor("G-ADDVAR/dominates", 8)
	return na
}

// nodeHolding returns the CFG node that contains n.
func nodeHolding(f *cfgx.Func, n ast.Node) ast.Node {
	for _, b := range f.G.Blocks {
		for _, cn := range b.Nodes {
			found := false
			ast.Inspect(cn, func(x ast.Node) bool {
				if x == n {
					found = true
				}
				return !found
			})
			if found {
				return cn
			}
		}
	}
	return nil
}

// ReservedSwitch extracts the reserved-name test of the name proposer.
type Reserved struct {
	Fn     *cfgx.Func
	Switch *ast.SwitchStmt
	Names  map[string]bool
}

func ResolveReserved(prog *load.Program, na *NameAlloc) (*Reserved, error) {
	decl := prog.Decl(na.VarNameFn)
	if decl == nil {
		return nil, fmt.Errorf("%s has no body", na.VarNameFn.Name())
	}
	info := prog.Info(na.VarNameFn.Pkg())
	r := &Reserved{Fn: cfgx.New(info, decl), Names: map[string]bool{}}
	var sws []*ast.SwitchStmt
	ast.Inspect(decl.Body, func(n ast.Node) bool {
		if sw, ok := n.(*ast.SwitchStmt); ok && sw.Tag != nil {
			if b, ok := info.TypeOf(sw.Tag).Underlying().(*types.Basic); ok && b.Info()&types.IsString != 0 {
				sws = append(sws, sw)
			}
		}
		return true
	})
	if len(sws) != 1 {
		return nil, fmt.Errorf("%s contains %d switches over a string (want exactly one: the reserved-name table). A reserved-name test in another form (a lookup function, a map) is outside what this rule can enumerate", na.VarNameFn.Name(), len(sws))
	}
	r.Switch = sws[0]
	for _, cc := range r.Switch.Body.List {
		cl := cc.(*ast.CaseClause)
		for _, e := range cl.List {
			tv := info.Types[e]
			if tv.Value == nil || tv.Value.Kind() != constant.String {
				return nil, fmt.Errorf("reserved-name switch has a non-constant case")
			}
			r.Names[constant.StringVal(tv.Value)] = true
		}
		if cl.List != nil && len(cl.Body) == 0 {
			return nil, fmt.Errorf("reserved-name switch has a case that leaves the name unchanged")
		}
	}
	return r, nil
}

// CheckReserved: C12(a)(b) and the C13 side (nothing else is renamed).
// required: names the generated method body must still resolve (from the skeletons).
func CheckReserved(run *core.Run, prog *load.Program, na *NameAlloc, required []string, wantExact bool) {
	res, err := ResolveReserved(prog, na)
	if err != nil {
		run.Undecided("G-RESERVED", "table", prog.Pos(na.VarNameFn.Pos()), err.Error())
		return
	}
	pos := prog.Pos(res.Switch.Pos())
	need := map[string]string{}
	for _, n := range required {
		need[n] = "used by the generated method body"
	}
	for _, k := range keywords() {
		need[k] = "Go keyword"
	}
	for _, n := range types.Universe.Names() {
		if _, ok := types.Universe.Lookup(n).(*types.TypeName); ok {
			need[n] = "predeclared type name (can occur in a type text of the same method)"
		}
	}
	var names []string
	for n := range need {
		names = append(names, n)
	}
	sort.Strings(names)
	for _, n := range names {
		run.Check("G-RESERVED/covers", n, pos, res.Names[n], fmt.Sprintf("%q is not in the reserved-name table (%s): a parameter given this name shadows what the generated code refers to", n, need[n]))
	}
	if wantExact {
		var extra []string
		for n := range res.Names {
			if _, ok := need[n]; !ok {
				extra = append(extra, n)
			}
		}
		sort.Strings(extra)
		run.Check("G-RESERVED/nothing-else", "table", pos, len(extra) == 0, fmt.Sprintf("the reserved-name table also renames %v, names that collide with nothing the generated code uses: a parameter written with such a name is not kept verbatim", extra))
	}
	// every return passes the table
	sw := nodeHolding(res.Fn, res.Switch.Tag)
	r := res.Fn.Explore(0, 0, cfgx.Cuts{Nodes: map[ast.Node]bool{sw: true, res.Switch.Tag: true}})
	rets := 0
	for _, ex := range r.Exits {
		if ex.Kind == "return" {
			rets++
		}
	}
	run.Check("G-RESERVED/every-path", na.VarNameFn.Name(), prog.Pos(na.VarNameFn.Pos()), rets == 0, fmt.Sprintf("%s can return a name on %d path(s) that bypass the reserved-name table (e.g. names written in the interface)", na.VarNameFn.Name(), rets))
	// the tag is what is returned
	run.Count("reserved_names", len(res.Names))
}

func keywords() []string {
	var out []string
	for t := token.BREAK; t <= token.VAR; t++ {
		if t.IsKeyword() {
			out = append(out, t.String())
		}
	}
	return out
}

// CheckVerbatim: C13(a) — user-written names are kept: on the path where the
// go/types name is neither "" nor "_", the proposer returns it with the
// suffix only (plus the reserved-table rename).
func CheckVerbatim(run *core.Run, prog *load.Program, na *NameAlloc) {
	decl := prog.Decl(na.VarNameFn)
	info := prog.Info(na.VarNameFn.Pkg())
	pos := prog.Pos(decl.Pos())
	// the type-derived fallback may only be used when the name is "" or "_"
	var fallback []*ast.CallExpr
	ast.Inspect(decl.Body, func(n ast.Node) bool {
		if call, ok := n.(*ast.CallExpr); ok {
			if fn, ok := typeutil.Callee(info, call).(*types.Func); ok && prog.IsMoqPkg(fn.Pkg()) && fn != na.VarNameFn {
				fallback = append(fallback, call)
			}
		}
		return true
	})
	f := cfgx.New(info, decl)
	// find the variable holding vr.Name()
	var nameVar *types.Var
	ast.Inspect(decl.Body, func(n ast.Node) bool {
		if as, ok := n.(*ast.AssignStmt); ok && as.Tok == token.DEFINE && len(as.Rhs) == 1 {
			if call, ok := as.Rhs[0].(*ast.CallExpr); ok {
				if sel, ok := call.Fun.(*ast.SelectorExpr); ok && sel.Sel.Name == "Name" {
					if id, ok := as.Lhs[0].(*ast.Ident); ok && nameVar == nil {
						nameVar, _ = info.Defs[id].(*types.Var)
					}
				}
			}
		}
		return true
	})
	if !run.Check("G-VERBATIM/roles", "name-variable", pos, nameVar != nil && len(fallback) > 0, "cannot find the variable holding the go/types name or the type-derived fallback") {
		return
	}
	// assume the name is user written (not "" and not "_"): the fallback must be unreachable and
	// the variable must not be reassigned from anything but itself + suffix
	dec := func(cond ast.Expr) (bool, bool) {
		var ev func(e ast.Expr) (bool, bool)
		ev = func(e ast.Expr) (bool, bool) {
			e = ast.Unparen(e)
			if be, ok := e.(*ast.BinaryExpr); ok {
				switch be.Op {
				case token.LAND:
					lt, lf := ev(be.X)
					rt, rf := ev(be.Y)
					return lt && rt, lf || (lt && rf)
				case token.LOR:
					lt, lf := ev(be.X)
					rt, rf := ev(be.Y)
					return lt || (lf && rt), lf && rf
				case token.EQL, token.NEQ:
					var other ast.Expr
					if id, ok := ast.Unparen(be.X).(*ast.Ident); ok && info.ObjectOf(id) == nameVar {
						other = be.Y
					} else if id, ok := ast.Unparen(be.Y).(*ast.Ident); ok && info.ObjectOf(id) == nameVar {
						other = be.X
					}
					if other != nil {
						if tv := info.Types[other]; tv.Value != nil && tv.Value.Kind() == constant.String {
							s := constant.StringVal(tv.Value)
							if s == "" || s == "_" {
								return be.Op == token.NEQ, be.Op == token.EQL
							}
						}
					}
				}
			}
			if u, ok := e.(*ast.UnaryExpr); ok && u.Op == token.NOT {
				t, fl := ev(u.X)
				return fl, t
			}
			return true, true
		}
		return ev(cond)
	}
	r := f.Explore(0, 0, cfgx.Cuts{Decide: dec})
	reached := 0
	for _, c := range fallback {
		if r.PassedCall(c) {
			reached++
		}
	}
	run.Check("G-VERBATIM/user-names", "no-type-derived-name", pos, reached == 0, "a parameter name written in the interface can be replaced by a type-derived name")
	// on those paths the only writes to the name variable are `name += <suffix param>` or appends of constants
	bad := 0
	ast.Inspect(decl.Body, func(n ast.Node) bool {
		as, ok := n.(*ast.AssignStmt)
		if !ok || !r.Passed(nodeHolding(f, as)) {
			return true
		}
		for i, l := range as.Lhs {
			id, ok := ast.Unparen(l).(*ast.Ident)
			if !ok || info.ObjectOf(id) != nameVar || as.Tok == token.DEFINE {
				continue
			}
			if as.Tok == token.ADD_ASSIGN {
				continue // appends something: suffix or the reserved-table marker
			}
			_ = i
			bad++
		}
		return true
	})
	run.Check("G-VERBATIM/user-names", "only-appended-to", pos, bad == 0, fmt.Sprintf("a user-written name is overwritten (%d assignments) rather than only suffixed", bad))
	// the call site for parameters passes the empty suffix
	_ = strings.TrimSpace
}

// CheckVarNameOwners: a parameter's final name is only known once all
// variables and imports of its method are registered (later ones rename
// earlier ones through the *Var pointer). So nothing outside the registry may
// write Var.Name, and nothing but the rendering helpers may read it: a name
// copied or completed at build time goes stale or escapes the conflict checks.
func CheckVarNameOwners(run *core.Run, prog *load.Program) {
	checkElementAddresses(run, prog)
	rp := prog.ByPath[load.PkgRegistry]
	tn, _ := rp.Types.Scope().Lookup("Var").(*types.TypeName)
	if tn == nil {
		run.Undecided("G-VARNAME", "role", "internal/registry/var.go", "registry.Var not found")
		return
	}
	st, _ := tn.Type().Underlying().(*types.Struct)
	var nameField *types.Var
	for i := 0; st != nil && i < st.NumFields(); i++ {
		if st.Field(i).Name() == "Name" {
			nameField = st.Field(i)
		}
	}
	if nameField == nil {
		run.Undecided("G-VARNAME", "role", "internal/registry/var.go", "registry.Var has no Name field")
		return
	}
	nReads, nWrites := 0, 0
	funcsOf(prog, func(pkgPath string, info *types.Info, fd *ast.FuncDecl, fn *types.Func) {
		fname := fn.Pkg().Name() + "." + load.FuncName(fn)
		lhs := map[ast.Expr]bool{}
		ast.Inspect(fd.Body, func(n ast.Node) bool {
			switch s := n.(type) {
			case *ast.AssignStmt:
				for _, l := range s.Lhs {
					lhs[ast.Unparen(l)] = true
				}
			case *ast.IncDecStmt:
				lhs[ast.Unparen(s.X)] = true
			}
			return true
		})
		ast.Inspect(fd.Body, func(n ast.Node) bool {
			sel, ok := n.(*ast.SelectorExpr)
			if !ok || info.ObjectOf(sel.Sel) != nameField {
				return true
			}
			if lhs[sel] {
				nWrites++
				run.Check("G-VARNAME/writers", fname, prog.Pos(sel.Pos()), pkgPath == load.PkgRegistry, fname+" assigns Var.Name outside the registry: the name then bypasses the import/variable conflict checks of its scope (two variables can end up with one name)")
				if pkgPath == load.PkgRegistry {
					return true
				}
			}
			nReads++
			okRead := pkgPath == load.PkgRegistry || (pkgPath == load.PkgTemplate && fn.Name() == "Name")
			run.Check("G-VARNAME/readers", fname, prog.Pos(sel.Pos()), okRead, fname+" reads Var.Name while the data is still being built: a later variable or import of the same method can rename this one, so a copied name goes stale (the template must read names through the *Var at render time)")
			return true
		})
	})
	// the accessor of the template package is only called from the template package itself (render helpers)
	funcsOf(prog, func(pkgPath string, info *types.Info, fd *ast.FuncDecl, fn *types.Func) {
		if pkgPath == load.PkgTemplate || pkgPath == load.PkgRegistry {
			return
		}
		ast.Inspect(fd.Body, func(n ast.Node) bool {
			// a function literal runs when it is called, not where it is written: when that is, is the
			// business of the event-order rules (G-MOCK/qualifier-final, G-DATA/name-final)
			if _, isLit := n.(*ast.FuncLit); isLit {
				return false
			}
			if call, ok := n.(*ast.CallExpr); ok {
				if cf, ok := typeutil.Callee(info, call).(*types.Func); ok && cf.Pkg() != nil && cf.Pkg().Path() == load.PkgTemplate {
					switch load.FuncName(cf) {
					case "ParamData.Name", "ParamData.CallName", "ParamData.MethodArg", "MethodData.ArgList", "MethodData.ArgCallList", "MethodData.ReturnArgNameList", "ParamData.TypeString", "MethodData.ReturnArgTypeList":
						run.Check("G-VARNAME/readers", fn.Pkg().Name()+"."+load.FuncName(fn)+"→"+load.FuncName(cf), prog.Pos(call.Pos()), false, load.FuncName(fn)+" renders names ("+load.FuncName(cf)+") while the data is still being built")
					}
				}
			}
			return true
		})
	})
	// type texts are rendered at template time only: a qualifier can change until the last import is registered
	funcsOf(prog, func(pkgPath string, info *types.Info, fd *ast.FuncDecl, fn *types.Func) {
		if pkgPath != load.PkgMoq {
			return
		}
		ast.Inspect(fd.Body, func(n ast.Node) bool {
			if _, isLit := n.(*ast.FuncLit); isLit {
				return false
			}
			if call, ok := n.(*ast.CallExpr); ok {
				if cf, ok := typeutil.Callee(info, call).(*types.Func); ok && cf.Pkg() != nil && cf.Pkg().Path() == load.PkgRegistry && load.FuncName(cf) == "Var.TypeString" {
					run.Check("G-VARNAME/readers", fn.Pkg().Name()+"."+load.FuncName(fn)+"→Var.TypeString", prog.Pos(call.Pos()), false, load.FuncName(fn)+" renders a type text while the data is still being built: the import it is qualified with can be re-aliased by a later registration")
				}
			}
			return true
		})
	})
	run.Count("var_name_reads", nReads)
	run.Count("var_name_writes", nWrites)
	run.Floor("G-VARNAME/writers", 1)
	run.Floor("G-VARNAME/readers", 2)
}

// checkElementAddresses (G-SCOPE/element-address): a pointer to an element of a slice of struct values
// that lives in a struct field or package-level variable and is appended to anywhere in moq goes stale
// when the slice grows beyond its capacity: renames applied later through the slice (or through the
// pointer) are then lost on one side. Elements that are pointers themselves are fine.
func checkElementAddresses(run *core.Run, prog *load.Program) {
	grows := map[types.Object]bool{}
	holder := func(info *types.Info, e ast.Expr) types.Object {
		switch x := ast.Unparen(e).(type) {
		case *ast.SelectorExpr:
			if v, ok := info.ObjectOf(x.Sel).(*types.Var); ok && v.IsField() {
				return v
			}
		case *ast.Ident:
			if v, ok := info.ObjectOf(x).(*types.Var); ok && v.Pkg() != nil && v.Parent() == v.Pkg().Scope() {
				return v
			}
		}
		return nil
	}
	funcsOf(prog, func(pkgPath string, info *types.Info, fd *ast.FuncDecl, fn *types.Func) {
		ast.Inspect(fd.Body, func(n ast.Node) bool {
			as, ok := n.(*ast.AssignStmt)
			if !ok || len(as.Lhs) != len(as.Rhs) {
				return true
			}
			for i, r := range as.Rhs {
				call, ok := ast.Unparen(r).(*ast.CallExpr)
				if !ok {
					continue
				}
				if id, ok := ast.Unparen(call.Fun).(*ast.Ident); ok {
					if bi, ok := info.Uses[id].(*types.Builtin); ok && bi.Name() == "append" {
						if h := holder(info, as.Lhs[i]); h != nil {
							grows[h] = true
						}
					}
				}
			}
			return true
		})
	})
	n := 0
	funcsOf(prog, func(pkgPath string, info *types.Info, fd *ast.FuncDecl, fn *types.Func) {
		ast.Inspect(fd.Body, func(x ast.Node) bool {
			ue, ok := x.(*ast.UnaryExpr)
			if !ok || ue.Op != token.AND {
				return true
			}
			ix, ok := ast.Unparen(ue.X).(*ast.IndexExpr)
			if !ok {
				return true
			}
			sl, ok := info.TypeOf(ix.X).Underlying().(*types.Slice)
			if !ok {
				return true
			}
			if _, isStruct := sl.Elem().Underlying().(*types.Struct); !isStruct {
				return true
			}
			h := holder(info, ix.X)
			if h == nil || !grows[h] {
				return true
			}
			n++
			run.Check("G-SCOPE/element-address", load.FuncName(fn)+":"+h.Name(), prog.Pos(ue.Pos()), false, fmt.Sprintf("%s takes the address of an element of %s, a slice of struct values that moq appends to: once the slice grows beyond its capacity the pointer refers to a dead copy, and a rename made through one of them (a parameter colliding with an import met later, a numbered name) never reaches the other", load.FuncName(fn), types.ExprString(ix.X)))
			return true
		})
	})
	run.Count("element_addresses_of_growing_slices", n)
}
