package props

import (
	"sort"

	"verif/checker/internal/gen"
)

func freeNameList(c *Ctx, rule string) []string {
	fn, err := c.FreeNames()
	if err != nil {
		c.Run.Undecided(rule, "K-FREE", "internal/template/template.go", "the identifiers the generated body must resolve cannot be computed: "+err.Error())
		return nil
	}
	var names []string
	for n := range fn {
		names = append(names, n)
	}
	sort.Strings(names)
	c.Run.Sample(map[string]any{"K-FREE": fn})
	c.Run.Count("kfree_names", len(names))
	return names
}

func init() {
	register("C14", "other", func(c *Ctx) {
		c.Run.Explainf("C14 (output is a deterministic function of package and options): every nondeterminism source in moq's four packages is enumerated from the type-checked syntax — each `range` over a map must be an order-insensitive idiom (collect keys/values, then sort by a strict order before any other use; a pure existence test) or a table line with a reason; no go statement, select, clock, random source, process-environment read or %%p formatting; no package-level variable is written after initialisation (fresh generator instances and repeated Mock calls start from the same state). Methods are enumerated by index over go/types' canonical order (G-DATA rule of C02/C20).")
		c.Run.Assumef("determinism of `go list`, go/types, go/format and goimports (dependencies) is trusted")
		gen.CheckDeterminism(c.Run, c.Prog)
		gen.CheckPure(c.Run, c.Prog, "G-PURE/render-helpers")
		gen.PositiveControlDeterminism(c.Run, c.Prog)
		// the same command line yields the same file only if every run regenerates
		cliAlwaysGenerates(c)
	})
	register("C12", "other", func(c *Ctx) {
		c.Run.Explainf("C12 (parameter and result identifiers never collide or capture) — necessary conditions only: (a) the reserved-name table of the name proposer (found by role: the moq function whose result first defines the local that becomes Var.Name in AddVar) covers every fixed identifier the generated method body resolves from inside the parameters' scope (computed from the skeletons over all flag combinations: K-FREE), all Go keywords and all predeclared type names; (b) every return path of the proposer passes the table (go/cfg, table node deleted); (c) in AddVar, import discovery, retro-active renames, the import-qualifier test and the variable test all dominate the construction of the Var, unconditionally; numbered candidates are tested against variables and imports before use; (d) parameters and results of a method share one scope, methods never do (G-SCOPE, from the interpretation of Mock). NOT decided: pairwise distinctness produced by the numbering algorithm and distinctness of Exported() names for every parameter list (value level).")
		c.collisionRows = true
		namesTables(c, freeNameList(c, "G-RESERVED"), false, false)
		gen.CheckVarNameOwners(c.Run, c.Prog)
		// distinct parameter names give distinct record fields only as far as Exported maps names apart: its
		// decision table (case folding of initialisms, first letter upper-cased, nothing removed) is pinned here
		exportedTable(c)
		// AddVar tests names against the imports through searchImport: it must see the current qualifiers
		searchLiveTable(c)
		c.Run.Floor("G-RESERVED/covers", 40)
		c.RunSkeletons(SkelOpts{Rules: []string{"G-SCOPE", "K-RECORD/literal", "G-DATA/name-final"}, Env: smallEnv})
	})
}
