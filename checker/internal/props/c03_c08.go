package props

import (
	"strings"

	"verif/checker/internal/gen"

	"verif/checker/internal/skel"
	"verif/checker/internal/tmpl"
)

const lemma = "generated names are capture-free and pairwise distinct in every scope (lemma L3/L4 of DESIGN §4; C12/C11 decide only necessary conditions of it)"

func skeletonExplain(c *Ctx, what string) {
	c.Run.Explainf("%s Method: the template string is extracted from /repo (role: the argument of text/template Parse), parsed with text/template/parse and expanded abstractly — an own walker over the parse tree, Execute is never called — for every combination of -stub/-skip-ensure/-with-resets, both destination modes and every method/mock shape class (0..2 parameters with and without a variadic tail, 0..2 results, 0..2 methods, 0..2 type parameters with/without explicit constraint, 1..2 mocks; thorough: 0..3). The template data methods it calls (ArgList, ArgCallList, ReturnArgTypeList, ReturnArgNameList, MethodArg, CallName, TypeString, ImportStatement, SyncPkgQualifier, Package.Path/Qualifier) are interpreted abstractly from their current source over symbolic strings (opaque tokens for names and type texts), so a change hidden in a helper changes the skeleton. Each skeleton is type-checked with go/types against an independently declared interface and analysed with go/cfg.", what)
	c.Run.Assumef(lemma)
	c.Run.Assumef("S-3 uniformity: range bodies use their index only for truthiness and method bodies do not refer to other methods (checked on the template on every run), so larger lists add no behaviour")
	c.Run.Assumef("go/types, go/cfg and text/template/parse are trusted; text/template's truthiness and field/method lookup rules are re-implemented in the expander")
}

func init() {
	register("C03", "other", func(c *Ctx) {
		skeletonExplain(c, "C03 (faithful delegation): per generated interface method — exactly one call through a function field, through the method's own field, arguments exactly the parameters in declaration order, '...' iff the last parameter is variadic, parameters never assigned or address-taken, `return f(...)` for methods with results and a last plain statement otherwise, nothing after the call, no go/defer/recover/function literal, no loop, the call on every completing path except the nil branch of a test of the own field; no other generated function invokes a function field.")
		c.Run.Floor("K-CALLBACK/once", 1)
		c.Run.Floor("K-CALLBACK/args", 2)
		// the call reaches MFunc at all only if no function of the mock leaves one of its locks held (a lock
		// leaked by an accessor blocks the next call of the method before it delegates)
		c.RunSkeletons(SkelOpts{Rules: []string{"K-CALLBACK", "K-FLOW", "K-LOCK/defer", "K-LOCK/held-at-exit", "K-LOCK/unbalanced", "K-NILFUNC/guard", "G-DATA/params", "G-DATA/methods", "G-DATA/name-final"}})
		// signature and call site are rendered by separate helpers: they agree only if rendering is a pure function of the data
		gen.CheckPure(c.Run, c.Prog, "G-PURE/render-helpers")
	})
	register("C04", "other", func(c *Ctx) {
		skeletonExplain(c, "C04 (every call recorded, in order, exact arguments): exactly one `x = append(x, rec)` per method on a record slice, on every path to the callback and to every normal exit; rec is defined once by a struct literal with one keyed field per parameter in order, named Exported(param) and set to that parameter, of the slice's element type; the only writers of record slices anywhere are append-one and `= nil` (so a returned header is never written below its length and a reset never reuses its array); the accessor returns exactly the header read under the lock; all mock fields work from the zero value; the record is *readable* from inside MFunc (no lock of the mock is held while it runs, no deferred unlock); where reset functions are generated they clear exactly the record slices they name (ResetCalls: all of them), unconditionally.")
		c.Run.Floor("K-RECORD/append-once", 1)
		c.Run.Floor("K-RECORD/literal", 3)
		c.Run.Floor("K-RECORD/accessor", 2)
		// "since M was last reset": a reset that names M (ResetMCalls, ResetCalls) leaves M's record empty
		c.RunSkeletons(SkelOpts{Rules: []string{"K-RECORD", "K-FLOW/acyclic", "K-LOCK/held-at-callback", "K-LOCK/defer", "K-LOCK/held-at-exit", "K-RESET", "K-LOCK/access-locked"}})
	})
	register("C05", "other", func(c *Ctx) {
		skeletonExplain(c, "C05 (race freedom of the record lists): Eraser-style lockset discipline on the skeletons — every read or write of a record slice happens with a lock of the receiver certainly held (must-lockset over go/cfg), writes under a write lock, one common lock protects all accesses of a slice across all functions of the mock, distinct methods use distinct slices and locks, lock fields are sync.RWMutex/Mutex values of import path \"sync\" (resolved by go/types, so a user package named sync cannot stand in), receivers are pointers, no reference to the storage escapes. The atomic-list behaviour (count, no tearing, per-goroutine order, prefix-monotone snapshots) follows from these facts plus C04's single append inside one write section and the Go memory model; that derivation is an argument, not machine-checked.")
		c.Run.Floor("K-LOCK/access-locked", 3)
		c.Run.Floor("K-LOCK/write-exclusive", 1)
		// the lock fields are sync.RWMutex only if "sync" in the file is the standard package: it is registered
		// by its path, by Mock, whatever else answers to that name
		gen.CheckImports(c.Run, c.Prog)
		c.RunSkeletons(SkelOpts{Rules: []string{"K-LOCK/access-locked", "K-LOCK/write-exclusive", "K-LOCK/common-lock", "K-LOCK/distinct-locks", "K-LOCK/lock-type", "K-LOCK/receiver", "K-LOCK/unbalanced", "K-RECORD/escape", "K-RECORD/distinct-storage", "K-RECORD/writers", "K-FLOW/go", "K-RESET/frame", "K-FLOW/calls"}})
	})
	register("C06", "proof", func(c *Ctx) {
		skeletonExplain(c, "C06 (no internal lock held while user code runs): a may/must lockset dataflow over go/cfg runs on every function with a mock receiver. Obligations per function: lockset empty at the call through the function field (K-LOCK/held-at-callback), empty at every exit incl. panics (held-at-exit), no acquire while any lock may be held (nested), releases only of held locks (unbalanced), no call other than append/len inside a critical section, no loop inside one, no defer at all, no goroutine/channel operation/function literal.")
		c.Run.Trusted = []string{"go/parser, go/types, golang.org/x/tools/go/cfg", "text/template/parse (parser only)", "substitution lemma of DESIGN §4 (names are capture free and distinct: L3/L4)", "sync.RWMutex semantics", "S-3 uniformity of the template (checked syntactically on every run)"}
		c.Run.Floor("K-LOCK/held-at-callback", 1)
		c.Run.Floor("K-LOCK/held-at-exit", 3)
		c.RunSkeletons(SkelOpts{Rules: []string{"K-LOCK/held-at-callback", "K-LOCK/held-at-exit", "K-LOCK/nested", "K-LOCK/unbalanced", "K-LOCK/call-in-critical-section", "K-LOCK/loop-in-critical-section", "K-LOCK/defer", "K-FLOW/go", "K-FLOW/funclit", "K-FLOW/chan"}})
	})
	register("C07", "other", func(c *Ctx) {
		skeletonExplain(c, "C07 (unset function: identifying panic by default, zero values with -stub): every method has exactly one nil test of its own function field and it guards the call; without -stub its nil branch does nothing but call the builtin panic with a constant string that contains <Mock>.<M>Func and <Interface>.<M>; with -stub the function contains no panic at all, the call is recorded on every path (K-RECORD/every-path) and the nil branch returns variables that are declared without initialiser, never assigned, and have exactly the result types in order (bare return for result-less methods).")
		c.Run.Floor("K-NILFUNC/guard", 2)
		c.Run.Floor("K-NILFUNC/panic", 3)
		c.Run.Floor("K-NILFUNC/stub-branch", 2)
		c.RunSkeletons(SkelOpts{Rules: []string{"K-NILFUNC", "K-RECORD/every-path", "K-RECORD/before-callback", "G-DATA/flags", "G-DATA/results", "G-SCOPE/shared", "G-MOCK/accepts"}, UnknownOptions: true})
		flagFlow(c, "stub")
		cliAlwaysGenerates(c)
		// the result variables of the -stub branch are allocated like parameters, in the same scope, and the
		// builtin panic of the default branch must not be shadowed by a parameter
		namesTables(c, freeNameList(c, "G-RESERVED"), false, false)
		gen.CheckVarNameOwners(c.Run, c.Prog)
	})
	register("C08", "other", func(c *Ctx) {
		skeletonExplain(c, "C08 (reset API only on request, clears exactly what it names): the method set of every mock is {M, MCalls} for each M, plus {ResetMCalls for each M, ResetCalls} iff with-resets (every other flag combination); ResetMCalls writes nil, unconditionally and under the write lock, to exactly the slice its method appends to and reads nothing; ResetCalls does so for the slices of all methods; clearing is `= nil`, never a re-slice. The flag's way from the command line to the template data is checked as an identity flow on the generator's source (G-FLAGS).")
		c.Run.Floor("K-MSET/reset", 4)
		c.Run.Floor("K-RESET/frame", 4)
		c.RunSkeletons(SkelOpts{Rules: []string{"K-MSET", "K-RESET", "K-RECORD/writers", "K-LOCK/access-locked", "K-LOCK/write-exclusive", "G-DATA/flags", "G-MOCK/accepts"}, UnknownOptions: true, KeepOb: func(o skel.Ob, e tmpl.Env) bool {
			if strings.HasPrefix(o.Rule, "K-RECORD/writers") || strings.HasPrefix(o.Rule, "K-LOCK/") {
				return strings.HasPrefix(o.Key, "reset")
			}
			return true
		}})
		flagFlow(c, "with-resets")
		// the flag decides what is at -out only if a run always regenerates and replaces the whole file
		cliFileReplaced(c)
		cliAlwaysGenerates(c)
	})
}
