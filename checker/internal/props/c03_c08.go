package props

import "verif/checker/internal/tmpl"

func init() {
	register("C06", "proof", func(c *Ctx) {
		c.Run.Explainf("C06 (no internal lock held while user code runs) is decided on the generated-code schemas: the template is extracted from /repo, parsed with text/template/parse, and expanded abstractly (never executed) for every combination of the three flags, both destination modes and all method/mock shape classes; each skeleton is type-checked and a may/must lockset dataflow over go/cfg runs on every function with a mock receiver. Obligations per function: lockset empty at the call through the function field (K-LOCK/held-at-callback), empty at every exit incl. panics (held-at-exit), no acquire while any lock may be held (nested), releases only of held locks (unbalanced), no call other than append/len inside a critical section, no loop inside one, no defer at all.")
		c.Run.Trusted = []string{"go/parser, go/types, golang.org/x/tools/go/cfg", "text/template/parse (parser only)", "substitution lemma of DESIGN §4 (names are capture free and distinct: L3/L4)", "sync.RWMutex semantics", "S-3 uniformity of the template (checked syntactically on every run)"}
		c.Run.Assumef("generated names are capture-free and pairwise distinct (lemma L3/L4, DESIGN §4)")
		c.Run.Floor("K-LOCK/held-at-callback", 1)
		c.Run.Floor("K-LOCK/held-at-exit", 3)
		c.RunSkeletons(SkelOpts{Rules: []string{"K-LOCK/held-at-callback", "K-LOCK/held-at-exit", "K-LOCK/nested", "K-LOCK/unbalanced", "K-LOCK/call-in-critical-section", "K-LOCK/loop-in-critical-section", "K-LOCK/defer", "K-FLOW/go", "K-FLOW/funclit", "K-FLOW/chan"}})
	})
	_ = tmpl.Env{}
}
