package props

// placeholders, replaced as the generator-side rules land
func flagFlow(c *Ctx, flagName string) {}
func genMap(c *Ctx)                    {}
func genGeneric(c *Ctx)                {}
func genFormat(c *Ctx)                 {}
func genMocks(c *Ctx)                  {}
func genCompile(c *Ctx)                {}
