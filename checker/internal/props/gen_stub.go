package props

import "verif/checker/internal/gen"

// generator-side rules shared by several properties

func flagFlow(c *Ctx, flagName string) { cliFlag(c, flagName) }

func buildSettings(c *Ctx) {
	// the binary computes what the library computes under test: no //go:debug or go.mod setting that changes
	// what go/types hands to moq (aliases)
	gen.CheckBuildSettings(c.Run, c.Prog)
	gen.PositiveControlBuild(c.Run, c.Prog)
}

func genMap(c *Ctx) {
	buildSettings(c)
	gen.CheckKinds(c.Run, c.Prog)
	kindsTable(c)
	lookupTable(c)
	// signatures are identical only if every type text carries the right qualifier
	destinationTables(c)
	// ... and distinct packages get distinct imports and qualifiers
	importTables(c)
	// a type text follows its package's qualifier only while the Var and the registry share the *Package
	gen.CheckVarNameOwners(c.Run, c.Prog)
}

func genGeneric(c *Ctx) {
	buildSettings(c)
	gen.CheckKinds(c.Run, c.Prog)
	kindsTable(c)
	gen.CheckAliasAware(c.Run, c.Prog)
	lookupTable(c)
	representativeTable(c)
	// a parameter whose type is a type parameter must not be named after it (it would shadow the type parameter)
	namesTables(c, nil, false, true)
	// the type arguments of the self-check line are type texts: rendered when the file is, not while the
	// data is built (G-VARNAME/readers)
	gen.CheckVarNameOwners(c.Run, c.Prog)
}

func genFormat(c *Ctx) {}

func genMocks(c *Ctx) {
	parseTable(c)
	gen.CheckNoGlobalWrites(c.Run, c.Prog, "G-FRAME/global-state")
	gen.CheckPure(c.Run, c.Prog, "G-PURE/render-helpers")
	// the import registry is the one piece of state shared by the mocks of a run
	gen.CheckImports(c.Run, c.Prog)
	importTables(c)
	// a mock rendered after a later mock's imports were registered still prints through the registry's own
	// *Package values (no stale copies: G-SCOPE/element-address, G-VARNAME)
	gen.CheckVarNameOwners(c.Run, c.Prog)
	// names and conflict marks of one method (of one mock) do not reach the next: every MethodScope call
	// hands out an empty scope (G-SCOPE/fresh-scope, with the rest of the naming scenarios)
	namesTables(c, nil, false, false)
}

func genCompile(c *Ctx) {
	buildSettings(c)
	gen.CheckKinds(c.Run, c.Prog)
	kindsTable(c)
	// the path an import is registered and printed under is the package's own (vendor prefix stripped,
	// nothing else): otherwise the import spec names a package that does not exist
	destinationTables(c)
	gen.CheckImports(c.Run, c.Prog)
	importTables(c)
	// the names moq invents for unnamed parameters are identifiers (what they are is C09's business)
	c.namingIdentOnly = true
	c.collisionRows = true
	namesTables(c, freeNameList(c, "G-RESERVED"), false, true)
	gen.CheckVarNameOwners(c.Run, c.Prog)
	// the self-check line and the mock's type parameter list are written from what LookupInterface returns
	lookupTable(c)
}
