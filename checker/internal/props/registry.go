package props

// Property couples an id with its check and claimed level.
type Property struct {
	Level string
	Check func(c *Ctx)
}

// All maps property ids to checks.
var All = map[string]Property{}

func register(id, level string, f func(c *Ctx)) { All[id] = Property{Level: level, Check: f} }
