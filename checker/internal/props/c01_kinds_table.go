package props

import (
	"fmt"
	"go/ast"
	"go/token"
	"go/types"
	"sort"
	"strings"

	"golang.org/x/tools/go/types/typeutil"

	"verif/checker/internal/gen"
	"verif/checker/internal/interp"
	"verif/checker/internal/load"
)

// kindsTable decides "import discovery registers exactly the packages the type
// printer prints" by interpreting the walker's current source on one abstract
// go/types value per type constructor. Every component of such a value is a
// named type of its own package, so the set of registered packages says which
// components were visited. Index loops over components are checked to be
// uniform (G-KINDS/uniform-loops in gen), which makes short lists representative.

type ktype = *interp.Opaque

func kpath(name string) string { return "example.test/" + name }

func seqOfT(ts []ktype) *interp.Seq {
	sq := &interp.Seq{}
	for _, t := range ts {
		sq.Elems = append(sq.Elems, t)
	}
	return sq
}

func indexed(what string, elems []interp.Value) func(*interp.Machine, token.Pos, []interp.Value) (interp.Value, error) {
	return func(m *interp.Machine, pos token.Pos, args []interp.Value) (interp.Value, error) {
		i, ok := args[0].(int64)
		if !ok || i < 0 || int(i) >= len(elems) {
			m.Notes = append(m.Notes, interp.Note{Rule: "H-PANIC", Key: what + "-out-of-range", Pos: pos, Msg: fmt.Sprintf("%s(%s) with %d elements would panic", what, interp.Show(args[0]), len(elems))})
			return nil, &interp.ErrUndecided{Pos: pos, Msg: fmt.Sprintf("%s(%s) with %d elements panics", what, interp.Show(args[0]), len(elems))}
		}
		return elems[i], nil
	}
}

func vals(ts []ktype) []interp.Value {
	var out []interp.Value
	for _, t := range ts {
		out = append(out, t)
	}
	return out
}

func kNamedIn(pkgPath, pkgName, name string, targs []ktype, under ktype) ktype {
	var pkg interp.Value = interp.NilV{}
	if pkgPath != "" {
		pkg = pkgOpaque(pkgPath, pkgName)
	}
	obj := &interp.Opaque{Kind: "types.TypeName", ID: name + ".obj", GoType: "*go/types.TypeName", Methods: mmap{"Pkg": tmeth(pkg), "Name": tmeth(interp.Lit(name))}}
	var tl interp.Value = interp.NilV{}
	if len(targs) > 0 {
		tl = &interp.Opaque{Kind: "types.TypeList", ID: name + ".targs", GoType: "*go/types.TypeList", Methods: mmap{
			"Len": tmeth(int64(len(targs))), "At": indexed("TypeList.At", vals(targs)), "Types": tmeth(seqOfT(targs)),
		}}
	}
	t := &interp.Opaque{Kind: "types.Type", ID: name, GoType: "*go/types.Named", Methods: mmap{"Obj": tmeth(obj), "TypeArgs": tmeth(tl), "TypeParams": tmeth(interp.NilV{}), "String": tmeth(interp.Lit(name))}}
	if under == nil {
		under = &interp.Opaque{Kind: "types.Type", ID: name + ".under", GoType: "*go/types.Struct", Methods: mmap{"NumFields": tmeth(int64(0)), "Fields": tmeth(&interp.Seq{})}}
	}
	t.Methods["Underlying"] = tmeth(under)
	return t
}

// kAliasIn is an alias type `type name = rhs` declared in the given package (a *types.Alias, as go/types
// presents declared aliases since go1.23).
func kAliasIn(pkgPath, pkgName, name string, rhs ktype) ktype {
	var pkg interp.Value = interp.NilV{}
	if pkgPath != "" {
		pkg = pkgOpaque(pkgPath, pkgName)
	}
	obj := &interp.Opaque{Kind: "types.TypeName", ID: name + ".obj", GoType: "*go/types.TypeName", Methods: mmap{"Pkg": tmeth(pkg), "Name": tmeth(interp.Lit(name))}}
	t := &interp.Opaque{Kind: "types.Type", ID: name, GoType: "*go/types.Alias", Methods: mmap{"Obj": tmeth(obj), "Rhs": tmeth(rhs), "TypeArgs": tmeth(interp.NilV{}), "TypeParams": tmeth(interp.NilV{}), "String": tmeth(interp.Lit(name))}, Attrs: map[string]interp.Value{"unalias": rhs}}
	if u, ok := rhs.Methods["Underlying"]; ok {
		t.Methods["Underlying"] = u
	} else {
		t.Methods["Underlying"] = tmeth(rhs)
	}
	return t
}

// kLeaf is a named type of its own package k<name>.
func kLeaf(name string) ktype { return kNamedIn(kpath(name), name, "T"+name, nil, nil) }

func kElem(goType string, elem ktype) ktype {
	return &interp.Opaque{Kind: "types.Type", ID: goType + "(" + elem.ID + ")", GoType: goType, Methods: mmap{"Elem": tmeth(elem), "Len": tmeth(int64(3)), "Dir": tmeth(int64(0))}}
}

func kVar(name string, t ktype) *interp.Opaque {
	return &interp.Opaque{Kind: "types.Var", ID: "var:" + name, GoType: "*go/types.Var", Methods: mmap{"Type": tmeth(t), "Name": tmeth(interp.Lit(name))}, Attrs: map[string]interp.Value{"type": t, "name": interp.Lit(name)}}
}

func kTuple(id string, ts []ktype) *interp.Opaque {
	var vs []interp.Value
	sq := &interp.Seq{}
	for i, t := range ts {
		v := kVar(fmt.Sprintf("%s%d", id, i), t)
		vs = append(vs, v)
		sq.Elems = append(sq.Elems, v)
	}
	return &interp.Opaque{Kind: "types.Tuple", ID: id, GoType: "*go/types.Tuple", Methods: mmap{"Len": tmeth(int64(len(ts))), "At": indexed("Tuple.At", vs), "Variables": tmeth(sq)}}
}

func kSig(id string, params, results []ktype) ktype {
	return &interp.Opaque{Kind: "types.Type", ID: id, GoType: "*go/types.Signature", Methods: mmap{
		"Params": tmeth(kTuple(id+".p", params)), "Results": tmeth(kTuple(id+".r", results)), "Variadic": tmeth(false),
		"TypeParams": tmeth(interp.NilV{}), "RecvTypeParams": tmeth(interp.NilV{}), "Recv": tmeth(interp.NilV{}),
	}}
}

func kStruct(id string, fields []ktype) ktype {
	var vs []interp.Value
	sq := &interp.Seq{}
	for i, t := range fields {
		v := kVar(fmt.Sprintf("%s.f%d", id, i), t)
		vs = append(vs, v)
		sq.Elems = append(sq.Elems, v)
	}
	return &interp.Opaque{Kind: "types.Type", ID: id, GoType: "*go/types.Struct", Methods: mmap{"NumFields": tmeth(int64(len(fields))), "Field": indexed("Struct.Field", vs), "Fields": tmeth(sq), "Tag": tmeth(interp.Lit(""))}}
}

func kUnion(id string, terms []ktype) ktype {
	var vs []interp.Value
	sq := &interp.Seq{}
	for i, t := range terms {
		term := &interp.Opaque{Kind: "types.Term", ID: fmt.Sprintf("%s.t%d", id, i), GoType: "*go/types.Term", Methods: mmap{"Type": tmeth(t), "Tilde": tmeth(i == 0)}}
		vs = append(vs, term)
		sq.Elems = append(sq.Elems, term)
	}
	return &interp.Opaque{Kind: "types.Type", ID: id, GoType: "*go/types.Union", Methods: mmap{"Len": tmeth(int64(len(terms))), "Term": indexed("Union.Term", vs), "Terms": tmeth(sq)}}
}

func kIface(id string, methodSigs []ktype, embedded []ktype) ktype {
	var fs []interp.Value
	sq := &interp.Seq{}
	for i, s := range methodSigs {
		f := &interp.Opaque{Kind: "types.Func", ID: fmt.Sprintf("%s.m%d", id, i), GoType: "*go/types.Func", Methods: mmap{"Type": tmeth(s), "Name": tmeth(interp.Lit(fmt.Sprintf("M%d", i))), "Signature": tmeth(s)}}
		fs = append(fs, f)
		sq.Elems = append(sq.Elems, f)
	}
	all := append([]interp.Value{}, fs...)
	allSeq := &interp.Seq{Elems: append([]interp.Value{}, sq.Elems...)}
	if len(embedded) > 0 {
		inh := kSig(id+".inherited", []ktype{kLeaf("hidden")}, nil)
		f := &interp.Opaque{Kind: "types.Func", ID: id + ".inherited.m", GoType: "*go/types.Func", Methods: mmap{"Type": tmeth(inh), "Name": tmeth(interp.Lit("Inherited")), "Signature": tmeth(inh)}}
		all = append(all, f)
		allSeq.Elems = append(allSeq.Elems, f)
	}
	t := &interp.Opaque{Kind: "types.Type", ID: id, GoType: "*go/types.Interface"}
	t.Methods = mmap{
		"NumExplicitMethods": tmeth(int64(len(fs))), "ExplicitMethod": indexed("Interface.ExplicitMethod", fs), "ExplicitMethods": tmeth(sq),
		"NumEmbeddeds": tmeth(int64(len(embedded))), "EmbeddedType": indexed("Interface.EmbeddedType", vals(embedded)), "EmbeddedTypes": tmeth(seqOfT(embedded)),
		// the complete method set also holds the methods of the embedded interfaces; the printer prints the
		// explicit ones only: when something is embedded, one inherited method whose signature mentions a
		// package printed nowhere
		"NumMethods": tmeth(int64(len(all))), "Method": indexed("Interface.Method", all), "Methods": tmeth(allSeq),
		"Underlying": tmeth(t), "Complete": tmeth(t), "Empty": tmeth(len(fs) == 0 && len(embedded) == 0),
	}
	return t
}

type kcase struct {
	desc string
	t    ktype
	want []string // package paths
}

func kindCases() []kcase {
	p := func(names ...string) []string {
		var out []string
		for _, n := range names {
			out = append(out, kpath(n))
		}
		return out
	}
	basic := func(name string, kind types.BasicKind) ktype {
		return &interp.Opaque{Kind: "types.Type", ID: name, GoType: "*go/types.Basic", Methods: mmap{"Kind": tmeth(int64(kind)), "Name": tmeth(interp.Lit(name)), "String": tmeth(interp.Lit(name)), "Info": tmeth(int64(0))}}
	}
	a, b, c, d, e := kLeaf("ka"), kLeaf("kb"), kLeaf("kc"), kLeaf("kd"), kLeaf("ke")
	hidden := kLeaf("hidden") // a package the printer never prints at the node under test
	tparam := &interp.Opaque{Kind: "types.Type", ID: "tparam", GoType: "*go/types.TypeParam", Methods: mmap{
		"Constraint": tmeth(kIface("constraint", nil, []ktype{hidden})), "Obj": tmeth(&interp.Opaque{Kind: "types.TypeName", ID: "tparam.obj", GoType: "*go/types.TypeName", Methods: mmap{"Pkg": tmeth(pkgOpaque(kpath("hidden"), "hidden")), "Name": tmeth(interp.Lit("T"))}}),
		"Underlying": tmeth(kIface("constraint.u", nil, []ktype{hidden})), "Index": tmeth(int64(0)),
	}}
	tparams := &interp.Opaque{Kind: "types.TypeParamList", ID: "tparams", GoType: "*go/types.TypeParamList", Methods: mmap{"Len": tmeth(int64(1)), "At": indexed("TypeParamList.At", []interp.Value{tparam}), "TypeParams": tmeth(seqOfT([]ktype{tparam}))}}
	generic := kNamedIn(kpath("ka"), "ka", "G", []ktype{b, c}, kStruct("g.u", []ktype{hidden}))
	generic.Methods["TypeParams"] = tmeth(tparams)
	generic.Methods["Origin"] = tmeth(generic)
	// what the alias stands for (types.Unalias, Rhs, Underlying) mentions only a package the printer never
	// prints here: a walker that resolves the alias instead of visiting its type arguments loses kb and kc
	alias := &interp.Opaque{Kind: "types.Type", ID: "alias", GoType: "*go/types.Alias", Attrs: map[string]interp.Value{"unalias": hidden}}
	aobj := &interp.Opaque{Kind: "types.TypeName", ID: "alias.obj", GoType: "*go/types.TypeName", Methods: mmap{"Pkg": tmeth(pkgOpaque(kpath("ka"), "ka")), "Name": tmeth(interp.Lit("A"))}}
	alias.Methods = mmap{"Obj": tmeth(aobj), "Rhs": tmeth(hidden), "Underlying": tmeth(kStruct("alias.u", []ktype{hidden})), "TypeParams": tmeth(interp.NilV{}),
		"TypeArgs": tmeth(&interp.Opaque{Kind: "types.TypeList", ID: "alias.targs", GoType: "*go/types.TypeList", Methods: mmap{"Len": tmeth(int64(2)), "At": indexed("TypeList.At", []interp.Value{b, c}), "Types": tmeth(seqOfT([]ktype{b, c}))}})}
	// two instantiations of one generic type: as in go/types they share the object (and the origin)
	h1 := kNamedIn(kpath("ka"), "ka", "H", []ktype{b}, nil)
	h2 := kNamedIn(kpath("ka"), "ka", "H", []ktype{c}, nil)
	h2.ID = "H#2"
	h2.Methods["Obj"] = h1.Methods["Obj"]
	h1.Methods["Origin"] = tmeth(h1)
	h2.Methods["Origin"] = tmeth(h1)
	return []kcase{
		{"int", basic("int", types.Int), nil},
		{"unsafe.Pointer", basic("Pointer", types.UnsafePointer), []string{"unsafe"}},
		{"[3]ka.T", kElem("*go/types.Array", a), p("ka")},
		{"[]ka.T", kElem("*go/types.Slice", a), p("ka")},
		{"*ka.T", kElem("*go/types.Pointer", a), p("ka")},
		{"chan ka.T", kElem("*go/types.Chan", a), p("ka")},
		{"map[ka.T]kb.T", &interp.Opaque{Kind: "types.Type", ID: "map", GoType: "*go/types.Map", Methods: mmap{"Key": tmeth(a), "Elem": tmeth(b)}}, p("ka", "kb")},
		{"struct{ka.T; kb.T; kc.T}", kStruct("struct", []ktype{a, b, c}), p("ka", "kb", "kc")},
		{"func(ka.T, kb.T, kc.T) (kd.T, ke.T)", kSig("sig", []ktype{a, b, c}, []ktype{d, e}), p("ka", "kb", "kc", "kd", "ke")},
		{"ka.T | kb.T | kc.T", kUnion("union", []ktype{a, b, c}), p("ka", "kb", "kc")},
		{"interface{ M0(ka.T) kb.T; M1(kc.T); kd.T; ke.T }", kIface("iface", []ktype{kSig("m0", []ktype{a}, []ktype{b}), kSig("m1", []ktype{c}, nil)}, []ktype{d, e}), p("ka", "kb", "kc", "kd", "ke")},
		{"ka.G[kb.T, kc.T] (its underlying type and the constraint of its type parameter mention another package)", generic, p("ka", "kb", "kc")},
		{"map[ka.T]ka.H[kb.T] (the same package twice, the second time with a type argument)", &interp.Opaque{Kind: "types.Type", ID: "map3", GoType: "*go/types.Map", Methods: mmap{"Key": tmeth(a), "Elem": tmeth(kNamedIn(kpath("ka"), "ka", "H", []ktype{b}, nil))}}, p("ka", "kb")},
		{"struct{ka.T; ka.T; kb.T} (a package mentioned twice)", kStruct("struct2", []ktype{a, a, b}), p("ka", "kb")},
		{"func(ka.H[kb.T]) ka.H[kc.T] (one generic type instantiated twice)", kSig("sig2", []ktype{h1}, []ktype{h2}), p("ka", "kb", "kc")},
		{"func(map[ka.T]kb.T, kc.T) kd.T (a type of several components followed by siblings)", kSig("sig3", []ktype{&interp.Opaque{Kind: "types.Type", ID: "map5", GoType: "*go/types.Map", Methods: mmap{"Key": tmeth(a), "Elem": tmeth(b)}}, c}, []ktype{d}), p("ka", "kb", "kc", "kd")},
		{"struct{f0 func(ka.T, kb.T) kc.T; f1 kd.T; f2 ke.T} (nested lists followed by siblings)", kStruct("struct3", []ktype{kSig("sig4", []ktype{a, b}, []ktype{c}), d, e}), p("ka", "kb", "kc", "kd", "ke")},
		{"ka.T", a, p("ka")},
		{"error (a named type of no package)", kNamedIn("", "", "error", nil, nil), nil},
		{"alias ka.A[kb.T, kc.T] of a type from another package", alias, p("ka", "kb", "kc")},
		{"a type parameter whose constraint mentions another package", tparam, nil},
		{"[]map[ka.T]*kb.T (nested)", kElem("*go/types.Slice", &interp.Opaque{Kind: "types.Type", ID: "map2", GoType: "*go/types.Map", Methods: mmap{"Key": tmeth(a), "Elem": tmeth(kElem("*go/types.Pointer", b))}}), p("ka", "kb")},
		{"map[ka.T]other/ka.T (two packages of one name)", &interp.Opaque{Kind: "types.Type", ID: "map4", GoType: "*go/types.Map", Methods: mmap{"Key": tmeth(a), "Elem": tmeth(kNamedIn(kpath("other/ka"), "ka", "T", nil, nil))}}, p("ka", "other/ka")},
		{"a type of a vendored package", kNamedIn("example.test/src/vendor/"+kpath("kv"), "kv", "V", nil, nil), p("kv")},
	}
}

// walkerFunc finds the import discovery walker by role: the registry function that takes a types.Type
// and a map of imports.
func walkerFunc(prog *load.Program) *types.Func {
	pk := prog.ByPath[load.PkgRegistry]
	if pk == nil {
		return nil
	}
	var found []*types.Func
	isWalker := func(sig *types.Signature) bool {
		hasT, hasM := false, false
		for i := 0; i < sig.Params().Len(); i++ {
			pt := sig.Params().At(i).Type()
			if types.TypeString(pt, nil) == "go/types.Type" {
				hasT = true
			}
			if mt, ok := pt.Underlying().(*types.Map); ok && strings.HasSuffix(types.TypeString(mt.Elem(), nil), "registry.Package") {
				hasM = true
			}
		}
		return hasT && hasM
	}
	sc := pk.Types.Scope()
	for _, name := range sc.Names() {
		switch o := sc.Lookup(name).(type) {
		case *types.Func:
			if isWalker(o.Type().(*types.Signature)) {
				found = append(found, o)
			}
		case *types.TypeName:
			ms := types.NewMethodSet(types.NewPointer(o.Type()))
			for i := 0; i < ms.Len(); i++ {
				if f, ok := ms.At(i).Obj().(*types.Func); ok && isWalker(f.Type().(*types.Signature)) {
					found = append(found, f)
				}
			}
		}
	}
	// several candidates (helpers of the walker): the entry is the one AddVar calls
	if len(found) > 1 {
		if av := prog.LookupFunc(load.PkgRegistry, "MethodScope.AddVar"); av != nil {
			if d := prog.Decl(av); d != nil {
				info := prog.Info(av.Pkg())
				for _, f := range found {
					called := false
					inspectCalls(info, d, func(callee *types.Func) {
						if callee.Origin() == f {
							called = true
						}
					})
					if called {
						return f
					}
				}
			}
		}
	}
	if len(found) >= 1 {
		return found[0]
	}
	return nil
}

func kindsTable(c *Ctx) {
	run, prog := c.Run, c.Prog
	// what the table cannot see: the interpreter copies on append, so an element overwritten through a
	// shared array (a level of the walk built in the array of the level being read) needs its own rule
	gen.CheckResliceAppend(run, prog)
	pos := "internal/registry/method_scope.go"
	if fn := prog.LookupFunc(load.PkgRegistry, "MethodScope.AddVar"); fn != nil {
		pos = prog.Pos(fn.Pos())
	}
	cases := kindCases()
	if c.Tier == "thorough" {
		// every case once more inside each unary constructor and as the value of a map: the walk is transitive
		base := kindCases()
		for _, wrap := range []string{"*go/types.Slice", "*go/types.Pointer", "*go/types.Chan", "*go/types.Array"} {
			for _, tc := range base {
				cases = append(cases, kcase{desc: strings.TrimPrefix(wrap, "*go/types.") + " of " + tc.desc, t: kElem(wrap, tc.t), want: tc.want})
			}
		}
		for _, tc := range base {
			key := kLeaf("kz")
			cases = append(cases, kcase{desc: "map[kz.T] of " + tc.desc, t: &interp.Opaque{Kind: "types.Type", ID: "mapwrap(" + tc.t.ID + ")", GoType: "*go/types.Map", Methods: mmap{"Key": tmeth(key), "Elem": tmeth(tc.t)}}, want: append([]string{kpath("kz")}, tc.want...)})
			cases = append(cases, kcase{desc: "func() of " + tc.desc, t: kSig("sigwrap("+tc.t.ID+")", nil, []ktype{tc.t}), want: tc.want})
		}
	}
	// Observed through the exported API, whatever walks the type inside: a variable of the type is added
	// to a fresh method scope (AddVar); what the registry then reports as imported (Imports, Package.Path)
	// must be exactly the packages the type printer asks a qualifier for, and the variable's own type text
	// must find a qualifier for each of them (Var.TypeString with go/types.TypeString modelled as "ask
	// the qualifier for every package of the type").
	for _, tc := range cases {
		w, err := newNameWorld(prog)
		var v *interp.Struct
		if err == nil {
			w.m.Ext["go/types.Unalias"] = func(m *interp.Machine, p token.Pos, recv interp.Value, a []interp.Value) (interp.Value, error) {
				if o, ok := a[0].(*interp.Opaque); ok {
					if u, ok := o.Attrs["unalias"]; ok {
						return u, nil
					}
				}
				return a[0], nil
			}
			v, err = w.add(interp.Lit("x"), tc.t, "")
		}
		if err == nil && w.m.Choices.Forked() {
			err = fmt.Errorf("the walk decides on something the abstract type does not fix (%s)", w.m.Choices.Describe())
		}
		var regs []string
		quals := map[string]string{}
		if err == nil {
			regs, err = w.registeredPaths(quals)
		}
		// the variable's own view: a qualifier for every package the printer asks about
		var unqualified []string
		if err == nil {
			want := tc.want
			w.m.Ext["go/types.TypeString"] = func(m *interp.Machine, p token.Pos, recv interp.Value, args []interp.Value) (interp.Value, error) {
				if len(args) != 2 {
					return &interp.Unknown{Why: "types.TypeString arity"}, nil
				}
				for _, path := range want {
					name := path[strings.LastIndex(path, "/")+1:]
					q, err := m.Call(p, args[1], []interp.Value{pkgOpaque(path, name)})
					if err != nil {
						return nil, err
					}
					if qs, ok := q.(*interp.Sym); !ok || qs.Flat() == "" {
						unqualified = append(unqualified, path+" (registered, but the variable has no qualifier for it)")
					} else if rq, ok := quals[path]; ok && rq != qs.Flat() {
						unqualified = append(unqualified, fmt.Sprintf("%s (registered with the qualifier %q, but the variable prints it as %q)", path, rq, qs.Flat()))
					}
				}
				return interp.Lit("T"), nil
			}
			w.m.Ext["go/types.WriteType"] = func(m *interp.Machine, p token.Pos, recv interp.Value, args []interp.Value) (interp.Value, error) {
				if len(args) != 3 {
					return &interp.Unknown{Why: "types.WriteType arity"}, nil
				}
				return w.m.Ext["go/types.TypeString"](m, p, nil, args[1:])
			}
			_, err = w.m.CallMethod(token.NoPos, &interp.Ptr{Elem: v}, "TypeString", nil)
			if err == nil && w.m.Choices.Forked() {
				err = fmt.Errorf("the type text decides on something the abstract type does not fix (%s)", w.m.Choices.Describe())
			}
		}
		if err != nil {
			p := pos
			if u, ok := err.(*interp.ErrUndecided); ok && u.Pos.IsValid() {
				p = prog.Pos(u.Pos)
			}
			run.Undecided("G-KINDS/table", tc.desc, p, "import discovery cannot be interpreted for "+tc.desc+": "+err.Error())
			continue
		}
		gl := append([]string{}, regs...)
		for _, u := range unqualified {
			gl = append(gl, u)
		}
		sort.Strings(gl)
		want := append([]string{}, tc.want...)
		sort.Strings(want)
		ok := strings.Join(gl, ",") == strings.Join(want, ",")
		run.Check("G-KINDS/table", tc.desc, pos, ok, fmt.Sprintf("for a value of type %s import discovery registers %v, want exactly %v — the packages the type printer prints a qualifier for at that type (each component is a named type of its own package; a missing one means a printed type without its import, an extra one an import the file never uses)", tc.desc, gl, want))
	}
	run.Floor("G-KINDS/table", 15)
}

func inspectCalls(info *types.Info, d *ast.FuncDecl, visit func(callee *types.Func)) {
	ast.Inspect(d.Body, func(n ast.Node) bool {
		if call, ok := n.(*ast.CallExpr); ok {
			if f, ok := typeutil.Callee(info, call).(*types.Func); ok {
				visit(f)
			}
		}
		return true
	})
}
