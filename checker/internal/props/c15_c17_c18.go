package props

import (
	"verif/checker/internal/gen"
	"verif/checker/internal/tmpl"
)

func cli(c *Ctx) *gen.CLI {
	cl, err := gen.ResolveCLI(c.Prog)
	if err != nil {
		c.Run.Undecided("G-CLI/resolve", "package-main", "main.go", "the command-line front end cannot be resolved by role: "+err.Error())
		return nil
	}
	c.Run.Count("flag_bindings", len(cl.Flags))
	return cl
}

func smallEnv(e tmpl.Env) bool {
	// a representative sub-family for the rules that do not depend on method shapes
	if len(e.Mocks) > 2 || e.SyncAliased {
		return false
	}
	for _, m := range e.Mocks {
		if len(m.TypeParams) > 1 || len(m.Methods) > 2 {
			return false
		}
		for _, me := range m.Methods {
			if me.NParams > 1 || me.NResults > 1 {
				return false
			}
		}
	}
	return true
}

func init() {
	register("C15", "other", func(c *Ctx) {
		c.Run.Explainf("C15 (regeneration stable in the presence of earlier output) — only the structural core of the second sentence is decided: in the run function of package main (found by role: the error-returning function main tests), on every path on which -rm and -out are set, os.Remove of exactly the -out path executes before moq.New, the only entry to the package loader (go/cfg reachability with the Remove node deleted and branches pruned by the flag assumptions); an error other than not-exist aborts before the load; a successful removal continues to it. Three necessary conditions of the first sentence are decided as well: the -out file is replaced as a whole (a single os.WriteFile of the complete buffer; no other file-writing API in package main), a new import starts with exactly the alias the loaded source files — moq's previous output included — use for its canonical path, and name allocation and import registration never read the declarations of the loaded package (G-STABLE/source-scope: only the interface lookup does). NOT decided: the fixed-point sentence (whether aliases harvested from moq's own previous output reproduce the same output depends on the values the alias algorithm computes).")
		c.Run.Assumef("os.Remove, errors.Is/os.ErrNotExist behave as documented; packages are loaded only through moq.New (checked: it is the only call into pkg/moq before generation)")
		cliRemove(c)
		cliFileReplaced(c)
		// the aliases moq reads back from its own earlier output: a new import starts with exactly the alias found in the source files
		gen.CheckImports(c.Run, c.Prog)
		importTables(c)
		// ... and nothing else of the loaded package (which contains that earlier output) reaches naming or aliasing
		gen.CheckSourceScopeReaders(c.Run, c.Prog)
		c.Run.Floor("G-MOCK/qualifier-final", 1)
		c.RunSkeletons(SkelOpts{Rules: []string{"G-MOCK/qualifier-final"}, Env: smallEnv, NoExpand: true, UnknownOptions: true})
		c.Run.Floor("G-RM/before-load", 1)
		c.Run.Floor("G-RM/error", 2)
	})
	register("C18", "other", func(c *Ctx) {
		c.Run.Explainf("C18 (moq modifies nothing but the requested output file): who-may-call / effect analysis over the type-resolved syntax of moq's four packages — the call sites of file-system, process and environment mutators (os.Remove/RemoveAll/Rename/Mkdir*/Create*/OpenFile/WriteFile/Chmod/…, (*os.File) writers, os/exec, ioutil, syscall writers; also their use as values) are exactly os.Remove, os.MkdirAll and os.WriteFile in main's run function, applied to the -out path (MkdirAll: filepath.Dir of it); with -out unset no mutator is reachable, without -rm no removal is reachable (go/cfg with branches pruned by flag assumptions); every packages.Config literal sets only Mode and Dir (Overlay would write files, BuildFlags/Env can make `go list` rewrite go.mod).")
		c.Run.Assumef("effects of the go command that packages.Load spawns (module cache, build cache) are outside the program; dependencies (x/tools) are covered by the thorough tier's call-graph listing only")
		gen.CheckEffectSites(c.Run, c.Prog)
		cliEffects(c)
		// with -rm whatever sits at -out (a dangling link included) is removed before anything is written:
		// otherwise the write goes through it to a place -out does not name
		cliRemove(c)
		if c.Tier == "thorough" {
			gen.CheckEffectsGraph(c.Run, c.Prog)
		}
		gen.PositiveControlEffects(c.Run, c.Prog)
	})
	register("C17", "other", func(c *Ctx) {
		c.Run.Explainf("C17 (output is all-or-nothing): three functions. (1) (*Mocker).Mock is interpreted abstractly, path-sensitively (every fallible call — interface lookup of the k-th of n names, template execution, formatting, the write — returns an abstract error that is nil or not; all combinations are explored, no solver): on every path the caller's writer is written at most once, as the last event, with the formatted bytes of a local buffer the template was executed into; a failure of anything ends the run at once and is returned. (2) run (package main, go/cfg): with -out set Mock writes into a local buffer, without it to os.Stdout; os.MkdirAll/os.WriteFile are reachable only through the nil branches of the error tests of moq.New and Mock; the file content is that buffer; MkdirAll precedes the write and is checked; the write is last and its error returned. (3) main: on failure the error is printed to os.Stderr on every path, never to stdout, and every exit is os.Exit with a non-zero constant; on success no non-zero exit.")
		c.Run.Assumef("what the operating system does inside a failing os.WriteFile (a truncated file) and a writer that fails after b bytes are outside static reach")
		cliAllOrNothing(c)
		// with -rm the old file is "just gone" whatever fails afterwards: the removal comes before the load
		cliRemove(c)
		// an unloadable package is a failure, whatever its errors say
		loadErrorsTable(c)
		c.Run.Floor("G-CLI/errors", 4)
		c.Run.Floor("G-MOCK/write-once", 1)
		c.RunSkeletons(SkelOpts{Rules: []string{"G-MOCK", "G-FORMAT"}, Env: smallEnv, Formatters: tmpl.Formatters, NoExpand: true, UnknownOptions: true})
	})
}
