package props

import (
	"fmt"
	"go/token"
	"go/types"
	"sort"
	"strings"

	"verif/checker/internal/interp"
	"verif/checker/internal/load"
)

// Engine N: variable naming is decided by interpreting (*MethodScope).AddVar
// from its current source, on a registry built by registry.New and a scope
// handed out by (*Registry).MethodScope — whatever helpers AddVar is split
// into and however the reserved names are stored (switch, map, function).

type nameWorld struct {
	*regWorld
	scope interp.Value
	addFn *types.Func
}

func newNameWorld(prog *load.Program) (*nameWorld, error) { return newNameWorldFor(prog, "") }

// newNameWorldFor: a name world whose registry was built for the given -pkg value.
func newNameWorldFor(prog *load.Program, moqPkg string) (*nameWorld, error) {
	return newNameWorldSpecs(prog, moqPkg, nil)
}

// newNameWorldSpecs: as newNameWorldFor, the source package's files carrying the given import specs.
func newNameWorldSpecs(prog *load.Program, moqPkg string, specs []importSpec) (*nameWorld, error) {
	w, err := newRegWorld(prog, specs, moqPkg)
	if err != nil {
		return nil, err
	}
	w.m.ExtVars["go/types.Unsafe"] = pkgOpaque("unsafe", "unsafe")
	ms := prog.LookupFunc(load.PkgRegistry, "Registry.MethodScope")
	add := prog.LookupFunc(load.PkgRegistry, "MethodScope.AddVar")
	if ms == nil || add == nil {
		return nil, fmt.Errorf("(*Registry).MethodScope / (*MethodScope).AddVar not found")
	}
	sc, err := w.m.CallFunc(token.NoPos, ms, w.reg, nil)
	if err != nil {
		return nil, err
	}
	// go/token.IsKeyword on a name: decided for constants, explored keyword by keyword for a symbolic name
	w.m.Ext["go/token.IsKeyword"] = func(m *interp.Machine, pos token.Pos, recv interp.Value, a []interp.Value) (interp.Value, error) {
		s, ok := a[0].(*interp.Sym)
		if !ok {
			return &interp.Unknown{Why: "token.IsKeyword of " + interp.Show(a[0])}, nil
		}
		if c, ok := s.Concrete(); ok {
			return token.IsKeyword(c), nil
		}
		for _, k := range keywordList() {
			eq := fmt.Sprintf("(%q == %q)", s.Flat(), k)
			hit, err := m.TruthOf(&interp.Unknown{Why: eq}, fmt.Sprintf("%d:%s", pos, eq))
			if err != nil {
				return nil, err
			}
			if hit {
				return true, nil
			}
		}
		return false, nil
	}
	// types.Universe.Lookup(name): decided for constants, explored name by name for a symbolic name
	w.m.ExtVars["go/types.Universe"] = &interp.Opaque{Kind: "types.Scope", ID: "universe", GoType: "*go/types.Scope", Methods: mmap{
		"Names": func(m *interp.Machine, pos token.Pos, a []interp.Value) (interp.Value, error) {
			l := &interp.List{}
			for _, n := range types.Universe.Names() {
				l.Elems = append(l.Elems, interp.Lit(n))
			}
			return l, nil
		},
		"Lookup": func(m *interp.Machine, pos token.Pos, a []interp.Value) (interp.Value, error) {
			s, ok := a[0].(*interp.Sym)
			if !ok {
				return &interp.Unknown{Why: "Universe.Lookup of " + interp.Show(a[0])}, nil
			}
			obj := func(n string) interp.Value {
				kind := "*go/types.Builtin"
				switch types.Universe.Lookup(n).(type) {
				case *types.TypeName:
					kind = "*go/types.TypeName"
				case *types.Const:
					kind = "*go/types.Const"
				case *types.Nil:
					kind = "*go/types.Nil"
				}
				return &interp.Opaque{Kind: "types.Object", ID: "universe." + n, GoType: kind, Methods: mmap{"Name": tmeth(interp.Lit(n))}}
			}
			if c, ok := s.Concrete(); ok {
				if types.Universe.Lookup(c) == nil {
					return interp.NilV{}, nil
				}
				return obj(c), nil
			}
			for _, n := range types.Universe.Names() {
				eq := fmt.Sprintf("(%q == %q)", s.Flat(), n)
				hit, err := m.TruthOf(&interp.Unknown{Why: eq}, fmt.Sprintf("%d:%s", pos, eq))
				if err != nil {
					return nil, err
				}
				if hit {
					return obj(n), nil
				}
			}
			return interp.NilV{}, nil
		},
	}}
	return &nameWorld{regWorld: w, scope: sc, addFn: add}, nil
}

func keywordList() []string {
	var out []string
	for t := token.BREAK; t <= token.VAR; t++ {
		out = append(out, t.String())
	}
	return out
}

func nVar(name interp.Value, t ktype) *interp.Opaque {
	return &interp.Opaque{Kind: "types.Var", ID: "var", GoType: "*go/types.Var", Methods: mmap{"Type": tmeth(t), "Name": tmeth(name)}, Attrs: map[string]interp.Value{"type": t, "name": name}}
}

func (w *nameWorld) add(name interp.Value, t ktype, suffix string) (*interp.Struct, error) {
	v, err := w.m.CallFunc(token.NoPos, w.addFn, w.scope, []interp.Value{nVar(name, t), interp.Lit(suffix)})
	if err != nil {
		return nil, err
	}
	p, ok := v.(*interp.Ptr)
	if !ok {
		return nil, fmt.Errorf("AddVar returned %s", interp.Show(v))
	}
	return p.Elem, nil
}

func varNameOf(v *interp.Struct) string {
	if s, ok := v.Fields["Name"].(*interp.Sym); ok {
		return s.Flat()
	}
	return interp.Show(v.Fields["Name"])
}

func nBasic(name string, info types.BasicInfo, kind types.BasicKind) ktype {
	// what go/types itself says about the basic type: Name is the bare name, String the printed form
	// (they differ for unsafe.Pointer: "Pointer" and "unsafe.Pointer")
	str := name
	if int(kind) < len(types.Typ) && types.Typ[kind] != nil {
		name, str = types.Typ[kind].Name(), types.Typ[kind].String()
	}
	return &interp.Opaque{Kind: "types.Type", ID: str, GoType: "*go/types.Basic", Methods: mmap{"Kind": tmeth(int64(kind)), "Name": tmeth(interp.Lit(name)), "String": tmeth(interp.Lit(str)), "Info": tmeth(int64(info))}}
}

// namesTables runs the naming scenarios. required: the identifiers the generated method body must still
// resolve (K-FREE); exact: nothing beyond those, the keywords and the predeclared types may be renamed.
func namesTables(c *Ctx, required []string, exact bool, withDefaults bool) {
	run, prog := c.Run, c.Prog
	pos := "internal/registry/method_scope.go"
	if fn := prog.LookupFunc(load.PkgRegistry, "MethodScope.AddVar"); fn != nil {
		pos = prog.Pos(fn.Pos())
	}
	und := func(rule, key string, err error) {
		p := pos
		if u, ok := err.(*interp.ErrUndecided); ok && u.Pos.IsValid() {
			p = prog.Pos(u.Pos)
		}
		run.Undecided(rule, key, p, "name allocation cannot be interpreted for this scenario: "+err.Error())
	}
	intT := nBasic("int", types.IsInteger, types.Int)
	strT := func() ktype { return nBasic("string", types.IsString, types.String) }
	// ---------------- user-written names: kept, unless reserved (the reserved table is read off the paths)
	for _, suffix := range []string{"", "Out"} {
		choices := interp.NewChoices(1024)
		reserved := map[string]string{} // literal -> resulting name
		verbatim, nPaths := "", 0
		failed := false
		for {
			w, err := newNameWorld(prog)
			if err != nil {
				und("G-VERBATIM/user-names", "table"+suffix, err)
				failed = true
				break
			}
			w.m.Choices = choices
			v, err := w.add(interp.Tok("ƥ"), intT, suffix)
			if err != nil {
				und("G-VERBATIM/user-names", "table"+suffix, err)
				failed = true
				break
			}
			nPaths++
			name := varNameOf(v)
			var trueLits []string
			otherCond := false
			for k, b := range choices.Memo() {
				term := k[strings.IndexByte(k, ':')+1:]
				lit, isEq := eqLiteral(term, "ƥ"+suffix)
				if !isEq {
					otherCond = true
					continue
				}
				if b {
					trueLits = append(trueLits, lit)
				}
			}
			switch {
			case otherCond:
				run.Check("G-VERBATIM/user-names", "decides-on-the-name-only"+suffix, pos, false, "the name given to a parameter written in the interface depends on more than comparisons of that name with constants: "+choices.Describe())
			case len(trueLits) == 0:
				verbatim = name
			case len(trueLits) == 1:
				// on the path where the written name equals the literal, an unchanged name is that literal
				if name != "ƥ"+suffix {
					reserved[trueLits[0]] = name
				}
			}
			more, overflow := choices.Advance()
			if overflow {
				run.Undecided("G-RESERVED", "paths"+suffix, pos, "more than 1024 paths through the naming of a user-written name")
				failed = true
				break
			}
			if !more {
				break
			}
		}
		if failed {
			continue
		}
		run.Count("naming_paths"+suffix, nPaths)
		run.Check("G-VERBATIM/user-names", "kept"+suffix, pos, verbatim == "ƥ"+suffix, fmt.Sprintf("a parameter written as ƥ in the interface (suffix %q) that equals no reserved name is named %q, want %q: names written in the interface are kept, only suffixed", suffix, verbatim, "ƥ"+suffix))
		if suffix != "" {
			continue
		}
		need := map[string]string{}
		for _, n := range required {
			need[n] = "used by the generated method body"
		}
		for _, k := range keywordList() {
			need[k] = "Go keyword"
		}
		for _, n := range types.Universe.Names() {
			if _, ok := types.Universe.Lookup(n).(*types.TypeName); ok {
				need[n] = "predeclared type name (can occur in a type text of the same method)"
			}
		}
		var names []string
		for n := range need {
			names = append(names, n)
		}
		sort.Strings(names)
		for _, n := range names {
			got, isRes := reserved[n]
			run.Check("G-RESERVED/covers", n, pos, isRes && got != n, fmt.Sprintf("a parameter written as %q keeps that name (%s): it shadows what the generated code refers to; want it renamed", n, need[n]))
		}
		if exact {
			var extra []string
			for n := range reserved {
				if _, ok := need[n]; !ok {
					extra = append(extra, n)
				}
			}
			sort.Strings(extra)
			run.Check("G-RESERVED/nothing-else", "table", pos, len(extra) == 0, fmt.Sprintf("parameters written as %v are renamed although these names collide with nothing the generated code uses: such a name is not kept verbatim", extra))
		}
		run.Count("reserved_names", len(reserved))
	}
	// ---------------- conflicts
	type addStep struct {
		name   string // "" = unnamed
		t      func() ktype
		suffix string
	}
	leaf := func(n string) func() ktype { return func() ktype { return kLeaf(n) } }
	intF := func() ktype { return intT }
	scenarios := []struct {
		key   string
		steps []addStep
		keep  []int // indices of steps whose written name must survive (no collision touches them)
		specs []importSpec // import specs of the source package's files (none unless given)
		bare  []string     // type names some type text of the method spells without a qualifier: no variable may bear them
	}{
		{"two unnamed parameters of one type", []addStep{{"", strT, ""}, {"", strT, ""}}, nil, nil, nil},
		{"three unnamed parameters of one type", []addStep{{"", strT, ""}, {"", strT, ""}, {"", strT, ""}}, nil, nil, nil},
		{"an unnamed result next to an unnamed parameter of the same type", []addStep{{"", strT, ""}, {"", strT, "Out"}}, nil, nil, nil},
		{"two unnamed results of one type", []addStep{{"", strT, "Out"}, {"", strT, "Out"}}, nil, nil, nil},
		{"a parameter written s next to an unnamed string", []addStep{{"s", intF, ""}, {"", strT, ""}}, nil, nil, nil},
		{"an unnamed string next to a parameter written s", []addStep{{"", strT, ""}, {"s", intF, ""}}, nil, nil, nil},
		{"parameters written s1 and s2 next to two unnamed strings", []addStep{{"s1", intF, ""}, {"s2", intF, ""}, {"", strT, ""}, {"", strT, ""}}, nil, nil, nil},
		{"a parameter named like a package imported later", []addStep{{"ka", intF, ""}, {"x", leaf("ka"), ""}}, []int{1}, nil, nil},
		{"a parameter named like a package imported earlier", []addStep{{"x", leaf("ka"), ""}, {"ka", intF, ""}}, []int{0}, nil, nil},
		{"a parameter named like the package of its own type", []addStep{{"ka", leaf("ka"), ""}}, nil, nil, nil},
		{"two unnamed values of a type named Float3 (numbering gives float31, float32)", []addStep{{"", func() ktype { return kNamedIn(kpath("kf"), "kf", "Float3", nil, nil) }, ""}, {"", func() ktype { return kNamedIn(kpath("kf"), "kf", "Float3", nil, nil) }, ""}}, nil, nil, nil},
		{"a parameter named like a package, then an unnamed value whose default name is that package's name too", []addStep{{"kt", intF, ""}, {"", func() ktype { return kNamedIn(kpath("kt"), "kt", "Kt", nil, nil) }, ""}}, nil, nil, nil},
		{"an unnamed value whose default name is its package's name, then a parameter named like that package", []addStep{{"", func() ktype { return kNamedIn(kpath("kt"), "kt", "Kt", nil, nil) }, ""}, {"kt", intF, ""}}, nil, nil, nil},
		{"a result named like a package imported by a parameter", []addStep{{"x", leaf("ka"), ""}, {"ka", intF, "Out"}}, []int{0}, nil, nil},
		{"distinct written names", []addStep{{"a", intF, ""}, {"b", strT, ""}, {"c", leaf("ka"), ""}}, []int{0, 1, 2}, nil, nil},
		{"a parameter named like a package that only a result's type imports", []addStep{{"ka", intF, ""}, {"", leaf("ka"), "Out"}}, nil, nil, nil},
		{"a package qualified s1 and two unnamed strings", []addStep{{"x", leaf("s1"), ""}, {"", strT, ""}, {"", strT, ""}}, []int{0}, nil, nil},
		{"a package qualified s2 and three unnamed strings", []addStep{{"x", leaf("s2"), ""}, {"", strT, ""}, {"", strT, ""}, {"", strT, ""}}, []int{0}, nil, nil},
		{"a parameter named like a package met after the mock's own package in one type", []addStep{{"zz", intF, ""}, {"m", func() ktype {
			own := kNamedIn(rwSrcPath, rwSrcName, "Own", nil, nil)
			return &interp.Opaque{Kind: "types.Type", ID: "mapOwn", GoType: "*go/types.Map", Methods: mmap{"Key": tmeth(own), "Elem": tmeth(kLeaf("zz"))}}
		}, ""}}, []int{1}, nil, nil},
		{"a parameter named like the second of two packages one type imports", []addStep{{"kb", intF, ""}, {"m", func() ktype {
			return &interp.Opaque{Kind: "types.Type", ID: "map2p", GoType: "*go/types.Map", Methods: mmap{"Key": tmeth(kLeaf("ka")), "Elem": tmeth(kLeaf("kb"))}}
		}, ""}}, []int{1}, nil, nil},
		// names are compared exactly: what differs in case collides with nothing
		{"written names that differ only in case", []addStep{{"userID", intF, ""}, {"userId", strT, ""}}, []int{0, 1}, nil, nil},
		{"a parameter written in upper case next to a package of that name in lower case", []addStep{{"KA", intF, ""}, {"x", leaf("ka"), ""}}, []int{0, 1}, nil, nil},
		// once two packages of one name have been given other qualifiers, their bare name is free again
		{"a parameter written like the bare name two re-qualified packages share", []addStep{
			{"x", func() ktype { return kNamedIn("example.test/alpha/kc", "kc", "T1", nil, nil) }, ""},
			{"y", func() ktype { return kNamedIn("example.test/beta/kc", "kc", "T2", nil, nil) }, ""},
			{"kc", intF, ""}}, []int{0, 1, 2}, nil, nil},
		// what a source file calls a package the mock never imports is no qualifier of the generated file
		{"a parameter written like the name a source file gives to a package no signature mentions", []addStep{{"kq", intF, ""}, {"x", leaf("ka"), ""}}, []int{0, 1},
			[]importSpec{{name: "kq", path: "example.test/unused/kq0"}, {name: "kr", path: "example.test/unused/kr0"}}, nil},
		{"an unnamed value whose default name is the name a source file gives to a package no signature mentions", []addStep{{"", func() ktype { return kNamedIn(kpath("kf"), "kf", "Kq", nil, nil) }, ""}}, nil,
			[]importSpec{{name: "kq", path: "example.test/unused/kq0"}}, nil},
		// the mock's own package is never imported: a parameter spelled like it collides with nothing
		{key: "a parameter written like the mock's own package, then a parameter of a type of that package", steps: []addStep{{rwSrcName, intF, ""}, {"x", func() ktype { return kNamedIn(rwSrcPath, rwSrcName, "Own", nil, nil) }, ""}}, keep: []int{0, 1}},
		// a rename made behind the back of an earlier variable lands on a name that is still free (D20)
		{key: "a parameter written kaMoqParam, a parameter written ka, then a type of a package named ka", steps: []addStep{{"kaMoqParam", intF, ""}, {"ka", intF, ""}, {"x", leaf("ka"), ""}}, keep: []int{0, 2}},
		// a written name does not hide a type of the destination package that the same method spells bare (D19)
		{key: "a parameter written like a lower-case type of the destination package that a later parameter's type spells", steps: []addStep{{"node", intF, ""}, {"x", func() ktype { return kNamedIn(rwSrcPath, rwSrcName, "node", nil, nil) }, ""}}, bare: []string{"node"}},
	}
	if c.Tier == "thorough" {
		// longer runs of one type, two numbered qualifiers at once, results and parameters mixed
		more := func(key string, steps ...addStep) {
			scenarios = append(scenarios, struct {
				key   string
				steps []addStep
				keep  []int
				specs []importSpec
				bare  []string
			}{key, steps, nil, nil, nil})
		}
		more("five unnamed parameters of one type", addStep{"", strT, ""}, addStep{"", strT, ""}, addStep{"", strT, ""}, addStep{"", strT, ""}, addStep{"", strT, ""})
		more("packages qualified s1 and s3 and four unnamed strings", addStep{"x", leaf("s1"), ""}, addStep{"y", leaf("s3"), ""}, addStep{"", strT, ""}, addStep{"", strT, ""}, addStep{"", strT, ""}, addStep{"", strT, ""})
		more("three unnamed parameters and three unnamed results of one type", addStep{"", strT, ""}, addStep{"", strT, ""}, addStep{"", strT, ""}, addStep{"", strT, "Out"}, addStep{"", strT, "Out"}, addStep{"", strT, "Out"})
		more("written s, s1, s2 and three unnamed strings", addStep{"s", intF, ""}, addStep{"s1", intF, ""}, addStep{"s2", intF, ""}, addStep{"", strT, ""}, addStep{"", strT, ""}, addStep{"", strT, ""})
		more("two unnamed values of a type whose package is named like their default name", addStep{"", leaf("t"), ""}, addStep{"", leaf("t"), ""})
		more("a parameter named like the numbered name a later conflict produces", addStep{"", strT, ""}, addStep{"s2", intF, ""}, addStep{"", strT, ""}, addStep{"", strT, ""})
		more("parameters named like two packages a later result imports", addStep{"ka", intF, ""}, addStep{"kb", intF, ""}, addStep{"", func() ktype {
			return &interp.Opaque{Kind: "types.Type", ID: "mapab", GoType: "*go/types.Map", Methods: mmap{"Key": tmeth(kLeaf("ka")), "Elem": tmeth(kLeaf("kb"))}}
		}, "Out"})
	}
	for _, sc := range scenarios {
		if !c.collisionRows && (len(sc.bare) > 0 || strings.HasPrefix(sc.key, "a parameter written kaMoqParam")) {
			continue
		}
		w, err := newNameWorldSpecs(prog, "", sc.specs)
		if err != nil {
			und("G-ADDVAR/table", sc.key, err)
			continue
		}
		var vars []*interp.Struct
		ok := true
		for _, st := range sc.steps {
			var name interp.Value = interp.Lit(st.name)
			v, err := w.add(name, st.t(), st.suffix)
			if err == nil && w.m.Choices.Forked() {
				err = fmt.Errorf("the allocation decides on something the scenario does not fix (%s)", w.m.Choices.Describe())
			}
			if err != nil {
				und("G-ADDVAR/table", sc.key, err)
				ok = false
				break
			}
			vars = append(vars, v)
		}
		if !ok {
			continue
		}
		// names as they are at the end (earlier variables can be renamed by later ones)
		seen := map[string]int{}
		var all []string
		distinct := true
		for i, v := range vars {
			n := varNameOf(v)
			all = append(all, n)
			if j, dup := seen[n]; dup {
				distinct = false
				_ = j
			}
			seen[n] = i
			if n == "" || n == "_" {
				distinct = false
			}
		}
		quals := map[string]bool{}
		if mv, _ := w.mapField(false); mv != nil {
			for _, p := range mv.Vals {
				if q, err := w.qualifier(p); err == nil {
					quals[q] = true
				}
			}
		}
		clash := ""
		for _, n := range all {
			if quals[n] {
				clash = n
			}
		}
		// ... and none is a predeclared identifier: inside the method body such a parameter shadows it (a
		// numbered name can be one: float3 + 2)
		shadow := ""
		for _, n := range all {
			if types.Universe.Lookup(n) != nil {
				shadow = n
			}
		}
		hides := ""
		for _, n := range all {
			for _, b := range sc.bare {
				if n == b {
					hides = n
				}
			}
		}
		if len(sc.bare) > 0 {
			run.Check("G-ADDVAR/bare-type", sc.key, pos, hides == "", fmt.Sprintf("%s: the variables are named %v — inside the generated method %q denotes the parameter, and the parameter list and the call record spell a type of that name without a qualifier (\"%s is not a type\")", sc.key, all, hides, hides))
		}
		kept := true
		for _, i := range sc.keep {
			if all[i] != sc.steps[i].name+sc.steps[i].suffix {
				kept = false
			}
		}
		var ql []string
		for q := range quals {
			ql = append(ql, q)
		}
		sort.Strings(ql)
		run.Check("G-ADDVAR/table", sc.key, pos, distinct && clash == "" && kept, fmt.Sprintf("%s: the variables are named %v, the imports qualified %v — want pairwise distinct, non-blank names, none equal to an import qualifier of the file, and written names kept where nothing collides with them", sc.key, all, ql))
		if shadow != "" {
			run.Check("G-ADDVAR/predeclared", sc.key, pos, false, fmt.Sprintf("%s: the variables are named %v — %s is a predeclared identifier: inside the method body (the call record's struct type, the stub's result declarations) it then denotes the parameter", sc.key, all, shadow))
		} else {
			run.Check("G-ADDVAR/predeclared", sc.key, pos, true, "")
		}
	}
	// ---------------- an unnamed parameter is not named like a type its own type text spells without a
	// qualifier (a type of the destination package): inside the method that name would denote the parameter
	{
		ownNamed := func(n string) func() ktype {
			return func() ktype { return kNamedIn(rwSrcPath, rwSrcName, n, nil, nil) }
		}
		rows := []struct {
			desc string
			t    func() ktype
			ids  []string
		}{
			{"a defined type of the destination package with a lower-case name", ownNamed("node"), []string{"node"}},
			{"a pointer to such a type", func() ktype { return kElem("*go/types.Pointer", ownNamed("node")()) }, []string{"node"}},
			{"an alias declared in the destination package with a lower-case name", func() ktype {
				return kAliasIn(rwSrcPath, rwSrcName, "keys", kElem("*go/types.Slice", strT()))
			}, []string{"keys"}},
			{"an alias of a defined type, both of the destination package", func() ktype { return kAliasIn(rwSrcPath, rwSrcName, "leaf", ownNamed("node")()) }, []string{"leaf"}},
		}
		for _, row := range rows {
			w, err := newNameWorld(prog)
			if err != nil {
				und("G-NAMING/own-type", row.desc, err)
				continue
			}
			// the world's models do not know declared aliases yet
			w.m.Ext["go/types.Unalias"] = func(m *interp.Machine, p token.Pos, recv interp.Value, a []interp.Value) (interp.Value, error) {
				if o, ok := a[0].(*interp.Opaque); ok {
					if v, ok := o.Attrs["unalias"]; ok {
						return v, nil
					}
				}
				return a[0], nil
			}
			v, err := w.add(interp.Lit(""), row.t(), "")
			if err == nil && w.m.Choices.Forked() {
				err = fmt.Errorf("the name depends on something the abstract type does not fix (%s)", w.m.Choices.Describe())
			}
			if err != nil {
				und("G-NAMING/own-type", row.desc, err)
				continue
			}
			got := varNameOf(v)
			shadows := false
			for _, id := range row.ids {
				if got == id {
					shadows = true
				}
			}
			run.Check("G-NAMING/own-type", row.desc, pos, !shadows && got != "", fmt.Sprintf("an unnamed parameter whose type is %s is named %q: inside the generated method that name hides the type the parameter list and the call record spell (\"%s is not a type\")", row.desc, got, got))
		}
		run.Floor("G-NAMING/own-type", 4)
	}
	// ---------------- every call of MethodScope hands out a fresh, empty scope
	{
		w, err := newNameWorld(prog)
		if err != nil {
			und("G-SCOPE/fresh-scope", "registry", err)
		} else {
			v1, e1 := w.add(interp.Lit(""), strT(), "")
			v2, e2 := w.add(interp.Lit(""), strT(), "")
			ms := prog.LookupFunc(load.PkgRegistry, "Registry.MethodScope")
			var e3, e4 error
			var v3 *interp.Struct
			if ms != nil {
				var sc2 interp.Value
				sc2, e3 = w.m.CallFunc(token.NoPos, ms, w.reg, nil)
				if e3 == nil {
					w.scope = sc2
					v3, e4 = w.add(interp.Lit(""), strT(), "")
				}
			}
			switch {
			case e1 != nil || e2 != nil || e3 != nil || e4 != nil || v3 == nil:
				for _, e := range []error{e1, e2, e3, e4} {
					if e != nil {
						und("G-SCOPE/fresh-scope", "registry", e)
						break
					}
				}
			default:
				n1, n2, n3 := varNameOf(v1), varNameOf(v2), varNameOf(v3)
				run.Check("G-SCOPE/fresh-scope", "registry", pos, n3 == "s" && n1 != n2 && n1 != "" && n2 != "", fmt.Sprintf("two unnamed strings in one method scope are named %q and %q; after that, the first unnamed string of a scope obtained anew from the registry is named %q, want \"s\": every method starts from an empty scope, names and conflict marks of one method must not leak into the next", n1, n2, n3))
			}
		}
	}
	run.Floor("G-ADDVAR/table", 10)
	// ---------------- type-derived default names
	if !withDefaults {
		return
	}
	myT := func() ktype { return kNamedIn(kpath("ka"), "ka", "MyType", nil, nil) }
	lower := func() ktype { return kNamedIn(kpath("ka"), "ka", "myType", nil, nil) }
	i := func() ktype { return nBasic("int", types.IsInteger, types.Int) }
	cases := []struct {
		desc string
		t    ktype
		want string
	}{
		{"bool", nBasic("bool", types.IsBoolean, types.Bool), "b"},
		{"int", i(), "n"},
		{"int64", nBasic("int64", types.IsInteger, types.Int64), "n"},
		{"uint (unsigned)", nBasic("uint", types.IsInteger|types.IsUnsigned, types.Uint), "v"},
		{"float64", nBasic("float64", types.IsFloat, types.Float64), "f"},
		{"complex128", nBasic("complex128", types.IsComplex, types.Complex128), "v"},
		{"string", strT(), "s"},
		{"unsafe.Pointer", nBasic("Pointer", 0, types.UnsafePointer), "v"},
		{"error", kNamedIn("", "", "error", nil, nil), "err"},
		{"named MyType", myT(), "myType"},
		{"named myType (already lower case)", lower(), "myTypeMoqParam"},
		{"[]MyType", kElem("*go/types.Slice", myT()), "myTypes"},
		{"[3]int", kElem("*go/types.Array", i()), "ints"},
		{"[]string", kElem("*go/types.Slice", strT()), "strings"},
		{"[]*MyType", kElem("*go/types.Slice", kElem("*go/types.Pointer", myT())), "myTypes"},
		{"map[string]int", &interp.Opaque{Kind: "types.Type", ID: "m1", GoType: "*go/types.Map", Methods: mmap{"Key": tmeth(strT()), "Elem": tmeth(i())}}, "stringToInt"},
		{"map[MyType][]string", &interp.Opaque{Kind: "types.Type", ID: "m2", GoType: "*go/types.Map", Methods: mmap{"Key": tmeth(myT()), "Elem": tmeth(kElem("*go/types.Slice", strT()))}}, "myTypeToStrings"},
		{"[]unsafe.Pointer", kElem("*go/types.Slice", nBasic("Pointer", 0, types.UnsafePointer)), "pointers"},
		{"map[string]unsafe.Pointer", &interp.Opaque{Kind: "types.Type", ID: "m3", GoType: "*go/types.Map", Methods: mmap{"Key": tmeth(strT()), "Elem": tmeth(nBasic("Pointer", 0, types.UnsafePointer))}}, "stringToPointer"},
		{"chan unsafe.Pointer", kElem("*go/types.Chan", nBasic("Pointer", 0, types.UnsafePointer)), "pointerCh"},
		{"chan int", kElem("*go/types.Chan", i()), "intCh"},
		{"[]chan int (suffixes from the inside out)", kElem("*go/types.Slice", kElem("*go/types.Chan", i())), "intChs"},
		{"chan []string", kElem("*go/types.Chan", kElem("*go/types.Slice", strT())), "stringsCh"},
		{"[][]int", kElem("*go/types.Slice", kElem("*go/types.Slice", i())), "intss"},
		{"map[string][]chan int", &interp.Opaque{Kind: "types.Type", ID: "m4", GoType: "*go/types.Map", Methods: mmap{"Key": tmeth(strT()), "Elem": tmeth(kElem("*go/types.Slice", kElem("*go/types.Chan", i())))}}, "stringToIntChs"},
		{"chan *MyType", kElem("*go/types.Chan", kElem("*go/types.Pointer", myT())), "myTypeCh"},
		{"*MyType", kElem("*go/types.Pointer", myT()), "myType"},
		{"**int", kElem("*go/types.Pointer", kElem("*go/types.Pointer", i())), "n"},
		{"struct{...}", kStruct("st", nil), "val"},
		{"func(...)", kSig("fn", nil, nil), "fn"},
		{"interface{...}", kIface("if", nil, nil), "ifaceVal"},
		{"type parameter", &interp.Opaque{Kind: "types.Type", ID: "tp", GoType: "*go/types.TypeParam", Methods: mmap{"Constraint": tmeth(kIface("c", nil, nil)), "Obj": tmeth(&interp.Opaque{Kind: "types.TypeName", ID: "tp.obj", GoType: "*go/types.TypeName", Methods: mmap{"Pkg": tmeth(interp.NilV{}), "Name": tmeth(interp.Lit("T"))}}), "Underlying": tmeth(kIface("cu", nil, nil))}}, "v"},
	}
	for _, tc := range cases {
		for _, unnamed := range []string{"", "_"} {
			w, err := newNameWorld(prog)
			if err != nil {
				und("G-NAMING/table", tc.desc, err)
				break
			}
			v, err := w.add(interp.Lit(unnamed), tc.t, "")
			if err == nil && w.m.Choices.Forked() {
				err = fmt.Errorf("the name depends on something the abstract type does not fix (%s)", w.m.Choices.Describe())
			}
			if err != nil {
				und("G-NAMING/table", tc.desc, err)
				break
			}
			got := varNameOf(v)
			key := tc.desc
			if unnamed == "_" {
				key += " (written _)"
			}
			if !c.namingIdentOnly {
				run.Check("G-NAMING/table", key, pos, got == tc.want, fmt.Sprintf("an unnamed parameter (written %q) of type %s is named %q, the documented rule gives %q", unnamed, tc.desc, got, tc.want))
			}
			run.Check("G-NAMING/identifier", key, pos, token.IsIdentifier(got), fmt.Sprintf("an unnamed parameter (written %q) of type %s is named %q, which is not a Go identifier: the generated file does not parse", unnamed, tc.desc, got))
		}
	}
	if !c.namingIdentOnly {
		run.Floor("G-NAMING/table", 20)
	}
	run.Floor("G-NAMING/identifier", 20)
}

// eqLiteral recognises the term of `tok == "lit"` in either operand order.
func eqLiteral(term, tok string) (string, bool) {
	for _, pat := range []string{`("` + tok + `" == "`, `("`} {
		if !strings.HasPrefix(term, pat) || !strings.HasSuffix(term, `")`) {
			continue
		}
		if pat == `("` {
			// ("lit" == "tok")
			suf := `" == "` + tok + `")`
			if strings.HasSuffix(term, suf) {
				return strings.TrimSuffix(strings.TrimPrefix(term, `("`), suf), true
			}
			continue
		}
		return strings.TrimSuffix(strings.TrimPrefix(term, pat), `")`), true
	}
	return "", false
}
