package props

import (
	"strings"

	"verif/checker/internal/gen"

	"verif/checker/internal/skel"
	"verif/checker/internal/tmpl"
)

func init() {
	register("C02", "other", func(c *Ctx) {
		skeletonExplain(c, "C02 (the mock implements the interface with identical signatures): in every skeleton — the self-check line plays no role in the rule — go/types' MissingMethod(*Mock, I) is nil against an interface declared independently of the template from the same abstract shapes (for generic mocks both are instantiated with the mock's own type parameters, so the verdict holds for every type-argument list satisfying the constraints); every method has exactly one <M>Func field whose signature is identical to the method's, variadic-ness included.")
		c.Run.Floor("K-IMPL/assignable", 1)
		c.Run.Floor("K-IMPL/func-field", 2)
		c.RunSkeletons(SkelOpts{Rules: []string{"K-IMPL", "K-MSET/method", "K-GENERIC", "G-DATA/methods", "G-DATA/params", "G-DATA/results", "G-DATA/typeparams", "G-DATA/name-final", "G-MOCK/accepts"}})
		genMap(c)
	})
	register("C09", "other", func(c *Ctx) {
		skeletonExplain(c, "C09 (generic interfaces keep type parameters, constraints, instances): on every skeleton with 1..2 (thorough: 3) type parameters — the mock type declares the same number of type parameters, in order, with the interface's spelling and an identical constraint; every receiver lists them in order; *Mock[T...] implements I[T...] for the mock's own type parameters (hence for every admissible argument list); the self-check line type-checks. Every rendering of a go/types type that reaches the output must go through the file's qualifier (G-RENDER).")
		c.Run.Floor("K-GENERIC/typeparams", 1)
		c.Run.Floor("K-GENERIC/receiver", 2)
		c.RunSkeletons(SkelOpts{Rules: []string{"K-GENERIC", "K-IMPL", "K-DECLS/ensure", "K-TYPE", "G-DATA/typeparams", "G-SCOPE/typeparams-only", "G-DATA/name-final", "G-MOCK/qualifier-final"}, Notes: []string{"G-RENDER"}, TypeErrIsOwn: true,
			Env: func(e tmpl.Env) bool {
				for _, m := range e.Mocks {
					if len(m.TypeParams) > 0 {
						return true
					}
				}
				return false
			}})
		genGeneric(c)
	})
	register("C16", "other", func(c *Ctx) {
		skeletonExplain(c, "C16 (formatter choice changes layout only; default is gofmt-canonical): (a) decision table of the formatter dispatch, extracted from the source by abstract interpretation over the formatter name: \"goimports\" → the goimports wrapper, \"noop\" → the input itself, anything else → the gofmt wrapper; (b) the gofmt wrapper returns exactly go/format.Source's result and an error otherwise, so default output = format.Source(t) and noop output = t for the same template text t; (c) in every skeleton the first line is the standard generated-code marker and only comments precede the package clause, which names the requested package.")
		c.Run.Floor("K-HEADER/marker", 2)
		c.RunSkeletons(SkelOpts{Rules: []string{"K-HEADER", "G-DATA/pkgname", "G-DATA/imports", "K-IMPORTS", "G-FORMAT", "G-MOCK/write-what"}, Formatters: tmpl.Formatters})
		// goimports yields the same import set only if the block moq emits is already exact
		gen.CheckKinds(c.Run, c.Prog)
		kindsTable(c)
		flagFlow(c, "fmt")
		// what reaches stdout or the -out file is exactly what Mock wrote (no re-printing, no extra bytes)
		cliAllOrNothing(c)
		genFormat(c)
	})
	register("C20", "other", func(c *Ctx) {
		skeletonExplain(c, "C20 (one mock per requested interface, named as requested, independent): in every skeleton with 1..2 (thorough: 3) mocks the top-level type declarations are exactly the mock names in argument order; the generator side (argument parsing table, index-preserving construction of the mock list, fresh method scope per method, no package-level state) is checked on the generator's source.")
		c.Run.Floor("K-DECLS/types", 1)
		c.RunSkeletons(SkelOpts{Rules: []string{"K-DECLS/types", "K-DECLS/extra", "K-MSET/unexpected", "G-DATA/mocks", "G-DATA/methods/count", "G-SCOPE", "G-MOCK/lookups", "G-MOCK/infrastructure-imports-last", "G-MOCK/accepts", "G-MOCK/qualifier-final"}})
		c.Run.Floor("G-MOCK/qualifier-final", 1)
		genMocks(c)
	})
	register("C01", "other", func(c *Ctx) {
		skeletonExplain(c, "C01 (generated source compiles in its destination package) — necessary conditions only: (1) every skeleton of the family type-checks in both destination modes, incl. unused/missing imports under every flag combination; (2) import discovery handles every type constructor the type printer can print; (3) every type text is printed with the file's qualifier; (4) template and data model agree (every field chain resolves in some environment, all template nodes are reached); (5) declared-name patterns that can collide.")
		c.Run.Floor("K-TYPE", 1)
		c.RunSkeletons(SkelOpts{Rules: []string{"K-TYPE", "K-NAMES", "K-DECLS/extra", "K-MSET/unexpected", "K-MSET/field", "K-IMPORTS", "G-DATA/imports", "G-DATA/pkgname", "G-DATA/src-qualifier", "G-DATA/name-final", "G-SCOPE", "G-MOCK/qualifier-final"}, Notes: []string{"G-RENDER", "H-PANIC"}, TypeErrIsOwn: true})
		c.Run.Floor("G-MOCK/qualifier-final", 1)
		genCompile(c)
	})
	_ = strings.HasPrefix
	_ = skel.Abstract
}
