package props

import (
	"fmt"
	"go/token"

	"verif/checker/internal/gen"
	"verif/checker/internal/interp"
	"verif/checker/internal/load"
	"verif/checker/internal/tmpl"
)

func pkgOpaque(path, name string) *interp.Opaque {
	return &interp.Opaque{Kind: "types.Package", ID: path, GoType: "*go/types.Package", Attrs: map[string]interp.Value{"path": interp.Lit(path), "name": interp.Lit(name)}}
}

// destinationTables extracts, by abstract interpretation with constant
// inputs, the decision tables of the two functions that decide "is this the
// package the mock is generated into?": Var.packageQualifier and Registry.AddImport.
func destinationTables(c *Ctx) {
	run, prog := c.Run, c.Prog
	pq := prog.LookupFunc(load.PkgRegistry, "Var.packageQualifier")
	ai := prog.LookupFunc(load.PkgRegistry, "Registry.AddImport")
	if pq == nil || ai == nil {
		run.Undecided("G-DEST", "roles", "internal/registry", "Var.packageQualifier / Registry.AddImport not found")
		return
	}
	const dest = "example.test/dest"
	const dep = "example.test/dep"
	mk := func() (*interp.Machine, func(name string, fields map[string]interp.Value) *interp.Struct) {
		m := interp.New(prog)
		tmpl.InstallTypesModels(m, prog)
		tmpl.RemoveVarModels(m)
		return m, func(name string, fields map[string]interp.Value) *interp.Struct {
			pk := prog.ByPath[load.PkgRegistry]
			tn := pk.Types.Scope().Lookup(name)
			st := m.Zero(tn.Type()).(*interp.Struct)
			for k, v := range fields {
				st.Fields[k] = v
			}
			return st
		}
	}
	// ---- packageQualifier
	type qcase struct {
		desc, moqPkgPath, pkgPath, want string
	}
	for _, tc := range []qcase{
		{"destination package", dest, dest, ""},
		{"destination package reached through a vendor directory", dest, "example.test/app/vendor/" + dest, ""},
		{"other package", dest, dep, "QUAL"},
		{"other package, vendored", dest, "example.test/app/vendor/" + dep, "QUAL"},
		{"destination unknown (no directory for -pkg)", "", dep, "QUAL"},
		{"other package under a directory whose name merely ends in vendor", dest, "example.test/govendor/dep", "QUAL2"},
		{"other package whose path is a suffix of the destination's path", "example.test/wrap/" + dep, dep, "QUAL"},
		{"other package whose path has the destination's path as a suffix", dep, "example.test/govendor/dep", "QUAL2"},
	} {
		m, mkS := mk()
		imp := mkS("Package", map[string]interp.Value{"pkg": pkgOpaque(dep, "dep"), "Alias": interp.Lit("QUAL")})
		imp2 := mkS("Package", map[string]interp.Value{"pkg": pkgOpaque("example.test/govendor/dep", "dep"), "Alias": interp.Lit("QUAL2")})
		imports := &interp.MapV{Keys: []interp.Value{interp.Lit(dep), interp.Lit("example.test/govendor/dep")}, Vals: []interp.Value{&interp.Ptr{Elem: imp}, &interp.Ptr{Elem: imp2}}}
		v := mkS("Var", map[string]interp.Value{"moqPkgPath": interp.Lit(tc.moqPkgPath), "imports": imports, "Name": interp.Lit("x")})
		got, err := m.CallFunc(token.NoPos, pq, v, []interp.Value{pkgOpaque(tc.pkgPath, "p")})
		if err == nil && m.Choices.Forked() {
			err = fmt.Errorf("the qualifier decision depends on something the constant inputs do not fix (%s)", m.Choices.Describe())
		}
		gs := interp.Show(got)
		if s, ok := got.(*interp.Sym); ok {
			gs = s.Flat()
		}
		if err != nil {
			run.Undecided("G-DEST/qualifier", tc.desc, prog.Pos(pq.Pos()), "packageQualifier cannot be evaluated: "+err.Error())
			continue
		}
		run.Check("G-DEST/qualifier", tc.desc, prog.Pos(pq.Pos()), gs == tc.want, fmt.Sprintf("for a type of the %s (destination %q, type's package %q) the qualifier is %q, want %q (\"\" = unqualified, QUAL = the registered import's qualifier)", tc.desc, tc.moqPkgPath, tc.pkgPath, gs, tc.want))
	}
	// ---- AddImport
	type acase struct {
		desc, moqPkgPath, pkgPath string
		wantNil                    bool
		wantKey                    string
	}
	for _, tc := range []acase{
		{"the destination package itself", dest, dest, true, ""},
		{"the destination package through a vendor directory", dest, "example.test/app/vendor/" + dest, true, ""},
		{"another package", dest, dep, false, dep},
		{"another package, vendored", dest, "example.test/app/vendor/" + dep, false, dep},
		{"another package under a directory whose name merely ends in vendor", dest, "example.test/govendor/dep", false, "example.test/govendor/dep"},
		{"another package whose path is a suffix of the destination's path", "example.test/wrap/" + dep, dep, false, dep},
		{"another package whose path has the destination's path as a suffix", dep, "example.test/govendor/dep", false, "example.test/govendor/dep"},
	} {
		m, mkS := mk()
		reg := mkS("Registry", map[string]interp.Value{"moqPkgPath": interp.Lit(tc.moqPkgPath), "aliases": &interp.MapV{Keys: []interp.Value{interp.Lit(dep), interp.Lit("example.test/govendor/dep")}, Vals: []interp.Value{interp.Lit("srcalias"), interp.Lit("srcalias")}}, "imports": &interp.MapV{}})
		p := pkgOpaque(tc.pkgPath, "p")
		got, err := m.CallFunc(token.NoPos, ai, &interp.Ptr{Elem: reg}, []interp.Value{p})
		if err == nil && m.Choices.Forked() {
			err = fmt.Errorf("the registration decision depends on something the constant inputs do not fix (%s)", m.Choices.Describe())
		}
		if err != nil {
			run.Undecided("G-DEST/addimport", tc.desc, prog.Pos(ai.Pos()), "AddImport cannot be evaluated: "+err.Error())
			continue
		}
		imports := reg.Fields["imports"].(*interp.MapV)
		_, isNil := got.(interp.NilV)
		ok := isNil == tc.wantNil
		if tc.wantNil {
			ok = ok && len(imports.Keys) == 0
		} else {
			ok = ok && len(imports.Keys) == 1 && interp.TermOf(imports.Keys[0]) == fmt.Sprintf("%q", tc.wantKey)
			if ok {
				// a second registration of the same canonical path returns the same import
				got2, err2 := m.CallFunc(token.NoPos, ai, &interp.Ptr{Elem: reg}, []interp.Value{pkgOpaque(tc.wantKey, "p")})
				p1, _ := got.(*interp.Ptr)
				p2, _ := got2.(*interp.Ptr)
				ok = err2 == nil && p1 != nil && p2 != nil && p1.Elem == p2.Elem && len(imports.Keys) == 1
				if ok {
					a, _ := p1.Elem.Fields["Alias"].(*interp.Sym)
					ok = a != nil && a.Flat() == "srcalias"
				}
			}
		}
		run.Check("G-DEST/addimport", tc.desc, prog.Pos(ai.Pos()), ok, fmt.Sprintf("registering %s (destination %q, path %q): returned %s, import map keys %v — want %s", tc.desc, tc.moqPkgPath, tc.pkgPath, interp.Show(got), showKeys(imports), map[bool]string{true: "nil and nothing registered (a file never imports its own package)", false: "one import under the canonical path with the source file's alias, the same one on re-registration"}[tc.wantNil]))
	}
	run.Floor("G-DEST/qualifier", 5)
	run.Floor("G-DEST/addimport", 4)
}

func showKeys(m *interp.MapV) []string {
	var out []string
	for _, k := range m.Keys {
		out = append(out, interp.TermOf(k))
	}
	return out
}

func init() {
	register("C10", "other", func(c *Ctx) {
		skeletonExplain(c, "C10 (type references respect the destination package): (a,b) decision tables of Var.packageQualifier and Registry.AddImport, extracted by abstract interpretation of their source on constant inputs: the qualifier is empty exactly for the destination package (vendor prefix stripped), otherwise the registered import's qualifier; AddImport registers nothing for the destination package and one import per canonical path otherwise; (e) from the interpretation of Mock over all destination modes {in place, explicit -pkg <src>, another package, <src>_test} x skip-ensure: the source package is imported iff the mock lives elsewhere and the self-check line is emitted, the self-check line is qualified through that import, with skip-ensure the file does not mention the source package (K-IMPORTS/skip-ensure) and every skeleton type-checks in its destination mode. Known finding D9 concerns how the destination path is computed (by package name, not path).")
		destinationTables(c)
		c.RunSkeletons(SkelOpts{Rules: []string{"G-DATA/imports", "G-DATA/src-qualifier", "G-DATA/pkgname", "K-IMPORTS", "K-DECLS/ensure", "K-TYPE"}, TypeErrIsOwn: true, Notes: []string{"G-RENDER"}})
		gen.CheckKinds(c.Run, c.Prog)
		kindsTable(c)
		gen.CheckDestKinds(c.Run, c.Prog)
		// the qualifier of the self-check line is final only after the last registration
		gen.CheckQualifierFinal(c.Run, c.Prog)
	})
	register("C11", "other", func(c *Ctx) {
		skeletonExplain(c, "C11 (the import block is exact, canonical and conflict-free) — decided: (a) every import spec of every skeleton is of the form \"path\" or alias \"path\", exactly once per registered import, never dot or blank; aliases harvested from the source are stored only if the name exists and is neither \".\" nor \"_\" (go/cfg under those assumptions); the only other writers of Package.Alias assign uniqueName(...) inside conflict resolution; (b) every index into an import map uses a vendor-stripped key and a new import is stored under it; (c) AddImport is called only by the type walker and by Mock (sync iff some mock has a method, the source package iff needed: G-DATA/imports from the interpretation of Mock); import discovery covers every type constructor the printer prints (G-KINDS); (d) a new import starts with exactly the source file's alias for its canonical path and the conflict search dominates its registration, alias or not. NOT decided: uniqueness and well-formedness of the qualifiers after conflict resolution for every set of paths (value level), convergence (see C19).")
		gen.CheckImports(c.Run, c.Prog)
		importTables(c)
		gen.CheckKinds(c.Run, c.Prog)
		kindsTable(c)
		destinationTables(c)
		c.RunSkeletons(SkelOpts{Rules: []string{"K-IMPORTS", "G-DATA/imports"}})
	})
}
