package props

import (
	"fmt"
	"go/token"
	"strings"

	"verif/checker/internal/gen"
	"verif/checker/internal/interp"
	"verif/checker/internal/load"
)

func pkgOpaque(path, name string) *interp.Opaque {
	return &interp.Opaque{Kind: "types.Package", ID: path, GoType: "*go/types.Package", Attrs: map[string]interp.Value{"path": interp.Lit(path), "name": interp.Lit(name)}}
}

// destinationTables decides "is this the package the mock is generated into?" where it matters — the
// qualifier a variable's type text gets (Var.TypeString, interpreted from source on variables that AddVar
// built) and the registration of imports (AddImport) — on a registry built by registry.New whose
// destination is the source package itself (and, for one case, unknown).
func destinationTables(c *Ctx) {
	run, prog := c.Run, c.Prog
	pos := "internal/registry/var.go"
	ts := prog.LookupFunc(load.PkgRegistry, "Var.TypeString")
	if ts == nil {
		run.Undecided("G-DEST", "roles", pos, "(*Var).TypeString not found")
		return
	}
	pos = prog.Pos(ts.Pos())
	const dep = "example.test/dep"
	// go/types.TypeString on the abstract named types of these tables: the qualifier function decides
	typeString := func(m *interp.Machine, p token.Pos, recv interp.Value, args []interp.Value) (interp.Value, error) {
		if len(args) != 2 {
			return &interp.Unknown{Why: "types.TypeString arity"}, nil
		}
		t, _ := args[0].(*interp.Opaque)
		if t == nil || t.GoType != "*go/types.Named" {
			return &interp.Unknown{Why: "types.TypeString of " + interp.Show(args[0])}, nil
		}
		obj, err := t.Methods["Obj"](m, p, nil)
		if err != nil {
			return nil, err
		}
		o := obj.(*interp.Opaque)
		name, _ := o.Methods["Name"](m, p, nil)
		pkg, _ := o.Methods["Pkg"](m, p, nil)
		q, err := m.Call(p, args[1], []interp.Value{pkg})
		if err != nil {
			return nil, err
		}
		qs, ok := q.(*interp.Sym)
		if !ok {
			return &interp.Unknown{Why: "qualifier of " + interp.Show(pkg)}, nil
		}
		if c, conc := qs.Concrete(); conc && c == "" {
			return name, nil
		}
		return interp.Concat(interp.Concat(qs, interp.Lit(".")), name.(*interp.Sym)), nil
	}
	type qcase struct {
		desc, moqPkg, pkgPath, pkgName string
		own                            bool // the type is of the destination package: printed without qualifier
	}
	for _, tc := range []qcase{
		{"destination package", "", rwSrcPath, rwSrcName, true},
		{"destination package reached through a vendor directory", "", "example.test/app/vendor/" + rwSrcPath, rwSrcName, true},
		{"other package", "", dep, "dep", false},
		{"other package, vendored", "", "example.test/app/vendor/" + dep, "dep", false},
		{"other package under a directory whose name merely ends in vendor", "", "example.test/govendor/dep", "dep", false},
		{"other package whose path is a suffix of the destination's path", "", "test/src", "src", false},
		{"other package whose path has the destination's path as a suffix", "", "other/" + rwSrcPath, rwSrcName, false},
		{"the source package when the destination is unknown (no directory for -pkg)", "nosuchdir", rwSrcPath, rwSrcName, false},
	} {
		w, err := newNameWorldFor(prog, tc.moqPkg)
		if err == nil {
			w.m.Ext["go/types.TypeString"] = typeString
			// types.WriteType(buf, typ, qf) is TypeString into a buffer
			w.m.Ext["go/types.WriteType"] = func(m *interp.Machine, p token.Pos, recv interp.Value, args []interp.Value) (interp.Value, error) {
				if len(args) != 3 {
					return &interp.Unknown{Why: "types.WriteType arity"}, nil
				}
				v, err := typeString(m, p, nil, args[1:])
				if err != nil {
					return nil, err
				}
				if ws, ok := m.Ext["(bytes.Buffer).WriteString"]; ok {
					if _, err := ws(m, p, args[0], []interp.Value{v}); err != nil {
						return nil, err
					}
				}
				return interp.NilV{}, nil
			}
		}
		var v *interp.Struct
		if err == nil {
			v, err = w.add(interp.Lit("x"), kNamedIn(tc.pkgPath, tc.pkgName, "T", nil, nil), "")
		}
		var got interp.Value
		if err == nil {
			got, err = w.m.CallMethod(token.NoPos, &interp.Ptr{Elem: v}, ts.Name(), nil)
		}
		if err == nil && w.m.Choices.Forked() {
			err = fmt.Errorf("the qualifier decision depends on something the constant inputs do not fix (%s)", w.m.Choices.Describe())
		}
		if err != nil {
			p := pos
			if u, ok := err.(*interp.ErrUndecided); ok && u.Pos.IsValid() {
				p = prog.Pos(u.Pos)
			}
			run.Undecided("G-DEST/qualifier", tc.desc, p, "the type text of a variable cannot be evaluated: "+err.Error())
			continue
		}
		gs := interp.Show(got)
		if s, ok := got.(*interp.Sym); ok {
			gs = s.Flat()
		}
		want := "T"
		if !tc.own {
			// the qualifier of the import registered under the canonical path
			canon := tc.pkgPath
			if i := strings.LastIndex(canon, "/vendor/"); i >= 0 {
				canon = canon[i+len("/vendor/"):]
			}
			want = "<no import registered for " + canon + ">"
			if mv := w.registered(); mv != nil {
				for i, k := range mv.Keys {
					if ks, ok := k.(*interp.Sym); ok && ks.Flat() == canon {
						if q, err := w.qualifier(mv.Vals[i]); err == nil {
							want = q + ".T"
						}
					}
				}
			}
		}
		run.Check("G-DEST/qualifier", tc.desc, pos, gs == want, fmt.Sprintf("a variable of a type of the %s (type's package %q) is printed as %q, want %q (unqualified exactly for the destination package, otherwise through the import registered under the canonical path)", tc.desc, tc.pkgPath, gs, want))
	}
	// ---- AddImport
	ai := prog.LookupFunc(load.PkgRegistry, "Registry.AddImport")
	if ai == nil {
		run.Undecided("G-DEST", "roles", pos, "(*Registry).AddImport not found")
		return
	}
	apos := prog.Pos(ai.Pos())
	type acase struct {
		desc, pkgPath string
		wantNil       bool
		wantKey       string
	}
	for _, tc := range []acase{
		{"the destination package itself", rwSrcPath, true, ""},
		{"the destination package through a vendor directory", "example.test/app/vendor/" + rwSrcPath, true, ""},
		{"another package", dep, false, dep},
		{"another package, vendored", "example.test/app/vendor/" + dep, false, dep},
		{"another package under a directory whose name merely ends in vendor", "example.test/govendor/dep", false, "example.test/govendor/dep"},
		{"another package whose path is a suffix of the destination's path", "test/src", false, "test/src"},
		{"another package whose path has the destination's path as a suffix", "other/" + rwSrcPath, false, "other/" + rwSrcPath},
	} {
		w, err := newRegWorld(prog, []importSpec{{"srcalias", false, dep}, {"srcalias2", false, "example.test/govendor/dep"}}, "")
		var got interp.Value
		if err == nil {
			got, err = w.addImport(tc.pkgPath, "p")
		}
		if err != nil {
			p := apos
			if u, ok := err.(*interp.ErrUndecided); ok && u.Pos.IsValid() {
				p = prog.Pos(u.Pos)
			}
			run.Undecided("G-DEST/addimport", tc.desc, p, "AddImport cannot be evaluated: "+err.Error())
			continue
		}
		imports := w.registered()
		_, isNil := got.(interp.NilV)
		ok := isNil == tc.wantNil
		if tc.wantNil {
			ok = ok && len(imports.Keys) == 0
		} else {
			ok = ok && len(imports.Keys) == 1 && interp.TermOf(imports.Keys[0]) == fmt.Sprintf("%q", tc.wantKey)
			if ok {
				got2, err2 := w.addImport(tc.wantKey, "p")
				p1, _ := got.(*interp.Ptr)
				p2, _ := got2.(*interp.Ptr)
				ok = err2 == nil && p1 != nil && p2 != nil && p1.Elem == p2.Elem && len(w.registered().Keys) == 1
			}
		}
		run.Check("G-DEST/addimport", tc.desc, apos, ok, fmt.Sprintf("registering %s (destination %q, path %q): returned %s, import map keys %v — want %s", tc.desc, rwSrcPath, tc.pkgPath, interp.Show(got), showKeys(imports), map[bool]string{true: "nil and nothing registered (a file never imports its own package)", false: "one import under the canonical path, the same one on re-registration"}[tc.wantNil]))
	}
	run.Floor("G-DEST/qualifier", 5)
	run.Floor("G-DEST/addimport", 4)
}

func showKeys(m *interp.MapV) []string {
	var out []string
	for _, k := range m.Keys {
		out = append(out, interp.TermOf(k))
	}
	return out
}

func init() {
	register("C10", "other", func(c *Ctx) {
		skeletonExplain(c, "C10 (type references respect the destination package): (a,b) decision tables of Var.packageQualifier and Registry.AddImport, extracted by abstract interpretation of their source on constant inputs: the qualifier is empty exactly for the destination package (vendor prefix stripped), otherwise the registered import's qualifier; AddImport registers nothing for the destination package and one import per canonical path otherwise; (e) from the interpretation of Mock over all destination modes {in place, explicit -pkg <src>, another package, <src>_test} x skip-ensure: the source package is imported iff the mock lives elsewhere and the self-check line is emitted, the self-check line is qualified through that import, with skip-ensure the file does not mention the source package (K-IMPORTS/skip-ensure) and every skeleton type-checks in its destination mode. Known finding D9 concerns how the destination path is computed (by package name, not path).")
		destinationTables(c)
		c.Run.Floor("G-MOCK/qualifier-final", 1)
		c.RunSkeletons(SkelOpts{Rules: []string{"G-DATA/imports", "G-DATA/src-qualifier", "G-DATA/pkgname", "K-IMPORTS", "K-DECLS/ensure", "K-TYPE", "G-MOCK/qualifier-final"}, TypeErrIsOwn: true, Notes: []string{"G-RENDER"}})
		gen.CheckKinds(c.Run, c.Prog)
		kindsTable(c)
		gen.CheckDestKinds(c.Run, c.Prog)
		buildSettings(c)
		// a type text follows a later re-aliasing of its package only through the registry's own *Package
		gen.CheckVarNameOwners(c.Run, c.Prog)
		// the qualifier of the self-check line is final only after the last registration: G-MOCK/qualifier-final,
		// read off the interpretation of Mock (engine M)
	})
	register("C11", "other", func(c *Ctx) {
		skeletonExplain(c, "C11 (the import block is exact, canonical and conflict-free) — decided: (a) every import spec of every skeleton is of the form \"path\" or alias \"path\", exactly once per registered import, never dot or blank; aliases harvested from the source are stored only if the name exists and is neither \".\" nor \"_\" (go/cfg under those assumptions); the only other writers of Package.Alias assign uniqueName(...) inside conflict resolution; (b) every index into an import map uses a vendor-stripped key and a new import is stored under it; (c) AddImport is called only by the type walker and by Mock (sync iff some mock has a method, the source package iff needed: G-DATA/imports from the interpretation of Mock); import discovery covers every type constructor the printer prints (G-KINDS); (d) a new import starts with exactly the source file's alias for its canonical path and the conflict search dominates its registration, alias or not. NOT decided: uniqueness and well-formedness of the qualifiers after conflict resolution for every set of paths (value level), convergence (see C19).")
		gen.CheckImports(c.Run, c.Prog)
		importTables(c)
		gen.CheckKinds(c.Run, c.Prog)
		kindsTable(c)
		destinationTables(c)
		// the import block and the qualifiers in the type texts read the same *Package values
		gen.CheckVarNameOwners(c.Run, c.Prog)
		c.Run.Floor("G-MOCK/qualifier-final", 1)
		c.RunSkeletons(SkelOpts{Rules: []string{"K-IMPORTS", "G-DATA/imports", "G-MOCK/qualifier-final"}})
	})
}
