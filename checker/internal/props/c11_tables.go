package props

import (
	"fmt"
	"go/token"
	"go/types"
	"sort"
	"strings"

	"verif/checker/internal/interp"
	"verif/checker/internal/load"
	"verif/checker/internal/tmpl"
)

// This file decides the registry's import bookkeeping by abstract
// interpretation of its current source, whatever it is called and however it
// is split into helpers: the Registry is the one registry.New builds from an
// abstract loaded package (packages.Load is the only thing replaced), imports
// are registered through (*Registry).AddImport, and the resulting abstract
// state is compared with the contract. Nothing here depends on the names of
// unexported functions or of struct fields.

type importSpec struct {
	name string // "" = no name; otherwise the literal or token spelling
	tok  bool   // name is an opaque identifier token
	path string
}

type regWorld struct {
	prog *load.Program
	m    *interp.Machine
	reg  *interp.Ptr
}

const (
	rwSrcPath = "example.test/src"
	rwSrcName = "srcpkg"
)

func init() {
	// engine M asks for the fields registry.New computes (see tmpl.RealRegistry)
	tmpl.RealRegistry = func(prog *load.Program, moqPkg string) (*interp.Struct, error) {
		w, _, err := regNew(prog, nil, moqPkg, nil, nil, 1)
		if err != nil || w == nil || w.reg == nil {
			return nil, err
		}
		return w.reg.Elem, nil
	}
}

func namedStructOf(prog *load.Program, pkgPath, name string) (*types.Named, error) {
	pk := prog.ByPath[pkgPath]
	if pk == nil || pk.Types == nil {
		return nil, fmt.Errorf("package %s is not loaded", pkgPath)
	}
	tn, _ := pk.Types.Scope().Lookup(name).(*types.TypeName)
	if tn == nil {
		return nil, fmt.Errorf("type %s.%s not found", pkgPath, name)
	}
	n, _ := tn.Type().(*types.Named)
	if n == nil {
		return nil, fmt.Errorf("%s.%s is not a defined type", pkgPath, name)
	}
	return n, nil
}

func fullStruct(m *interp.Machine, t *types.Named, fields map[string]interp.Value) *interp.Struct {
	st := t.Underlying().(*types.Struct)
	s := &interp.Struct{Type: t, Fields: map[string]interp.Value{}}
	for i := 0; i < st.NumFields(); i++ {
		f := st.Field(i)
		switch u := f.Type().Underlying().(type) {
		case *types.Basic:
			s.Fields[f.Name()] = m.Zero(u)
		default:
			s.Fields[f.Name()] = interp.NilV{}
		}
	}
	for k, v := range fields {
		s.Fields[k] = v
	}
	return s
}

// newRegWorld interprets registry.New(".", moqPkg) on an abstract loaded package whose files carry
// the given import specs.
func newRegWorld(prog *load.Program, specs []importSpec, moqPkg string) (*regWorld, error) {
	return newRegWorldWith(prog, specs, moqPkg, nil)
}

// newRegWorldWith: as newRegWorld, with a given abstract go/types package for the loaded source package.
func newRegWorldWith(prog *load.Program, specs []importSpec, moqPkg string, typesPkg *interp.Opaque) (*regWorld, error) {
	w, got, err := regNew(prog, specs, moqPkg, typesPkg, nil, 1)
	if err != nil {
		return nil, err
	}
	if w == nil {
		return nil, fmt.Errorf("registry.New returned no registry for a package that loads without errors (%s)", interp.Show(got))
	}
	return w, nil
}

// identifierModels: go/token.IsIdentifier, go/token.IsKeyword and types.Universe.Lookup on constant names
// (a generated alias is tested for being usable as a package qualifier); undecided on anything else.
func identifierModels(m *interp.Machine) {
	onConst := func(what string, f func(string) bool) func(m *interp.Machine, pos token.Pos, recv interp.Value, a []interp.Value) (interp.Value, error) {
		return func(m *interp.Machine, pos token.Pos, recv interp.Value, a []interp.Value) (interp.Value, error) {
			if len(a) == 1 {
				if s, ok := a[0].(*interp.Sym); ok {
					if c, ok := s.Concrete(); ok {
						return f(c), nil
					}
				}
			}
			return &interp.Unknown{Why: what + " of " + interp.Show(a[0])}, nil
		}
	}
	m.Ext["go/token.IsIdentifier"] = onConst("token.IsIdentifier", token.IsIdentifier)
	m.Ext["go/token.IsKeyword"] = onConst("token.IsKeyword", token.IsKeyword)
	m.Ext["go/token.IsExported"] = onConst("token.IsExported", token.IsExported)
	m.ExtVars["go/types.Universe"] = &interp.Opaque{Kind: "types.Scope", ID: "universe", GoType: "*go/types.Scope", Methods: mmap{
		"Lookup": func(m *interp.Machine, pos token.Pos, a []interp.Value) (interp.Value, error) {
			if s, ok := a[0].(*interp.Sym); ok {
				if c, ok := s.Concrete(); ok {
					if types.Universe.Lookup(c) == nil {
						return interp.NilV{}, nil
					}
					return &interp.Opaque{Kind: "types.Object", ID: "universe." + c, GoType: "*go/types.TypeName", Methods: mmap{"Name": tmeth(interp.Lit(c))}}, nil
				}
			}
			return &interp.Unknown{Why: "Universe.Lookup of " + interp.Show(a[0])}, nil
		},
	}}
}

// regNew interprets registry.New(".", moqPkg) with packages.Load replaced by a model that returns npkgs
// abstract packages for "." (the first one carrying the given import specs and load errors) and none for
// any other directory. It returns the world around the registry (nil if New returned none) and New's result.
func regNew(prog *load.Program, specs []importSpec, moqPkg string, typesPkg *interp.Opaque, loadErrors []string, npkgs int) (*regWorld, interp.Value, error) {
	m := interp.New(prog)
	tmpl.InstallTypesModels(m, prog)
	tmpl.RemoveVarModels(m)
	errModels(m)
	// identifier tokens never equal ".", "_" or ""
	m.Distinct = func(tok, lit string) bool { return lit == "." || lit == "_" || lit == "" }
	identifierModels(m)
	tPkg, err := namedStructOf(prog, "golang.org/x/tools/go/packages", "Package")
	if err != nil {
		return nil, nil, err
	}
	tFile, err := namedStructOf(prog, "go/ast", "File")
	if err != nil {
		return nil, nil, err
	}
	tSpec, err := namedStructOf(prog, "go/ast", "ImportSpec")
	if err != nil {
		return nil, nil, err
	}
	tIdent, err := namedStructOf(prog, "go/ast", "Ident")
	if err != nil {
		return nil, nil, err
	}
	tLit, err := namedStructOf(prog, "go/ast", "BasicLit")
	if err != nil {
		return nil, nil, err
	}
	// one file per spec: the order of files and of specs inside a file is the same thing to the harvest
	files := &interp.List{}
	var fileSpecs interp.List
	for _, sp := range specs {
		var name interp.Value = interp.NilV{}
		if sp.name != "" {
			var n *interp.Sym = interp.Lit(sp.name)
			if sp.tok {
				n = interp.Tok(sp.name)
			}
			name = &interp.Ptr{Elem: fullStruct(m, tIdent, map[string]interp.Value{"Name": n})}
		}
		lit := &interp.Ptr{Elem: fullStruct(m, tLit, map[string]interp.Value{"Value": interp.Lit(`"` + sp.path + `"`)})}
		fileSpecs.Elems = append(fileSpecs.Elems, &interp.Ptr{Elem: fullStruct(m, tSpec, map[string]interp.Value{"Name": name, "Path": lit})})
	}
	half := len(fileSpecs.Elems) / 2
	files.Elems = append(files.Elems,
		&interp.Ptr{Elem: fullStruct(m, tFile, map[string]interp.Value{"Imports": &interp.List{Elems: fileSpecs.Elems[:half]}})},
		&interp.Ptr{Elem: fullStruct(m, tFile, map[string]interp.Value{"Imports": &interp.List{Elems: fileSpecs.Elems[half:]}})})
	if typesPkg == nil {
		typesPkg = pkgOpaque(rwSrcPath, rwSrcName)
	}
	errList := &interp.List{}
	if len(loadErrors) > 0 {
		tErr, err := namedStructOf(prog, "golang.org/x/tools/go/packages", "Error")
		if err != nil {
			return nil, nil, err
		}
		for _, msg := range loadErrors {
			// the message is an opaque text: whether the package is usable must not depend on what it says
			errList.Elems = append(errList.Elems, fullStruct(m, tErr, map[string]interp.Value{"Msg": interp.Tok(msg), "Pos": interp.Lit("")}))
		}
		m.Ext["(golang.org/x/tools/go/packages.Error).Error"] = func(mm *interp.Machine, pos token.Pos, recv interp.Value, args []interp.Value) (interp.Value, error) {
			if st, ok := recv.(*interp.Struct); ok {
				if msg, ok := st.Fields["Msg"].(*interp.Sym); ok {
					return msg, nil
				}
			}
			return &interp.Unknown{Why: "packages.Error.Error()"}, nil
		}
	}
	srcPkg := &interp.Ptr{Elem: fullStruct(m, tPkg, map[string]interp.Value{
		"Name": interp.Lit(rwSrcName), "PkgPath": interp.Lit(rwSrcPath), "Types": typesPkg,
		"Syntax": files, "Errors": errList,
		// the package has source files; what is in them is not part of the abstract package (a generator that
		// reads them is outside the vocabulary, and undecided)
		"GoFiles":         &interp.List{Elems: []interp.Value{interp.Tok("«file0.go»"), interp.Tok("«file1.go»")}},
		"CompiledGoFiles": &interp.List{Elems: []interp.Value{interp.Tok("«file0.go»"), interp.Tok("«file1.go»")}},
	})}
	m.Ext["golang.org/x/tools/go/packages.Load"] = func(mm *interp.Machine, pos token.Pos, recv interp.Value, args []interp.Value) (interp.Value, error) {
		dir := ""
		if len(args) > 0 {
			if cfg, ok := args[0].(*interp.Opaque); ok {
				if d, ok := cfg.Attrs["Dir"].(*interp.Sym); ok {
					dir, _ = d.Concrete()
				}
			}
		}
		if dir == "." {
			l := &interp.List{}
			for k := 0; k < npkgs; k++ {
				l.Elems = append(l.Elems, srcPkg)
			}
			return interp.Tuple{l, interp.NilV{}}, nil
		}
		// any other directory holds no package
		return interp.Tuple{&interp.List{}, interp.NilV{}}, nil
	}
	newFn := prog.LookupFunc(load.PkgRegistry, "New")
	if newFn == nil {
		return nil, nil, fmt.Errorf("registry.New not found")
	}
	got, err := m.CallFunc(token.NoPos, newFn, nil, []interp.Value{interp.Lit("."), interp.Lit(moqPkg)})
	if err != nil {
		return nil, nil, err
	}
	if m.Choices.Forked() {
		return nil, nil, fmt.Errorf("registry.New decides on something the abstract package does not fix (%s)", m.Choices.Describe())
	}
	t, _ := got.(interp.Tuple)
	if len(t) != 2 {
		return nil, nil, fmt.Errorf("registry.New returned %s", interp.Show(got))
	}
	reg, _ := t[0].(*interp.Ptr)
	if reg == nil {
		return nil, got, nil
	}
	return &regWorld{prog: prog, m: m, reg: reg}, got, nil
}

// conflictTerminationTable (G-PANIC/conflict-table, C19): import sets whose conflict resolution once ran
// away (D12: two paths that sanitise to the same name at every level; a user package named like a
// one-element standard path registered before it) or meets names held inside the pair (D15, D16), registered
// through AddImport interpreted from source: every registration must return. The interpreter gives up on a
// call depth no terminating resolution of these sets comes near, which is reported as undecided.
func conflictTerminationTable(c *Ctx) {
	run, prog := c.Run, c.Prog
	pos := "internal/registry/registry.go"
	if fn := prog.LookupFunc(load.PkgRegistry, "Registry.AddImport"); fn != nil {
		pos = prog.Pos(fn.Pos())
	}
	type step struct{ path, name string }
	cases := []struct {
		key   string
		specs []importSpec
		steps []step
	}{
		{"same-sanitised-paths", nil, []step{{"example.com/m/x/foo-bar", "foobar"}, {"example.com/m/x/foobar", "foobar"}}},
		{"user-package-named-like-a-standard-path", nil, []step{{"example.com/m/sync", "sync"}, {"sync", "sync"}}},
		{"standard-path-first", nil, []step{{"sync", "sync"}, {"example.com/m/sync", "sync"}}},
		{"alias-held-by-partner", []importSpec{{"xfoo", false, "example.com/m/yfoo/x/foo"}}, []step{{"example.com/m/yfoo/x/foo", "foo"}, {"example.com/m/yfoo/q/foo", "foo"}, {"example.com/m/y/xfoo", "xfoo"}}},
		{"name-given-to-the-new-import", nil, []step{{"example.com/m/foo-bar", "sync"}, {"example.com/m/xfoo/foo_bar", "foobar"}, {"example.com/m/sync", "foo"}, {"example.com/m/foobar", "foo"}}},
	}
	for _, tc := range cases {
		w, err := newRegWorld(prog, tc.specs, "")
		for _, s := range tc.steps {
			if err != nil {
				break
			}
			_, err = w.addImport(s.path, s.name)
		}
		if err == nil {
			run.Check("G-PANIC/conflict-table", tc.key, pos, true, "")
			continue
		}
		p := pos
		if u, ok := err.(*interp.ErrUndecided); ok && u.Pos.IsValid() {
			p = prog.Pos(u.Pos)
		}
		run.Undecided("G-PANIC/conflict-table", tc.key, p, "registering the imports of scenario "+tc.key+" does not come to an end in the interpretation of AddImport: "+err.Error())
	}
	run.Floor("G-PANIC/conflict-table", 5)
}

// loadErrorsTable (G-LOAD/errors-fatal): a source package that was loaded with errors — one or several —
// or a directory that holds no package or more than one makes registry.New fail; nothing is generated from
// a package the compiler front end rejected.
func loadErrorsTable(c *Ctx) {
	run, prog := c.Run, c.Prog
	pos := "internal/registry/registry.go"
	if fn := prog.LookupFunc(load.PkgRegistry, "New"); fn != nil {
		pos = prog.Pos(fn.Pos())
	}
	cases := []struct {
		desc  string
		errs  []string
		npkgs int
	}{
		{"a package loaded with one error", []string{"ɛ1"}, 1},
		{"a package loaded with three errors", []string{"ɛ1", "ɛ2", "ɛ3"}, 1},
		{"a directory that holds no package", nil, 0},
		{"a directory that holds two packages", nil, 2},
	}
	for _, tc := range cases {
		w, got, err := regNew(prog, nil, "", nil, tc.errs, tc.npkgs)
		if err != nil {
			p := pos
			if u, ok := err.(*interp.ErrUndecided); ok && u.Pos.IsValid() {
				p = prog.Pos(u.Pos)
			}
			run.Undecided("G-LOAD/errors-fatal", tc.desc, p, "registry.New cannot be interpreted for "+tc.desc+": "+err.Error())
			continue
		}
		failed := false
		if t, ok := got.(interp.Tuple); ok && len(t) == 2 && w == nil {
			if _, isNil := t[1].(interp.NilV); !isNil {
				failed = true
			}
		}
		run.Check("G-LOAD/errors-fatal", tc.desc, pos, failed, fmt.Sprintf("for %s registry.New returns %s, want no registry and an error: moq must not generate from a package that does not load cleanly", tc.desc, interp.Show(got)))
	}
	run.Floor("G-LOAD/errors-fatal", 4)
}

// mapsOf returns the map-valued fields of the registry with the given element type test.
func (w *regWorld) mapField(elemIsString bool) (*interp.MapV, string) {
	return mapFieldIn(w.reg.Elem, elemIsString, 0)
}

// structOfType finds, in the struct or the structs it embeds or holds, the value a method with the given
// receiver type is called on (the struct itself for its own type).
func structOfType(sv *interp.Struct, recv types.Type, depth int) interp.Value {
	if sv == nil || sv.Type == nil || depth > 3 {
		return nil
	}
	want := recv
	isPtr := false
	if p, ok := recv.(*types.Pointer); ok {
		want, isPtr = p.Elem(), true
	}
	if types.Identical(sv.Type, want) {
		if isPtr {
			return &interp.Ptr{Elem: sv}
		}
		return sv
	}
	st, ok := sv.Type.Underlying().(*types.Struct)
	if !ok {
		return nil
	}
	for i := 0; i < st.NumFields(); i++ {
		var inner *interp.Struct
		switch v := sv.Fields[st.Field(i).Name()].(type) {
		case *interp.Struct:
			inner = v
		case *interp.Ptr:
			inner = v.Elem
		}
		if inner == nil || inner == sv {
			continue
		}
		if v := structOfType(inner, recv, depth+1); v != nil {
			return v
		}
	}
	return nil
}

// mapFieldIn finds the first map-valued field with string elements (the alias store) or other elements
// (the import map) in the struct or, depth first, in the structs it embeds or holds.
func mapFieldIn(sv *interp.Struct, elemIsString bool, depth int) (*interp.MapV, string) {
	if sv == nil || sv.Type == nil || depth > 3 {
		return nil, ""
	}
	st, ok := sv.Type.Underlying().(*types.Struct)
	if !ok {
		return nil, ""
	}
	for i := 0; i < st.NumFields(); i++ {
		mt, ok := st.Field(i).Type().Underlying().(*types.Map)
		if !ok {
			continue
		}
		_, isStr := mt.Elem().Underlying().(*types.Basic)
		if isStr != elemIsString {
			continue
		}
		switch mv := sv.Fields[st.Field(i).Name()].(type) {
		case *interp.MapV:
			return mv, st.Field(i).Name()
		case *interp.Struct:
			// a typed wrapper around the map (type importMap struct{ m map[..].. })
			if inner, n := mapFieldIn(mv, elemIsString, depth+1); inner != nil {
				return inner, n
			}
		}
	}
	for i := 0; i < st.NumFields(); i++ {
		var inner *interp.Struct
		switch v := sv.Fields[st.Field(i).Name()].(type) {
		case *interp.Struct:
			inner = v
		case *interp.Ptr:
			inner = v.Elem
		}
		if inner == nil || inner == sv {
			continue
		}
		if mv, n := mapFieldIn(inner, elemIsString, depth+1); mv != nil {
			return mv, n
		}
	}
	return nil, ""
}

func (w *regWorld) addImport(path, name string) (interp.Value, error) {
	fn := w.prog.LookupFunc(load.PkgRegistry, "Registry.AddImport")
	if fn == nil {
		return nil, fmt.Errorf("(*Registry).AddImport not found")
	}
	v, err := w.m.CallFunc(token.NoPos, fn, w.reg, []interp.Value{pkgOpaque(path, name)})
	if err == nil && w.m.Choices.Forked() {
		err = fmt.Errorf("AddImport decides on something the abstract inputs do not fix (%s)", w.m.Choices.Describe())
	}
	return v, err
}

func (w *regWorld) qualifier(p interp.Value) (string, error) {
	fn := w.prog.LookupFunc(load.PkgRegistry, "Package.Qualifier")
	if fn == nil {
		return "", fmt.Errorf("(*Package).Qualifier not found")
	}
	v, err := w.m.CallFunc(token.NoPos, fn, p, nil)
	if err != nil {
		return "", err
	}
	s, ok := v.(*interp.Sym)
	if !ok {
		return "", fmt.Errorf("Qualifier() = %s", interp.Show(v))
	}
	return s.Flat(), nil
}

func mapString(mv *interp.MapV) string {
	var ss []string
	for i, k := range mv.Keys {
		v := interp.Show(mv.Vals[i])
		if s, ok := mv.Vals[i].(*interp.Sym); ok {
			v = s.Flat()
			if v == "" {
				continue // an entry without an alias says the same as no entry
			}
		}
		ks := interp.Show(k)
		if s, ok := k.(*interp.Sym); ok {
			ks = s.Flat()
		}
		ss = append(ss, ks+"→"+v)
	}
	sort.Strings(ss)
	return "{" + strings.Join(ss, ", ") + "}"
}

// importTables: the harvest of source aliases and the registration of imports.
func importTables(c *Ctx) {
	run, prog := c.Run, c.Prog
	pos := "internal/registry/registry.go"
	if fn := prog.LookupFunc(load.PkgRegistry, "Registry.AddImport"); fn != nil {
		pos = prog.Pos(fn.Pos())
	}
	und := func(rule, key string, err error) {
		p := pos
		if u, ok := err.(*interp.ErrUndecided); ok && u.Pos.IsValid() {
			p = prog.Pos(u.Pos)
		}
		run.Undecided(rule, key, p, "the registry cannot be interpreted for this scenario: "+err.Error())
	}
	const dep, dep2, dep3 = "example.test/dep", "example.test/other/dep2", "example.test/third"
	// ---------------- harvest
	{
		specs := []importSpec{
			{"", false, dep}, // no name
			{".", false, "example.test/dot"},
			{"_", false, "example.test/blank"},
			{"ȧ1", true, dep2}, // a proper alias
			{"ȧ2", true, dep3},
			{"ȧ3", true, dep3},                  // the same path again with another alias: the later spec decides
			{"ȧ4", true, "example.test/fourth"}, // an alias, then the same path imported for side effects and without a name:
			{"_", false, "example.test/fourth"}, // the alias is the only usable qualifier the source offers and stays
			{"", false, "example.test/fourth"},
		}
		w, err := newRegWorld(prog, specs, "")
		if err != nil {
			und("G-IMPORT/harvest", "table", err)
		} else {
			aliases, _ := w.mapField(true)
			if aliases == nil {
				run.Undecided("G-IMPORT/harvest", "table", pos, "the registry registry.New builds has no string-to-string map (the store of source aliases)")
			} else {
				got := mapString(aliases)
				wl := []string{dep2 + "→ȧ1", "example.test/fourth→ȧ4", dep3 + "→ȧ3"}
				sort.Strings(wl)
				want := "{" + strings.Join(wl, ", ") + "}"
				run.Check("G-IMPORT/harvest", "table", pos, got == want, fmt.Sprintf("from a source package whose files import %s without a name, two packages as \".\" and \"_\", %s as ȧ1, %s as ȧ2 and later as ȧ3, and a fourth as ȧ4 and later blank and plain, the alias store is %s, want %s: only explicit names that are identifiers are harvested (a dot or blank import in the generated file would not compile or not import), keyed by the unquoted path, the last spec for a path deciding", dep, dep2, dep3, got, want))
			}
		}
	}
	// ---------------- registration
	type step struct{ path, name string }
	scenario := func(key string, specs []importSpec, moqPkg string, steps []step, check func(w *regWorld, rets []interp.Value) (bool, string)) {
		w, err := newRegWorld(prog, specs, moqPkg)
		if err != nil {
			und("G-IMPORT/table", key, err)
			return
		}
		var rets []interp.Value
		for _, s := range steps {
			v, err := w.addImport(s.path, s.name)
			if err != nil {
				und("G-IMPORT/table", key, err)
				return
			}
			rets = append(rets, v)
		}
		ok, msg := check(w, rets)
		run.Check("G-IMPORT/table", key, pos, ok, msg)
	}
	importsOf := func(w *regWorld) *interp.MapV { return w.registered() }
	keys := func(mv *interp.MapV) string {
		var ks []string
		for _, k := range mv.Keys {
			if s, ok := k.(*interp.Sym); ok {
				ks = append(ks, s.Flat())
			} else {
				ks = append(ks, interp.Show(k))
			}
		}
		sort.Strings(ks)
		return strings.Join(ks, ",")
	}
	srcAlias := []importSpec{{"ȧ1", true, dep2}}
	scenario("own-package", srcAlias, "", []step{{rwSrcPath, rwSrcName}}, func(w *regWorld, r []interp.Value) (bool, string) {
		_, isNil := r[0].(interp.NilV)
		return isNil && len(importsOf(w).Keys) == 0, fmt.Sprintf("registering the package the mock is generated into returns %s and leaves the imports %s; want nil and nothing registered", interp.Show(r[0]), keys(importsOf(w)))
	})
	scenario("plain", srcAlias, "", []step{{dep, "dep"}}, func(w *regWorld, r []interp.Value) (bool, string) {
		q, err := w.qualifier(r[0])
		return err == nil && q == "dep" && keys(importsOf(w)) == dep, fmt.Sprintf("registering %s (no alias in the source): qualifier %q (%v), import keys %s; want qualifier \"dep\" under the key %s", dep, q, err, keys(importsOf(w)), dep)
	})
	scenario("source-alias", srcAlias, "", []step{{dep2, "dep2"}}, func(w *regWorld, r []interp.Value) (bool, string) {
		q, err := w.qualifier(r[0])
		return err == nil && q == "ȧ1" && keys(importsOf(w)) == dep2, fmt.Sprintf("registering %s, which the source imports as ȧ1: qualifier %q (%v), keys %s; want the source's alias kept (it conflicts with nothing), under the key %s", dep2, q, err, keys(importsOf(w)), dep2)
	})
	scenario("same-package-twice", srcAlias, "", []step{{dep, "dep"}, {dep, "dep"}}, func(w *regWorld, r []interp.Value) (bool, string) {
		p1, _ := r[0].(*interp.Ptr)
		p2, _ := r[1].(*interp.Ptr)
		return p1 != nil && p2 != nil && p1.Elem == p2.Elem && keys(importsOf(w)) == dep, fmt.Sprintf("registering %s twice yields %s and %s with import keys %s; want the same import both times and one entry", dep, interp.Show(r[0]), interp.Show(r[1]), keys(importsOf(w)))
	})
	scenario("vendored", []importSpec{{"ȧ1", true, dep2}}, "", []step{{"example.test/src/vendor/" + dep2, "dep2"}, {dep2, "dep2"}}, func(w *regWorld, r []interp.Value) (bool, string) {
		p1, _ := r[0].(*interp.Ptr)
		p2, _ := r[1].(*interp.Ptr)
		q := ""
		if p1 != nil {
			q, _ = w.qualifier(p1)
		}
		return p1 != nil && p2 != nil && p1.Elem == p2.Elem && keys(importsOf(w)) == dep2 && q == "ȧ1", fmt.Sprintf("registering %s through a vendor directory and then directly: keys %s, qualifier %q, same import %v; want one import under the canonical path %s carrying the source's alias for that path", dep2, keys(importsOf(w)), q, p1 != nil && p2 != nil && p1.Elem == p2.Elem, dep2)
	})
	distinctQualifiers := func(w *regWorld) (bool, string) {
		seen := map[string]string{}
		var all []string
		mv := importsOf(w)
		ok := true
		for i, v := range mv.Vals {
			q, err := w.qualifier(v)
			k := interp.Show(mv.Keys[i])
			if s, isS := mv.Keys[i].(*interp.Sym); isS {
				k = s.Flat()
			}
			all = append(all, k+" as "+q)
			if err != nil || q == "" || q == "." || q == "_" {
				ok = false
			}
			// a qualifier is written as an import name and in front of every type of the package: it must be
			// an identifier (no keyword, not digit-led) that does not take a predeclared name away from the file
			if err == nil && (!token.IsIdentifier(q) || types.Universe.Lookup(q) != nil) {
				ok = false
				all = append(all, "("+q+" is not usable as a package qualifier)")
			}
			if other, dup := seen[q]; dup {
				ok = false
				all = append(all, "(same qualifier as "+other+")")
			}
			seen[q] = k
		}
		sort.Strings(all)
		return ok, strings.Join(all, "; ")
	}
	scenario("same-name-conflict", nil, "", []step{{"a.test/x/dep", "dep"}, {"b.test/y/dep", "dep"}}, func(w *regWorld, r []interp.Value) (bool, string) {
		ok, all := distinctQualifiers(w)
		return ok && len(importsOf(w).Keys) == 2, "two packages named dep: " + all + "; want two imports with distinct, non-empty qualifiers"
	})
	scenario("source-alias-conflict", []importSpec{{"dep", false, dep3}}, "", []step{{dep, "dep"}, {dep3, "third"}}, func(w *regWorld, r []interp.Value) (bool, string) {
		ok, all := distinctQualifiers(w)
		return ok && len(importsOf(w).Keys) == 2, "a package named dep, then a package the source imports under the alias dep: " + all + "; want distinct qualifiers (the conflict search must not be skipped for imports that carry a source alias)"
	})
	scenario("one-alias-two-packages", []importSpec{{"shared", false, "a.test/x/dep"}, {"shared", false, "b.test/y/dep"}}, "", []step{{"a.test/x/dep", "dep"}, {"b.test/y/dep", "dep"}}, func(w *regWorld, r []interp.Value) (bool, string) {
		ok, all := distinctQualifiers(w)
		p1, _ := r[0].(*interp.Ptr)
		p2, _ := r[1].(*interp.Ptr)
		return ok && len(importsOf(w).Keys) == 2 && p1 != nil && p2 != nil && p1.Elem != p2.Elem, "two packages named dep that two source files import under the same alias `shared` (import names are file scoped): " + all + "; want two imports with distinct qualifiers — one entry for both would print the types of one package with the other's qualifier"
	})
	scenario("three-way-conflict", nil, "", []step{{"a.test/x/dep", "dep"}, {"b.test/y/dep", "dep"}, {"c.test/x/dep", "dep"}}, func(w *regWorld, r []interp.Value) (bool, string) {
		ok, all := distinctQualifiers(w)
		return ok && len(importsOf(w).Keys) == 3, "three packages named dep: " + all + "; want three imports with pairwise distinct qualifiers"
	})
	// conflicts whose resolution meets a name that is held inside the pair or by the import being added
	// (witnesses found in round 6 with the real binary on scratch modules, DESIGN §6 D15/D16)
	scenario("alias-held-by-partner", []importSpec{{"xfoo", false, "example.com/m/yfoo/x/foo"}}, "", []step{{"example.com/m/yfoo/x/foo", "foo"}, {"example.com/m/yfoo/q/foo", "foo"}, {"example.com/m/y/xfoo", "xfoo"}}, func(w *regWorld, r []interp.Value) (bool, string) {
		ok, all := distinctQualifiers(w)
		return ok && len(importsOf(w).Keys) == 3, "a package the source imports as xfoo, a second package of its name, then a package named xfoo: " + all + "; want three imports with pairwise distinct qualifiers (a name taken from the other package of a conflicting pair is only free once that package has really been renamed)"
	})
	scenario("alias-held-by-partner-2", []importSpec{{"xfoo", false, "example.com/m/x/foo"}}, "", []step{{"example.com/m/x/xyfoo", "foo"}, {"example.com/m/x/foo", "sync"}, {"example.com/m/y/foo-bar/xfoo", "xfoo"}}, func(w *regWorld, r []interp.Value) (bool, string) {
		ok, all := distinctQualifiers(w)
		return ok && len(importsOf(w).Keys) == 3, "a package named foo, a package the source imports as xfoo whose path ends in foo, then a package named xfoo: " + all + "; want three imports with pairwise distinct qualifiers"
	})
	scenario("name-given-to-the-new-import", nil, "", []step{{"example.com/m/foo-bar", "sync"}, {"example.com/m/xfoo/foo_bar", "foobar"}, {"example.com/m/sync", "foo"}, {"example.com/m/foobar", "foo"}}, func(w *regWorld, r []interp.Value) (bool, string) {
		ok, all := distinctQualifiers(w)
		return ok && len(importsOf(w).Keys) == 4, "packages m/foo-bar (named sync), m/xfoo/foo_bar (foobar), m/sync (foo), then m/foobar (foo): " + all + "; want four imports with pairwise distinct qualifiers (while the conflicts of a new import are being resolved it is not yet among the imports the search sees, so a name just given to it can be given again)"
	})
	scenario("numbered-then-a-third", nil, "", []step{{"example.com/app/go-kit", "kit"}, {"example.com/app/kit", "kit"}, {"example.com/other/kit", "kit"}}, func(w *regWorld, r []interp.Value) (bool, string) {
		ok, all := distinctQualifiers(w)
		return ok && len(importsOf(w).Keys) == 3, "two packages whose whole paths sanitise to the same name (the second is numbered, the first keeps its name), then a third package of that name: " + all + "; want three imports with pairwise distinct qualifiers (the one that kept its name must still be seen as holding it)"
	})
	scenario("numbered-name-already-held", []importSpec{{"dmfoobar2", false, "dm/other"}}, "", []step{{"dm/other", "other"}, {"dm/foo-bar", "foobar"}, {"dm/foobar", "foobar"}}, func(w *regWorld, r []interp.Value) (bool, string) {
		ok, all := distinctQualifiers(w)
		return ok && len(importsOf(w).Keys) == 3, "a package the source imports as dmfoobar2, then two packages whose whole paths sanitise to dmfoobar: " + all + "; want three imports with pairwise distinct qualifiers (a number is given only after the numbered name was searched for and found free)"
	})
	// names made from path components are import aliases: identifiers, and no predeclared names (D18)
	scenario("alias-from-a-digit-led-directory", nil, "", []step{{"example.com/m/x/2ka", "ka"}, {"example.com/m/x/3ka", "ka"}}, func(w *regWorld, r []interp.Value) (bool, string) {
		ok, all := distinctQualifiers(w)
		return ok && len(importsOf(w).Keys) == 2, "two packages named ka in directories 2ka and 3ka: " + all + "; want two distinct qualifiers that are Go identifiers (a directory name can start with a digit, an import name cannot)"
	})
	scenario("alias-from-a-directory-named-like-a-keyword", nil, "", []step{{"example.com/m/a/func", "kn"}, {"example.com/m/b/sub", "kn"}}, func(w *regWorld, r []interp.Value) (bool, string) {
		ok, all := distinctQualifiers(w)
		return ok && len(importsOf(w).Keys) == 2, "two packages named kn in directories func and sub: " + all + "; want two distinct qualifiers, none a keyword"
	})
	scenario("alias-from-a-directory-named-like-a-predeclared-type", nil, "", []step{{"example.com/m/a/string", "kn"}, {"example.com/m/b/sub", "kn"}}, func(w *regWorld, r []interp.Value) (bool, string) {
		ok, all := distinctQualifiers(w)
		return ok && len(importsOf(w).Keys) == 2, "two packages named kn in directories string and sub: " + all + "; want two distinct qualifiers, none a predeclared identifier (an import named string makes every `string` of the file a package name)"
	})
	searchLiveTable(c)
	run.Floor("G-IMPORT/table", 13)
}

// searchLiveTable: the qualifier search sees an import under the qualifier it has now.
func searchLiveTable(c *Ctx) {
	run, prog := c.Run, c.Prog
	pos := "internal/registry/registry.go"
	if fn := prog.LookupFunc(load.PkgRegistry, "Registry.AddImport"); fn != nil {
		pos = prog.Pos(fn.Pos())
	}
	und := func(rule, key string, err error) {
		p := pos
		if u, ok := err.(*interp.ErrUndecided); ok && u.Pos.IsValid() {
			p = prog.Pos(u.Pos)
		}
		run.Undecided(rule, key, p, "the registry cannot be interpreted for this scenario: "+err.Error())
	}
	// the qualifier search is live: it sees an import under the qualifier it has now. Observed through the
	// exported API only (a registry may keep an index by qualifier, as long as it keeps it current): two
	// packages named dep are registered, which renames both; then
	// (1) a package named like the new qualifier of the first must end up distinct from it, and
	// (2) a package that the source imports under the alias dep — a name nobody holds any more — keeps that alias.
	world := func(specs []importSpec) (*regWorld, string, interp.Value, error) {
		w, err := newRegWorld(prog, specs, "")
		if err != nil {
			return nil, "", nil, err
		}
		a, err := w.addImport("a.test/x/dep", "dep")
		if err != nil {
			return nil, "", nil, err
		}
		if _, err = w.addImport("b.test/y/dep", "dep"); err != nil {
			return nil, "", nil, err
		}
		qa, err := w.qualifier(a)
		return w, qa, a, err
	}
	w1, qa, a1, err := world(nil)
	var q1, qa1 string
	if err == nil && (qa == "dep" || qa == "") {
		err = fmt.Errorf("two packages named dep leave the first one qualified %q", qa)
	}
	if err == nil {
		var v interp.Value
		if v, err = w1.addImport("z.test/"+qa, qa); err == nil {
			if q1, err = w1.qualifier(v); err == nil {
				qa1, err = w1.qualifier(a1)
			}
		}
	}
	var q2 string
	if err == nil {
		var w2 *regWorld
		if w2, _, _, err = world([]importSpec{{"dep", false, "c.test/w/other"}}); err == nil {
			var v interp.Value
			if v, err = w2.addImport("c.test/w/other", "other"); err == nil {
				q2, err = w2.qualifier(v)
			}
		}
	}
	if err != nil {
		und("G-IMPORT/search-live", "table", err)
		return
	}
	f1, f2 := q1 != qa1 && q1 != "" && qa1 != "", q2 == "dep"
	run.Check("G-IMPORT/search-live", "table", pos, f1 && f2, fmt.Sprintf("two packages named dep were registered and the first is now qualified %q: a new package named %s ends up as %q next to %q (want distinct), and a package the source imports as dep — a name nobody holds any more — is qualified %q (want dep): conflict resolution renames imports after they were registered, so the search must see current qualifiers, not what was true at registration", qa, qa, q1, qa1, q2))
}

// registered: what is registered, by canonical path — the registry's map to *Package when it has one,
// otherwise what the exported API reports (Imports, Package.Path): a registry may keep its imports in a slice.
func (w *regWorld) registered() *interp.MapV {
	if mv, _ := w.mapField(false); mv != nil {
		return mv
	}
	out := &interp.MapV{}
	v, err := w.m.CallMethod(token.NoPos, w.reg, "Imports", nil)
	if err != nil {
		return out
	}
	if l, ok := v.(*interp.List); ok {
		for _, p := range l.Elems {
			pv, err := w.m.CallMethod(token.NoPos, p, "Path", nil)
			if err != nil {
				continue
			}
			out.Keys = append(out.Keys, pv)
			out.Vals = append(out.Vals, p)
		}
	}
	return out
}

// registeredPaths: the import paths the registry reports through its exported API (Imports, Package.Path);
// quals, when not nil, receives the current qualifier of each.
func (w *regWorld) registeredPaths(quals map[string]string) ([]string, error) {
	v, err := w.m.CallMethod(token.NoPos, w.reg, "Imports", nil)
	if err != nil {
		return nil, err
	}
	var out []string
	switch l := v.(type) {
	case *interp.List:
		for _, p := range l.Elems {
			pv, err := w.m.CallMethod(token.NoPos, p, "Path", nil)
			if err != nil {
				return nil, err
			}
			ps, ok := pv.(*interp.Sym)
			if !ok {
				return nil, fmt.Errorf("Package.Path returned %s", interp.Show(pv))
			}
			out = append(out, ps.Flat())
			if quals != nil {
				q, err := w.qualifier(p)
				if err != nil {
					return nil, err
				}
				quals[ps.Flat()] = q
			}
		}
	case interp.NilV:
	default:
		return nil, fmt.Errorf("Registry.Imports returned %s", interp.Show(v))
	}
	return out, nil
}
